/-
C16 — "a TLS client offering acme-tls/1 receives a self-signed, currently valid certificate whose
only subjectAltName is the A-label dNSName of the domain and which carries the critical
acmeIdentifier extension holding exactly that digest, with acme-tls/1 negotiated. A client that
offers only other protocols is refused."
Theorems about `Model/Tacd.lean`. (`ext_bytes_exact` is composed elsewhere from `parseDerConf`.)
-/
import AcmedVerif.Model.Tacd
import AcmedVerif.Lemmas.Tacd
import AcmedVerif.Lemmas.Idna
import AcmedVerif.Spec.C16

namespace AcmedVerif.Props.C16
open AcmedVerif.Idna AcmedVerif.Tacd

/-- **`alpn_selected_iff_offered`.** For EVERY byte string handed to the callback as client
protocol list, well formed or not:
* the answer is either `acme-tls/1` or a refusal (`ALERT_FATAL`), never anything else;
* it is `acme-tls/1` iff the list STARTS with a well-formed non-empty element (OpenSSL's first
  check, `ssl_lib.c:3545-3551`) and `acme-tls/1` is among the elements of its well-formed prefix
  (`parsePrefix`: the walk by length prefixes stops silently at the first truncated element;
  bytes after that point are ignored; an empty element in the middle is skipped over).
So a malformed list is refused unless its well-formed prefix already offers `acme-tls/1` and does
not begin with an empty name. (Such lists never reach the callback in a real handshake: see
`malformed_never_negotiates`.) -/
theorem alpn_selected_iff_offered (client : List UInt8) :
    (alpnSelect client = some acmeProto ∨ alpnSelect client = none) ∧
    (alpnSelect client = some acmeProto ↔
      (∃ first, firstProto client = some first ∧ first ≠ []) ∧
        acmeProto ∈ parsePrefix client) :=
  ⟨alpnSelect_none_or client, alpnSelect_some_iff client⟩

/-- For a list of protocol names that fits the wire format (every name 1..255 bytes): negotiated
iff offered, refused otherwise. The empty list is refused. -/
theorem alpn_names (names : List (List UInt8)) (h : NamesOk names) :
    (alpnSelect (encodeProtos names) = some acmeProto ↔ acmeProto ∈ names) ∧
    (acmeProto ∉ names → alpnSelect (encodeProtos names) = none) := by
  have hiff : alpnSelect (encodeProtos names) = some acmeProto ↔ acmeProto ∈ names := by
    rw [alpnSelect_some_iff, parsePrefix_encode names h]
    constructor
    · exact fun h' => h'.2
    · intro hm
      refine ⟨?_, hm⟩
      unfold firstProto
      rw [parsePrefix_encode names h]
      cases names with
      | nil => simp at hm
      | cons p ps =>
        refine ⟨p, rfl, ?_⟩
        intro e
        have := (h p List.mem_cons_self).1
        rw [e] at this
        simp at this
  refine ⟨hiff, fun hn => ?_⟩
  rcases alpnSelect_none_or (encodeProtos names) with h' | h'
  · exact absurd (hiff.1 h') hn
  · exact h'

/-- The whole server-side ALPN treatment of a ClientHello: a well-formed offer containing
`acme-tls/1` negotiates it, a well-formed offer without it gets the fatal alert. -/
theorem alpn_outcome_names (names : List (List UInt8)) (h : NamesOk names) (hne : names ≠ []) :
    alpnOutcome (some (encodeProtos names)) =
      if acmeProto ∈ names then .negotiated acmeProto else .fatalNoApplicationProtocol := by
  simp only [alpnOutcome, wireValid_encode names h hne, if_true]
  by_cases hm : acmeProto ∈ names
  · rw [(alpn_names names h).1.2 hm, if_pos hm]
  · rw [(alpn_names names h).2 hm, if_neg hm]

/-- A ClientHello whose ALPN extension is malformed is never answered with a negotiated protocol
(it is refused with `decode_error` before the callback); one without ALPN extension goes on with
no protocol negotiated. -/
theorem malformed_never_negotiates (client : List UInt8) (h : wireValid client = false) :
    alpnOutcome (some client) = .fatalDecodeError ∧ alpnOutcome none = .noExtension := by
  simp [alpnOutcome, h]

/-- Examples of the boundary cases of `SSL_select_next_proto` (bytes as the callback would see
them): trailing garbage after a valid offer is ignored; a leading empty name hides a later
`acme-tls/1`; garbage in front hides it as well; an empty list is refused. -/
example :
    alpnSelect (encodeProtos [[104, 50], acmeProto] ++ [200, 1]) = some acmeProto ∧
    alpnSelect (0 :: encodeProtos [acmeProto]) = none ∧
    alpnSelect ([200, 1] ++ encodeProtos [acmeProto]) = none ∧
    alpnSelect [] = none ∧
    alpnSelect (encodeProtos [[104, 50], [104, 116, 116, 112, 47, 49, 46, 49]]) = none := by
  refine ⟨by decide +kernel, by decide +kernel, by decide +kernel, by decide +kernel,
    by decide +kernel⟩

/-- **`inputs_equivalent`.** What holds exactly:
* a value given by FLAG is used as is (NOT trimmed);
* a FILE gives `trim` of its whole content (interior line breaks are kept);
* STDIN gives `trim` of its first line only.
Hence, for a value `v` that is already trimmed and has no line feed inside, the three sources
yield `v`: the file may carry any white space (line feeds included) before and after, stdin any
white space other than a line feed before, any white space after, and anything at all after the
first line feed. -/
theorem inputs_equivalent (v pre post pre' post' rest : List Char)
    (hv : Trimmed v) (hnl : '\n' ∉ v)
    (hpre : AllWs pre) (hpost : AllWs post)
    (hpre' : AllWs pre') (hpre'nl : '\n' ∉ pre') (hpost' : AllWs post') (hpost'nl : '\n' ∉ post') :
    sourceValue (.flag v) = v ∧
    sourceValue (.file (pre ++ v ++ post)) = v ∧
    sourceValue (.stdin (pre' ++ v ++ post')) = v ∧
    sourceValue (.stdin (pre' ++ v ++ post' ++ '\n' :: rest)) = v := by
  refine ⟨rfl, trim_eq pre v post hpre hpost hv, ?_, ?_⟩
  · simp only [sourceValue]
    rw [firstLine_of_no_nl]
    · exact trim_eq pre' v post' hpre' hpost' hv
    · intro hm
      rcases List.mem_append.1 hm with hm | hm
      · rcases List.mem_append.1 hm with hm | hm
        · exact hpre'nl hm
        · exact hnl hm
      · exact hpost'nl hm
  · simp only [sourceValue]
    rw [firstLine_append]
    · have : firstLine ('\n' :: rest) = ['\n'] := by simp [firstLine]
      rw [this, List.append_assoc]
      refine trim_eq pre' v (post' ++ ['\n']) hpre' ?_ hv
      intro c hc
      rcases List.mem_append.1 hc with hc | hc
      · exact hpost' c hc
      · simp only [List.mem_singleton] at hc
        subst hc; decide
    · intro hm
      rcases List.mem_append.1 hm with hm | hm
      · rcases List.mem_append.1 hm with hm | hm
        · exact hpre'nl hm
        · exact hnl hm
      · exact hpost'nl hm

/-- The sources are NOT equivalent beyond that: the flag value keeps surrounding white space
(`--domain " example.org"` is used with the blank, the same text in a file is trimmed), and a
two-line file keeps its line break where stdin stops at it. -/
theorem inputs_not_equivalent_in_general :
    sourceValue (.flag " a".toList) ≠ sourceValue (.file " a".toList) ∧
    sourceValue (.file "a\nb".toList) = "a\nb".toList ∧
    sourceValue (.stdin "a\nb".toList) = "a".toList := by
  refine ⟨by decide +kernel, by decide +kernel, by decide +kernel⟩

/-- Hypotheses of `inputs_equivalent` are satisfiable. -/
example : Trimmed "example.org".toList ∧ '\n' ∉ "example.org".toList ∧ AllWs " \t\n".toList := by
  refine ⟨⟨?_, ?_⟩, by decide +kernel, ?_⟩
  · intro c hc; simp at hc; subst hc; decide
  · intro c hc
    have : "example.org".toList.getLast? = some 'g' := by decide +kernel
    rw [this] at hc; simp at hc; subst hc; decide
  · intro c hc
    have : " \t\n".toList = [' ', '\t', '\n'] := by decide +kernel
    rw [this] at hc
    simp at hc
    rcases hc with rfl | rfl | rfl <;> decide

/-- **`san_is_alabel`.** For every domain source and extension source with which `init` gets as
far as building the certificate: the only subjectAltName handed to the certificate builder is
`to_idna` of the (source-dependent, see above) domain value — with the shape proved in
`Props/C01Ident.idna_label_shape`: ASCII, lower-case, `xn--` labels for non-ASCII ones. -/
theorem san_is_alabel (lowerStr : List Char → List Char) (p : Profile) (domain ext : Source)
    (spec : CertSpec) (h : certSpec lowerStr p domain ext = .ok spec) :
    toIdnaStr lowerStr p (sourceValue domain) = .ok spec.sanDns ∧
    spec.ext = splitExt (sourceValue ext) ∧ spec.ext ≠ .invalid ∧
    spec.selfSigned = true ∧ spec.validityDays = 7 := by
  unfold certSpec at h
  split at h
  · rename_i d hd
    split at h
    · exact absurd h (by simp)
    · rename_i e he
      simp only [InitRes.ok.injEq] at h
      subst h
      exact ⟨hd, rfl, fun e' => he e', rfl, rfl⟩
  · exact absurd h (by simp)
  · exact absurd h (by simp)

/-- **`split_ext_exact`.** For every extension text: it is accepted as `name=value` iff it contains
exactly one `=`; then `name` and `value` are the two sides. The empty text is accepted too and
means NO extension; everything else is "invalid acmeIdentifier extension". -/
theorem split_ext_exact (s : List Char) :
    (∀ name value, splitExt s = .ok name value ↔
      s = name ++ '=' :: value ∧ '=' ∉ name ∧ '=' ∉ value) ∧
    ((∃ name value, splitExt s = .ok name value) ↔ s.count '=' = 1) ∧
    (splitExt s = .noExt ↔ s = []) ∧
    (splitExt s = .invalid ↔ s ≠ [] ∧ s.count '=' ≠ 1) := by
  have hno : splitExt s = .noExt ↔ s = [] := by
    unfold splitExt
    cases s with
    | nil => simp
    | cons c cs =>
      simp only [List.isEmpty_cons, Bool.false_eq_true, if_false]
      constructor
      · intro h; split at h <;> exact absurd h (by simp)
      · intro h; exact absurd h (by simp)
  refine ⟨fun n v => splitExt_ok_iff s n v, splitExt_ok_iff_count s, hno, ?_⟩
  constructor
  · intro h
    refine ⟨fun e => ?_, fun hc => ?_⟩
    · rw [hno.2 e] at h; exact absurd h (by simp)
    · obtain ⟨n, v, h'⟩ := (splitExt_ok_iff_count s).2 hc
      rw [h'] at h; exact absurd h (by simp)
  · rintro ⟨hne, hc⟩
    cases hs : splitExt s with
    | noExt => exact absurd (hno.1 hs) hne
    | ok n v => exact absurd ((splitExt_ok_iff_count s).1 ⟨n, v, hs⟩) hc
    | invalid => rfl

/-- The text `acmed` renders for tls-alpn-01 splits as intended (prefix of a real value). -/
example : splitExt "1.3.6.1.5.5.7.1.31=critical,DER:04:20:ab".toList =
    .ok "1.3.6.1.5.5.7.1.31".toList "critical,DER:04:20:ab".toList := by decide +kernel

/-! ## The judge on sample observations -/

def sampleDigest : List UInt8 := List.replicate 32 0xAB

def goodCert : Spec.C16.CertObs :=
  { dnsSans := ["xn--bcher-kva.example".toList], ipSanCount := 0, acmeExtPresent := true,
    acmeCritical := true, acmeValue := 0x04 :: 0x20 :: sampleDigest, selfSigned := true,
    notBeforeOk := true, notAfterOk := true }

def rawDomain : List Char := ['B', Char.ofNat 0xFC, 'c', 'h', 'e', 'r'] ++ ".Example\n".toList

/-- The model's constant and the judge's independent constant are the same protocol name, and it
is what RFC 8737 section 6.2 registers. -/
example : acmeProto = Spec.C16.acme ∧ acmeProto = "acme-tls/1".toList.map (fun c => UInt8.ofNat c.toNat) := by
  refine ⟨by decide +kernel, by decide +kernel⟩

/-- Accepted: the A-label SAN, critical extension with `04 20 ‖ digest`, acme-tls/1 negotiated;
a client offering only `h2` that was refused; a client without ALPN (no demand).
Rejected: the raw (non-IDNA) domain as SAN, a non-critical extension, a missing length prefix in
the extension value, no negotiated protocol, an extra IP SAN, a served `h2`-only client. -/
example :
    let alabel := "xn--bcher-kva.example".toList
    let ok : Spec.C16.Obs := { handshakeOk := true, negotiated := some Spec.C16.acme, cert := some goodCert }
    Spec.C16.holds rawDomain alabel sampleDigest [[104, 50], Spec.C16.acme] ok = true ∧
    Spec.C16.holds rawDomain alabel sampleDigest [[104, 50]]
      { handshakeOk := false, negotiated := none, cert := none } = true ∧
    Spec.C16.holds rawDomain alabel sampleDigest [] ok = true ∧
    Spec.C16.holds rawDomain alabel sampleDigest [Spec.C16.acme]
      { ok with cert := some { goodCert with dnsSans := [rawDomain] } } = false ∧
    Spec.C16.holds rawDomain alabel sampleDigest [Spec.C16.acme]
      { ok with cert := some { goodCert with acmeCritical := false } } = false ∧
    Spec.C16.holds rawDomain alabel sampleDigest [Spec.C16.acme]
      { ok with cert := some { goodCert with acmeValue := sampleDigest } } = false ∧
    Spec.C16.holds rawDomain alabel sampleDigest [Spec.C16.acme] { ok with negotiated := none } = false ∧
    Spec.C16.holds rawDomain alabel sampleDigest [Spec.C16.acme]
      { ok with cert := some { goodCert with ipSanCount := 1 } } = false ∧
    Spec.C16.holds rawDomain alabel sampleDigest [[104, 50]] ok = false := by
  refine ⟨by decide +kernel, by decide +kernel, by decide +kernel, by decide +kernel,
    by decide +kernel, by decide +kernel, by decide +kernel, by decide +kernel, by decide +kernel⟩

end AcmedVerif.Props.C16
