/-
C09 / C04 — redirections.

Before commit 1dd071b the HTTP library followed redirections INSIDE one `.send()`: after the single
pass through the limiter, one request per redirection of the chain went out unlimited (C09), and a
307 / 308 answer to a POST made the library send the same signed body — same nonce, protected `url`
of the old location — to the new location (C04).  The models then equated one `.send()` with one
request, which the translator did not check.  Now:

* `one_send_is_one_request`, `every_send_has_its_own_admission`, `senders_only_in_http_layer` tie
  that equation to the CURRENT source (`Gen/Senders.lean`, regenerated on every run): the client is
  built in one place, with the no-redirect policy; every `.send()` of `acmed/src` sits in `http.rs`
  and has its own unconditional `rate_limit(endpoint).await` before it in the loop body it is in;
* `redirects_are_limited`, `every_run_passes_judge`: in the model of the repaired code (`get` follows
  redirections itself, `Model/Http.lean` `getLoop`) every request of a redirect chain has its own
  admission, so the requests of ANY run — any script, any redirections — pass `Spec.C09.holds`;
* `redirect_chain_bounded`, `endless_chain_ends`: a `get` sends at most `DEFAULT_HTTP_MAX_REDIRECT`
  requests and an endless chain ends with an error;
* `post_never_resent`, `post_round_one_request`, `post_pairs_delivered_once`: `post` puts one
  request per round on the wire whatever the answer, always to the call's URL; no nonce is carried
  twice;
* `old_redirects_exceed_limit`, `old_post_resent_same_nonce`: the behaviour before the repair
  (`Model/HttpRedirOld.lean`) fails both.
-/
import AcmedVerif.Lemmas.HttpRedirect
import AcmedVerif.Props.C08
import AcmedVerif.Props.C09Judge
import AcmedVerif.Spec.C04
import AcmedVerif.Gen.Senders
import AcmedVerif.Gen.Consts

namespace AcmedVerif.Props.C09Redirect
open AcmedVerif.Http
open AcmedVerif.HttpRedirect
open AcmedVerif.HttpRedirOld
open AcmedVerif.Judge09

/-! ## The tie to the source -/

/-- **One `.send()` is one request.**  The client every sending function uses comes from
`get_client`, the only place of `acmed/src` where a client is built, and `get_client` sets
`.redirect(Policy::none())`: the library never sends a second request by itself.  (`false` when the
call is missing — the code before 1dd071b.) -/
theorem one_send_is_one_request :
    Gen.clientFollowsRedirects = false ∧
    Gen.clientBuilders = ["http::get_client"] ∧
    Gen.sendingFns.all (fun f => Gen.clientOf.lookup f == some true) = true := by decide

/-- **Every `.send()` has its own pass through the limiter**, on every loop iteration: in the
innermost loop body (or function body) that contains it, an unconditional
`rate_limit(endpoint).await` stands between the previous `.send()` (or the top of the body) and it.
The sites are exactly the sending functions of `Props/C09Serial`. -/
theorem every_send_has_its_own_admission :
    Gen.sendSites ≠ [] ∧
    Gen.sendSites.all (fun s => s.2.1) = true ∧
    (Gen.sendSites.map (·.1)).all (fun f => Gen.sendingFns.contains f) = true ∧
    Gen.sendingFns.all (fun f => (Gen.sendSites.map (·.1)).contains f) = true := by decide

/-- No other file of `acmed/src` sends a request or builds a client. -/
theorem senders_only_in_http_layer : Gen.senderFiles = ["http.rs"] := by decide

/-- `get` can make a request at all. -/
theorem redirect_bound_positive : 0 < Gen.DEFAULT_HTTP_MAX_REDIRECT := by decide

/-! ## (a) every request of a redirect chain is limited -/

/-- In the trace of `get` — for every script, i.e. whatever redirections the server answers, every
start URL, every bound — every request is immediately preceded by its own pass through the
limiter. -/
theorem redirects_are_limited (fuel u : Nat) (st : State) (pre suf : List Ev) (e : Ev)
    (he : e.isSend = true) (h : (getLoop fuel u st).evs = pre ++ e :: suf) :
    ∃ pre', pre = pre' ++ [.admit] := by
  have hl := (getLoop_good .take fuel u st).lim
  rcases limitedAux_spec _ false hl pre suf e he h with ⟨-, hp⟩ | h'
  · cases hp
  · exact h'

/-- The same for any sequence of `get` / `post` / poll calls (`Props/C08` `every_path_limited`,
which now speaks about the loop of `get` as well): the stamps of the requests are distinct
admissions of the limiter, in order. -/
theorem send_instants_are_admissions (K N : Nat) (mode : NonceMode) (st : State) (calls : List Call)
    (as : List Nat) :
    (sendInstants as (runCalls K N mode st calls).2.2).Sublist as :=
  sendInstants_sublist as _ (C08.every_path_limited_bool K N mode st calls)

/-- **Every run passes the judge.**  For every limit set with the longest period first, every run of
the limiter (any number of passes, any monotone clock readings) and every sequence of calls on the
endpoint with any server script — any redirections, retries, polls, nonce fetches: ANY observation
`ev` that brackets the admission instants under which the requests went out is accepted by
`Spec.C09.holds`.  (`window_safe` speaks about all admissions; the requests are a sublist.) -/
theorem every_run_passes_judge (limits : List Limiter.Limit) (hm : Limiter.HeadMax limits)
    (rs : List Limiter.Readings) (hwf : Limiter.wfReadings limits.length rs)
    (hmono : Limiter.monoFrom 0 (Limiter.flatReadings rs))
    (K N : Nat) (mode : NonceMode) (st : State) (calls : List Call)
    (ev : List (Nat × Nat))
    (hb : Brackets ev
      (sendInstants (Limiter.run (Limiter.init limits) rs).hist (runCalls K N mode st calls).2.2)) :
    Spec.C09.holds limits ev = true := by
  have hsub := send_instants_are_admissions K N mode st calls
    (Limiter.run (Limiter.init limits) rs).hist
  apply C09Judge.holds_of_window limits ev _ hb
  · exact sorted_sublist hsub (C09Judge.hist_sorted limits rs hmono)
  · intro lim hl t
    exact Nat.le_trans (inWindow_sublist hsub lim.period t)
      (C09.window_safe limits hm rs hwf hmono lim hl t)

/-! ## (b) the chain is bounded -/

/-- A `get` puts at most `DEFAULT_HTTP_MAX_REDIRECT` requests on the wire, whatever the server
answers; each consumed answer answered one of them. -/
theorem redirect_chain_bounded (st : State) (clientOk : Bool) (u : Nat) :
    sends (get st clientOk u).evs ≤ Gen.DEFAULT_HTTP_MAX_REDIRECT ∧
    (recvd (get st clientOk u).evs).length ≤ sends (get st clientOk u).evs := by
  cases clientOk
  · simp [Http.get]
  · rw [get_true]
    exact ⟨getLoop_sends_le _ _ _, getLoop_recvd_le _ _ _⟩

/-- For every bound: at most `fuel` requests. -/
theorem redirect_chain_bounded_gen (fuel u : Nat) (st : State) :
    sends (getLoop fuel u st).evs ≤ fuel := getLoop_sends_le fuel u st

/-- A server that redirects for ever: after exactly `fuel` requests the call ends with the error
"too many redirections" — it does not go on. -/
theorem endless_chain_ends (fuel : Nat) :
    ∀ (u : Nat) (st : State),
      (∀ a ∈ st.script.take fuel,
        a.delivered = true ∧ a.nonce ≠ .invalid ∧ ∃ u' k, a.redir = .to u' k) →
      fuel ≤ st.script.length →
      (getLoop fuel u st).res = .err .tooManyRedirects ∧ sends (getLoop fuel u st).evs = fuel := by
  induction fuel with
  | zero => intro u st _ _; simp [getLoop]
  | succ fuel ih =>
    intro u st hall hlen
    cases hs : st.script with
    | nil => rw [hs] at hlen; simp at hlen
    | cons a rest =>
      rw [hs] at hall hlen
      simp only [List.take_succ_cons, List.mem_cons, forall_eq_or_imp] at hall
      obtain ⟨⟨hd, hn, u1, k1, hr⟩, hrest⟩ := hall
      rcases getLoop_cons fuel u st a rest hs with ⟨u', k, -, -, -, he⟩ | ⟨hno, -⟩
      · have := ih u' ⟨a.issued.or st.nonce, rest, st.nonceUrl⟩ hrest
          (by simp only [List.length_cons] at hlen; simpa using Nat.le_of_succ_le_succ hlen)
        rw [he]
        simp only [sends_append, sends_admit, sends_getSend, sends_recvGet, sends_nil]
        exact ⟨this.1, by omega⟩
      · rcases hno with h | h | h
        · rw [hd] at h; cases h
        · exact absurd h hn
        · exact absurd hr (h u1 k1)

/-! ## (c) a POST is never sent again by anybody but the retry loop -/

/-- One round of `post` puts at most one request on the wire and reads at most one answer — for
EVERY answer, a 301 / 302 / 303 / 307 / 308 included (`Answer.redir` is not looked at). -/
theorem post_round_one_request (mode : NonceMode) (builderOk : Bool) (url i : Nat) (st : State) :
    sends (transmit mode builderOk url i st).2.2 ≤ 1 ∧
    (recvd (transmit mode builderOk url i st).2.2).length ≤
      sends (transmit mode builderOk url i st).2.2 :=
  transmit_sends_le_one mode builderOk url i st

/-- To `post` a redirection is an error answer: never a success … -/
theorem redirect_is_no_success (a : Answer) (h3 : a.ok2xx = false) : a.verdict ≠ .success := by
  intro h
  have := (C08.verdict_success_iff a).mp h
  rw [h3] at this
  exact absurd this.2.1 (by decide)

/-- … and the verdict does not depend on the `Location` at all. -/
theorem verdict_ignores_location (a : Answer) (r : Redir) :
    ({ a with redir := r } : Answer).verdict = a.verdict := rfl

/-- **Never re-sent.**  All POST transmissions of one call go to the call's URL — none to a
`Location` —, each is preceded by its own pass through the limiter, and no answer is consumed
without a transmission of its own. -/
theorem post_never_resent (N : Nat) (mode : NonceMode) (st : State) (clientOk builderOk : Bool)
    (url : Nat) :
    (∀ p ∈ posts (post N mode st clientOk builderOk url).evs, p.url = url) ∧
    limited (post N mode st clientOk builderOk url).evs = true ∧
    (postAnswers (post N mode st clientOk builderOk url).evs).length ≤
      (posts (post N mode st clientOk builderOk url).evs).length := by
  refine ⟨(C08.retry_identical_but_nonce N mode st clientOk builderOk url).1,
    (post_good N mode st clientOk builderOk url).lim, ?_⟩
  cases clientOk
  · simp [post_clientFail]
  · exact (post_run N mode st builderOk url).answers_le

/-- **A nonce / body pair is delivered at most once** (the nonce clause of C04, `Props/C08`
`nonce_fresh`, on the model with redirections): when the server never issues the same nonce twice,
then over ANY sequence of calls and ANY script — redirect answers to GETs and POSTs included — no
two POST transmissions carry the same nonce, each carries one, and it was issued before. -/
theorem post_pairs_delivered_once (K N : Nat) (st : State) (calls : List Call)
    (hd : (st.nonce.toList ++ st.script.filterMap Answer.issued).Nodup) :
    (postNonces (runCalls K N .take st calls).2.2).Nodup ∧
    (∀ p ∈ posts (runCalls K N .take st calls).2.2, p.nonce ≠ none) ∧
    ∀ pre suf u n r, (runCalls K N .take st calls).2.2 = pre ++ .postSend u n r :: suf →
      ∃ m, n = some m ∧ m ∈ st.nonce.toList ++ issuedBy pre :=
  C08.nonce_fresh K N st calls hd

/-! ## (d) the behaviour before the repair -/

private def rd (n : NonceHdr) (u : Nat) (keep : Bool) : Answer :=
  ⟨true, false, n, .notJson, .to u keep⟩
private def ok200 (n : NonceHdr) (p : Nat) : Answer := ⟨true, true, n, .payload p, .no⟩

/-- The directory answers 302 twice, then 200. -/
def exChain : State := ⟨none, [rd .absent 1 false, rd .absent 2 false, ok200 (.valid 7) 0], 9⟩

/-- **Before the repair the limit was exceeded.**  Limit 1 per window of any length `p > 0`; the
limiter admits the call at `t`.  The library follows the two redirections inside the one `.send()`:
three requests go out under the one admission, and the exact judge rejects.  (Observed on the real
code: 6 GETs within 15 ms under "1 per 6 s".) -/
theorem old_redirects_exceed_limit (p t : Nat) (hp : 0 < p) (later : List Nat) :
    limited (getOld exChain true 0).evs = false ∧
    sends (getOld exChain true 0).evs = 3 ∧
    sendInstants (t :: later) (getOld exChain true 0).evs = [t, t, t] ∧
    Spec.C09.holds [⟨1, p⟩] (exact [t, t, t]) = false := by
  refine ⟨by decide, by decide, rfl, ?_⟩
  have hb : Spec.C09.bracketOk ⟨1, p⟩ (exact [t, t, t]) = false :=
    (bracketOk_false_iff _ _).mpr ⟨0, (t, t), (t, t), rfl, rfl, by simp; omega⟩
  simp [Spec.C09.holds, hb]

/-- The repaired code on the same script: three requests, three admissions, the same result. -/
theorem new_redirects_within_limit (t0 t1 t2 : Nat) :
    limited (get exChain true 0).evs = true ∧
    sendInstants [t0, t1, t2] (get exChain true 0).evs = [t0, t1, t2] ∧
    (get exChain true 0).res = (getOld exChain true 0).res := by
  refine ⟨by decide, rfl, by decide⟩

/-- The newAccount POST (url 5) is answered 307 to location 6, which answers 201. -/
def exPost : State := ⟨some 3, [rd (.valid 4) 6 true, ok200 (.valid 8) 2], 9⟩

/-- What the mock CA records for the request the library sent to the new location: its nonce was
used before, its protected `url` is not the URL it arrived at. -/
def exResent : Spec.C04.ReqObs where
  kind := .newAccount
  flat := true
  hdrMembers := ["alg", "jwk", "nonce", "url"]
  alg := "ES256"
  keyKind := "P-256"
  urlOk := false
  nonceIssued := true
  nonceReused := true
  kidOk := true
  sigOk := true
  sigLen := 64

/-- **Before the repair a signed POST was sent twice.**  The server issues every nonce once; the
library answers the 307 by sending the same body again: two POSTs carry nonce 3, the second one to a
URL that is not the call's, and the judge of C04 rejects such a request on either count. -/
theorem old_post_resent_same_nonce :
    (exPost.nonce.toList ++ exPost.script.filterMap Answer.issued).Nodup ∧
    postNonces (postOld 10 exPost true true 5).evs = [3, 3] ∧
    ¬ (postNonces (postOld 10 exPost true true 5).evs).Nodup ∧
    (∃ q ∈ posts (postOld 10 exPost true true 5).evs, q.url ≠ 5) ∧
    limited (postOld 10 exPost true true 5).evs = false ∧
    Spec.C04.reqOk exResent = false ∧
    Spec.C04.reqOk { exResent with urlOk := true } = false ∧
    Spec.C04.reqOk { exResent with nonceReused := false } = false := by
  refine ⟨by decide, by decide, by decide, ⟨⟨6, some 3, 0⟩, by decide, by decide⟩, by decide,
    by decide, by decide, by decide⟩

/-- The repaired code on the same script: one POST, to the call's URL; the 307 is an error answer
and the second answer of the script is never asked for. -/
theorem new_post_not_resent :
    posts (post 10 .take exPost true true 5).evs = [⟨5, some 3, 0⟩] ∧
    (post 10 .take exPost true true 5).res = .err .notProblem ∧
    (post 10 .take exPost true true 5).st.script.length = 1 := by decide

/-- A 301 / 302 / 303 answer made the library send a body-less GET instead: not a second POST, but
still a request behind the limiter's back. -/
theorem old_post_redirect_302_unlimited :
    sends (postOld 10 ⟨some 3, [rd (.valid 4) 6 false, ok200 (.valid 8) 2], 9⟩ true true 5).evs = 2 ∧
    limited (postOld 10 ⟨some 3, [rd (.valid 4) 6 false, ok200 (.valid 8) 2], 9⟩ true true 5).evs
      = false := by decide

/-- Without redirections the old and the new `get` are the same function. -/
theorem getOld_eq_get_of_no_redirect (st : State) (clientOk : Bool) (u : Nat)
    (h : ∀ a ∈ st.script.head?, a.redir = .no) :
    getOld st clientOk u = Http.get st clientOk u := by
  obtain ⟨nonce, script, nu⟩ := st
  cases clientOk
  · simp [getOld, Http.get]
  · rw [get_true]
    obtain ⟨n, hn⟩ : ∃ n, Gen.DEFAULT_HTTP_MAX_REDIRECT = n + 1 := ⟨9, by decide⟩
    rw [hn]
    cases script with
    | nil => simp [getOld, libSend, getLoop]
    | cons a rest =>
      have hr : a.redir = .no := h a (by simp)
      obtain ⟨d, o, hd, b, r⟩ := a
      simp only at hr
      subst hr
      cases d <;> cases o <;> cases hd <;> cases b <;>
        simp [getOld, libSend, getLoop, updateNonce]

/-! ## Non-vacuity -/

/-- A chain of nine redirections is followed to the end (ten requests, ten admissions) … -/
example :
    (get ⟨none, (List.range 9).map (fun i => rd .absent (i + 1) false) ++ [ok200 (.valid 7) 0], 9⟩
      true 0).res = .ok (.payload 0) := by decide
example :
    sends (get ⟨none, (List.range 9).map (fun i => rd .absent (i + 1) false) ++ [ok200 (.valid 7) 0],
      9⟩ true 0).evs = 10 := by decide

/-- … a chain of ten is not: ten requests, then "too many redirections"; the eleventh answer is
never asked for. -/
example :
    (get ⟨none, (List.range 10).map (fun i => rd .absent (i + 1) false) ++ [ok200 (.valid 7) 0], 9⟩
      true 0).res = .err .tooManyRedirects := by decide
example :
    (get ⟨none, (List.range 10).map (fun i => rd .absent (i + 1) false) ++ [ok200 (.valid 7) 0], 9⟩
      true 0).st.script.length = 1 := by decide

/-- A nonce on a 3xx answer is kept (`update_nonce` runs before the redirection is looked at); a
`Location` that does not resolve, and a 3xx answer without one, end the call. -/
example : (get ⟨none, [rd (.valid 4) 1 false, ok200 .absent 0], 9⟩ true 0).st.nonce = some 4 := by
  decide
example : (get ⟨none, [⟨true, false, .absent, .notJson, .bad⟩], 9⟩ true 0).res
    = .err .badLocation := by decide
example : (get ⟨none, [⟨true, false, .absent, .notJson, .no⟩], 9⟩ true 0).res
    = .err .status := by decide

/-- `endless_chain_ends`' hypotheses are satisfiable. -/
example : ∀ a ∈ ((List.replicate 12 (rd .absent 1 false)).take 10),
    a.delivered = true ∧ a.nonce ≠ .invalid ∧ ∃ u' k, a.redir = .to u' k := by
  intro a ha
  simp only [List.take_replicate, List.mem_replicate] at ha
  rw [ha.2]
  exact ⟨rfl, by decide, 1, false, rfl⟩

/-- `every_run_passes_judge` on a concrete run: limit 1 per 10, three admissions at 0, 10, 20, the
three requests of `exChain`; the exact observation brackets and is accepted. -/
example : sendInstants [0, 10, 20] (runCalls 20 10 .take exChain [.get true 0]).2.2 = [0, 10, 20] := by
  decide
example : Spec.C09.holds [⟨1, 10⟩] (exact [0, 10, 20]) = true := by decide
example : Spec.C09.holds [⟨1, 10⟩] (exact [0, 0, 0]) = false := by decide

end AcmedVerif.Props.C09Redirect
