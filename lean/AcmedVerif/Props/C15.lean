/-
C15 — JWK, thumbprint input and signature encodings are exact for every key (with the encoding
theorems C04 `ecdsa_fixed_width`, `header_members` and C05 `key_authorization_shape`,
`proof_tls_alpn` rest on).  Theorems about `Model/Bytes`, `Model/Base64`, `Model/Json`,
`Model/Jose`; helper lemmas in `Lemmas/Bytes`, `Lemmas/Base64`, `Lemmas/Jose`; judge in `Spec/C15`.
All statements are for every input: no bound on lengths or values.
-/
import AcmedVerif.Model.Jose
import AcmedVerif.Spec.C15
import AcmedVerif.Lemmas.Bytes
import AcmedVerif.Lemmas.Base64
import AcmedVerif.Lemmas.Jose

namespace AcmedVerif.Props.C15
open AcmedVerif.Bytes AcmedVerif.Base64 AcmedVerif.Json AcmedVerif.Jose AcmedVerif.Spec.C15

/-! ## base64url (`acme_common::b64_encode`) -/

/-- `encodeUrl` is, by definition, strip-padding ∘ translate ∘ RFC 4648 standard encoding … -/
theorem b64url_def (bs : List UInt8) : encodeUrl bs = trimEndEq (translate (encodeStd bs)) := rfl

/-- … and equals the direct group-by-group URL-safe encoder without padding. -/
theorem b64url_direct (bs : List UInt8) : encodeUrl bs = encodeUrlDirect bs :=
  encodeUrl_eq_direct bs

/-- The strict decoder (no padding, no foreign character, no dangling bits) reads back every
encoding. -/
theorem b64url_roundtrip (bs : List UInt8) : decodeUrl (encodeUrl bs) = some bs := by
  rw [encodeUrl_eq_direct]; exact decodeUrl_encodeUrlDirect bs

/-- Hence the encoding is injective. -/
theorem b64url_injective (a b : List UInt8) (h : encodeUrl a = encodeUrl b) : a = b := by
  have := b64url_roundtrip a
  rw [h, b64url_roundtrip b] at this
  exact (Option.some.inj this).symm

/-- The decoder is strict: it accepts exactly the encodings. -/
theorem b64url_decode_strict (s : List Char) (bs : List UInt8) :
    decodeUrl s = some bs ↔ s = encodeUrl bs := by
  constructor
  · intro h; rw [encodeUrl_eq_direct]; exact (decodeUrl_canonical s bs h).symm
  · intro h; rw [h]; exact b64url_roundtrip bs

/-- Only `[A-Za-z0-9_-]`; in particular never `=`, `+`, `/`. -/
theorem b64url_alphabet_nopad (bs : List UInt8) :
    ∀ c ∈ encodeUrl bs, InUrlAlphabet c ∧ c ≠ '=' ∧ c ≠ '+' ∧ c ≠ '/' := by
  intro c hc
  rw [encodeUrl_eq_direct] at hc
  obtain ⟨n, hn, rfl⟩ := encodeUrlDirect_alphabet bs c hc
  have : ∀ n, n < 64 →
      InUrlAlphabet (urlChar n) ∧ urlChar n ≠ '=' ∧ urlChar n ≠ '+' ∧ urlChar n ≠ '/' := by decide
  exact this n hn

theorem b64url_length (bs : List UInt8) : (encodeUrl bs).length = (4 * bs.length + 2) / 3 := by
  rw [encodeUrl_eq_direct]; exact length_encodeUrlDirect bs

/-- What the strict decoder refuses: any character outside the alphabet (padding included) and any
length ≡ 1 (mod 4). -/
theorem b64url_decode_rejects (s : List Char) :
    ((∃ c ∈ s, ¬ InUrlAlphabet c) → decodeUrl s = none) ∧ (s.length % 4 = 1 → decodeUrl s = none) := by
  constructor
  · intro ⟨c, hc, hn⟩
    cases h : decodeUrl s with
    | none => rfl
    | some bs =>
      rw [(b64url_decode_strict s bs).mp h] at hc
      exact absurd (b64url_alphabet_nopad bs c hc).1 hn
  · intro hl
    cases h : decodeUrl s with
    | none => rfl
    | some bs =>
      rw [(b64url_decode_strict s bs).mp h, b64url_length] at hl
      omega

/-- Standard base64 is compositional on 3-byte boundaries. -/
theorem b64std_append (xs ys : List UInt8) (h : 3 ∣ xs.length) :
    encodeStd (xs ++ ys) = encodeStd xs ++ encodeStd ys := by
  obtain ⟨k, hk⟩ := h
  exact encodeStd_append_aux k xs ys hk

theorem b64url_append (xs ys : List UInt8) (h : 3 ∣ xs.length) :
    encodeUrl (xs ++ ys) = encodeUrl xs ++ encodeUrl ys := encodeUrl_append xs ys h

/-- 64-column wrapping loses nothing. -/
theorem wrap64_join (s : List Char) : (wrap64 s).flatten = s := wrap64_flatten s

/-! ## big-endian numbers (`BigNum::to_vec`, `to_vec_padded`) -/

theorem bytes_min_roundtrip (n : Nat) : toNat (ofNatMin n) = n := toNat_ofNatMin n

theorem bytes_min_no_leading_zero (n : Nat) : (ofNatMin n).head? ≠ some 0 := head?_ofNatMin n

/-- `ec_fixed_width`: every number below `256^w` has a `w`-byte form with the same value (the
0.21.0 defect was `ofNatMin` in place of `ofNatFixed`, see `min_is_not_fixed`). -/
theorem bytes_fixed_roundtrip (w n : Nat) (h : n < 256 ^ w) :
    ∃ bs, ofNatFixed w n = some bs ∧ bs.length = w ∧ toNat bs = n := ofNatFixed_spec h

/-- … and a number that does not fit is refused (`to_vec_padded` error). -/
theorem bytes_fixed_refuses (w n : Nat) : ofNatFixed w n = none ↔ 256 ^ w ≤ n :=
  ofNatFixed_none_iff w n

/-- Witness of the 0.21.0 defect class: the minimal form of a coordinate with a zero top byte is
shorter than the curve width. -/
theorem min_is_not_fixed : ∃ n, n < 256 ^ 32 ∧ (ofNatMin n).length ≠ 32 := by
  refine ⟨1, by decide, ?_⟩
  rw [ofNatMin, ofNatLE_pos (by decide), show 1 / 256 = 0 by decide, ofNatLE_zero]
  decide

/-- `rsa_minimal`: the `n`/`e` members decode to the minimal big-endian form of the number. -/
theorem rsa_minimal (n : Nat) :
    ∃ bs, decodeUrl (encodeUrl (ofNatMin n)) = some bs ∧ toNat bs = n ∧ bs.head? ≠ some 0 :=
  ⟨ofNatMin n, b64url_roundtrip _, toNat_ofNatMin n, head?_ofNatMin n⟩

/-! ## ECDSA signatures (`sign_ecdsa`, `get_ecdsa_sig_part!`) -/

/-- C04 `ecdsa_fixed_width`, C15 `sig_lengths`: for all `r`, `s` below `256^w` the signature is
`2w` bytes and splits back into `(r, s)`. -/
theorem sig_roundtrip (w r s : Nat) (hr : r < 256 ^ w) (hs : s < 256 ^ w) :
    ∃ sig, sigEncode w r s = some sig ∧ sig.length = 2 * w ∧ sigDecode w sig = some (r, s) :=
  sigEncode_spec hr hs

/-- The judge accepts the model's signature encoding. -/
theorem sig_holds (w r s : Nat) (hr : r < 256 ^ w) (hs : s < 256 ^ w) :
    ∃ sig, sigEncode w r s = some sig ∧ holdsSig w r s sig = true := by
  obtain ⟨sig, h1, h2, h3⟩ := sigEncode_spec hr hs
  refine ⟨sig, h1, ?_⟩
  simp only [sigDecode, h2, if_true, Option.some.injEq, Prod.mk.injEq] at h3
  simp [holdsSig, h2, h3.1, h3.2]

/-- ES256/ES384/ES512 signatures are 64/96/132 bytes. -/
theorem sig_lengths (kt crv alg : List Char) (w r s : Nat)
    (hk : curveInfo kt = some (crv, alg, w)) (hr : r < 256 ^ w) (hs : s < 256 ^ w) :
    ∃ sig, sigEncode w r s = some sig ∧ sigLen alg = some sig.length := by
  obtain ⟨sig, h1, h2, _⟩ := sigEncode_spec hr hs
  refine ⟨sig, h1, ?_⟩
  rw [h2]
  unfold curveInfo at hk
  split at hk
  · cases hk; decide
  · split at hk
    · cases hk; decide
    · split at hk
      · cases hk; decide
      · cases hk

/-! ## the EdDSA public key taken out of the PEM text (`get_eddsa_jwk`) -/

/-- For every DER string: what the loop collects is its unpadded base64url text. -/
theorem okp_body_exact (der : List UInt8) : okpBody (pemPublic der) = encodeUrl der :=
  okpBody_pemPublic der

/-- For every key (any length) behind any 12-byte header, `x` is exactly `b64url(key)`, and the
`replace_range(..16, "")` guard holds. -/
theorem okp_x_exact_general (pre key : List UInt8) (h : pre.length = 12) :
    okpXFromPem (pemPublic (pre ++ key)) = encodeUrl key ∧
    okpXFromPemChecked (pemPublic (pre ++ key)) = some (encodeUrl key) :=
  okpX_of_prefix pre key h

theorem okp_x_exact (key : List UInt8) (_h : key.length = 32) :
    okpXFromPem (pemPublic (spkiPrefixEd25519 ++ key)) = encodeUrl key :=
  (okpX_of_prefix spkiPrefixEd25519 key rfl).1

theorem okp_x_exact_ed448 (key : List UInt8) (_h : key.length = 57) :
    okpXFromPem (pemPublic (spkiPrefixEd448 ++ key)) = encodeUrl key :=
  (okpX_of_prefix spkiPrefixEd448 key rfl).1

/-- So the JWK the Rust code builds from the PEM text is the RFC 8037 one. -/
theorem okp_jwk_from_pem (crv : List Char) (pre key : List UInt8) (h : pre.length = 12)
    (thumb : Bool) : jwkOkpFromPem crv (pemPublic (pre ++ key)) thumb = jwkOkp crv key thumb := by
  unfold jwkOkpFromPem jwkOkp; rw [(okpX_of_prefix pre key h).1]

/-- A 32-byte key gives 43 characters, a 57-byte key 76. -/
theorem okp_x_length (key : List UInt8) :
    (key.length = 32 → (encodeUrl key).length = 43) ∧
    (key.length = 57 → (encodeUrl key).length = 76) := by
  constructor <;> intro h <;> rw [b64url_length, h]

/-! ## JWK member sets and thumbprint input -/

theorem escape_lit_facts :
    escape "alg".toList = "alg".toList ∧ escape "crv".toList = "crv".toList ∧
    escape "kty".toList = "kty".toList ∧ escape "use".toList = "use".toList ∧
    escape "e".toList = "e".toList ∧ escape "n".toList = "n".toList ∧
    escape "x".toList = "x".toList ∧ escape "y".toList = "y".toList ∧
    escape "RS256".toList = "RS256".toList ∧ escape "RSA".toList = "RSA".toList ∧
    escape "sig".toList = "sig".toList ∧ escape "EC".toList = "EC".toList ∧
    escape "OKP".toList = "OKP".toList ∧ escape "EdDSA".toList = "EdDSA".toList := by decide

/-- RSA: the full form is `{"alg":"RS256","e":…,"kty":"RSA","n":…,"use":"sig"}`, the thumbprint
form `{"e":…,"kty":"RSA","n":…}`, character for character. -/
theorem jwk_members_exact_rsa (n e : List UInt8) (thumb : Bool) :
    jwkRsa n e thumb = rsaJwk (encodeUrl e) (encodeUrl n) thumb := by
  obtain ⟨h1, h2, h3, h4, h5, h6, h7, h8, h9, h10, h11, h12, h13, h14⟩ := escape_lit_facts
  have he := escape_encodeUrl e
  have hn := escape_encodeUrl n
  cases thumb
  · refine obj_eq_tmpl (rsaKvs (encodeUrl e) (encodeUrl n) false) ?_
    intro kv hkv
    simp only [rsaKvs, Bool.false_eq_true, if_false, List.mem_cons, List.mem_nil_iff,
      or_false] at hkv
    rcases hkv with rfl | rfl | rfl | rfl | rfl <;> constructor <;> assumption
  · refine obj_eq_tmpl (rsaKvs (encodeUrl e) (encodeUrl n) true) ?_
    intro kv hkv
    simp only [rsaKvs, if_true, List.mem_cons, List.mem_nil_iff, or_false] at hkv
    rcases hkv with rfl | rfl | rfl <;> constructor <;> assumption

/-- EC with coordinates given as bytes, for `crv`/`alg` names that need no escaping. -/
theorem jwkEcBytes_eq (crv alg : List Char) (x y : List UInt8) (thumb : Bool)
    (hc : escape crv = crv) (ha : escape alg = alg) :
    jwkEcBytes crv alg x y thumb = ecJwk crv alg (encodeUrl x) (encodeUrl y) thumb := by
  obtain ⟨h1, h2, h3, h4, h5, h6, h7, h8, h9, h10, h11, h12, h13, h14⟩ := escape_lit_facts
  have hx := escape_encodeUrl x
  have hy := escape_encodeUrl y
  cases thumb
  · refine obj_eq_tmpl (ecKvs crv alg (encodeUrl x) (encodeUrl y) false) ?_
    intro kv hkv
    simp only [ecKvs, Bool.false_eq_true, if_false, List.mem_cons, List.mem_nil_iff,
      or_false] at hkv
    rcases hkv with rfl | rfl | rfl | rfl | rfl | rfl <;> constructor <;> assumption
  · refine obj_eq_tmpl (ecKvs crv alg (encodeUrl x) (encodeUrl y) true) ?_
    intro kv hkv
    simp only [ecKvs, if_true, List.mem_cons, List.mem_nil_iff, or_false] at hkv
    rcases hkv with rfl | rfl | rfl | rfl <;> constructor <;> assumption

theorem curveInfo_cases {kt crv alg : List Char} {w : Nat} (h : curveInfo kt = some (crv, alg, w)) :
    (crv = "P-256".toList ∧ alg = "ES256".toList ∧ w = 32) ∨
    (crv = "P-384".toList ∧ alg = "ES384".toList ∧ w = 48) ∨
    (crv = "P-521".toList ∧ alg = "ES512".toList ∧ w = 66) := by
  unfold curveInfo at h
  split at h
  · cases h; exact Or.inl ⟨rfl, rfl, rfl⟩
  · split at h
    · cases h; exact Or.inr (Or.inl ⟨rfl, rfl, rfl⟩)
    · split at h
      · cases h; exact Or.inr (Or.inr ⟨rfl, rfl, rfl⟩)
      · cases h

/-- EC (`jwk_members_exact` + `ec_fixed_width`): for the three supported curves and every pair of
coordinates below `256^w`, the JWK is the RFC 7518 §6.2 text with both coordinates of exactly `w`
octets and the right value. -/
theorem jwk_members_exact_ec (kt crv alg : List Char) (w x y : Nat)
    (hk : curveInfo kt = some (crv, alg, w)) (hx : x < 256 ^ w) (hy : y < 256 ^ w) (thumb : Bool) :
    ∃ xb yb, xb.length = w ∧ toNat xb = x ∧ yb.length = w ∧ toNat yb = y ∧
      jwkEc crv alg w x y thumb = some (ecJwk crv alg (encodeUrl xb) (encodeUrl yb) thumb) := by
  obtain ⟨xb, hxb, hxl, hxv⟩ := ofNatFixed_spec hx
  obtain ⟨yb, hyb, hyl, hyv⟩ := ofNatFixed_spec hy
  refine ⟨xb, yb, hxl, hxv, hyl, hyv, ?_⟩
  simp only [jwkEc, hxb, hyb]
  congr 1
  rcases curveInfo_cases hk with ⟨rfl, rfl, _⟩ | ⟨rfl, rfl, _⟩ | ⟨rfl, rfl, _⟩ <;>
    exact jwkEcBytes_eq _ _ xb yb thumb (by decide) (by decide)

/-- A coordinate that does not fit is an error, not a truncated JWK. -/
theorem jwkEc_refuses (crv alg : List Char) (w x y : Nat) (thumb : Bool)
    (h : 256 ^ w ≤ x ∨ 256 ^ w ≤ y) : jwkEc crv alg w x y thumb = none := by
  unfold jwkEc
  rcases h with h | h
  · rw [(ofNatFixed_none_iff w x).mpr h]
  · rw [(ofNatFixed_none_iff w y).mpr h]
    split <;> simp_all

/-- OKP, for `crv` names that need no escaping (`Ed25519`, `Ed448`). -/
theorem jwk_members_exact_okp (crv : List Char) (key : List UInt8) (thumb : Bool)
    (hc : escape crv = crv) : jwkOkp crv key thumb = okpJwk crv (encodeUrl key) thumb := by
  obtain ⟨h1, h2, h3, h4, h5, h6, h7, h8, h9, h10, h11, h12, h13, h14⟩ := escape_lit_facts
  have hx := escape_encodeUrl key
  cases thumb
  · refine obj_eq_tmpl (okpKvs crv (encodeUrl key) false) ?_
    intro kv hkv
    simp only [okpKvs, Bool.false_eq_true, if_false, List.mem_cons, List.mem_nil_iff,
      or_false] at hkv
    rcases hkv with rfl | rfl | rfl | rfl | rfl <;> constructor <;> assumption
  · refine obj_eq_tmpl (okpKvs crv (encodeUrl key) true) ?_
    intro kv hkv
    simp only [okpKvs, if_true, List.mem_cons, List.mem_nil_iff, or_false] at hkv
    rcases hkv with rfl | rfl | rfl <;> constructor <;> assumption

theorem okp_crv_plain :
    escape "Ed25519".toList = "Ed25519".toList ∧ escape "Ed448".toList = "Ed448".toList := by decide

/-- The member names of the expected texts are exactly the RFC sets, already in sorted order. -/
theorem jwk_member_sets (e n crv alg x y : List Char) :
    (rsaKvs e n false).map Prod.fst = fullMembers "RSA".toList ∧
    (rsaKvs e n true).map Prod.fst = requiredMembers "RSA".toList ∧
    (ecKvs crv alg x y false).map Prod.fst = fullMembers "EC".toList ∧
    (ecKvs crv alg x y true).map Prod.fst = requiredMembers "EC".toList ∧
    (okpKvs crv x false).map Prod.fst = fullMembers "OKP".toList ∧
    (okpKvs crv x true).map Prod.fst = requiredMembers "OKP".toList := by
  exact ⟨rfl, rfl, rfl, rfl, rfl, rfl⟩

theorem member_sets_sorted :
    sortedKeys (fullMembers "RSA".toList) = true ∧ sortedKeys (requiredMembers "RSA".toList) = true ∧
    sortedKeys (fullMembers "EC".toList) = true ∧ sortedKeys (requiredMembers "EC".toList) = true ∧
    sortedKeys (fullMembers "OKP".toList) = true ∧ sortedKeys (requiredMembers "OKP".toList) = true := by
  decide

/-- The judge accepts the model's RSA output, for every modulus and exponent. -/
theorem holdsRsa_model (n e : Nat) :
    holdsRsa n e (ofNatMin n) (ofNatMin e) (jwkRsaNat n e false) (jwkRsaNat n e true) = true := by
  have h1 := toNat_ofNatMin n
  have h2 := toNat_ofNatMin e
  have h3 := head?_ofNatMin n
  have h4 := head?_ofNatMin e
  simp [holdsRsa, isMinimal, jwkRsaNat, jwk_members_exact_rsa, h1, h2, h3, h4]

/-- … its EC output, for every supported curve and all coordinates in range. -/
theorem holdsEc_model (kt crv alg : List Char) (w x y : Nat)
    (hk : curveInfo kt = some (crv, alg, w)) (hx : x < 256 ^ w) (hy : y < 256 ^ w) :
    ∃ xb yb jwk thumb, jwkEc crv alg w x y false = some jwk ∧ jwkEc crv alg w x y true = some thumb ∧
      holdsEc crv alg w x y xb yb jwk thumb = true := by
  obtain ⟨xb, hxb, hxl, hxv⟩ := ofNatFixed_spec hx
  obtain ⟨yb, hyb, hyl, hyv⟩ := ofNatFixed_spec hy
  have hc : escape crv = crv ∧ escape alg = alg := by
    rcases curveInfo_cases hk with ⟨rfl, rfl, _⟩ | ⟨rfl, rfl, _⟩ | ⟨rfl, rfl, _⟩ <;> decide
  refine ⟨xb, yb, jwkEcBytes crv alg xb yb false, jwkEcBytes crv alg xb yb true, ?_, ?_, ?_⟩
  · simp only [jwkEc, hxb, hyb]
  · simp only [jwkEc, hxb, hyb]
  · simp [holdsEc, isFixed, hxl, hxv, hyl, hyv, jwkEcBytes_eq _ _ _ _ _ hc.1 hc.2]

/-- … and its OKP output. -/
theorem holdsOkp_model (crv : List Char) (key : List UInt8) (hc : escape crv = crv) :
    holdsOkp crv key (jwkOkp crv key false) (jwkOkp crv key true) = true := by
  simp [holdsOkp, jwk_members_exact_okp _ _ _ hc]

/-- `thumbprint_canonical`: the thumbprint inputs (and the full forms) contain no white space; the
members are the required ones only, sorted (`jwk_member_sets`, `member_sets_sorted`). -/
theorem thumbprint_canonical_rsa (n e : List UInt8) (thumb : Bool) :
    noWs (jwkRsa n e thumb) = true := by
  rw [jwk_members_exact_rsa]
  apply noWs_tmpl
  have he := noWs_encodeUrl e
  have hn := noWs_encodeUrl n
  intro kv hkv
  cases thumb
  · simp only [rsaKvs, Bool.false_eq_true, if_false, List.mem_cons, List.mem_nil_iff,
      or_false] at hkv
    rcases hkv with rfl | rfl | rfl | rfl | rfl <;> constructor <;> first | assumption | exact rfl
  · simp only [rsaKvs, if_true, List.mem_cons, List.mem_nil_iff, or_false] at hkv
    rcases hkv with rfl | rfl | rfl <;> constructor <;> first | assumption | exact rfl

theorem thumbprint_canonical_ec (crv alg : List Char) (x y : List UInt8) (thumb : Bool)
    (hc : escape crv = crv) (ha : escape alg = alg) (hcw : noWs crv = true) (haw : noWs alg = true) :
    noWs (jwkEcBytes crv alg x y thumb) = true := by
  rw [jwkEcBytes_eq _ _ _ _ _ hc ha]
  apply noWs_tmpl
  have hx := noWs_encodeUrl x
  have hy := noWs_encodeUrl y
  intro kv hkv
  cases thumb
  · simp only [ecKvs, Bool.false_eq_true, if_false, List.mem_cons, List.mem_nil_iff,
      or_false] at hkv
    rcases hkv with rfl | rfl | rfl | rfl | rfl | rfl <;> constructor <;>
      first | assumption | exact rfl
  · simp only [ecKvs, if_true, List.mem_cons, List.mem_nil_iff, or_false] at hkv
    rcases hkv with rfl | rfl | rfl | rfl <;> constructor <;> first | assumption | exact rfl

theorem thumbprint_canonical_okp (crv : List Char) (key : List UInt8) (thumb : Bool)
    (hc : escape crv = crv) (hcw : noWs crv = true) : noWs (jwkOkp crv key thumb) = true := by
  rw [jwk_members_exact_okp _ _ _ hc]
  apply noWs_tmpl
  have hx := noWs_encodeUrl key
  intro kv hkv
  cases thumb
  · simp only [okpKvs, Bool.false_eq_true, if_false, List.mem_cons, List.mem_nil_iff,
      or_false] at hkv
    rcases hkv with rfl | rfl | rfl | rfl | rfl <;> constructor <;> first | assumption | exact rfl
  · simp only [okpKvs, if_true, List.mem_cons, List.mem_nil_iff, or_false] at hkv
    rcases hkv with rfl | rfl | rfl <;> constructor <;> first | assumption | exact rfl

theorem thumbprint_canonical_ec_curve (kt crv alg : List Char) (w x y : Nat) (thumb : Bool)
    (j : List Char) (hk : curveInfo kt = some (crv, alg, w))
    (hj : jwkEc crv alg w x y thumb = some j) : noWs j = true := by
  unfold jwkEc at hj
  cases hx : ofNatFixed w x with
  | none => simp [hx] at hj
  | some xb =>
    cases hy : ofNatFixed w y with
    | none => simp [hx, hy] at hj
    | some yb =>
      simp only [hx, hy, Option.some.injEq] at hj
      subst hj
      rcases curveInfo_cases hk with ⟨rfl, rfl, _⟩ | ⟨rfl, rfl, _⟩ | ⟨rfl, rfl, _⟩ <;>
        exact thumbprint_canonical_ec _ _ xb yb thumb (by decide) (by decide) (by decide) (by decide)

/-- `jwk_members_exact`, all key families: the model's texts are the judge's RFC templates, whose
member names are exactly the RFC sets in sorted order. -/
theorem jwk_members_exact :
    (∀ (n e : List UInt8) (thumb : Bool), jwkRsa n e thumb = rsaJwk (encodeUrl e) (encodeUrl n) thumb) ∧
    (∀ (kt crv alg : List Char) (w x y : Nat) (thumb : Bool), curveInfo kt = some (crv, alg, w) →
      x < 256 ^ w → y < 256 ^ w →
      ∃ xb yb, xb.length = w ∧ toNat xb = x ∧ yb.length = w ∧ toNat yb = y ∧
        jwkEc crv alg w x y thumb = some (ecJwk crv alg (encodeUrl xb) (encodeUrl yb) thumb)) ∧
    (∀ (crv : List Char) (key : List UInt8) (thumb : Bool), escape crv = crv →
      jwkOkp crv key thumb = okpJwk crv (encodeUrl key) thumb) ∧
    (∀ e n crv alg x y : List Char,
      (rsaKvs e n false).map Prod.fst = fullMembers "RSA".toList ∧
      (rsaKvs e n true).map Prod.fst = requiredMembers "RSA".toList ∧
      (ecKvs crv alg x y false).map Prod.fst = fullMembers "EC".toList ∧
      (ecKvs crv alg x y true).map Prod.fst = requiredMembers "EC".toList ∧
      (okpKvs crv x false).map Prod.fst = fullMembers "OKP".toList ∧
      (okpKvs crv x true).map Prod.fst = requiredMembers "OKP".toList) :=
  ⟨jwk_members_exact_rsa,
   fun kt crv alg w x y thumb hk hx hy => jwk_members_exact_ec kt crv alg w x y hk hx hy thumb,
   jwk_members_exact_okp, jwk_member_sets⟩

/-- `thumbprint_canonical`, all key families: no white space, required members only, sorted. -/
theorem thumbprint_canonical :
    (∀ (n e : List UInt8), noWs (jwkRsa n e true) = true) ∧
    (∀ (kt crv alg : List Char) (w x y : Nat) (j : List Char), curveInfo kt = some (crv, alg, w) →
      jwkEc crv alg w x y true = some j → noWs j = true) ∧
    (∀ (crv : List Char) (key : List UInt8), escape crv = crv → noWs crv = true →
      noWs (jwkOkp crv key true) = true) ∧
    sortedKeys (requiredMembers "RSA".toList) = true ∧ sortedKeys (requiredMembers "EC".toList) = true ∧
    sortedKeys (requiredMembers "OKP".toList) = true :=
  ⟨fun n e => thumbprint_canonical_rsa n e true,
   fun kt crv alg w x y j hk hj => thumbprint_canonical_ec_curve kt crv alg w x y true j hk hj,
   fun crv key hc hw => thumbprint_canonical_okp crv key true hc hw,
   member_sets_sorted.2.1, member_sets_sorted.2.2.2.1, member_sets_sorted.2.2.2.2.2⟩

/-! ## JSON strings, protected header, flattened JWS -/

/-- `escape_no_raw_quote`: scanning the escaped text finds no bare `"` and no control character. -/
theorem escape_no_raw_quote (s : List Char) : wellEscaped (escape s) = true := wellEscaped_escape s

/-- Stronger: a JSON string reader gives back exactly the original string. -/
theorem escape_roundtrip (s : List Char) : unescape (escape s) = some s := unescape_escape s

/-- base64url text is copied verbatim into a JSON string. -/
theorem escape_b64url (bs : List UInt8) : str (encodeUrl bs) = q (encodeUrl bs) :=
  str_eq_q (escape_encodeUrl bs)

/-- `header_members`: `{"alg":…[,"jwk":…][,"kid":…][,"nonce":…],"url":…}`: exactly these members, in
this order, the optional ones present iff given. -/
theorem header_members (alg : List Char) (jwk kid nonce : Option (List Char)) (url : List Char) :
    protectedHeader alg jwk kid nonce url =
      "{\"alg\":".toList ++ str alg
        ++ (match jwk with | some j => ",\"jwk\":".toList ++ j | none => [])
        ++ (match kid with | some k => ",\"kid\":".toList ++ str k | none => [])
        ++ (match nonce with | some n => ",\"nonce\":".toList ++ str n | none => [])
        ++ ",\"url\":".toList ++ str url ++ "}".toList := by
  have ha : str "alg".toList = "\"alg\"".toList := by decide
  have hj : str "jwk".toList = "\"jwk\"".toList := by decide
  have hk : str "kid".toList = "\"kid\"".toList := by decide
  have hn : str "nonce".toList = "\"nonce\"".toList := by decide
  have hu : str "url".toList = "\"url\"".toList := by decide
  have e1 : "{\"alg\":".toList = '{' :: ("\"alg\"".toList ++ [':']) := by decide
  have e2 : ",\"jwk\":".toList = ',' :: ("\"jwk\"".toList ++ [':']) := by decide
  have e3 : ",\"kid\":".toList = ',' :: ("\"kid\"".toList ++ [':']) := by decide
  have e4 : ",\"nonce\":".toList = ',' :: ("\"nonce\"".toList ++ [':']) := by decide
  have e5 : ",\"url\":".toList = ',' :: ("\"url\"".toList ++ [':']) := by decide
  have e6 : "}".toList = ['}'] := by decide
  rw [e1, e2, e3, e4, e5, e6]
  cases jwk <;> cases kid <;> cases nonce <;>
    simp only [protectedHeader, optMember, obj, members, member, ha, hj, hk, hn, hu, Option.map,
      List.append_assoc, List.cons_append, List.nil_append, List.append_nil]

/-- `{"protected":"…","payload":"…","signature":"…"}`. -/
theorem flattened_shape (p pl sg : List UInt8) :
    flattened (encodeUrl p) (encodeUrl pl) (encodeUrl sg) =
      "{\"protected\":\"".toList ++ encodeUrl p ++ "\",\"payload\":\"".toList ++ encodeUrl pl
        ++ "\",\"signature\":\"".toList ++ encodeUrl sg ++ "\"}".toList := by
  have h1 : str "protected".toList = "\"protected\"".toList := by decide
  have h2 : str "payload".toList = "\"payload\"".toList := by decide
  have h3 : str "signature".toList = "\"signature\"".toList := by decide
  have e1 : "{\"protected\":\"".toList = '{' :: ("\"protected\"".toList ++ [':', '"']) := by decide
  have e2 : "\",\"payload\":\"".toList = '"' :: ',' :: ("\"payload\"".toList ++ [':', '"']) := by
    decide
  have e3 : "\",\"signature\":\"".toList = '"' :: ',' :: ("\"signature\"".toList ++ [':', '"']) := by
    decide
  have e4 : "\"}".toList = ['"', '}'] := by decide
  rw [e1, e2, e3, e4]
  simp only [flattened, obj, members, member, h1, h2, h3, escape_b64url, q, List.append_assoc,
    List.cons_append, List.nil_append]

/-- The signing input has exactly one `.`, so it splits back uniquely. -/
theorem signingInput_shape (pj : List Char) (payload : List UInt8) :
    signingInput pj payload = encodeUrl (utf8 pj) ++ '.' :: encodeUrl payload ∧
    '.' ∉ encodeUrl (utf8 pj) ∧ '.' ∉ encodeUrl payload := by
  refine ⟨rfl, ?_, ?_⟩ <;>
  · intro h
    have := (b64url_alphabet_nopad _ _ h).1
    revert this; decide

/-! ## key authorisation and challenge proofs -/

theorem hash_length (m : List UInt8) : (Sha256.hash m).length = 32 := rfl

/-- C05 `key_authorization_shape`. -/
theorem key_authorization_shape (token thumbInput : List Char) :
    keyAuthorization token thumbInput
      = token ++ ".".toList ++ encodeUrl (Sha256.hash (utf8 thumbInput)) ∧
    (encodeUrl (Sha256.hash (utf8 thumbInput))).length = 43 := by
  constructor
  · simp [keyAuthorization]
  · rw [b64url_length, hash_length]

theorem proof_http (token thumbInput : List Char) :
    proofHttp token thumbInput = keyAuthorization token thumbInput := rfl

theorem proof_dns (ka : List Char) :
    proofDns ka = encodeUrl (Sha256.hash (utf8 ka)) ∧ (proofDns ka).length = 43 := by
  refine ⟨rfl, ?_⟩
  unfold proofDns; rw [b64url_length, hash_length]

theorem hexColon_length (bs : List UInt8) : (hexColon bs).length = 3 * bs.length - 1 :=
  length_hexColon bs

/-- C05 `proof_tls_alpn` (text). -/
theorem proof_tls_alpn_shape (digest : List UInt8) (h : digest.length = 32) :
    proofTlsAlpn digest = "1.3.6.1.5.5.7.1.31=critical,DER:04:20:".toList ++ hexColon digest ∧
    (proofTlsAlpn digest).length = 133 := by
  have hs : proofTlsAlpn digest
      = "1.3.6.1.5.5.7.1.31=critical,DER:04:20:".toList ++ hexColon digest := by
    unfold proofTlsAlpn proofTlsAlpnValue
    rw [h, hexMin2_32]
    have e : acmeExtName ++ '=' :: ("critical,DER:04:".toList ++ ['2', '0'] ++ [':'])
        = "1.3.6.1.5.5.7.1.31=critical,DER:04:20:".toList := by decide
    rw [← e]
    simp only [List.append_assoc, List.cons_append, List.nil_append]
  refine ⟨hs, ?_⟩
  have l : "1.3.6.1.5.5.7.1.31=critical,DER:04:20:".toList.length = 38 := by decide
  rw [hs, List.length_append, length_hexColon, h, l]

theorem raw_proof_tls_alpn (digest : List UInt8) : rawProofTlsAlpn digest = encodeUrl digest := rfl

/-- Every sequence of bytes written as `aa:bb:…` is read back by OpenSSL's hex reader. -/
theorem hexBytes_roundtrip (bs : List UInt8) : hexBytes (hexColon bs) = some bs :=
  hexBytes_hexColon bs

/-- C05 `proof_tls_alpn`, C16 `ext_bytes_exact`: OpenSSL's reading of the value is `critical` and
the DER OCTET STRING `04 20 ‖ digest`. -/
theorem parseDerConf_proof (digest : List UInt8) (h : digest.length = 32) :
    parseDerConf (proofTlsAlpnValue digest) = some (true, [0x04, 0x20] ++ digest) := by
  have hb : hexBytes ('0' :: '4' :: ':' :: '2' :: '0' :: ':' :: hexColon digest)
      = some (0x04 :: 0x20 :: digest) := by
    have h4 : hex2 0x04 = ['0', '4'] := by decide
    have h20 : hex2 0x20 = ['2', '0'] := by decide
    have := hexBytes_hex2 0x04 (':' :: (hex2 0x20 ++ ':' :: hexColon digest)) (0x20 :: digest)
      (by rw [hexBytes_colon]
          exact hexBytes_hex2 _ _ _ (by rw [hexBytes_colon]; exact hexBytes_hexColon digest))
    rw [h4, h20] at this
    exact this
  unfold proofTlsAlpnValue
  rw [h, hexMin2_32]
  generalize hexColon digest = X at hb ⊢
  have e0 : "critical,DER:04:".toList
      = "critical,".toList ++ ("DER:".toList ++ ['0', '4', ':']) := by decide
  have e : "critical,DER:04:".toList ++ ['2', '0'] ++ ':' :: X
      = "critical,".toList ++ ("DER:".toList ++ ('0' :: '4' :: ':' :: '2' :: '0' :: ':' :: X)) := by
    rw [e0]; simp only [List.append_assoc, List.cons_append, List.nil_append]
  have d1 : ∀ t, List.dropWhile isCSpace ("DER:".toList ++ t) = "DER:".toList ++ t := fun _ => rfl
  have d2 : ∀ t, List.dropWhile isCSpace ('0' :: t) = '0' :: t := fun _ => rfl
  rw [e]
  simp only [parseDerConf, skipPrefix_append, d1, d2, hb]
  rfl

/-- … and `gen_certificate`'s split at `=` finds the OID and that value. -/
theorem splitExt_proof (digest : List UInt8) :
    splitExt (proofTlsAlpn digest) = some (acmeExtName, proofTlsAlpnValue digest) :=
  splitExt_proofTlsAlpn digest

/-! ## non-vacuity: the hypotheses above are met by concrete, non-trivial inputs -/

/-- `3 ∣ xs.length` with a non-empty `xs` and a `ys` that needs padding. -/
example : encodeStd ([1, 2, 3] ++ [4]) = encodeStd [1, 2, 3] ++ encodeStd [4] :=
  b64std_append [1, 2, 3] [4] ⟨1, rfl⟩

/-- `n < 256 ^ w` with a leading zero byte (the rare case the 0.21.0 defect got wrong). -/
example : ofNatFixed 4 65537 = some [0, 1, 0, 1] := by
  obtain ⟨bs, h, hl, hv⟩ := bytes_fixed_roundtrip 4 65537 (by decide)
  rw [ofNatFixed, ofNatMin, ofNatLE_pos (by decide), ofNatLE_pos (by decide),
    ofNatLE_pos (by decide), show 65537 / 256 / 256 / 256 = 0 by decide, ofNatLE_zero]
  decide

example : curveInfo "ecdsa-p256".toList = some ("P-256".toList, "ES256".toList, 32) := by decide
example : curveInfo "ecdsa-p384".toList = some ("P-384".toList, "ES384".toList, 48) := by decide
example : curveInfo "ecdsa-p521".toList = some ("P-521".toList, "ES512".toList, 66) := by decide
example : (1 : Nat) < 256 ^ 32 ∧ (2 ^ 255 + 19 : Nat) < 256 ^ 32 := by decide

/-- `sig_roundtrip` with a short `r` on P-256. -/
example : ∃ sig, sigEncode 32 1 (2 ^ 255 + 19) = some sig ∧ sig.length = 64 ∧
    sigDecode 32 sig = some (1, 2 ^ 255 + 19) :=
  sig_roundtrip 32 1 (2 ^ 255 + 19) (by decide) (by decide)

/-- a 32-byte key and a 57-byte key exist (`okp_x_exact`, `okp_x_exact_ed448`). -/
example : (List.replicate 32 (7 : UInt8)).length = 32 ∧ (List.replicate 57 (255 : UInt8)).length = 57 :=
  ⟨rfl, rfl⟩
example : spkiPrefixEd25519.length = 12 ∧ spkiPrefixEd448.length = 12 := ⟨rfl, rfl⟩
example : (List.replicate 32 (7 : UInt8)).length = 32 := rfl

/-- `escape crv = crv` for the names in use. -/
example : escape "Ed25519".toList = "Ed25519".toList ∧ noWs "Ed25519".toList = true := by decide

/-! ## tests (sample evaluations, NOT proofs of the general statements) -/

/-- test: RFC 4648 §10 vectors. -/
example : encodeStd (utf8 "foobar".toList) = "Zm9vYmFy".toList := by decide
example : encodeStd [0x66] = "Zg==".toList ∧ encodeStd [0x66, 0x6f] = "Zm8=".toList := by decide
/-- test: `jws.rs` `test_default_nopad_jwk`. -/
example : encodeUrl (utf8 "Dummy payload".toList) = "RHVtbXkgcGF5bG9hZA".toList := by decide
/-- test: strictness of the decoder. -/
example : decodeUrl "RHVtbXkgcGF5bG9hZA==".toList = none ∧ decodeUrl "RHVtbXkgcGF5bG9hZB".toList = none
    ∧ decodeUrl "A".toList = none ∧ decodeUrl "AA+A".toList = none
    ∧ decodeUrl "-_-_".toList = some [251, 255, 191] := by decide
/-- test: FIPS 180-4 / NIST vectors `""` and `"abc"`, evaluated by the kernel. -/
example : Sha256.hash [] =
    [0xe3, 0xb0, 0xc4, 0x42, 0x98, 0xfc, 0x1c, 0x14, 0x9a, 0xfb, 0xf4, 0xc8, 0x99, 0x6f, 0xb9, 0x24,
     0x27, 0xae, 0x41, 0xe4, 0x64, 0x9b, 0x93, 0x4c, 0xa4, 0x95, 0x99, 0x1b, 0x78, 0x52, 0xb8, 0x55] := by
  decide +kernel
example : Sha256.hash [0x61, 0x62, 0x63] =
    [0xba, 0x78, 0x16, 0xbf, 0x8f, 0x01, 0xcf, 0xea, 0x41, 0x41, 0x40, 0xde, 0x5d, 0xae, 0x22, 0x23,
     0xb0, 0x03, 0x61, 0xa3, 0x96, 0x17, 0x7a, 0x9c, 0xb4, 0x10, 0xff, 0x61, 0xf2, 0x00, 0x15, 0xad] := by
  decide +kernel
/-- test: RFC 7638 §3.1 example thumbprint input shape (`e` = 65537). -/
example : jwkRsa [0xc0, 0xff, 0xee] [1, 0, 1] true
    = "{\"e\":\"AQAB\",\"kty\":\"RSA\",\"n\":\"wP_u\"}".toList := by decide
/-- test: RFC 8037 §A.2 public key → `x`. -/
example : jwkOkp "Ed25519".toList
    [0xd7, 0x5a, 0x98, 0x01, 0x82, 0xb1, 0x0a, 0xb7, 0xd5, 0x4b, 0xfe, 0xd3, 0xc9, 0x64, 0x07, 0x3a,
     0x0e, 0xe1, 0x72, 0xf3, 0xda, 0xa6, 0x23, 0x25, 0xaf, 0x02, 0x1a, 0x68, 0xf7, 0x07, 0x51, 0x1a] true
    = "{\"crv\":\"Ed25519\",\"kty\":\"OKP\",\"x\":\"11qYAYKxCrfVS_7TyWQHOg7hcvPapiMlrwIaaPcHURo\"}".toList := by
  decide +kernel
/-- test: the JSON escaper on every class of character. -/
example : str "a\"b\\c\n\x01\x7f/é".toList = "\"a\\\"b\\\\c\\n\\u0001\x7f/é\"".toList := by decide
/-- test: OpenSSL's hex reader is lenient about colons and case, strict about odd digits. -/
example : hexBytes "::0A:ff:".toList = some [10, 255] ∧ hexBytes "0a:f".toList = none
    ∧ hexBytes "0a f0".toList = none := by decide
example : parseDerConf "DER:0401".toList = some (false, [4, 1])
    ∧ parseDerConf "critical, DER: 04:01".toList = some (true, [4, 1])
    ∧ parseDerConf "critical,ASN1:NULL".toList = none := by decide

end AcmedVerif.Props.C15
