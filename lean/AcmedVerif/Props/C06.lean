/-
C06 — renewal exactly when due.

"Whenever the daemon evaluates a certificate it requests a new one immediately if the certificate
or key file is missing or the certificate lacks any configured identifier; otherwise it waits until
notAfter minus renew_delay, minus a random amount in [0, random_early_renew), never longer and
never a negative or overflowing time.  A freshly issued certificate that covers all identifiers and
outlives renew_delay is therefore not renewed again immediately."

Theorems about `Model/Renew.lean` (`schedule` = `Certificate::schedule_renewal` with the repaired
`expires_in`; `scheduleOld` = with `expires_in` as it stands, `i32` arithmetic).  The statements
about `schedule` hold for ALL inputs.  About the unrepaired code the full statement is false
(`far_future_old_is_false`, and `far_past_old_release_waits`); it holds on the explicit class
`−2^31 ≤ notAfter − now < 2^31` seconds (`old_agrees_below_limit`, `old_schedule_partial`).
Helper lemmas in `Lemmas/Renew.lean`.
-/
import AcmedVerif.Model.Renew
import AcmedVerif.Spec.C06
import AcmedVerif.Lemmas.Renew

namespace AcmedVerif.Props.C06
open AcmedVerif.Renew

/-- Admissible random draw: `gen_range(ZERO..rer)` returns a value below `rer`; no draw when
`rer = 0` (then the input is ignored). -/
def admissible (rerNs jitterNs : Nat) : Prop := rerNs = 0 ∨ jitterNs < rerNs

/-- Both files exist, the certificate parses as `c` and names every configured identifier. -/
def covering (disk : Disk) (ids : List (List Char)) (c : Cert) : Prop :=
  disk.keyFile = true ∧ disk.certFile = true ∧ disk.cert = some c ∧ ∀ i ∈ ids, i ∈ c.sans

/-! ### C06.1 -/

/-- Key file missing, or certificate file missing, or (both present and) the parsed certificate
lacks some configured identifier ⇒ `Ok(Duration::ZERO)`: request immediately.  Whatever the delay,
the random amount and the expiry date. -/
theorem missing_file_or_id_immediate (disk : Disk) (ids : List (List Char))
    (delayNs rerNs jitterNs : Nat)
    (h : disk.keyFile = false ∨ disk.certFile = false ∨
         ∃ c, disk.cert = some c ∧ ∃ i ∈ ids, i ∉ c.sans) :
    schedule disk ids delayNs rerNs jitterNs = .now ∧
    (schedule disk ids delayNs rerNs jitterNs).toNs = some 0 := by
  have : schedule disk ids delayNs rerNs jitterNs = .now := by
    unfold schedule filesExist
    rcases h with h | h | ⟨c, hc, hi⟩
    · simp [h]
    · simp [h]
    · have hm : missing ids c.sans = true := (missing_iff ids c.sans).2 hi
      cases disk.keyFile <;> cases disk.certFile <;> simp [hc, hm]
  rw [this]; exact ⟨rfl, rfl⟩

/-! ### C06.2 -/

/-- Otherwise the wait is exactly `((max (notAfter − now) 0) − renew_delay) − random amount`, each
subtraction truncated at zero; no random amount when `random_early_renew = 0`. -/
theorem renew_in_value (disk : Disk) (ids : List (List Char)) (c : Cert)
    (delayNs rerNs jitterNs : Nat) (h : covering disk ids c) :
    schedule disk ids delayNs rerNs jitterNs =
      .wait ((c.notAfterIn.toNat * NS - delayNs) - (if rerNs = 0 then 0 else jitterNs)) := by
  obtain ⟨hk, hcf, hc, hcov⟩ := h
  have hm : missing ids c.sans = false := by
    cases hmm : missing ids c.sans
    · rfl
    · obtain ⟨i, hi, hni⟩ := (missing_iff ids c.sans).1 hmm
      exact absurd (hcov i hi) hni
  unfold schedule filesExist renewIn
  simp only [hk, hcf, hc, hm, expiresIn_eq]
  by_cases hr : rerNs = 0 <;> simp [hr]

/-- Never longer: whatever is on disk, whatever the random draw (admissible or not), a returned
wait never exceeds `notAfter − now − renew_delay`, nor `notAfter − now`. -/
theorem never_longer (disk : Disk) (ids : List (List Char)) (delayNs rerNs jitterNs n : Nat)
    (hn : (schedule disk ids delayNs rerNs jitterNs).toNs = some n) (c : Cert)
    (hc : disk.cert = some c) :
    n ≤ c.notAfterIn.toNat * NS - delayNs ∧ n ≤ c.notAfterIn.toNat * NS := by
  unfold schedule at hn
  simp only [hc] at hn
  split at hn
  · simp only [Sched.toNs, Option.some.injEq] at hn; omega
  · split at hn
    · simp only [Sched.toNs, Option.some.injEq] at hn; omega
    · simp only [Sched.toNs, Option.some.injEq] at hn
      have := renewIn_le (expiresIn c.notAfterIn) delayNs rerNs jitterNs
      rw [hn, expiresIn_eq] at this
      omega

/-- Never negative (the result is a `Nat`: both subtractions saturate) and never overflowing: the
result is at most `expires_in`, which is at most `(2^31−1)·86400 + 86399` seconds for any `c_int`
day count, far below `u64::MAX` seconds, the capacity of `Duration`. -/
theorem never_negative_or_overflowing (disk : Disk) (ids : List (List Char))
    (delayNs rerNs jitterNs n : Nat)
    (hn : (schedule disk ids delayNs rerNs jitterNs).toNs = some n) (c : Cert)
    (hc : disk.cert = some c) (hd : daysFit c.notAfterIn) :
    n ≤ expiresIn c.notAfterIn * NS ∧
    expiresIn c.notAfterIn * NS ≤ (2^31 * 86400 + 86399) * NS ∧
    (2^31 * 86400 + 86399) * NS < 2^64 * NS ∧
    n / NS < 2^64 := by
  have h1 := (never_longer disk ids delayNs rerNs jitterNs n hn c hc).2
  have h2 := expiresIn_le_of_daysFit c.notAfterIn hd
  rw [← expiresIn_eq] at h1
  unfold NS at *
  refine ⟨h1, by omega, by omega, ?_⟩
  apply Nat.div_lt_of_lt_mul
  omega

/-- The guard `!self.random_early_renew.is_zero()` makes `gen_range` total: for every input
`renew_in` returns (no "cannot sample empty range" panic), the requested range `0..rer` is
non-empty whenever it is requested; without the guard `rer = 0` panics. -/
theorem no_empty_range (expSecs delayNs rerNs jitterNs : Nat) :
    renewInP expSecs delayNs rerNs jitterNs = some (renewIn expSecs delayNs rerNs jitterNs) ∧
    (rerNs ≠ 0 → genRange 0 rerNs jitterNs = some jitterNs) ∧
    renewInUnguardedP expSecs delayNs 0 jitterNs = none :=
  ⟨renewInP_eq _ _ _ _, fun h => by simp [genRange, Nat.pos_of_ne_zero h], rfl⟩

/-! ### C06.3 -/

/-- A certificate that covers every identifier and whose remaining life exceeds `renew_delay`
plus `random_early_renew` is not renewed at once, for every admissible random draw. -/
theorem fresh_cert_waits (disk : Disk) (ids : List (List Char)) (c : Cert)
    (delayNs rerNs jitterNs : Nat) (h : covering disk ids c)
    (hfresh : delayNs + rerNs < c.notAfterIn.toNat * NS) (hj : admissible rerNs jitterNs) :
    ∃ n, schedule disk ids delayNs rerNs jitterNs = .wait n ∧ 0 < n := by
  refine ⟨_, renew_in_value disk ids c delayNs rerNs jitterNs h, ?_⟩
  rcases hj with hj | hj
  · simp only [hj, if_true]; omega
  · have : rerNs ≠ 0 := by omega
    simp only [this, if_false]; omega

/-! ### Model against judge -/

/-- Every duration `schedule_renewal` returns is accepted by the judge, for every input and every
admissible random draw. -/
theorem schedule_meets_spec (disk : Disk) (ids : List (List Char)) (delayNs rerNs jitterNs : Nat)
    (hj : admissible rerNs jitterNs) (n : Nat)
    (hn : (schedule disk ids delayNs rerNs jitterNs).toNs = some n) :
    Spec.C06.holds disk ids delayNs rerNs n = true := by
  obtain ⟨k, cf, cert⟩ := disk
  unfold Spec.C06.holds Spec.C06.holdsWithSlack
  unfold schedule filesExist at hn
  cases k <;> cases cf <;> try (simp [Sched.toNs] at hn; simp [hn])
  cases cert with
  | none => simp at hn
  | some c =>
    cases hm : Spec.C06.covered ids c.sans
    · simp [missing_eq_not_covered, hm] at hn; simp [hm, hn]
    · simp only [missing_eq_not_covered, hm, Bool.not_true, Bool.false_eq_true, if_false,
        Option.some.injEq] at hn
      simp only [hm, Spec.C06.expNs_zero]
      rw [← hn, expiresIn_eq]
      unfold renewIn Spec.C06.lo Spec.C06.hi NS
      simp only
      rcases hj with hj | hj
      · simp [hj]
      · have hr : rerNs ≠ 0 := by omega
        simp only [hr, ne_eq, not_false_eq_true, if_true, if_false, Bool.true_eq_false,
          Bool.and_eq_true, decide_eq_true_eq]
        omega

/-- The same including the error outcome and any slack. -/
theorem schedule_meets_spec_outcome (disk : Disk) (ids : List (List Char))
    (delayNs rerNs jitterNs slackNs : Nat) (hj : admissible rerNs jitterNs) :
    Spec.C06.holdsOutcome disk ids delayNs rerNs slackNs
      (schedule disk ids delayNs rerNs jitterNs).toNs = true := by
  cases hs : (schedule disk ids delayNs rerNs jitterNs).toNs with
  | some n =>
    exact Spec.C06.holdsWithSlack_mono disk ids delayNs rerNs 0 slackNs n (Nat.zero_le _)
      (schedule_meets_spec disk ids delayNs rerNs jitterNs hj n hs)
  | none =>
    obtain ⟨k, cf, cert⟩ := disk
    unfold schedule filesExist at hs
    cases k <;> cases cf <;> cases cert <;> simp [Sched.toNs, Spec.C06.holdsOutcome] at hs ⊢
    rename_i c
    cases hmm : missing ids c.sans <;> simp [hmm] at hs

/-- The judge enforces clause C06.3: an accepted observation of a fresh covering certificate is
positive. -/
theorem holds_implies_fresh (disk : Disk) (ids : List (List Char)) (delayNs rerNs obs : Nat)
    (h : Spec.C06.holds disk ids delayNs rerNs obs = true) :
    Spec.C06.freshOk disk ids delayNs rerNs obs = true := by
  obtain ⟨k, cf, cert⟩ := disk
  unfold Spec.C06.freshOk
  unfold Spec.C06.holds Spec.C06.holdsWithSlack at h
  cases cert with
  | none => rfl
  | some c =>
    cases k <;> cases cf <;> try simp
    cases hm : Spec.C06.covered ids c.sans
    · simp
    · simp only [hm, Bool.and_self, Bool.not_true, Bool.false_eq_true, if_false, Bool.and_eq_true,
        decide_eq_true_eq, Int.neg_zero, Int.natCast_zero] at h
      unfold Spec.C06.lo Spec.C06.hi at h
      by_cases hf : Spec.C06.expNs c.notAfterIn 0 ≤ delayNs + rerNs
      · exact Or.inl (Or.inr hf)
      · refine Or.inr ?_
        split at h <;> omega

/-! ### The retry loop around `schedule_renewal` -/

/-- `backoff[scheduling_retries.min(backoff.len() - 1)]` never indexes out of bounds and every
pause after a failed evaluation is between 60 s and one day, for every number of retries. -/
theorem backoff_in_bounds (retries : Nat) :
    backoffIdx retries < AcmedVerif.Gen.backoff.length ∧
    AcmedVerif.Gen.backoff[backoffIdx retries]? = some (backoffSecs retries) ∧
    60 ≤ backoffSecs retries ∧ backoffSecs retries ≤ 86400 :=
  ⟨backoffIdx_lt retries, backoffSecs_cases retries⟩

/-- Observation o seen from C06: while the certificate file exists but cannot be parsed, every
evaluation errs, so the loop only sleeps (60 s, 10 min, 100 min, then a day each time) and a new
certificate is never requested — a corrupt file is worse than a missing one. -/
theorem corrupt_cert_never_requests (key : Bool) (ids : List (List Char))
    (delayNs rerNs jitterNs : Nat) (n : Nat) :
    schedule ⟨true, true, none⟩ ids delayNs rerNs jitterNs = .error ∧
    (loopSleeps 0 (List.replicate n .error)).2 = false ∧
    schedule ⟨key, false, none⟩ ids delayNs rerNs jitterNs = .now := by
  refine ⟨rfl, ?_, ?_⟩
  · rw [loopSleeps_error_prefix]
  · cases key <;> rfl

/-! ### std `Duration` -/

/-- `renew_in` computed on `Duration { secs, nanos }` with std's `checked_sub` is `renewIn` on
nanosecond counts (Appendix E8 normalisation). -/
theorem renew_in_duration (expSecs : Nat) (delay rer jitter : Dur) (hd : delay.wf) (hj : jitter.wf) :
    (renewInDur expSecs delay rer jitter).toNs = renewIn expSecs delay.toNs rer.toNs jitter.toNs :=
  renewInDur_toNs expSecs delay rer jitter hd hj

/-! ### The unrepaired `expires_in` -/

def exampleCom : List Char := "example.com".toList

/-- **The full property is false of the code as it stands.**  Witness: a certificate for
`example.com`, all files present, valid for 25 000 more days, `renew_delay` 30 days, no random
amount.  Dev profile: the thread panics (`attempt to multiply with overflow`).  Release profile:
`Ok(0 s)` — renew at once, and again after every issuance — where 24 970 days is due. -/
theorem far_future_old_is_false :
    let disk : Disk := ⟨true, true, some ⟨[exampleCom], 25000 * 86400⟩⟩
    let delay : Nat := 30 * 86400 * NS
    expiresInOld .dev (25000 * 86400) = .panic ∧
    expiresInOld .release (25000 * 86400) = .ok 0 ∧
    scheduleOld .dev disk [exampleCom] delay 0 0 = none ∧
    scheduleOld .release disk [exampleCom] delay 0 0 = some (.wait 0) ∧
    schedule disk [exampleCom] delay 0 0 = .wait (24970 * 86400 * NS) ∧
    ¬ (∀ (p : Profile) (disk : Disk) (ids : List (List Char)) (c : Cert) (delayNs rerNs jitterNs : Nat),
        covering disk ids c → delayNs + rerNs < c.notAfterIn.toNat * NS →
        admissible rerNs jitterNs →
        ∃ n, scheduleOld p disk ids delayNs rerNs jitterNs = some (.wait n) ∧ 0 < n) := by
  refine ⟨by decide, by decide, by decide, by decide, by decide, ?_⟩
  intro hall
  obtain ⟨n, hn, hpos⟩ := hall .release ⟨true, true, some ⟨[exampleCom], 25000 * 86400⟩⟩
    [exampleCom] ⟨[exampleCom], 25000 * 86400⟩ (30 * 86400 * NS) 0 0
    ⟨rfl, rfl, rfl, by decide⟩ (by decide) (Or.inl rfl)
  have h0 : scheduleOld .release ⟨true, true, some ⟨[exampleCom], 25000 * 86400⟩⟩ [exampleCom]
      (30 * 86400 * NS) 0 0 = some (.wait 0) := by decide
  rw [h0] at hn
  simp only [Option.some.injEq, Sched.wait.injEq] at hn
  omega

/-- Second witness, release profile, the other direction ("never longer" fails): a certificate
that expired 27 000 days ago (clock far ahead) wraps to a positive `i32`: the daemon waits
62 years instead of renewing at once. -/
theorem far_past_old_release_waits :
    let disk : Disk := ⟨true, true, some ⟨[exampleCom], -(27000 * 86400)⟩⟩
    expiresInOld .release (-(27000 * 86400)) = .ok 1962167296 ∧
    scheduleOld .release disk [exampleCom] 0 0 0 = some (.wait (1962167296 * NS)) ∧
    schedule disk [exampleCom] 0 0 0 = .wait 0 := by
  refine ⟨by decide, by decide, by decide⟩

/-- Below the `i32` limit — `notAfter − now` within `[−2^31, 2^31)` seconds, about ±68 years — the
unrepaired computation equals the repaired one in both profiles; in the dev profile that range is
exactly where it does not panic. -/
theorem old_agrees_below_limit (p : Profile) (d : Int)
    (hlo : -2147483648 ≤ d) (hhi : d < 2147483648) :
    expiresInOld p d = .ok (expiresIn d) ∧
    ((∃ n, expiresInOld .dev d = .ok n) ↔ (-2147483648 ≤ d ∧ d < 2147483648)) :=
  ⟨expiresInOld_of_small p d hlo hhi, expiresInOld_dev_ok_iff d⟩

/-- The `_partial` of the unrepaired tree: on that class `schedule_renewal` as it stands is the
repaired one, so every theorem above applies to it. -/
theorem old_schedule_partial (p : Profile) (disk : Disk) (ids : List (List Char))
    (delayNs rerNs jitterNs : Nat)
    (h : ∀ c, disk.cert = some c → -2147483648 ≤ c.notAfterIn ∧ c.notAfterIn < 2147483648) :
    scheduleOld p disk ids delayNs rerNs jitterNs = some (schedule disk ids delayNs rerNs jitterNs) := by
  unfold scheduleOld schedule
  split
  · rfl
  · cases hc : disk.cert with
    | none => rfl
    | some c =>
      simp only
      split
      · rfl
      · rw [expiresInOld_of_small p c.notAfterIn (h c hc).1 (h c hc).2]

/-- The model's `i32` steps are core `Int32` arithmetic. -/
theorem old_wrap_is_int32 (a b : Int32) :
    wrap32 (a.toInt * b.toInt) = (a * b).toInt ∧ wrap32 (a.toInt + b.toInt) = (a + b).toInt :=
  ⟨wrap32_mul_int32 a b, wrap32_add_int32 a b⟩

/-! ### Non-vacuity: every hypothesis above is satisfied by a concrete, non-trivial input -/

def www : List Char := "www.example.com".toList
def ip6 : List Char := "2001:db8::1".toList

/-- 90-day certificate for three names (a superset, other order), two configured. -/
def disk90 : Disk := ⟨true, true, some ⟨[www, ip6, exampleCom], 90 * 86400⟩⟩
def delay30 : Nat := 30 * 86400 * NS
def rer2d : Nat := 2 * 86400 * NS

-- missing_file_or_id_immediate: each disjunct
example : schedule { disk90 with keyFile := false } [exampleCom] delay30 rer2d 5 = .now := by decide
example : schedule { disk90 with certFile := false } [exampleCom] delay30 rer2d 5 = .now := by decide
example : ∃ c, disk90.cert = some c ∧ ∃ i ∈ [exampleCom, "*.example.com".toList], i ∉ c.sans :=
  ⟨_, rfl, "*.example.com".toList, by decide, by decide⟩
example : schedule disk90 [exampleCom, "*.example.com".toList] delay30 rer2d 5 = .now := by decide

-- renew_in_value / fresh_cert_waits / never_longer: `covering`, freshness, admissibility hold
example : covering disk90 [exampleCom, ip6] ⟨[www, ip6, exampleCom], 90 * 86400⟩ :=
  ⟨rfl, rfl, rfl, by decide⟩
example : delay30 + rer2d < ((90 * 86400 : Int).toNat) * NS := by decide
example : admissible rer2d 123456789 := Or.inr (by decide)
example : admissible 0 77 := Or.inl rfl
example : schedule disk90 [exampleCom, ip6] delay30 rer2d 123456789 =
    .wait (60 * 86400 * NS - 123456789) := by decide
example : schedule disk90 [exampleCom, ip6] delay30 0 123456789 = .wait (60 * 86400 * NS) := by decide
-- delay beyond the lifetime and an expired certificate saturate at 0
example : schedule disk90 [exampleCom] (91 * 86400 * NS) rer2d 5 = .wait 0 := by decide
example : schedule ⟨true, true, some ⟨[exampleCom], -5⟩⟩ [exampleCom] 0 0 0 = .wait 0 := by decide
-- the random amount larger than what is left saturates too
example : schedule disk90 [exampleCom] (90 * 86400 * NS - 10) 100 99 = .wait 0 := by decide

-- never_negative_or_overflowing: `daysFit` holds of real certificates, and the bound is tight
example : daysFit (90 * 86400) := by decide
example : daysFit (3660000 * 86400) := by decide
example : expiresIn (2147483647 * 86400 + 86399) = 2147483647 * 86400 + 86399 := by decide

-- schedule_meets_spec: accepted observations, and the judge is not trivially true
example : Spec.C06.holds disk90 [exampleCom, ip6] delay30 rer2d (60 * 86400 * NS - 123456789) = true := by
  decide
example : Spec.C06.holds disk90 [exampleCom, ip6] delay30 rer2d (60 * 86400 * NS + 1) = false := by decide
example : Spec.C06.holds disk90 [exampleCom, ip6] delay30 rer2d (58 * 86400 * NS) = false := by decide
example : Spec.C06.holds disk90 [exampleCom, ip6] delay30 rer2d (58 * 86400 * NS + 1) = true := by decide
example : Spec.C06.holds disk90 [exampleCom, "x".toList] delay30 rer2d 1 = false := by decide
example : Spec.C06.holds disk90 [exampleCom, "x".toList] delay30 rer2d 0 = true := by decide
example : Spec.C06.holds ⟨true, true, none⟩ [exampleCom] delay30 rer2d 0 = false := by decide
example : Spec.C06.holdsOutcome ⟨true, true, none⟩ [exampleCom] delay30 rer2d 0 none = true := by decide
example : Spec.C06.holdsOutcome disk90 [exampleCom] delay30 rer2d 0 none = false := by decide
example : Spec.C06.holdsWithSlack disk90 [exampleCom] delay30 0 (2 * NS) (60 * 86400 * NS + 2 * NS) = true := by
  decide
example : Spec.C06.holdsWithSlack disk90 [exampleCom] delay30 0 (2 * NS) (60 * 86400 * NS + 2 * NS + 1) = false := by
  decide

-- backoff_in_bounds / the loop
example : (List.range 6).map backoffSecs = [60, 600, 6000, 86400, 86400, 86400] := by decide
example : loopSleeps 0 [.error, .error, .wait 7] = ([60 * NS, 600 * NS, 7], true) := by decide

-- old_agrees_below_limit: the class contains every certificate of ordinary lifetime, and its edge
example : expiresInOld .dev (90 * 86400) = .ok (90 * 86400) := by decide
example : expiresInOld .release 2147483647 = .ok 2147483647 := by decide
example : expiresInOld .dev 2147483648 = .panic := by decide
example : expiresInOld .release 2147483648 = .ok 0 := by decide
example : expiresInOld .release (50000 * 86400) = .ok 25032704 := by decide  -- wraps positive: too early

-- renew_in_duration: a borrow across the seconds boundary
example : renewInDur 10 ⟨3, 500000000⟩ ⟨0, 800000000⟩ ⟨0, 700000000⟩ = ⟨5, 800000000⟩ := by decide

end AcmedVerif.Props.C06
