/-
C11, "a contact edit is noticed": theorems about the message the contacts fingerprint is computed
over (`Model/ContactsFp.lean` = the loop of `hash_contacts`, `acmed/src/account.rs:309-318`).

`Model/AccountMulti.lean` / `Model/Flow.lean` stand for the stored and the configured fingerprint by
"an identity of the contact list" and compare identities (`contactsHash != some sh.contacts`), i.e.
they take for granted that two different lists never share a fingerprint.  Here that is proved for
the construction the code uses (`message_injective`, for ALL lists of ALL lengths, the only guard being
that a contact text is shorter than 2^64 bytes, which `usize as u64` guarantees), and refuted for the
construction the code used before commit 592a561 (`messageOld_collides`: the repaired defect).

NOT proved: that SHA-256 itself has no collisions (it has, by counting; finding one is believed
infeasible).  The theorems are about the MESSAGE that is hashed; `fingerprint_injective_of` shows
exactly where the cryptographic assumption enters.  The real function is tied to `fingerprint` byte
for byte by `py/ext/contactsfp.py` (SHA-256 of the model = `Model/Sha256.lean`, itself compared with
OpenSSL there).
-/
import AcmedVerif.Lemmas.ContactsFp
import AcmedVerif.Spec.C11Fp

namespace AcmedVerif.Props.C11Fp
open AcmedVerif.ContactsFp

/-! ### Witnesses (explicit bytes: `decide` does not evaluate string literals) -/

/-- `"a@example.org"` -/
def wA : List UInt8 := [0x61, 0x40, 0x65, 0x78, 0x61, 0x6d, 0x70, 0x6c, 0x65, 0x2e, 0x6f, 0x72, 0x67]
/-- `"c@example.org"` -/
def wC : List UInt8 := [0x63, 0x40, 0x65, 0x78, 0x61, 0x6d, 0x70, 0x6c, 0x65, 0x2e, 0x6f, 0x72, 0x67]
/-- `"a@example.orgmailto:c@example.org"` -/
def wAC : List UInt8 := [0x61, 0x40, 0x65, 0x78, 0x61, 0x6d, 0x70, 0x6c, 0x65, 0x2e, 0x6f, 0x72, 0x67, 0x6d, 0x61, 0x69, 0x6c, 0x74, 0x6f, 0x3a, 0x63, 0x40, 0x65, 0x78, 0x61, 0x6d, 0x70, 0x6c, 0x65, 0x2e, 0x6f, 0x72, 0x67]
/-- `"mailto:a@example.org"` -/
def wTextA : List UInt8 := [0x6d, 0x61, 0x69, 0x6c, 0x74, 0x6f, 0x3a, 0x61, 0x40, 0x65, 0x78, 0x61, 0x6d, 0x70, 0x6c, 0x65, 0x2e, 0x6f, 0x72, 0x67]

example : wAC = wA ++ mailtoPrefix ++ wC := by decide
example : wTextA = contactText wA := by decide

/-- The message of the current `hash_contacts` determines the contact list: for all lists `a`, `b`
(any number of contacts, any bytes) whose contact texts are shorter than 2^64 bytes. -/
theorem message_injective (a b : List (List UInt8)) (ha : Fits a) (hb : Fits b)
    (h : message a = message b) : a = b := by
  induction a generalizing b with
  | nil =>
    cases b with
    | nil => rfl
    | cons y ys =>
      rw [message_nil, message_cons] at h
      exact absurd (List.append_eq_nil_iff.mp h.symm).1 (frame_ne_nil y)
  | cons x xs ih =>
    cases b with
    | nil =>
      rw [message_nil, message_cons] at h
      exact absurd (List.append_eq_nil_iff.mp h).1 (frame_ne_nil x)
    | cons y ys =>
      rw [message_cons, message_cons] at h
      have ⟨hx, hxs⟩ := fits_cons ha
      have ⟨hy, hys⟩ := fits_cons hb
      have ⟨h1, h2⟩ := frame_append_inj hx hy h
      rw [h1, ih ys hxs hys h2]

/-- The same at the level of contact TEXTS (`contact.to_string()`): equal messages, equal lists of
texts.  (`contactText` is injective, so this and `message_injective` say the same.) -/
theorem message_injective_texts (a b : List (List UInt8)) (ha : Fits a) (hb : Fits b)
    (h : message a = message b) : a.map contactText = b.map contactText := by
  rw [message_injective a b ha hb h]

/-- Contact texts determine contact values (the only type is `mailto`). -/
theorem texts_injective (a b : List (List UInt8)) (h : a.map contactText = b.map contactText) : a = b := by
  induction a generalizing b with
  | nil => cases b with
    | nil => rfl
    | cons _ _ => simp at h
  | cons x xs ih => cases b with
    | nil => simp at h
    | cons y ys =>
      simp only [List.map_cons, List.cons.injEq] at h
      rw [contactText_injective h.1, ih ys h.2]

/-- An edit of the contacts changes the message that is hashed. -/
theorem edit_changes_message (a b : List (List UInt8)) (ha : Fits a) (hb : Fits b) (h : a ≠ b) :
    message a ≠ message b :=
  fun e => h (message_injective a b ha hb e)

/-- In the property's words: the message behind the STORED fingerprint equals the message behind the
fingerprint of the CONFIGURED contacts exactly when the contacts are those that were stored, so
`contacts_changed` (`account.rs:216, 229`) is raised by every edit and by nothing else — up to
SHA-256. -/
theorem stored_eq_configured_iff (stored configured : List (List UInt8)) (hs : Fits stored)
    (hc : Fits configured) : message stored = message configured ↔ stored = configured :=
  ⟨message_injective stored configured hs hc, fun e => by rw [e]⟩

/-- Where the cryptographic assumption enters: IF SHA-256 does not collide on the two messages, equal
fingerprints mean equal contact lists.  The hypothesis is not proved (trusted). -/
theorem fingerprint_injective_of (a b : List (List UInt8)) (ha : Fits a) (hb : Fits b)
    (noCollision : Sha256.hash (message a) = Sha256.hash (message b) → message a = message b)
    (h : fingerprint a = fingerprint b) : a = b :=
  message_injective a b ha hb (noCollision h)

/-- The judge `Spec.C11Fp.holds` accepts the model's fingerprints of any two lists on which SHA-256
does not collide. -/
theorem model_passes_judge (a b : List (List UInt8)) (ha : Fits a) (hb : Fits b)
    (noCollision : Sha256.hash (message a) = Sha256.hash (message b) → message a = message b) :
    Spec.C11Fp.holds a b (fingerprint a) (fingerprint b) = true := by
  unfold Spec.C11Fp.holds
  by_cases e : a = b
  · simp [e]
  · have : fingerprint a ≠ fingerprint b := fun h => e (fingerprint_injective_of a b ha hb noCollision h)
    simp [e, this]

/-- The construction used before commit 592a561 is NOT injective: the lists
`["a@example.org", "c@example.org"]` and `["a@example.orgmailto:c@example.org"]` have the same message
(hence the same fingerprint: editing one into the other was never sent to the CA). -/
theorem messageOld_collides : ∃ a b : List (List UInt8), a ≠ b ∧ messageOld a = messageOld b :=
  ⟨[wA, wC],
   [wAC], by decide, by decide⟩

/-- … and the fingerprints collide with it (no assumption about SHA-256 needed in this direction). -/
theorem fingerprintOld_collides : ∃ a b : List (List UInt8), a ≠ b ∧ fingerprintOld a = fingerprintOld b := by
  have ⟨a, b, hne, h⟩ := messageOld_collides
  exact ⟨a, b, hne, by simp [fingerprintOld, h]⟩

/-- The old construction fails the judge on that pair, whatever the hash function does. -/
theorem old_fails_judge : ∃ a b : List (List UInt8),
    Spec.C11Fp.holds a b (fingerprintOld a) (fingerprintOld b) = false := by
  have ⟨a, b, hne, h⟩ := fingerprintOld_collides
  exact ⟨a, b, by simp [Spec.C11Fp.holds, hne, h]⟩

/-- Every collision of the old construction is of that shape: the joined texts are the same. -/
theorem messageOld_eq_iff (a b : List (List UInt8)) :
    messageOld a = messageOld b ↔ (a.map contactText).flatten = (b.map contactText).flatten := Iff.rfl

/-! ### The fingerprint of the external account binding (`hash_external_account`, `account.rs:325-329`) -/

/-- `key ++ identifier` does not determine (key, identifier): key "abc", identifier "def" and key
"abcd", identifier "ef" give the same message, hence the same fingerprint. -/
theorem eabMessage_collides : ∃ k1 i1 k2 i2 : List UInt8, (k1, i1) ≠ (k2, i2) ∧ eabMessage k1 i1 = eabMessage k2 i2 :=
  ⟨[0x61, 0x62, 0x63], [0x64, 0x65, 0x66], [0x61, 0x62, 0x63, 0x64], [0x65, 0x66], by decide, by decide⟩

theorem eabFingerprint_collides : ∃ k1 i1 k2 i2 : List UInt8,
    (k1, i1) ≠ (k2, i2) ∧ eabFingerprint k1 i1 = eabFingerprint k2 i2 := by
  have ⟨k1, i1, k2, i2, hne, h⟩ := eabMessage_collides
  exact ⟨k1, i1, k2, i2, hne, by simp [eabFingerprint, h]⟩

/-- Among bindings whose keys have the same length (e.g. a CA that always issues 32-byte MAC keys)
the message determines key and identifier: for all inputs. -/
theorem eabMessage_injective_of_equal_key_length (k1 i1 k2 i2 : List UInt8) (hl : k1.length = k2.length)
    (h : eabMessage k1 i1 = eabMessage k2 i2) : k1 = k2 ∧ i1 = i2 :=
  List.append_inj h hl

/-- Collisions of the binding message are exactly the re-splittings of one byte string. -/
theorem eabMessage_eq_iff (k1 i1 k2 i2 : List UInt8) :
    eabMessage k1 i1 = eabMessage k2 i2 ↔ k1 ++ i1 = k2 ++ i2 := Iff.rfl

/-! ### Non-vacuity -/

/-- The guard is satisfiable by ordinary, empty and long lists. -/
example : Fits [] := fun _ h => by simp at h
example : Fits [wA, [], List.replicate 300 0x78] := by
  intro v hv
  simp only [List.mem_cons, List.not_mem_nil, or_false] at hv
  rcases hv with rfl | rfl | rfl <;> rw [contactText_length]
  · have : wA.length = 13 := rfl
    omega
  · have : ([] : List UInt8).length = 0 := rfl
    omega
  · rw [List.length_replicate]
    omega

/-- The message of a concrete list: 8-byte big-endian length 20 = 7 + 13, then the text. -/
example : message [wA] =
    [0, 0, 0, 0, 0, 0, 0, 20] ++ wTextA := by decide

example : message [[]] = [0, 0, 0, 0, 0, 0, 0, 7] ++ mailtoPrefix := by decide

/-- The pair that collided under the old construction has different messages now. -/
example : message [wA, wC] ≠
    message [wAC] := by decide

/-- `be64` is big-endian and really reduces mod 2^64 (so the guard of `message_injective` is needed
for the MODEL: lengths 0 and 2^64 have the same prefix). -/
example : be64 0x0102030405060708 = [1, 2, 3, 4, 5, 6, 7, 8] := by decide
example : be64 (2 ^ 64) = be64 0 := by decide

/-- The judge is not constantly true. -/
example : Spec.C11Fp.holds [[1]] [[2]] [0xaa] [0xaa] = false := by decide
example : Spec.C11Fp.holds [[1]] [[1]] [0xaa] [0xab] = false := by decide
example : Spec.C11Fp.holds [[1]] [[2]] [0xaa] [0xab] = true := by decide

end AcmedVerif.Props.C11Fp
