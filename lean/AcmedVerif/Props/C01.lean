/-
C01 — order and CSR carry exactly the configured identifiers and the stored key.  Identifier
theorems: `Props/C01Ident.lean` (Model/Idna, Model/Ident); key clause: `Props/FlowMisc.lean`
(`csr_key_is_stored_key`, Model/Flow).  Here: the judge's digest table against the compiled code's
hash-function and key-type tables.
-/
import AcmedVerif.Props.C01Ident
import AcmedVerif.Props.FlowMisc
import AcmedVerif.Spec.C01
import AcmedVerif.Gen.Tables

namespace AcmedVerif.Props.C01
open AcmedVerif

/-- Every (key type, digest) pair the compiled code accepts has exactly one expected CSR signature
algorithm in the judge; EdDSA keys ignore the digest (as `get_digest` does). -/
theorem sigalg_table_total :
    (AcmedVerif.Gen.keyTypes.all fun (kt, _, _) =>
      AcmedVerif.Gen.hashFunctions.all fun d => (Spec.C01.expectedSigAlg kt d).length == 1) = true ∧
    Spec.C01.expectedSigAlg "ed25519" "sha256" = Spec.C01.expectedSigAlg "ed25519" "sha512" := by decide

example : Spec.C01.expectedSigAlg "ecdsa-p384" "sha384" = ["ecdsa-with-SHA384"] := by decide
example : Spec.C01.expectedSigAlg "rsa2048" "sha512" = ["sha512WithRSAEncryption"] := by decide

end AcmedVerif.Props.C01
