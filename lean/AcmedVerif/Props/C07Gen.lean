/-
C07 — tie of the pause clause to the SHIPPED constant: `Gen/Consts.lean` is regenerated from
acmed/src/main.rs on every run (the value outside the verification feature).  `pause_after_failure`
holds for any pause constant ≥ 1 s; here it is instantiated with the shipped one.
-/
import AcmedVerif.Props.C07
import AcmedVerif.Gen.Consts

namespace AcmedVerif.Props.C07Gen
open AcmedVerif AcmedVerif.Flow

/-- The shipped pause after a failed attempt is at least one second (currently 60 s). -/
theorem shipped_pause_at_least_1s : 1 ≤ AcmedVerif.Gen.DEFAULT_RENEW_FAIL_WAIT_SEC := by decide

/-- Clause C07.4 for the shipped build: over any number of consecutive rounds, any configuration
and any world (scripts of CA answers and hook results), no attempt of a certificate starts after a
failed attempt of that certificate before a pause of at least one second. -/
theorem shipped_pause_after_failure (cfg : Cfg) (n : Nat) (w : World) :
    AcmedVerif.Props.C07.pauseOK 1 false (renewLoop Variant.current AcmedVerif.Gen.DEFAULT_RENEW_FAIL_WAIT_SEC cfg n w).flatten = true :=
  AcmedVerif.Props.C07.pause_after_failure Variant.current rfl _ shipped_pause_at_least_1s cfg n w

end AcmedVerif.Props.C07Gen
