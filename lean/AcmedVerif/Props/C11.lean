/-
C11 (first two sentences) — accounts are created only when due, and the next renewal first brings
the CA's record into line with the configuration.
Theorems about `Flow.synchronize` and `Flow.attempt`; lemmas in `Lemmas/Flow.lean`.
For EVERY world (scripts of any length, any account state, any variant unless stated).

The persistence clauses (bincode round trip, truncation) are in `Props/C11Store.lean` (other file).
-/
import AcmedVerif.Model.Flow
import AcmedVerif.Lemmas.Flow

namespace AcmedVerif.Props.C11
open AcmedVerif.Flow

/-- **An account is created only when due** (any variant, any scripts).  Replaying the signed
requests of an attempt with `regMon` (`Lemmas/Flow.lean`): a newAccount request is the FIRST signed
request and no account URL was stored or the binding changed, or it immediately follows a request
answered `accountDoesNotExist`. -/
theorem register_only_when (v : Variant) (cfg : Cfg) (w : World) :
    regMon (!w.acc.hasUrl || !w.acc.bindingInSync) (attempt v cfg w).2.1 = true := by
  show regMon _ (attemptM v cfg { w with trace := [] }).2.trace = true
  rw [attemptM_eq]
  have hrest := afterSync_sat ΦReg.tlaw v cfg regMon_newOrder regMon_of_rest
  generalize hw0 : ({ w with trace := [] } : World) = w0
  have hacc : w0.acc = w.acc := by rw [← hw0]
  have htr : w0.trace = [] := by rw [← hw0]
  rw [← hacc]
  rcases bind_cases refreshDirectory (fun _ => synchronize v >>= fun _ => afterSync v cfg) w0 with
    ⟨u, w1, e1, e2⟩ | ⟨_, _, e3⟩
  · rw [e2]
    rw [refreshDirectory_run] at e1
    rcases hx : w0.exs with _ | ⟨r, rest⟩
    · rw [hx] at e1; simp at e1
    · rw [hx] at e1
      simp only [Prod.mk.injEq] at e1
      have hw1 : w1 = w0.afterExch .directory 0 r rest := e1.2.symm
      have hacc1 : w1.acc = w0.acc := by rw [hw1]; rfl
      have htr1 : w1.trace = [.exch .directory .none 0 r] := by
        rw [hw1]; simp [World.afterExch, htr, authOf]
      obtain ⟨es2, he2, hs2⟩ := sync_regMon v w1
      rw [hacc1] at hs2
      rcases bind_cases (synchronize v) (fun _ => afterSync v cfg) w1 with
        ⟨u2, w2, f1, f2⟩ | ⟨_, _, f3⟩
      · rw [f2]
        obtain ⟨es3, he3, hs3⟩ := hrest.run w2
        rw [f1] at he2
        rw [he3, he2, htr1]
        simp only [List.cons_append, List.nil_append, regMon_skip_dir]
        exact regMon_append hs3 _ hs2
      · rw [f3, he2, htr1]
        simp only [List.cons_append, List.nil_append, regMon_skip_dir]
        exact hs2
  · rw [e3, refreshDirectory_run]
    rcases w0.exs with _ | ⟨r, rest⟩
    · simp [htr, regMon]
    · simp [World.afterExch, htr, regMon]

/-- Reading of `register_only_when` for one newAccount request of the trace: `regState allow pre`
is `allow` (= no URL stored or binding changed) when no signed request precedes it, and otherwise
says that the last signed request before it was answered `accountDoesNotExist`. -/
theorem register_only_when_explicit (v : Variant) (cfg : Cfg) (w : World) (pre post : List Ev)
    (a : Auth) (s : KeyId) (r : ExRes)
    (h : (attempt v cfg w).2.1 = pre ++ .exch .newAccount a s r :: post) :
    regState (!w.acc.hasUrl || !w.acc.bindingInSync) pre = true := by
  have := register_only_when v cfg w
  rw [h] at this
  exact regMon_sound _ this

/-- **Account state is saved before it is used** (any variant, any scripts): replaying an attempt
with `savedMon`, no request is sent between a successful account request (creation, contact
update, key roll-over) and the save of the account. -/
theorem state_saved_before_use (v : Variant) (cfg : Cfg) (w : World) :
    savedMon false (attempt v cfg w).2.1 = true := by
  show savedMon false (attemptM v cfg { w with trace := [] }).2.trace = true
  obtain ⟨es, he, hs, _⟩ := (saved_attemptM v cfg).run { w with trace := [] }
  rw [he]
  simpa using hs

/-- Reading of `state_saved_before_use`: between a successful account request and the next
request there is a `saveAccount` event. -/
theorem state_saved_before_use_explicit (v : Variant) (cfg : Cfg) (w : World)
    (pre mid post : List Ev) (k k' : ReqKind) (a a' : Auth) (s s' : KeyId) (r r' : ExRes)
    (hk : isAcctKind k = true) (hr : isOkRes r = true)
    (h : (attempt v cfg w).2.1 = pre ++ .exch k a s r :: (mid ++ .exch k' a' s' r' :: post)) :
    .saveAccount ∈ mid := by
  have := state_saved_before_use v cfg w
  rw [h] at this
  exact savedMon_sound hk hr pre false this

/-- **Order of the updates (key first), key out of sync.**  With a URL stored and the binding
unchanged, when the configured key differs from the recorded one (contacts changed or not), for
every tree that rolls the key over first:
1. the first request is `kid`-authenticated and signed by the RECORDED (old) key: the key change,
   or (since 1fb1c1a) the query of the account that precedes it;
2. every contact update is `kid`-authenticated, signed by the CURRENT key, comes after it, and at
   that moment the CA — replayed from "holds the recorded key" — holds exactly that current key;
3. every `kid` request is signed by the key the CA holds, EXCEPT possibly a query of the account
   signed by the current key (`heldMonP`); without that exception (`heldMon`) whenever the tree
   sends no such query from this world (`mayAskCur v w = false`);
4. when the synchronisation returns the CA holds the current key. -/
theorem sync_order_keyFirst (v : Variant) (hv : v.keyFirst = true) (w : World)
    (hu : w.acc.hasUrl = true) (hb : w.acc.bindingInSync = true) (hk : w.acc.keyInSync = false) :
    ∃ es, (synchronize v w).2.trace = w.trace ++ es ∧
      (es = [] ∨ (∃ r rest, es = .exch .keyChange .kid w.acc.recKey r :: rest) ∨
        (v.rolloverCheck = .first ∧ ∃ r rest, es = .exch .accountProbe .kid w.acc.recKey r :: rest)) ∧
      (∀ pre a s r post, es = pre ++ .exch .accountUpdate a s r :: post →
        a = .kid ∧ s = w.acc.curKey ∧ heldEnd w.acc.curKey w.acc.recKey pre = w.acc.curKey ∧
        pre ≠ []) ∧
      heldMonP w.acc.curKey w.acc.recKey es = true ∧
      (mayAskCur v w = false → heldMon w.acc.curKey w.acc.recKey es = true) ∧
      ((synchronize v w).1.tag = .ok →
        heldEnd w.acc.curKey w.acc.recKey es = w.acc.curKey) := by
  obtain ⟨es1, es2, t1, htr, hs1, hus1, hnp1, hcase⟩ := sync_keyFirst_keyChanged v hv w hu hb hk
  obtain ⟨hm1, he1⟩ := hs1.heldP
  have hne : w.acc.recKey ≠ w.acc.curKey := by
    intro h
    simp [Acc.keyInSync, h] at hk
  -- the whole trace is accepted by `heldMonP`, ending with the current key
  have hheld : heldMonP w.acc.curKey w.acc.recKey (es1 ++ es2) = true ∧
      NoProbe es2 ∧
      ((synchronize v w).1.tag = .ok →
        heldEnd w.acc.curKey w.acc.recKey (es1 ++ es2) = w.acc.curKey) := by
    rw [heldMonP_append, heldEnd_append]
    rcases hcase with ⟨rfl, ⟨_, hs2⟩ | ⟨_, rfl, _⟩⟩ | ⟨_, rfl, _⟩
    · obtain ⟨hm2, he2⟩ := hs2.heldP (.inr rfl)
      rw [he1 rfl]
      exact ⟨by rw [hm1, hm2]; rfl, hs2.noProbe_of_accountUpdate, he2⟩
    · exact ⟨by simp [hm1, heldMonP], by simp [NoProbe], fun _ => by simpa [heldEnd] using he1 rfl⟩
    · refine ⟨by simp [hm1, heldMonP], by simp [NoProbe], fun ht => ?_⟩
      rename_i hne htag
      rw [htag] at ht
      exact absurd ht hne
  -- first request
  have hfirst1 : es1 = [] ∨ (∃ r rest, es1 = .exch .keyChange .kid w.acc.recKey r :: rest) ∨
      (v.rolloverCheck = .first ∧ ∃ r rest, es1 = .exch .accountProbe .kid w.acc.recKey r :: rest) := by
    by_cases hf : v.rolloverCheck = .first
    · rcases hs1 with (⟨rfl, _⟩ | ⟨r, rest, rfl, _⟩) | ⟨p, rest, rfl, _⟩
      · exact .inl rfl
      · exact .inr (.inl ⟨r, rest, rfl⟩)
      · exact .inr (.inr ⟨hf, p, rest, rfl⟩)
    · rcases hus1 hf with ⟨rfl, _⟩ | ⟨r, rest, rfl, _⟩
      · exact .inl rfl
      · exact .inr (.inl ⟨r, rest, rfl⟩)
  have hempty : es1 = [] → es2 = [] := by
    rintro rfl
    rcases hcase with ⟨rfl, _⟩ | ⟨_, rfl, _⟩
    · rcases hs1 with (⟨_, ht1⟩ | ⟨_, _, h, _⟩) | ⟨_, _, h, _⟩
      · rcases ht1 with h | h <;> cases h
      · cases h
      · cases h
    · rfl
  have hfirst : (es1 ++ es2 = [] ∨ (∃ r rest, es1 ++ es2 = .exch .keyChange .kid w.acc.recKey r :: rest) ∨
      (v.rolloverCheck = .first ∧
        ∃ r rest, es1 ++ es2 = .exch .accountProbe .kid w.acc.recKey r :: rest)) := by
    rcases hfirst1 with h | ⟨r, rest, rfl⟩ | ⟨hf, r, rest, rfl⟩
    · left; rw [h, hempty h]; rfl
    · exact .inr (.inl ⟨r, rest ++ es2, rfl⟩)
    · exact .inr (.inr ⟨hf, r, rest ++ es2, rfl⟩)
  refine ⟨es1 ++ es2, htr, hfirst, ?_, hheld.1, ?_, hheld.2.2⟩
  · intro pre a s r post hsplit
    have hmem : Ev.exch .accountUpdate a s r ∈ es1 ++ es2 := by rw [hsplit]; simp
    have hsig : a = .kid ∧ s = w.acc.curKey := by
      rcases List.mem_append.mp hmem with h | h
      · exact absurd h hs1.no_accountUpdate
      · rcases hcase with ⟨_, ⟨_, hs2⟩ | ⟨_, rfl, _⟩⟩ | ⟨_, rfl, _⟩
        · exact (hs2.accountUpdate_events h).2
        · cases h
        · cases h
    obtain ⟨rfl, rfl⟩ := hsig
    have hm := hheld.1
    rw [hsplit] at hm
    refine ⟨rfl, rfl, ?_, ?_⟩
    · rcases heldMonP_sound _ _ hm with h | ⟨h, _⟩
      · exact h.symm
      · cases h
    · rintro rfl
      rcases hfirst with h | ⟨r', rest', h⟩ | ⟨_, r', rest', h⟩
      · rw [hsplit] at h; cases h
      · rw [hsplit] at h; cases h
      · rw [hsplit] at h; cases h
  · intro hcond
    refine heldMon_of_heldMonP _ _ _ ?_ hheld.1
    intro a s r hm
    rcases List.mem_append.mp hm with h | h
    · rw [hnp1 hcond a s r h]; exact hne
    · exact absurd h (hheld.2.1 a s r)

/-- **Order of the updates (current tree), key out of sync** — `sync_order_keyFirst` for the working
tree.  Clause 3 holds without exception outside the class of the known finding
(`rolloverProbeAtDeactivatedAccount`: the CA answers the account query signed by the recorded key
with an error a failed signature verification produces); inside it, with the one exception: the
account query signed by the current key (`heldMonP`). -/
theorem sync_order_current (w : World) (hu : w.acc.hasUrl = true)
    (hb : w.acc.bindingInSync = true) (hk : w.acc.keyInSync = false) :
    ∃ es, (synchronize .current w).2.trace = w.trace ++ es ∧
      (es = [] ∨ (∃ r rest, es = .exch .keyChange .kid w.acc.recKey r :: rest) ∨
        ∃ r rest, es = .exch .accountProbe .kid w.acc.recKey r :: rest) ∧
      (∀ pre a s r post, es = pre ++ .exch .accountUpdate a s r :: post →
        a = .kid ∧ s = w.acc.curKey ∧ heldEnd w.acc.curKey w.acc.recKey pre = w.acc.curKey ∧
        pre ≠ []) ∧
      heldMonP w.acc.curKey w.acc.recKey es = true ∧
      (rolloverProbeAtDeactivatedAccount w = false →
        heldMon w.acc.curKey w.acc.recKey es = true) ∧
      ((synchronize .current w).1.tag = .ok →
        heldEnd w.acc.curKey w.acc.recKey es = w.acc.curKey) := by
  obtain ⟨es, h1, h2, h3, h4, h5, h6⟩ := sync_order_keyFirst .current rfl w hu hb hk
  refine ⟨es, h1, ?_, h3, h4, fun h => h5 h, h6⟩
  rcases h2 with h | h | ⟨_, h⟩
  · exact .inl h
  · exact .inr (.inl h)
  · exact .inr (.inr h)

/-- `sync_order_current`, clause 3, as `_partial` over the complement of the finding's class. -/
theorem sync_order_current_partial (w : World) (hu : w.acc.hasUrl = true)
    (hb : w.acc.bindingInSync = true) (hk : w.acc.keyInSync = false)
    (hc : rolloverProbeAtDeactivatedAccount w = false) :
    ∃ es, (synchronize .current w).2.trace = w.trace ++ es ∧
      heldMon w.acc.curKey w.acc.recKey es = true := by
  obtain ⟨es, h1, _, _, _, h5, _⟩ := sync_order_current w hu hb hk
  exact ⟨es, h1, h5 hc⟩

/-- **Clause 3 without the exception is false of the working tree** (known finding
`rollover-probe-at-deactivated-account`): the CA holds the recorded key 100 and answers the account
query signed by 100 with an error of class `sigRefused` (a deactivated account); the next request is
the account query signed by 101 — a key the CA does not hold.  No key change is sent. -/
theorem sync_order_current_full_is_false :
    ∃ w, w.acc.hasUrl = true ∧ w.acc.bindingInSync = true ∧ w.acc.keyInSync = false ∧
      w.acc.caKey = w.acc.recKey ∧ rolloverProbeAtDeactivatedAccount w = true ∧
      heldMon w.acc.curKey w.acc.recKey (synchronize .current w).2.trace = false ∧
      (synchronize .current w).2.trace =
        [.exch .accountProbe .kid 100 (.acmeErr .sigRefused),
         .exch .accountProbe .kid 101 (.acmeErr .sigRefused)] :=
  ⟨⟨[.acmeErr .sigRefused, .acmeErr .sigRefused], [], [], ⟨none, none⟩, 0, true,
     ⟨true, true, true, true, 101, 100, 100, true⟩, []⟩, by decide +kernel⟩

/-- Any OTHER refusal of the account query (userActionRequired, …) is returned as it is: one
request, signed by the key the CA holds. -/
example : (synchronize .current ⟨[.acmeErr .other, .ok .undecodable], [true, true], [],
    ⟨none, none⟩, 0, true, ⟨true, true, true, true, 101, 100, 100, true⟩, []⟩).2.trace =
      [.exch .accountProbe .kid 100 (.acmeErr .other)] := by decide +kernel

/-- The tree before 5ce05e3 (no query of the account at all): EVERY `kid` request is signed by the
key the CA holds, whatever the CA answers (the statement `sync_order_current` had then). -/
theorem sync_order_preFix (w : World) (hu : w.acc.hasUrl = true)
    (hb : w.acc.bindingInSync = true) (hk : w.acc.keyInSync = false) :
    ∃ es, (synchronize .preFix w).2.trace = w.trace ++ es ∧
      heldMon w.acc.curKey w.acc.recKey es = true ∧
      ((synchronize .preFix w).1.tag = .ok →
        heldEnd w.acc.curKey w.acc.recKey es = w.acc.curKey) := by
  obtain ⟨es, h1, _, _, _, h5, h6⟩ := sync_order_keyFirst .preFix rfl w hu hb hk
  exact ⟨es, h1, h5 rfl, h6⟩

/-- **The tree at 5ce05e3 (check AFTER a refused key change) violates it in every world where the CA
genuinely refuses the roll-over**: the CA holds the recorded key 100 and refuses the key change to
101 (any ACME error other than accountDoesNotExist); the next request is the account query signed by
101 — a key the CA does not hold. -/
theorem sync_order_at5ce05e3_is_false :
    ∃ w, w.acc.hasUrl = true ∧ w.acc.bindingInSync = true ∧ w.acc.keyInSync = false ∧
      w.acc.caKey = w.acc.recKey ∧
      heldMon w.acc.curKey w.acc.recKey (synchronize .at5ce05e3 w).2.trace = false ∧
      (synchronize .at5ce05e3 w).2.trace =
        [.exch .keyChange .kid 100 (.acmeErr .other), .exch .accountProbe .kid 101 (.acmeErr .other)] :=
  ⟨⟨[.acmeErr .other, .acmeErr .other], [], [], ⟨none, none⟩, 0, true,
     ⟨true, true, true, true, 101, 100, 100, true⟩, []⟩, by decide +kernel⟩

/-- The same CA (holds 100, refuses the roll-over) seen by the working tree: the account query
signed by 100 is answered, the key change signed by 100 is refused; nothing is signed by 101. -/
example : (synchronize .current ⟨[.ok .undecodable, .acmeErr .other], [], [], ⟨none, none⟩, 0, true,
    ⟨true, true, true, true, 101, 100, 100, true⟩, []⟩).2.trace =
      [.exch .accountProbe .kid 100 (.ok .undecodable), .exch .keyChange .kid 100 (.acmeErr .other)] := by
  decide +kernel

/-- **Historical order violates it** (variant `old`, before e0bc7c2): URL stored, contacts AND key
changed ⇒ the first request is the contact update, signed by the NEW key while the CA still holds
the recorded one. -/
theorem sync_old_is_false :
    ∃ w, w.acc.hasUrl = true ∧ w.acc.bindingInSync = true ∧ w.acc.keyInSync = false ∧
      w.acc.contactsInSync = false ∧ w.acc.caKey = w.acc.recKey ∧
      heldMon w.acc.curKey w.acc.recKey (synchronize .old w).2.trace = false ∧
      (synchronize .old w).2.trace.head? =
        some (.exch .accountUpdate .kid w.acc.curKey (.acmeErr .other)) ∧
      w.acc.curKey ≠ w.acc.recKey :=
  ⟨⟨[.acmeErr .other], [], [], ⟨none, none⟩, 0, true,
     ⟨true, false, true, true, 101, 100, 100, true⟩, []⟩, by decide +kernel⟩

/-- The same world in the current tree: the roll-over block goes first, signed by the recorded key
(its first request is the query of the account). -/
example : (synchronize .current ⟨[.acmeErr .other], [], [], ⟨none, none⟩, 0, true,
    ⟨true, false, true, true, 101, 100, 100, true⟩, []⟩).2.trace.head? =
      some (.exch .accountProbe .kid 100 (.acmeErr .other)) := by decide +kernel

/-- "In line with the configuration", client side: URL stored and the three fingerprints equal
those of the configuration. -/
def Synced (a : Acc) : Prop :=
  a.hasUrl = true ∧ a.contactsInSync = true ∧ a.keyInSync = true ∧ a.bindingInSync = true

/-- **The synchronisation converges (any variant).**  Whenever it returns: URL stored, the three
recorded fingerprints equal those of the configuration, the current key is unchanged, and — if the
CA held the recorded key before — the CA holds the current key. -/
theorem sync_converges (v : Variant) (w w' : World) (u : Unit)
    (h : synchronize v w = (.val u, w')) :
    Synced w'.acc ∧ w'.acc.curKey = w.acc.curKey ∧
      (w.acc.caKey = w.acc.recKey → w'.acc.caKey = w'.acc.curKey) := by
  cases hu : w.acc.hasUrl
  · rw [sync_eq_noUrl v w hu] at h
    obtain ⟨_, ho, ex, _, ha⟩ := register_acc h
    rw [ha]; simp [Synced, regAcc, Acc.keyInSync]
  · cases hb : w.acc.bindingInSync
    · rw [sync_eq_binding v w hu hb] at h
      obtain ⟨u1, w1, h1, h2⟩ := bind_val_inv h
      obtain ⟨_, ho, ex, _, ha⟩ := register_acc h1
      rcases optContacts_eff h2 with ⟨_, rfl⟩ | ⟨_, _, _, hc | ⟨ho2, ex2, _, hc⟩⟩
      · rw [ha]; simp [Synced, regAcc, Acc.keyInSync]
      · rw [hc, ha]; simp [Synced, regAcc, contactsAcc, Acc.keyInSync]
      · rw [hc, ha]; simp [Synced, regAcc, Acc.keyInSync]
    · cases hv : v.keyFirst
      · rw [sync_eq_contactsFirst v w hu hb hv] at h
        obtain ⟨u1, w1, h1, h2⟩ := bind_val_inv h
        rcases optContacts_eff h1 with ⟨hc1, rfl⟩ | ⟨hc1, _, _, hc | ⟨ho1, ex1, _, hc⟩⟩ <;>
          rcases optKey_eff h2 with ⟨hk2, rfl⟩ | ⟨hk2, _, _, hk | ⟨ho2, ex2, _, hk⟩⟩ <;>
          simp_all [Synced, regAcc, contactsAcc, keyAcc, Acc.keyInSync]
      · rw [sync_eq_keyFirst v w hu hb hv] at h
        obtain ⟨u1, w1, h1, h2⟩ := bind_val_inv h
        rcases optKey_eff h1 with ⟨hk1, rfl⟩ | ⟨hk1, _, _, hk | ⟨ho1, ex1, _, hk⟩⟩ <;>
          rcases optContacts_eff h2 with ⟨hc2, rfl⟩ | ⟨hc2, _, _, hc | ⟨ho2, ex2, _, hc⟩⟩ <;>
          simp_all [Synced, regAcc, contactsAcc, keyAcc, Acc.keyInSync]

/-- Number of requests of kind `k` in a trace. -/
def kindCount (k : ReqKind) (es : List Ev) : Nat :=
  es.countP fun e => match e with
    | .exch k' _ _ _ => k' == k
    | _ => false

theorem kindCount_append (k : ReqKind) (a b : List Ev) :
    kindCount k (a ++ b) = kindCount k a + kindCount k b := List.countP_append

def NoADNE (w : World) : Prop := .acmeErr .accountDoesNotExist ∉ w.exs

theorem NoADNE.mono {w w' : World} (h : NoADNE w) (hc : Consumed w w') : NoADNE w' :=
  fun hm => h (hc.mem hm)

/-- **One request per changed item (current tree).**  When the CA never answers
`accountDoesNotExist` and the synchronisation returns, it made: one newAccount iff no URL was stored
or the binding changed; one accountUpdate iff the contacts changed (and, in the binding-changed
branch, the key did not); and when (URL stored, binding unchanged and) the key changed, exactly TWO
requests for the roll-over (since 1fb1c1a): the query of the account signed by the recorded key,
followed by the key change — or, when that query was answered with an error of class `sigRefused`
(the CA already holds the current key: the answer to an earlier key change was lost), by the query
signed by the current key and NO key change; and nothing else. -/
theorem sync_one_per_item (w w' : World) (u : Unit)
    (h : synchronize .current w = (.val u, w')) (hn : NoADNE w) :
    ∃ es, w'.trace = w.trace ++ es ∧
      kindCount .newAccount es = (if w.acc.hasUrl && w.acc.bindingInSync then 0 else 1) ∧
      kindCount .keyChange es + kindCount .accountProbe es =
        (if w.acc.hasUrl && w.acc.bindingInSync && !w.acc.keyInSync then 2 else 0) ∧
      kindCount .keyChange es ≤ 1 ∧
      (.acmeErr .sigRefused ∉ w.exs → kindCount .keyChange es =
        (if w.acc.hasUrl && w.acc.bindingInSync && !w.acc.keyInSync then 1 else 0)) ∧
      kindCount .accountUpdate es =
        (if w.acc.hasUrl && !w.acc.contactsInSync && (w.acc.bindingInSync || w.acc.keyInSync)
          then 1 else 0) ∧
      exCount es = kindCount .newAccount es + kindCount .keyChange es +
        kindCount .accountUpdate es + kindCount .accountProbe es := by
  -- exact traces of the three steps under `NoADNE`
  have hreg : ∀ {w w' : World} {u : Unit}, register w = (.val u, w') → ∃ es,
      w'.trace = w.trace ++ es ∧ kindCount .newAccount es = 1 ∧ kindCount .keyChange es = 0 ∧
      kindCount .accountUpdate es = 0 ∧ kindCount .accountProbe es = 0 ∧ exCount es = 1 := by
    intro w w' u h
    obtain ⟨ho, ex, rest, _, _, _, ht⟩ := register_val h
    exact ⟨_, ht, by simp [kindCount], by simp [kindCount], by simp [kindCount],
      by simp [kindCount], by rfl⟩
  have hupc : ∀ {w w' : World} {u : Unit}, updateContacts w = (.val u, w') → NoADNE w → ∃ es,
      w'.trace = w.trace ++ es ∧ kindCount .newAccount es = 0 ∧ kindCount .keyChange es = 0 ∧
      kindCount .accountUpdate es = 1 ∧ kindCount .accountProbe es = 0 ∧ exCount es = 1 := by
    intro w w' u h hn
    rcases updateContacts_val h with ⟨b, rest, _, _, _, ht⟩ | ⟨rest, h1, _⟩
    · exact ⟨_, ht, by simp [kindCount], by simp [kindCount], by simp [kindCount],
        by simp [kindCount], by rfl⟩
    · exact absurd (by rw [h1]; exact List.mem_cons_self) hn
  have hupk : ∀ {w w' : World} {u : Unit}, updateKey .current w = (.val u, w') → NoADNE w → ∃ es,
      w'.trace = w.trace ++ es ∧ kindCount .newAccount es = 0 ∧ kindCount .accountUpdate es = 0 ∧
      kindCount .keyChange es + kindCount .accountProbe es = 2 ∧ kindCount .keyChange es ≤ 1 ∧
      (.acmeErr .sigRefused ∉ w.exs → kindCount .keyChange es = 1) ∧
      exCount es = 2 := by
    intro w w' u h hn
    rcases updateKey_val h with ⟨_, h⟩ | ⟨hv, _⟩
    · obtain ⟨p, rest, hx, ⟨rfl, h1⟩ | ⟨hp, h1⟩⟩ := keyChangeChecked_val h
      · obtain ⟨b, rest2, _, _, _, ht⟩ := checkNewKey_val h1
        refine ⟨_, by rw [ht]; simp only [World.afterExch, List.append_assoc]; rfl, ?_, ?_, ?_, ?_, ?_, ?_⟩
        · simp [kindCount, authOf]
        · simp [kindCount, authOf]
        · simp [kindCount, authOf]
        · simp [kindCount, authOf]
        · intro hno; exact absurd (by rw [hx]; exact List.mem_cons_self) hno
        · rfl
      · have hpok : isOkRes p = true := by
          rcases hp with hp | hp
          · exact hp
          · exfalso
            apply hn
            rw [hx]
            cases p with
            | acmeErr ty => cases ty <;> first | exact List.mem_cons_self | cases hp
            | _ => cases hp
        rcases keyChangeStep_val h1 with ⟨b, rest2, _, _, _, ht⟩ | ⟨rest2, h2, _⟩ | ⟨hca, _⟩
        · refine ⟨_, by rw [ht]; simp only [World.afterExch, List.append_assoc]; rfl, ?_, ?_, ?_, ?_, ?_, ?_⟩
          · simp [kindCount, authOf]
          · simp [kindCount, authOf]
          · simp [kindCount, authOf]
          · simp [kindCount, authOf]
          · intro _; simp [kindCount, authOf]
          · rfl
        · exfalso
          apply hn
          rw [hx]
          simp only [World.afterExch] at h2
          rw [h2]
          exact List.mem_cons_of_mem _ List.mem_cons_self
        · cases hca
    · exact absurd rfl hv
  cases hu : w.acc.hasUrl
  · rw [sync_eq_noUrl _ w hu] at h
    obtain ⟨es, ht, c1, c2, c3, c4, c5⟩ := hreg h
    exact ⟨es, ht, by simp [c1], by simp [c2, c4], by omega, fun _ => by simp [c2], by simp [c3],
      by omega⟩
  · cases hb : w.acc.bindingInSync
    · rw [sync_eq_binding _ w hu hb] at h
      obtain ⟨u1, w1, h1, h2⟩ := bind_val_inv h
      obtain ⟨es1, ht1, a1, a2, a3, a5, a4⟩ := hreg h1
      have hn1 : NoADNE w1 := hn.mono (register_acc h1).1
      by_cases hc : (Variant.current.bindingThenContacts &&
          (!w.acc.contactsInSync && w.acc.keyInSync)) = true
      · simp only [hc, if_true] at h2
        obtain ⟨es2, ht2, b1, b2, b3, b5, b4⟩ := hupc h2 hn1
        have hc' : w.acc.contactsInSync = false ∧ w.acc.keyInSync = true := by
          simpa [Variant.current] using hc
        refine ⟨es1 ++ es2, by rw [ht2, ht1]; simp, ?_, ?_, ?_, ?_, ?_, ?_⟩ <;>
          simp only [kindCount_append, exCount_append, a1, a2, a3, a4, a5, b1, b2, b3, b4, b5,
            hc'.1, hc'.2] <;>
          simp
      · simp only [hc, Bool.false_eq_true, if_false, pure_run, Prod.mk.injEq] at h2
        have hc' : ¬(w.acc.contactsInSync = false ∧ w.acc.keyInSync = true) := by
          simpa [Variant.current] using hc
        refine ⟨es1, by rw [← h2.2, ht1], ?_, ?_, ?_, ?_, ?_, ?_⟩ <;>
          simp only [a1, a2, a3, a4, a5] <;> simp
        intro h3
        cases hk : w.acc.keyInSync
        · rfl
        · exact absurd ⟨h3, hk⟩ hc'
    · rw [sync_eq_keyFirst _ w hu hb rfl] at h
      obtain ⟨u1, w1, h1, h2⟩ := bind_val_inv h
      have hk : ∃ es1, w1.trace = w.trace ++ es1 ∧ NoADNE w1 ∧
          kindCount .newAccount es1 = 0 ∧ kindCount .accountUpdate es1 = 0 ∧
          kindCount .keyChange es1 + kindCount .accountProbe es1 =
            (if w.acc.keyInSync then 0 else 2) ∧
          kindCount .keyChange es1 ≤ 1 ∧
          (.acmeErr .sigRefused ∉ w.exs →
            kindCount .keyChange es1 = (if w.acc.keyInSync then 0 else 1)) ∧
          exCount es1 = (if w.acc.keyInSync then 0 else 2) := by
        cases hk : w.acc.keyInSync
        · simp only [hk, Bool.not_false, if_true] at h1
          obtain ⟨es, ht, c1, c3, c2, c5, c6, c4⟩ := hupk h1 hn
          exact ⟨es, ht, hn.mono (updateKey_acc h1).1, c1, c3, by simp [c2], c5,
            fun hno => by simp [c6 hno], by simp [c4]⟩
        · simp only [hk, Bool.not_true, Bool.false_eq_true, if_false, pure_run, Prod.mk.injEq] at h1
          exact ⟨[], by rw [← h1.2]; simp, by rw [← h1.2]; exact hn, rfl, rfl,
            by simp [kindCount], by simp [kindCount], fun _ => rfl, rfl⟩
      obtain ⟨es1, ht1, hn1, a1, a3, a2, a5, a6, a4⟩ := hk
      cases hc : w.acc.contactsInSync
      · simp only [hc, Bool.not_false, if_true] at h2
        obtain ⟨es2, ht2, b1, b2, b3, b5, b4⟩ := hupc h2 hn1
        refine ⟨es1 ++ es2, by rw [ht2, ht1]; simp, ?_, ?_, ?_, ?_, ?_, ?_⟩
        · simp [kindCount_append, a1, b1]
        · simp only [kindCount_append, b2, b5]
          cases hki : w.acc.keyInSync <;> simp [hki] at a2 ⊢ <;> omega
        · simp only [kindCount_append, b2]; omega
        · intro hno
          simp only [kindCount_append, b2, a6 hno]
          cases w.acc.keyInSync <;> simp
        · simp [kindCount_append, a3, b3]
        · simp only [kindCount_append, exCount_append, a1, a3, a4, b1, b2, b3, b4, b5]
          cases hki : w.acc.keyInSync <;> simp [hki] at a2 ⊢ <;> omega
      · simp only [hc, Bool.not_true, Bool.false_eq_true, if_false, pure_run, Prod.mk.injEq] at h2
        refine ⟨es1, by rw [← h2.2, ht1], ?_, ?_, ?_, ?_, ?_, ?_⟩
        · simp [a1]
        · simp only [a2]; cases w.acc.keyInSync <;> simp
        · exact a5
        · intro hno
          simp only [a6 hno]
          cases w.acc.keyInSync <;> simp
        · simp [a3]
        · simp only [a1, a3, a4]
          cases hki : w.acc.keyInSync <;> simp [hki] at a2 ⊢ <;> omega

/-- **"One keyChange iff the key changed, and nothing else" (the statement before 5ce05e3) is false of
the working tree**: the CA already holds the current key (the answer to an earlier key change was
lost); the synchronisation returns after two account queries and NO key change. -/
theorem sync_one_per_item_old_statement_is_false :
    ∃ w, (synchronize .current w).1.tag = .ok ∧ NoADNE w ∧ w.acc.keyInSync = false ∧
      kindCount .keyChange (synchronize .current w).2.trace = 0 ∧
      exCount (synchronize .current w).2.trace = 2 ∧
      (synchronize .current w).2.acc.keyInSync = true :=
  ⟨⟨[.acmeErr .sigRefused, .ok .undecodable], [true, true], [], ⟨none, none⟩, 0, true,
     ⟨true, true, true, true, 101, 100, 101, true⟩, []⟩,
   by refine ⟨by decide +kernel, by simp [NoADNE], by decide, by decide +kernel, by decide +kernel,
        by decide +kernel⟩⟩

/-- **The CA's record is brought into line (current tree).**  Assume that before the
synchronisation the CA holds the recorded key, that recorded-in-sync contacts are really the CA's
contacts, that the CA never answers `accountDoesNotExist`, and that it answers newAccount with
"existing account, unchanged" only for a key it knows (URL stored, key unchanged).  Then whenever
the synchronisation returns, the CA holds the current key and the configured contacts. -/
theorem sync_ca_in_line (w w' : World) (u : Unit)
    (h : synchronize .current w = (.val u, w'))
    (hca : w.acc.caKey = w.acc.recKey)
    (hcc : w.acc.contactsInSync = true → w.acc.caContactsOk = true)
    (hn : NoADNE w)
    (hex : ∀ ho hl, .ok (.account ho hl true) ∈ w.exs →
      w.acc.hasUrl = true ∧ w.acc.keyInSync = true) :
    w'.acc.caKey = w'.acc.curKey ∧ w'.acc.caContactsOk = true := by
  refine ⟨(sync_converges _ w w' u h).2.2 hca, ?_⟩
  cases hu : w.acc.hasUrl
  · rw [sync_eq_noUrl _ w hu] at h
    obtain ⟨_, ho, ex, hm, ha⟩ := register_acc h
    cases ex
    · rw [ha]; simp [regAcc]
    · have := (hex ho true hm).1; rw [hu] at this; cases this
  · cases hb : w.acc.bindingInSync
    · rw [sync_eq_binding _ w hu hb] at h
      obtain ⟨u1, w1, h1, h2⟩ := bind_val_inv h
      obtain ⟨hc1, ho, ex, hm, ha⟩ := register_acc h1
      have hn1 : NoADNE w1 := hn.mono hc1
      rcases optContacts_eff h2 with ⟨hcond, rfl⟩ | ⟨_, _, hcx, _⟩
      · rw [ha]
        cases ex
        · simp [regAcc]
        · have hk := (hex ho true hm).2
          have : w.acc.contactsInSync = true := by
            cases hci : w.acc.contactsInSync
            · exact absurd (by simp [Variant.current, hci, hk]) hcond
            · rfl
          simp [regAcc, hcc this]
      · rw [hcx hn1]; simp [contactsAcc]
    · rw [sync_eq_keyFirst _ w hu hb rfl] at h
      obtain ⟨u1, w1, h1, h2⟩ := bind_val_inv h
      have hw1 : NoADNE w1 ∧ w1.acc.caContactsOk = w.acc.caContactsOk := by
        rcases optKey_eff h1 with ⟨_, rfl⟩ | ⟨_, hc1, hkx, _⟩
        · exact ⟨hn, rfl⟩
        · exact ⟨hn.mono hc1, by rw [hkx hn]; rfl⟩
      rcases optContacts_eff h2 with ⟨hcond, rfl⟩ | ⟨_, _, hcx, _⟩
      · rw [hw1.2]
        apply hcc
        simpa using hcond
      · rw [hcx hw1.1]; simp [contactsAcc]

/-- **Behaviour before 549b756 violates it**: URL stored, binding AND contacts changed, key
unchanged; the CA answers newAccount with the existing account ⇒ the synchronisation returns with
every fingerprint "in sync" while the CA still has the old contacts; no contact update is sent. -/
theorem sync_binding_old_is_false :
    ∃ w, (synchronize ⟨false, true, true, true, false, .first⟩ w).1.tag = .ok ∧
      w.acc.caKey = w.acc.recKey ∧ (w.acc.contactsInSync = true → w.acc.caContactsOk = true) ∧
      NoADNE w ∧ (∀ ho hl, .ok (.account ho hl true) ∈ w.exs →
        w.acc.hasUrl = true ∧ w.acc.keyInSync = true) ∧
      Synced (synchronize ⟨false, true, true, true, false, .first⟩ w).2.acc ∧
      (synchronize ⟨false, true, true, true, false, .first⟩ w).2.acc.caContactsOk = false ∧
      kindCount .accountUpdate (synchronize ⟨false, true, true, true, false, .first⟩ w).2.trace = 0 :=
  ⟨⟨[.ok (.account true true true)], [true, true], [], ⟨none, none⟩, 0, true,
     ⟨true, false, false, true, 100, 100, 100, false⟩, []⟩,
   by
    refine ⟨by decide +kernel, rfl, by simp, by simp [NoADNE], ?_, ?_, by decide +kernel,
      by decide +kernel⟩
    · intro ho hl hm
      simp [Acc.keyInSync]
    · unfold Synced
      decide +kernel⟩

/-- Non-vacuity of `sync_ca_in_line` / `sync_one_per_item`: the same world in the current tree
returns, after one newAccount and one accountUpdate, with the CA's contacts updated. -/
example : (synchronize .current ⟨[.ok (.account true true true), .ok .undecodable],
    [true, true, true, true], [], ⟨none, none⟩, 0, true,
    ⟨true, false, false, true, 100, 100, 100, false⟩, []⟩).2.acc.caContactsOk = true := by
  decide +kernel

end AcmedVerif.Props.C11
