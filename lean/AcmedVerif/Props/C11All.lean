/-
C11, all theorems: persistence (`Props/C11Store.lean`, about `Model/Bincode.lean`) and
synchronisation (`Props/C11.lean`, about `Model/Flow.lean`).  `./check C11` audits
`Audit/C11Store.lean` and `Audit/C11.lean` (every `Audit/C11*.lean`).
-/
import AcmedVerif.Props.C11Store
import AcmedVerif.Props.C11
