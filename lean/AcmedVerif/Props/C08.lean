/-
C08 — recoverable errors are retried with the newest nonce, boundedly; others are not; polling is
bounded.  Section `Nonce`: the nonce clause of C04.  Section `Limiter`: the call-site clause of C09.
Theorems about `Model/Http.lean`; helper lemmas in `Lemmas/Http.lean`.

Reading guide.  A call returns `Out = (res, st, evs)`.  `posts evs` are its POST transmissions in
order, `postAnswers evs` the answers they got (same order), `Answer.verdict` says what `post` does
with an answer (`retry` / `success` / `fail`; `verdict_*_iff` below spell the three out).
All statements are for every script (any length), every state, every `N`/`K`.
-/
import AcmedVerif.Model.Http
import AcmedVerif.Lemmas.Http
import AcmedVerif.Gen.Tables
import AcmedVerif.Gen.Consts
import AcmedVerif.Spec.C08

namespace AcmedVerif.Props.C08
open AcmedVerif.Http

/-! ## The tables (tie 4.1 / 4.2) -/

/-- The recoverable rows of the table generated from the compiled Rust code are exactly the seven
named in the property, and the model's `ErrType`/`recoverable` reproduce the whole table row by
row (URN suffix, Rust variant, `is_recoverable`). -/
theorem recoverable_exact :
    (Gen.acmeErrors.filter (·.2.2)).map (·.1) =
        ["badNonce", "connection", "dns", "malformed", "rateLimited", "serverInternal", "tls"] ∧
    ErrType.all.map (fun t => (t.suffix, t.rustName, recoverable t)) = Gen.acmeErrors := by
  decide

/-- `ErrType.all` misses no variant, so the row-by-row agreement covers every error type. -/
theorem errType_all_complete (t : ErrType) : t ∈ ErrType.all := by
  cases t <;> decide

/-- The model's `recoverable` is true of exactly the seven. -/
theorem recoverable_iff (t : ErrType) :
    recoverable t = true ↔
      t = .badNonce ∨ t = .connection ∨ t = .dns ∨ t = .malformed ∨ t = .rateLimited ∨
      t = .serverInternal ∨ t = .tls := by
  cases t <;> simp [recoverable]

/-- `ErrType.ofType` (the model of `AcmeError::from(String)`) inverts the URN of every row, and
`about:blank` (absent `type` member) is `Unknown`. -/
theorem ofType_exact :
    (∀ t ∈ ErrType.all, ErrType.ofType (ErrType.urnPrefix ++ t.suffix) = t) ∧
    ErrType.ofType "about:blank" = .unknown := by
  decide

theorem retry_bound_is_10 : Gen.DEFAULT_HTTP_FAIL_NB_RETRY = 10 := by decide
theorem poll_bound_is_20 : Gen.DEFAULT_POOL_NB_TRIES = 20 := by decide

/-! ## What `post` does with one answer -/

/-- Retry ⇔ delivered, non-2xx, nonce header valid or absent, body a problem document whose type is
recoverable. -/
theorem verdict_retry_iff (a : Answer) :
    a.verdict = .retry ↔
      a.delivered = true ∧ a.ok2xx = false ∧ a.nonce ≠ .invalid ∧
      ∃ ty, a.body = .problem ty ∧ recoverable ty = true := by
  obtain ⟨d, o, h, b, rd⟩ := a
  cases d <;> cases o <;> cases h <;> cases b <;> simp [Answer.verdict]

/-- Success ⇔ delivered, 2xx, nonce header valid or absent, body readable. -/
theorem verdict_success_iff (a : Answer) :
    a.verdict = .success ↔
      a.delivered = true ∧ a.ok2xx = true ∧ a.nonce ≠ .invalid ∧ a.body ≠ .unreadable := by
  obtain ⟨d, o, h, b, rd⟩ := a
  cases d <;> cases o <;> cases h <;> cases b <;> simp [Answer.verdict] <;> split <;> simp_all

/-- The failing answers named in the property: transport failure, invalid nonce header, and for a
non-2xx answer a non-recoverable type, an untyped problem document, a body that is no problem
document. -/
theorem verdict_fail_of (a : Answer)
    (h : a.delivered = false ∨ a.nonce = .invalid ∨
      (a.ok2xx = false ∧
        ((∃ ty, a.body = .problem ty ∧ recoverable ty = false) ∨ a.body = .jsonOther ∨
          a.body = .notJson ∨ ∃ p, a.body = .payload p))) :
    a.verdict = .fail := by
  obtain ⟨d, o, hd, b, rd⟩ := a
  cases d <;> cases o <;> cases hd <;> cases b <;> simp_all [Answer.verdict]

/-! ## C08: the retry loop -/

/-- At most `N` POST transmissions per call, whatever the answers, the mode, the inputs. -/
theorem post_at_most_N (N : Nat) (mode : NonceMode) (st : State) (clientOk builderOk : Bool)
    (url : Nat) : (posts (post N mode st clientOk builderOk url).evs).length ≤ N :=
  post_length_le N mode st clientOk builderOk url

/-- With the constant of `main.rs`: at most 10. -/
theorem post_at_most_10 (mode : NonceMode) (st : State) (clientOk builderOk : Bool) (url : Nat) :
    (posts (post Gen.DEFAULT_HTTP_FAIL_NB_RETRY mode st clientOk builderOk url).evs).length ≤ 10 :=
  post_length_le 10 mode st clientOk builderOk url

/-- Exact count when a nonce is always at hand (one is stored, and in mode `take` every retryable
answer of the prefix brings a new one): `min N (1 + length of the retryable prefix of the script)`.
Holds also when the script runs out (the last transmission then has no answer). -/
theorem post_exact_count (N : Nat) (mode : NonceMode) (n0 : Nat) (script : List Answer)
    (nonceUrl url : Nat)
    (hn : mode = .take → ∀ a ∈ script.takeWhile Answer.isRetry, a.issued ≠ none) :
    (posts (post N mode ⟨some n0, script, nonceUrl⟩ true true url).evs).length =
      min N (1 + (script.takeWhile Answer.isRetry).length) := by
  have h := postLoop_count mode url N 0 ⟨some n0, script, nonceUrl⟩ (fun hm => ⟨by simp, hn hm⟩)
  simpa [post] using h

/-- Transmission `k+1` of the request.  Round `k+1` is entered iff answer `k` was retryable and
`k+1 < N`; an entered round transmits unless it cannot obtain a nonce (mode `take` only: the
`newNonce` GET — another request — fails or brings none), in which case the call ends there with
that failure.  Hypothesis: the script did not run out. -/
theorem retry_iff_recoverable (N : Nat) (mode : NonceMode) (st : State) (url k : Nat)
    (hs : (post N mode st true true url).res ≠ .stuck) :
    (k + 1 < (posts (post N mode st true true url).evs).length ∨
      ((posts (post N mode st true true url).evs).length = k + 1 ∧
        (post N mode st true true url).res.nonceFailure = true)) ↔
    ∃ a, (postAnswers (post N mode st true true url).evs)[k]? = some a ∧ a.verdict = .retry ∧
      k + 1 < N :=
  (post_run N mode st true url).retry_iff rfl hs k

/-- When the call does not fail for want of a nonce — never in mode `cloneOld`
(`post_clone_nf`), and in mode `take` whenever one is stored and every retryable answer brings a
new one (`postLoop_take_nf`) — this is the plain statement: transmission `k+1` happens iff answer
`k` was delivered, non-2xx, carried a valid or no nonce header, decoded as a problem document of
recoverable type (`verdict_retry_iff`), and `k+1 < N`. -/
theorem retry_iff_recoverable_plain (N : Nat) (mode : NonceMode) (st : State) (url k : Nat)
    (hs : (post N mode st true true url).res ≠ .stuck)
    (hnf : (post N mode st true true url).res.nonceFailure = false) :
    k + 1 < (posts (post N mode st true true url).evs).length ↔
    ∃ a, (postAnswers (post N mode st true true url).evs)[k]? = some a ∧ a.verdict = .retry ∧
      k + 1 < N := by
  rw [← retry_iff_recoverable N mode st url k hs, hnf]
  simp

theorem retry_iff_recoverable_old (N : Nat) (st : State) (url k : Nat)
    (hs : (post N .cloneOld st true true url).res ≠ .stuck) :
    k + 1 < (posts (post N .cloneOld st true true url).evs).length ↔
    ∃ a, (postAnswers (post N .cloneOld st true true url).evs)[k]? = some a ∧ a.verdict = .retry ∧
      k + 1 < N :=
  retry_iff_recoverable_plain N .cloneOld st url k hs (post_clone_nf N st true true url)

theorem retry_iff_recoverable_supplied (N : Nat) (n0 : Nat) (script : List Answer)
    (nonceUrl url k : Nat)
    (hn : ∀ a ∈ script.takeWhile Answer.isRetry, a.issued ≠ none)
    (hs : (post N .take ⟨some n0, script, nonceUrl⟩ true true url).res ≠ .stuck) :
    k + 1 < (posts (post N .take ⟨some n0, script, nonceUrl⟩ true true url).evs).length ↔
    ∃ a, (postAnswers (post N .take ⟨some n0, script, nonceUrl⟩ true true url).evs)[k]? = some a ∧
      a.verdict = .retry ∧ k + 1 < N := by
  apply retry_iff_recoverable_plain N .take _ url k hs
  have := postLoop_take_nf url N 0 ⟨some n0, script, nonceUrl⟩ (by simp) hn
  simpa [post] using this

/-- Without that proviso the plain statement is false of the current code (mode `take`): answer 0
is `serverInternal` without `Replay-Nonce`, the `newNonce` GET that must precede the retry is cut,
and the request is not sent again although `1 < 10` (the call fails with the GET's error).  The old
code would have retried with the stale nonce. -/
theorem retry_plain_full_is_false :
    ∃ (st : State) (url k : Nat),
      (post 10 .take st true true url).res ≠ .stuck ∧
      (∃ a, (postAnswers (post 10 .take st true true url).evs)[k]? = some a ∧ a.verdict = .retry ∧
        k + 1 < 10) ∧
      ¬ (k + 1 < (posts (post 10 .take st true true url).evs).length) := by
  refine ⟨⟨some 0, [⟨true, false, .absent, .problem .serverInternal, .no⟩,
    ⟨false, false, .absent, .notJson, .no⟩], 9⟩, 5, 0, by decide, ?_, by decide⟩
  exact ⟨⟨true, false, .absent, .problem .serverInternal, .no⟩, by decide, by decide, by decide⟩

/-- The "only if" half needs no hypothesis at all (any inputs, script may run out): a further
transmission happens only after a retryable answer, and only below the bound. -/
theorem retry_only_if_recoverable (N : Nat) (mode : NonceMode) (st : State)
    (clientOk builderOk : Bool) (url k : Nat)
    (h : k + 1 < (posts (post N mode st clientOk builderOk url).evs).length) :
    ∃ a, (postAnswers (post N mode st clientOk builderOk url).evs)[k]? = some a ∧
      a.verdict = .retry ∧ k + 1 < N := by
  cases clientOk
  · simp [post_clientFail] at h
  · exact (post_run N mode st builderOk url).retry_only_if k h

/-- `Ok` only on a 2xx answer: the last answer was delivered, 2xx, and the returned body is its
body; every transmission had an answer. -/
theorem success_only_on_2xx (N : Nat) (mode : NonceMode) (st : State) (clientOk builderOk : Bool)
    (url : Nat) (body : Body) (h : (post N mode st clientOk builderOk url).res = .ok body) :
    ∃ a, (postAnswers (post N mode st clientOk builderOk url).evs).getLast? = some a ∧
      a.verdict = .success ∧ a.ok2xx = true ∧ a.delivered = true ∧ a.body = body ∧
      (postAnswers (post N mode st clientOk builderOk url).evs).length =
        (posts (post N mode st clientOk builderOk url).evs).length := by
  cases clientOk
  · simp [post_clientFail] at h
  · exact (post_run N mode st builderOk url).success_last body h

/-- After a failing answer (see `verdict_fail_of`: non-recoverable type, untyped problem, non-JSON
body, transport failure, invalid nonce header) that request is not sent again and the call
returns an error. -/
theorem no_resend_after_other_error (N : Nat) (mode : NonceMode) (st : State)
    (clientOk builderOk : Bool) (url k : Nat) (a : Answer)
    (hk : (postAnswers (post N mode st clientOk builderOk url).evs)[k]? = some a)
    (hv : a.verdict = .fail) :
    (posts (post N mode st clientOk builderOk url).evs).length = k + 1 ∧
    (postAnswers (post N mode st clientOk builderOk url).evs).length = k + 1 ∧
    ∃ e, (post N mode st clientOk builderOk url).res = .err e := by
  cases clientOk
  · simp [post_clientFail] at hk
  · have := (post_run N mode st builderOk url).last_word k a hk (by simp [hv])
    exact ⟨this.1, this.2.1, this.2.2.2 hv⟩

/-- Nor after a success: the call returns that answer's body at once. -/
theorem no_resend_after_success (N : Nat) (mode : NonceMode) (st : State)
    (clientOk builderOk : Bool) (url k : Nat) (a : Answer)
    (hk : (postAnswers (post N mode st clientOk builderOk url).evs)[k]? = some a)
    (hv : a.verdict = .success) :
    (posts (post N mode st clientOk builderOk url).evs).length = k + 1 ∧
    (post N mode st clientOk builderOk url).res = .ok a.body := by
  cases clientOk
  · simp [post_clientFail] at hk
  · have := (post_run N mode st builderOk url).last_word k a hk (by simp [hv])
    exact ⟨this.1, this.2.2.1 hv⟩

/-- All transmissions of one call go to the call's URL and are rounds `0, 1, 2, …`: the builder
gets `(nonce, url)` each time, so its inputs differ only in the nonce (which one: `nonce_newest`). -/
theorem retry_identical_but_nonce (N : Nat) (mode : NonceMode) (st : State)
    (clientOk builderOk : Bool) (url : Nat) :
    (∀ p ∈ posts (post N mode st clientOk builderOk url).evs, p.url = url) ∧
    (posts (post N mode st clientOk builderOk url).evs).map PostTx.round =
      List.range (posts (post N mode st clientOk builderOk url).evs).length := by
  cases clientOk
  · simp [post_clientFail]
  · have h := post_run N mode st builderOk url
    exact ⟨h.urls, by rw [h.rounds, List.range_eq_range']⟩

/-! ## C08: polling -/

/-- A poll makes at most `K` calls of `post` (one `pollWait` each), hence at most `K·N`
transmissions. -/
theorem poll_at_most_K (K N : Nat) (mode : NonceMode) (st : State) (clientOk builderOk : Bool)
    (url : Nat) (dec mat : Body → Bool) :
    pollWaits (poll K N mode st clientOk builderOk url dec mat).evs ≤ K ∧
    (posts (poll K N mode st clientOk builderOk url dec mat).evs).length ≤ K * N :=
  pollLoop_bounds N mode clientOk builderOk url dec mat K 0 st

theorem poll_at_most_20 (mode : NonceMode) (st : State) (clientOk builderOk : Bool)
    (url : Nat) (dec mat : Body → Bool) :
    pollWaits (poll Gen.DEFAULT_POOL_NB_TRIES Gen.DEFAULT_HTTP_FAIL_NB_RETRY mode st clientOk
      builderOk url dec mat).evs ≤ 20 :=
  (pollLoop_bounds 10 mode clientOk builderOk url dec mat 20 0 st).1

/-- `okBodies evs` = the bodies the `post` calls of the poll returned.  Every one but the last
decoded and did not match (so: no call after the first match, none after an undecodable body);
and if the poll returns `Ok b`, `b` is the last of them, it decodes and matches, and the number of
calls is exactly the number of bodies. -/
theorem poll_stops_at_first_match (K N : Nat) (mode : NonceMode) (st : State)
    (clientOk builderOk : Bool) (url : Nat) (dec mat : Body → Bool) :
    (∀ pre x suf, okBodies (poll K N mode st clientOk builderOk url dec mat).evs = pre ++ x :: suf →
      suf ≠ [] → dec x = true ∧ mat x = false) ∧
    (∀ b, (poll K N mode st clientOk builderOk url dec mat).res = .ok b →
      ∃ pre, okBodies (poll K N mode st clientOk builderOk url dec mat).evs = pre ++ [b] ∧
        dec b = true ∧ mat b = true ∧
        pollWaits (poll K N mode st clientOk builderOk url dec mat).evs = pre.length + 1) :=
  pollLoop_first_match N mode clientOk builderOk url dec mat K 0 st

/-! ## The model passes the judge (`Spec.C08.holds` asks no more than the code does) -/

/-- For every script and state: what the mock CA would log for one call of the current `post`
(`observe`) passes `Spec.C08.holds` with the same bound `N`. -/
theorem post_meets_judge (N : Nat) (st : State) (url : Nat)
    (hs : (post N .take st true true url).res ≠ .stuck) :
    Spec.C08.holds N (observe st.nonce (post N .take st true true url).evs)
      (outcomeOf (post N .take st true true url).res) = true :=
  post_holds N st url hs

theorem poll_meets_judge (K N : Nat) (mode : NonceMode) (st : State) (clientOk builderOk : Bool)
    (url : Nat) (dec mat : Body → Bool) :
    Spec.C08.pollHolds K
      ((okBodies (poll K N mode st clientOk builderOk url dec mat).evs).map mat) = true :=
  pollLoop_pollHolds N mode clientOk builderOk url dec mat K 0 st

/-- The judge is not vacuous: it rejects the old code's retry with the empty nonce … -/
example :
    Spec.C08.holds 10
      (observe none (post 10 .cloneOld ⟨none,
        [⟨false, false, .absent, .notJson, .no⟩,
         ⟨true, false, .absent, .problem .badNonce, .no⟩,
         ⟨true, true, .valid 3, .payload 2, .no⟩], 0⟩ true true 5).evs) .ok = false := by decide

/-- … an eleventh transmission, a retry after `unauthorized`, and a success on a 403. -/
example : Spec.C08.holds 10 (List.replicate 11
    (⟨.recoverableProblem, some 1, some 1, 0⟩ : Spec.C08.ObsTx Nat Nat)) .failed = false := by decide
example : Spec.C08.holds 10
    [(⟨.otherProblem, some 1, some 1, 0⟩ : Spec.C08.ObsTx Nat Nat), ⟨.ok2xx, some 2, some 2, 0⟩]
    .ok = false := by decide
example : Spec.C08.holds 10
    [(⟨.otherProblem, some 1, some 1, 0⟩ : Spec.C08.ObsTx Nat Nat)] .ok = false := by decide

/-! ## C04, nonce clause -/
section Nonce

/-- Over any sequence of `get`/`post`/poll calls, in both modes: each POST carries the newest nonce
handed out before it (`lastIssued`: by the most recent answer that had a valid `Replay-Nonce`;
the initially stored one if there was none yet). -/
theorem nonce_newest (K N : Nat) (mode : NonceMode) (st : State) (calls : List Call)
    (pre suf : List Ev) (u r : Nat) (n : Option Nat)
    (h : (runCalls K N mode st calls).2.2 = pre ++ .postSend u n r :: suf) :
    n = lastIssued st.nonce pre := by
  obtain ⟨c', hw, -⟩ := (runCalls_good K N mode calls st).walk st.nonce (Or.inl rfl)
  exact walk_newest mode _ st.nonce st.nonce c' (Or.inl rfl) hw pre suf u r n h

/-- Mode `take`: a POST is never transmitted without a nonce (the old code sent `""`). -/
theorem no_post_without_nonce (K N : Nat) (st : State) (calls : List Call) :
    ∀ p ∈ posts (runCalls K N .take st calls).2.2, p.nonce ≠ none := by
  obtain ⟨c', hw, -⟩ := (runCalls_good K N .take calls st).walk st.nonce (Or.inl rfl)
  exact walk_take_some _ _ _ hw

/-- Mode `take`: after a POST transmission the stored nonce is `none` until an answer provides
one. -/
theorem nonce_consumed (K N : Nat) (st : State) (calls : List Call)
    (pre suf : List Ev) (u r : Nat) (n : Option Nat)
    (h : (runCalls K N .take st calls).2.2 = pre ++ .postSend u n r :: suf)
    (hi : issuedBy suf = []) :
    (runCalls K N .take st calls).2.1.nonce = none := by
  obtain ⟨c', hw, hinv⟩ := (runCalls_good K N .take calls st).walk st.nonce (Or.inl rfl)
  rw [h, walk_append] at hw
  cases h1 : walk .take st.nonce pre with
  | none => simp [h1] at hw
  | some c1 =>
    simp only [h1, Option.bind_some, walk_postSend_take] at hw
    split at hw
    · have := walk_take_consumed suf c' hw hi
      rcases hinv with h2 | ⟨-, h2⟩
      · rw [h2, this]
      · exact h2
    · simp at hw

/-- Mode `take`, freshness.  If the server never issues the same nonce twice (valid nonce values
of the script pairwise distinct and distinct from the one stored initially), then over ANY
sequence of calls no two POST transmissions carry the same nonce, every POST carries one, and it
was issued by an earlier answer of the trace or was the initially stored one. -/
theorem nonce_fresh (K N : Nat) (st : State) (calls : List Call)
    (hd : (st.nonce.toList ++ st.script.filterMap Answer.issued).Nodup) :
    (postNonces (runCalls K N .take st calls).2.2).Nodup ∧
    (∀ p ∈ posts (runCalls K N .take st calls).2.2, p.nonce ≠ none) ∧
    ∀ pre suf u n r, (runCalls K N .take st calls).2.2 = pre ++ .postSend u n r :: suf →
      ∃ m, n = some m ∧ m ∈ st.nonce.toList ++ issuedBy pre := by
  have hg := runCalls_good K N .take calls st
  obtain ⟨c', hw, -⟩ := hg.walk st.nonce (Or.inl rfl)
  refine ⟨?_, walk_take_some _ _ _ hw, ?_⟩
  · have hsub := walk_take_sublist _ _ _ hw
    have hpre : (issuedBy (runCalls K N .take st calls).2.2).Sublist
        (st.script.filterMap Answer.issued) := by
      rw [← hg.script, List.filterMap_append]
      exact List.sublist_append_left _ _
    exact (hd.sublist ((List.Sublist.refl _).append hpre)).sublist hsub
  · intro pre suf u n r h
    have hn := walk_newest .take _ st.nonce st.nonce c' (Or.inl rfl) hw pre suf u r n h
    have hsome := walk_take_some _ _ _ hw ⟨u, n, r⟩ (by simp [h])
    cases n with
    | none => exact absurd rfl hsome
    | some m => exact ⟨m, rfl, lastIssued_mem pre st.nonce m hn.symm⟩

/-- Mode `take`: when no nonce is stored and the nonce fetch — the `newNonce` GET together with
every redirection it is led through — fails or ends without a stored nonce, nothing is POSTed and
the call fails. -/
theorem no_post_when_fetch_fails_gen (N : Nat) (st : State) (clientOk builderOk : Bool) (url : Nat)
    (hn : st.nonce = none)
    (hf : (newNonce st clientOk).res.isOk = false ∨ (newNonce st clientOk).st.nonce = none) :
    posts (post N .take st clientOk builderOk url).evs = [] ∧
    (post N .take st clientOk builderOk url).res.isOk = false :=
  post_take_fetch_fails_gen N st clientOk builderOk url hn hf

/-- The same read off the first answer, when that answer is not a redirection `get` follows (since
commit 1dd071b `get` follows a 3xx answer with a `Location` itself; the statement without the first
conjunct of `hf` is false of that code: `no_post_when_fetch_fails_unguarded_is_false`). -/
theorem no_post_when_fetch_fails (N : Nat) (st : State) (clientOk builderOk : Bool) (url : Nat)
    (hn : st.nonce = none)
    (hf : ∀ g rest, st.script = g :: rest →
      (∀ u' k, g.redir ≠ .to u' k) ∧
      (g.issued = none ∨ g.ok2xx = false ∨ g.body = .unreadable)) :
    posts (post N .take st clientOk builderOk url).evs = [] ∧
    (post N .take st clientOk builderOk url).res.isOk = false :=
  post_take_fetch_fails N st clientOk builderOk url hn hf

/-- Without the guard: the `newNonce` GET is answered 302 (so `ok2xx = false`) with a `Location`
and a `Replay-Nonce`; `get` follows, the second answer is a 200, and the POST goes out with the
nonce of the 302 answer. -/
theorem no_post_when_fetch_fails_unguarded_is_false :
    ∃ (st : State) (url : Nat), st.nonce = none ∧
      (∀ g rest, st.script = g :: rest →
        g.issued = none ∨ g.ok2xx = false ∨ g.body = .unreadable) ∧
      posts (post 10 .take st true true url).evs ≠ [] := by
  refine ⟨⟨none, [⟨true, false, .valid 4, .notJson, .to 8 false⟩,
    ⟨true, true, .absent, .payload 0, .no⟩, ⟨true, true, .valid 5, .payload 2, .no⟩], 9⟩, 5,
    rfl, ?_, by decide⟩
  intro g rest h
  cases h
  decide

/-- The code before the repair (mode `cloneOld`): freshness is false.  The server issues every
nonce once (7 initially, then 9), answers the first POST with `serverInternal` and no
`Replay-Nonce`; the retry carries 7 again. -/
theorem nonce_fresh_old_is_false :
    ∃ (st : State) (calls : List Call),
      (st.nonce.toList ++ st.script.filterMap Answer.issued).Nodup ∧
      ¬ (postNonces (runCalls 20 10 .cloneOld st calls).2.2).Nodup := by
  refine ⟨⟨some 7, [⟨true, false, .absent, .problem .serverInternal, .no⟩,
    ⟨true, true, .valid 9, .payload 2, .no⟩], 0⟩, [.post true true 5], by decide, by decide⟩

/-- … and when its single `new_nonce` failed, it POSTed with the empty nonce. -/
theorem no_post_without_nonce_old_is_false :
    ∃ (st : State) (calls : List Call),
      ∃ p ∈ posts (runCalls 20 10 .cloneOld st calls).2.2, p.nonce = none := by
  refine ⟨⟨none, [⟨false, false, .absent, .notJson, .no⟩, ⟨true, true, .valid 9, .payload 2, .no⟩], 0⟩,
    [.post true true 5], ⟨5, none, 0⟩, by decide, rfl⟩

end Nonce

/-! ## C09, call-site clause -/
section Limiter

/-- In the trace of any call sequence (GETs, POSTs, nonce fetches, retries, polls; both modes)
every send event is immediately preceded by a pass through the limiter. -/
theorem every_path_limited (K N : Nat) (mode : NonceMode) (st : State) (calls : List Call)
    (pre suf : List Ev) (e : Ev) (he : e.isSend = true)
    (h : (runCalls K N mode st calls).2.2 = pre ++ e :: suf) :
    ∃ pre', pre = pre' ++ [.admit] := by
  have hl := (runCalls_good K N mode calls st).lim
  rcases limitedAux_spec _ false hl pre suf e he h with ⟨-, hp⟩ | h'
  · cases hp
  · exact h'

theorem every_path_limited_bool (K N : Nat) (mode : NonceMode) (st : State) (calls : List Call) :
    limited (runCalls K N mode st calls).2.2 = true :=
  (runCalls_good K N mode calls st).lim

end Limiter

/-! ## Non-vacuity: concrete inputs satisfying the hypotheses used above -/
section Examples

private def rec500 (h : NonceHdr) : Answer := ⟨true, false, h, .problem .serverInternal, .no⟩
private def ok200 (h : NonceHdr) (p : Nat) : Answer := ⟨true, true, h, .payload p, .no⟩
private def exScript : List Answer := [rec500 (.valid 1), rec500 (.valid 2), ok200 (.valid 3) 2]

-- `post_exact_count`, `retry_iff_recoverable_supplied`: two retryable answers bringing nonces
example : ∀ a ∈ exScript.takeWhile Answer.isRetry, a.issued ≠ none := by decide
example : (posts (post 10 .take ⟨some 0, exScript, 9⟩ true true 5).evs).length = 3 := by decide
example : (post 10 .take ⟨some 0, exScript, 9⟩ true true 5).res = .ok (.payload 2) := by decide
-- `retry_iff_recoverable`: a run that is not stuck and does fail for want of a nonce
example : (post 10 .take ⟨some 0, [rec500 .absent, ⟨false, false, .absent, .notJson, .no⟩], 9⟩
    true true 5).res = .err (.nonceFetch .transport) := by decide
-- the bound is reached: ten recoverable answers, ten transmissions, "too much errors"
example : (posts (post 10 .take ⟨some 0, List.replicate 12 (rec500 (.valid 4)), 9⟩
    true true 5).evs).length = 10 := by decide
example : (post 10 .take ⟨some 0, List.replicate 12 (rec500 (.valid 4)), 9⟩
    true true 5).res = .err .tooManyErrors := by decide

-- `nonce_fresh`: a GET, a POST with a retry and a nonce fetch, a poll of two rounds with a retry
private def exCalls : List Call := [.get true 1, .post true true 5, .poll true true 6 stdDec stdMat]
private def exSt : State :=
  ⟨none, [ok200 (.valid 10) 0, rec500 .absent, ok200 (.valid 11) 0, ok200 (.valid 12) 2,
    ok200 (.valid 13) 1, rec500 (.valid 14), ok200 .absent 2], 9⟩
example : (exSt.nonce.toList ++ exSt.script.filterMap Answer.issued).Nodup := by decide
example : postNonces (runCalls 20 10 .take exSt exCalls).2.2 = [10, 11, 12, 13, 14] := by decide
example : (runCalls 20 10 .take exSt exCalls).1 =
    [.ok (.payload 0), .ok (.payload 2), .ok (.payload 2)] := by decide

end Examples

end AcmedVerif.Props.C08
