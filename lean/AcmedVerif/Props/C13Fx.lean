/-
C13 with file hooks that ACT on the written file (`Model/StorageFx.lean`): a pre hook may leave the
file, remove it, move it away, replace it by another file or create it; post hooks likewise.
"Created" means created by THIS write: the path was absent when `open` ran (`atOpen = none`),
whatever existed before the hooks.  Judged is the file the post hooks see (`afterWrite`); when the
post hooks do nothing that is the file `write_file` leaves (`final_is_what_post_hooks_saw`).
`ModeArg.always` is the code; `ModeArg.whenIsNew` the variant that hands the mode to `open` only
`if is_new` (decided before the pre hooks).
-/
import AcmedVerif.Gen.Consts
import AcmedVerif.Model.Storage
import AcmedVerif.Model.StorageFx
import AcmedVerif.Spec.C13
import AcmedVerif.Spec.C13Fx
import AcmedVerif.Lemmas.Storage
import AcmedVerif.Lemmas.StorageFx
import AcmedVerif.Props.C13

namespace AcmedVerif.Props.C13Fx
open AcmedVerif.Fs AcmedVerif.Storage AcmedVerif.StorageFx

/-- Conservative extension: with hooks that do nothing `writeFileFx` IS `Storage.writeFile` (file
system, result, events), in both `ModeArg` variants — which is why a check whose hooks never touch
the file system cannot tell the variants apart. -/
theorem no_effects_is_writeFile (trunc : Trunc) (ma : ModeArg) (env : Env) (proc : Proc)
    (s : Settings) (fs : Fs) (t : FileType) (p : Path) (data : List UInt8) :
    (writeFileFx trunc ma env noFx proc s fs t p data).fs = (writeFile trunc env proc s fs t p data).fs ∧
    (writeFileFx trunc ma env noFx proc s fs t p data).result =
      (writeFile trunc env proc s fs t p data).result ∧
    (writeFileFx trunc ma env noFx proc s fs t p data).events =
      (writeFile trunc env proc s fs t p data).events ∧
    (writeFileFx trunc ma env noFx proc s fs t p data).atOpen = get fs p := by
  have hm : openCreate proc fs p (openMode ma (get fs p).isNone (modeFor s t)) trunc =
      openCreate proc fs p (modeFor s t) trunc := by
    cases ma with
    | always => rfl
    | whenIsNew =>
      cases hn : (get fs p).isNone with
      | true => rfl
      | false =>
        apply openCreate_present
        cases hg : get fs p with
        | none => rw [hg] at hn; cases hn
        | some f => rfl
  unfold writeFileFx writeFile
  simp only [noFx, applyEffects_nil, hm]
  cases env.hookOk (preHook (get fs p).isNone) with
  | false => simp
  | true =>
    simp only [Bool.not_true, Bool.false_eq_true, if_false]
    generalize setOwner env proc s _ t p = r
    cases r with
    | error e => simp
    | ok v =>
      cases v
      cases env.hookOk (postHook (get fs p).isNone) <;> simp

/-- After a `write_file` whose pre hooks passed, the post hooks see a file. -/
theorem written_file_exists_with_hook_effects (trunc : Trunc) (env : Env)
    (fx : HookType → List Effect) (proc : Proc) (s : Settings) (fs : Fs) (t : FileType) (p : Path)
    (data : List UInt8) (hpre : env.hookOk (preHook (get fs p).isNone) = true) :
    (writeFileFx trunc .always env fx proc s fs t p data).afterWrite =
      some (finalFile trunc env proc s (writeFileFx trunc .always env fx proc s fs t p data).atOpen
        t data) :=
  writeFileFx_afterWrite_eq trunc env fx proc s fs t p data hpre

/-- **Exact characterisation, every history incl. hook effects** (all modes, umasks, owners, any
file system before the call, any effects of the pre and post hooks): whenever `set_owner` does not
fail, the `stat` of the file the post hooks see is what the C13 judge expects — with "the file the
write found" taken at OPEN time (`Spec.C13.foundAtOpen`): `i`, `j` are the inode numbers a harness
reads after the pre hooks and when the post hooks start; `open(2)` keeps the inode of a file it
finds (`hino`) and `before` (what existed before the hooks) is arbitrary. -/
theorem stat_meets_spec_with_hook_effects (env : Env) (fx : HookType → List Effect) (proc : Proc)
    (s : Settings) (fs : Fs) (t : FileType) (p : Path) (data : List UInt8) (wu wg : Option Nat)
    (before : Option Spec.C13.Seen) (i j : Nat)
    (hpre : env.hookOk (preHook (get fs p).isNone) = true)
    (hown : ∀ u g, ownerCfg s t = some (u, g) →
      resolve env.lookupUser u = some wu ∧ resolve env.lookupGroup g = some wg ∧
      env.chownOk = true)
    (hino : (writeFileFx .yes .always env fx proc s fs t p data).atOpen.isSome = true → i = j) :
    ∃ f, (writeFileFx .yes .always env fx proc s fs t p data).afterWrite = some f ∧
      Spec.C13.holdsFx
        { ftype := t, certMode := s.certMode, pkMode := s.pkMode, umask := proc.umask,
          procUid := proc.uid, procGid := proc.gid, fsetid := proc.fsetid,
          wantUid := wu, wantGid := wg, dataEmpty := data.isEmpty, before := before,
          afterPre := (writeFileFx .yes .always env fx proc s fs t p data).atOpen.map
            fun g => { ino := i, stat := statOf g },
          written := { ino := j, stat := statOf f } } = true := by
  refine ⟨_, written_file_exists_with_hook_effects .yes env fx proc s fs t p data hpre, ?_⟩
  generalize (writeFileFx .yes .always env fx proc s fs t p data).atOpen = old at hino
  have hfound : Spec.C13.foundAtOpen (old.map fun g => { ino := i, stat := statOf g })
      { ino := j, stat := statOf (finalFile .yes env proc s old t data) } = old.map statOf := by
    cases old with
    | none => rfl
    | some g => simp [Spec.C13.foundAtOpen, hino rfl]
  unfold Spec.C13.holdsFx Spec.C13.holds Spec.C13.Watch.case
  simp only [hfound]
  rw [decide_eq_true_eq]
  exact spec_c13_final env proc s old t data wu wg _ hown

/-- The judge does not look at what existed before the hooks. -/
theorem judge_ignores_what_existed_before (w : Spec.C13.Watch) (b : Option Spec.C13.Seen) :
    Spec.C13.holdsFx { w with before := b } = Spec.C13.holdsFx w := rfl

/-- **C13.1 with hook effects.** For every file system before the call and every effect of the
hooks: a file created by the write (the path was absent when `open` ran: first creation, or the
previous file moved away / removed by a `file-pre-edit` hook) has EXACTLY the configured mode of its
type masked by the umask when the post hooks see it, for every configured mode without
set-user-id/set-group-id bit — whatever mode the file had before the hooks, and whatever happens
afterwards in `write_file` (`chown` refused, ids unparsable, post hook failing). -/
theorem created_mode_exact_with_hook_effects (trunc : Trunc) (env : Env)
    (fx : HookType → List Effect) (proc : Proc) (s : Settings) (fs : Fs) (t : FileType) (p : Path)
    (data : List UInt8)
    (hpre : env.hookOk (preHook (get fs p).isNone) = true)
    (hcreated : (writeFileFx trunc .always env fx proc s fs t p data).atOpen = none)
    (hplain : modeFor s t &&& 0o6000 = 0) :
    ∃ f, (writeFileFx trunc .always env fx proc s fs t p data).afterWrite = some f ∧
      f.mode = maskMode (modeFor s t) proc.umask := by
  refine ⟨_, written_file_exists_with_hook_effects trunc env fx proc s fs t p data hpre, ?_⟩
  rw [hcreated]
  apply finalFile_mode_plain
  show maskMode (modeFor s t) proc.umask &&& 0o6000 = 0
  unfold maskMode
  exact and_and_eq_zero _ _ _ hplain

/-- …and for EVERY configured mode the permission bits (and the sticky bit) are as configured. -/
theorem created_perm_bits_with_hook_effects (trunc : Trunc) (env : Env)
    (fx : HookType → List Effect) (proc : Proc) (s : Settings) (fs : Fs) (t : FileType) (p : Path)
    (data : List UInt8)
    (hpre : env.hookOk (preHook (get fs p).isNone) = true)
    (hcreated : (writeFileFx trunc .always env fx proc s fs t p data).atOpen = none) :
    ∃ f, (writeFileFx trunc .always env fx proc s fs t p data).afterWrite = some f ∧
      f.mode &&& 0o1777 = maskMode (modeFor s t) proc.umask &&& 0o1777 := by
  refine ⟨_, written_file_exists_with_hook_effects trunc env fx proc s fs t p data hpre, ?_⟩
  rw [hcreated]
  exact finalFile_mode_and _ _ _ _ _ _ _ _ (by decide) (by decide)

/-- **"Never readable by group or others unless the administrator asked for it", with hook
effects.** If the configured mode of the type has no group/other bit (account files: always), a
file created by the write has none — also when the file that was there before the pre hooks was
world-readable, and also when a pre hook moved a private file away. -/
theorem private_unless_asked_with_hook_effects (trunc : Trunc) (env : Env)
    (fx : HookType → List Effect) (proc : Proc) (s : Settings) (fs : Fs) (t : FileType) (p : Path)
    (data : List UInt8)
    (hpre : env.hookOk (preHook (get fs p).isNone) = true)
    (hcreated : (writeFileFx trunc .always env fx proc s fs t p data).atOpen = none)
    (hcfg : modeFor s t &&& 0o077 = 0) :
    ∃ f, (writeFileFx trunc .always env fx proc s fs t p data).afterWrite = some f ∧
      f.mode &&& 0o077 = 0 := by
  refine ⟨_, written_file_exists_with_hook_effects trunc env fx proc s fs t p data hpre, ?_⟩
  rw [hcreated, finalFile_mode_and _ _ _ _ _ _ _ _ (by decide) (by decide)]
  show maskMode (modeFor s t) proc.umask &&& 0o077 = 0
  unfold maskMode
  exact and_and_eq_zero _ _ _ hcfg

/-- **C13.2 with hook effects.** The owner and group of a file created by the write, when the post
hooks see it: the configured ones where configured and resolvable, the process' otherwise; account
files: the process' — whoever owned the file the pre hooks took away. -/
theorem created_owner_with_hook_effects (trunc : Trunc) (env : Env)
    (fx : HookType → List Effect) (proc : Proc) (s : Settings) (fs : Fs) (t : FileType) (p : Path)
    (data : List UInt8) (wu wg : Option Nat)
    (hpre : env.hookOk (preHook (get fs p).isNone) = true)
    (hcreated : (writeFileFx trunc .always env fx proc s fs t p data).atOpen = none)
    (hown : ∀ u g, ownerCfg s t = some (u, g) →
      resolve env.lookupUser u = some wu ∧ resolve env.lookupGroup g = some wg ∧
      env.chownOk = true) :
    ∃ f, (writeFileFx trunc .always env fx proc s fs t p data).afterWrite = some f ∧
      (t = .account → f.uid = proc.uid ∧ f.gid = proc.gid) ∧
      (t ≠ .account → f.uid = applyId wu proc.uid ∧ f.gid = applyId wg proc.gid) := by
  refine ⟨_, written_file_exists_with_hook_effects trunc env fx proc s fs t p data hpre, ?_, ?_⟩
  · intro ht
    subst ht
    rw [hcreated]
    unfold finalFile
    rw [ownedF_account]
    exact preFile_ids trunc proc s none .account data
  · intro ht
    rw [hcreated]
    obtain ⟨hiu, hig⟩ := preFile_ids trunc proc s none t data
    unfold finalFile
    cases t with
    | account => exact absurd rfl ht
    | privateKey =>
      obtain ⟨hu, hg, hok⟩ := hown _ _ rfl
      rw [ownedF_resolved env proc s .privateKey _ _ _ wu wg rfl hu hg hok, Option.getD_some]
      exact ⟨by show applyId wu _ = _; rw [hiu]; rfl, by show applyId wg _ = _; rw [hig]; rfl⟩
    | certificate =>
      obtain ⟨hu, hg, hok⟩ := hown _ _ rfl
      rw [ownedF_resolved env proc s .certificate _ _ _ wu wg rfl hu hg hok, Option.getD_some]
      exact ⟨by show applyId wu _ = _; rw [hiu]; rfl, by show applyId wg _ = _; rw [hig]; rfl⟩

/-- A file the write FOUND at open time (left, chmod-ed, replaced or created by a pre hook: acmed
did not create it) keeps its permission bits, and its whole mode when it has no
set-user-id/set-group-id bit — the reading of "rewrite" of `Props.C13.rewrite_keeps_mode`, with
the file taken at open time. -/
theorem found_file_keeps_mode_with_hook_effects (trunc : Trunc) (env : Env)
    (fx : HookType → List Effect) (proc : Proc) (s : Settings) (fs : Fs) (t : FileType) (p : Path)
    (data : List UInt8) (f0 : File)
    (hpre : env.hookOk (preHook (get fs p).isNone) = true)
    (hfound : (writeFileFx trunc .always env fx proc s fs t p data).atOpen = some f0) :
    ∃ f, (writeFileFx trunc .always env fx proc s fs t p data).afterWrite = some f ∧
      f.mode &&& 0o1777 = f0.mode &&& 0o1777 ∧ (f0.mode &&& 0o6000 = 0 → f.mode = f0.mode) := by
  refine ⟨_, written_file_exists_with_hook_effects trunc env fx proc s fs t p data hpre, ?_, ?_⟩
  · rw [hfound]; exact finalFile_mode_and _ _ _ _ _ _ _ _ (by decide) (by decide)
  · intro h; rw [hfound]; exact finalFile_mode_plain _ _ _ _ _ _ _ h

/-- When the post hooks do nothing, the file `write_file` leaves is the file they saw (so every
statement above is about the final state then), in both variants. -/
theorem final_is_what_post_hooks_saw (trunc : Trunc) (ma : ModeArg) (env : Env)
    (fx : HookType → List Effect) (proc : Proc) (s : Settings) (fs : Fs) (t : FileType) (p : Path)
    (data : List UInt8) (hpre : env.hookOk (preHook (get fs p).isNone) = true)
    (hpost : fx (postHook (get fs p).isNone) = []) :
    get (writeFileFx trunc ma env fx proc s fs t p data).fs p =
      (writeFileFx trunc ma env fx proc s fs t p data).afterWrite :=
  writeFileFx_final_no_post trunc ma env fx proc s fs t p data hpre hpost

/-! ### the variant "mode only `if is_new`" -/

/-- The archive history: a private key `0o600` of uid 7, a `file-pre-edit` hook `mv key key.bak`,
umask `0o022`, default settings. -/
def archiveFs : Fs := [("k.pem".toList, { content := [9, 9], mode := 0o600, uid := 7, gid := 8 })]
def archiveFx : HookType → List Effect
  | .filePreEdit => [.moveTo "k.pem.bak".toList]
  | _ => []
def archiveProc : Proc := { umask := 0o022, uid := 0, gid := 0 }

/-- **Old-variant witness.** With the mode handed to `open` only `if is_new` — `is_new` computed
before the pre hooks — `created_mode_exact_with_hook_effects` is FALSE: on the archive history the
write creates the key file (nothing at the path at open time) with `0o666 & ~0o022 = 0o644`
instead of `0o600`: group and others can read the private key. -/
theorem mode_from_is_new_before_hooks_is_false :
    ¬ ∀ (trunc : Trunc) (env : Env) (fx : HookType → List Effect) (proc : Proc) (s : Settings)
        (fs : Fs) (t : FileType) (p : Path) (data : List UInt8),
        env.hookOk (preHook (get fs p).isNone) = true →
        (writeFileFx trunc .whenIsNew env fx proc s fs t p data).atOpen = none →
        modeFor s t &&& 0o6000 = 0 →
        ∃ f, (writeFileFx trunc .whenIsNew env fx proc s fs t p data).afterWrite = some f ∧
          f.mode = maskMode (modeFor s t) proc.umask := by
  intro h
  obtain ⟨f, hf, hm⟩ := h .yes Env.allOk archiveFx archiveProc {} archiveFs .privateKey
    "k.pem".toList [1, 2, 3] (by decide) (by decide) (by decide)
  revert hm hf
  decide +revert

/-- The same history in detail, both variants: the code creates `0o600` (and the archived file
keeps its mode and owner), the variant creates `0o644`; the result is `ok` in both. -/
theorem archive_history_both_variants :
    let code := writeFileFx .yes .always Env.allOk archiveFx archiveProc {} archiveFs .privateKey
      "k.pem".toList [1, 2, 3]
    let var := writeFileFx .yes .whenIsNew Env.allOk archiveFx archiveProc {} archiveFs .privateKey
      "k.pem".toList [1, 2, 3]
    code.isNew = false ∧ code.atOpen = none ∧ code.created = true ∧ code.result = .ok ∧
    get code.fs "k.pem".toList = some { content := [1, 2, 3], mode := 0o600, uid := 0, gid := 0 } ∧
    get code.fs "k.pem.bak".toList = some { content := [9, 9], mode := 0o600, uid := 7, gid := 8 } ∧
    var.result = .ok ∧ var.created = true ∧
    get var.fs "k.pem".toList = some { content := [1, 2, 3], mode := 0o644, uid := 0, gid := 0 } ∧
    Spec.C13.isPrivate 0o644 = false := by
  decide

/-- The variant differs from the code ONLY when a pre hook changed the existence of the file: if
the path is present at open time exactly when it was present before the hooks, both variants leave
the same file system, result and events. -/
theorem variant_agrees_when_pre_hooks_keep_existence (trunc : Trunc) (env : Env)
    (fx : HookType → List Effect) (proc : Proc) (s : Settings) (fs : Fs) (t : FileType) (p : Path)
    (data : List UInt8)
    (hsame : (get (afterPre fx fs p).fs p).isNone = (get fs p).isNone) :
    writeFileFx trunc .whenIsNew env fx proc s fs t p data =
      writeFileFx trunc .always env fx proc s fs t p data := by
  have hm : openCreate proc (afterPre fx fs p).fs p
        (openMode .whenIsNew (get fs p).isNone (modeFor s t)) trunc =
      openCreate proc (afterPre fx fs p).fs p (modeFor s t) trunc := by
    cases hn : (get fs p).isNone with
    | true => rfl
    | false =>
      apply openCreate_present
      rw [hn] at hsame
      cases hg : get (afterPre fx fs p).fs p with
      | none => rw [hg] at hsame; cases hsame
      | some f => rfl
  unfold afterPre at hm
  unfold writeFileFx
  simp only [hm]
  rfl

/-! ### non-vacuity -/

/-- The hypotheses of `created_mode_exact_with_hook_effects` are satisfiable by a REWRITE (the file
existed, world-readable, owned by somebody else) whose pre-edit hook moves the file away; the
created file is `0o600` and owned by the configured user. -/
example :
    let env := Env.ofTables true true true true [("acme".toList, 1000)] [] true
    let fs : Fs := [("k.pem".toList, { content := [9], mode := 0o644, uid := 5, gid := 6 })]
    let out := writeFileFx .yes .always env archiveFx archiveProc
      { pkUser := some "acme".toList } fs .privateKey "k.pem".toList [1]
    out.isNew = false ∧ out.atOpen = none ∧ out.result = .ok ∧
    out.afterWrite = some { content := [1], mode := 0o600, uid := 1000, gid := 0 } ∧
    get out.fs "k.pem.bak".toList = some { content := [9], mode := 0o644, uid := 5, gid := 6 } := by
  decide

/-- A pre-create hook that creates the file (`install -m 0644`): the write finds it
(`found_file_keeps_mode_with_hook_effects` applies, not the creation clause), a post hook then
tightens it; the final file is the post hook's. -/
example :
    let fx : HookType → List Effect := fun
      | .filePreCreate => [.replace { content := [], mode := 0o644, uid := 3, gid := 4 }]
      | .filePostCreate => [.chmod 0o400]
      | _ => []
    let out := writeFileFx .yes .always Env.allOk fx archiveProc {} [] .privateKey "k.pem".toList [1]
    out.isNew = true ∧ out.created = false ∧
    out.afterWrite = some { content := [1], mode := 0o644, uid := 3, gid := 4 } ∧
    get out.fs "k.pem".toList = some { content := [1], mode := 0o400, uid := 3, gid := 4 } ∧
    out.postKept = true := by
  decide

end AcmedVerif.Props.C13Fx
