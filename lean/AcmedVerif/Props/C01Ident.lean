/-
C01, identifier clauses — "the newOrder request lists exactly the configured identifiers (DNS names
as lowercase A-labels with wildcards kept, IP addresses in canonical text form), and the CSR has
exactly those names as subjectAltName dNSName/iPAddress entries".
Theorems about `Model/Idna.lean` and `Model/Ident.lean`; helper lemmas in `Lemmas/Idna.lean`,
`Lemmas/Ident.lean`.

Parameters, constrained by hypotheses only as far as each clause needs:
* `LowerAscii lowerStr`   — `str::to_lowercase` is ASCII lower-casing on all-ASCII strings (ASCII
  upper ↦ ASCII lower, other ASCII fixed); nothing is assumed about strings with non-ASCII content;
* `LowerNoUpper lowerStr` — lower-casing never outputs an ASCII upper-case letter (needed only for
  "no upper-case letter" in `xn--` labels: punycode copies the ASCII characters of its input);
* `LowerNoDot lowerStr`   — lower-casing never creates a '.' (needed only for the label count).
* `LowerBounded lowerStr` — lower-casing a label of at most 63 characters gives at most 3855
  characters (Unicode: at most 3 per character); needed only for `idna_total`.
`lowerAsciiOnly` (identity outside ASCII) satisfies all four, see the `example`s.

`chk : Bool` in the statements: `true` = the current tree, `toIdnaStr = toIdnaStrG true` (labels of
more than 63 characters rejected, commit 300bbf4); `false` = the tree before that commit,
`toIdnaStrOld = toIdnaStrG false`. Theorems stated for every `chk` hold of both.
-/
import AcmedVerif.Model.Idna
import AcmedVerif.Model.Ident
import AcmedVerif.Lemmas.Idna
import AcmedVerif.Lemmas.Ident
import AcmedVerif.Spec.C01Ident

namespace AcmedVerif.Props.C01Ident
open AcmedVerif.Idna AcmedVerif.Ident

/-- **`punycode_ascii`.** For every input and both arithmetic profiles: when the encoder succeeds,
every output character is ASCII; precisely it is an ASCII character copied from the input, the
delimiter `-`, or a digit character `a-z0-9` (so the `assert!` in `encode_digit` never fires); if
the ASCII characters of the input are letters, digits and hyphens only, so is the whole output.
The model's fuel is never exhausted. -/
theorem punycode_ascii (p : Profile) (input : List Char) :
    punycodeEncodeP p input ≠ .fuel ∧
    ∀ out, punycodeEncodeP p input = .ok out →
      (∀ c ∈ out, isAscii c = true) ∧
      (∀ c ∈ out, (c ∈ input ∧ isAscii c = true) ∨ c = '-' ∨ isAsciiLower c = true ∨
        isAsciiDigit c = true) ∧
      ((∀ c ∈ input, isAscii c = true →
          isAsciiLower c = true ∨ isAsciiUpper c = true ∨ isAsciiDigit c = true ∨ c = '-') →
        ∀ c ∈ out,
          isAsciiLower c = true ∨ isAsciiUpper c = true ∨ isAsciiDigit c = true ∨ c = '-') := by
  refine ⟨punycode_fuel_enough p input, fun out h => ⟨?_, ?_, ?_⟩⟩
  · exact fun c hc => (punycode_good p input out h c hc).ascii
  · exact fun c hc => punycode_good p input out h c hc
  · intro hin c hc
    rcases punycode_good p input out h c hc with h' | h' | h' | h'
    · exact hin c h'.1 h'.2
    · exact Or.inr (Or.inr (Or.inr h'))
    · exact Or.inl h'
    · exact Or.inr (Or.inr (Or.inl h'))

/-- **`punycode_total_partial`** (class: inputs of at most 3855 characters — every DNS label is at
most 63). On that class the encoder succeeds, and does so identically in both arithmetic
profiles: the checked multiplication cannot fail, the two unchecked `delta += 1` cannot overflow,
`min().unwrap()` cannot panic. -/
theorem punycode_total_partial (p : Profile) (input : List Char) (h : input.length ≤ 3855) :
    ∃ out, punycodeEncodeP p input = .ok out ∧ punycodeEncodeP .dev input = .ok out :=
  punycode_short p input h

/-- **`punycode_total_full_is_false`.** Without the length bound the statement is false of the
crate: 4000 × U+0080 followed by U+1061C2 (4001 characters) passes the only overflow check
(`lib.rs:158`) and then overflows the UNCHECKED `delta += 1` of `lib.rs:168` — a panic
("attempt to add with overflow") with overflow checks on (dev profile); with checks off (release)
the addition wraps and a wrong 4003-character encoding is returned (confirmed on the real crate:
same last characters `…aaaaaaaaa29s` as `punycodeEncodeP .release`). RFC 3492 section 6.4 asks
for a failure there. -/
theorem punycode_total_full_is_false :
    ¬ (∀ input, punycodeEncodeP .dev input ≠ .panic) ∧ overflowWitness.length = 4001 :=
  ⟨fun h => h overflowWitness overflowWitness_panics, overflowWitness_length⟩

/-- **`idna_total`.** For every domain text and both arithmetic profiles the CURRENT `to_idna`
returns `ok` or `err`, never a panic (nor the model's `fuel`): a label of more than 63 characters
is rejected before lower-casing, and the lower-cased form of a shorter one stays inside
`punycode_total_partial`'s class. -/
theorem idna_total (lowerStr : List Char → List Char) (hB : LowerBounded lowerStr) (p : Profile)
    (domain : List Char) :
    (∃ out, toIdnaStr lowerStr p domain = .ok out) ∨ toIdnaStr lowerStr p domain = .err :=
  toIdnaStrG_total hB p domain

/-- **`idna_total_old_is_false`.** Before commit 300bbf4 the same statement was false: the one-label
name of `punycode_total_full_is_false` (4000 × U+0080, U+1061C2; lower-casing leaves it unchanged)
made `to_idna` panic in a dev build — at configuration load, for a `dns` identifier. The current
`to_idna` answers `err` for it in both profiles. -/
theorem idna_total_old_is_false :
    ¬ (∀ domain, toIdnaStrOld (liftLower lowerAsciiOnly) .dev domain ≠ .panic) ∧
    (∀ lowerStr p, toIdnaStr lowerStr p overflowWitness = .err) :=
  ⟨fun h => h overflowWitness (overflowWitness_old_panics _ overflowWitness_lower_fix),
   fun lowerStr p => overflowWitness_now_err lowerStr p⟩

/-- **`idna_label_shape`.** For every domain text for which `to_idna` succeeds: the result is the
'.'-join of one output label per input label (same positions), where each output label
* is ASCII,
* equals the ASCII-lower-cased input label when that label is all-ASCII (in particular `*` stays
  `*`, field `star`),
* equals `xn--` followed by the punycode encoding of the lower-cased label otherwise;
the whole result is ASCII, and contains no upper-case ASCII letter if lower-casing never produces
one. -/
theorem idna_label_shape (chk : Bool) (lowerStr : List Char → List Char) (hA : LowerAscii lowerStr)
    (p : Profile) (domain out : List Char) (h : toIdnaStrG chk lowerStr p domain = .ok out) :
    ∃ ls, out = joinWith '.' ls ∧ ls.length = (splitOn '.' domain).length ∧
      (∀ x ∈ (splitOn '.' domain).zip ls, LabelShape lowerStr p x.1 x.2) ∧
      (∀ c ∈ out, isAscii c = true) ∧
      (LowerNoUpper lowerStr → ∀ c ∈ out, isAsciiUpper c = false) ∧
      (chk = true → ∀ name ∈ splitOn '.' domain, name.length ≤ 63) := by
  obtain ⟨ls, hls, rfl⟩ := toIdnaStr_ok chk lowerStr p domain out h
  obtain ⟨hlen, hz⟩ := idnaLabels_spec chk lowerStr p _ ls hls
  refine ⟨ls, rfl, hlen, fun x hx => idnaLabel_shape hA chk p x.1 x.2 (hz x hx), ?_, ?_, ?_⟩
  rotate_left 2
  · intro hc name hn
    subst hc
    obtain ⟨l, hl⟩ := exists_zip_of_mem_left (splitOn '.' domain) ls hlen name hn
    exact idnaLabelG_len lowerStr p name l (hz _ hl)
  · intro c hc
    rcases mem_joinWith '.' ls c hc with rfl | ⟨l, hl, hcl⟩
    · decide
    · obtain ⟨name, hn⟩ := exists_zip_of_mem_right _ ls hlen l hl
      have := (idnaLabel_shape hA chk p name l (hz _ hn)).ascii
      simp only [allAscii, List.all_eq_true] at this
      exact this c hcl
  · intro hU c hc
    rcases mem_joinWith '.' ls c hc with rfl | ⟨l, hl, hcl⟩
    · decide
    · obtain ⟨name, hn⟩ := exists_zip_of_mem_right _ ls hlen l hl
      exact idnaLabel_noUpper hA hU chk p name l (hz _ hn) c hcl

/-- **`idna_ascii_idempotent`.** A name that is already ASCII without upper-case letters (and, on
the current tree, without a label of more than 63 characters) is returned unchanged, whatever its
labels look like: empty labels, `*`, digits, … -/
theorem idna_ascii_idempotent (chk : Bool) (lowerStr : List Char → List Char)
    (hA : LowerAscii lowerStr) (p : Profile) (domain : List Char) (h1 : allAscii domain = true)
    (h2 : ∀ c ∈ domain, isAsciiUpper c = false)
    (h3 : chk = true → ∀ name ∈ splitOn '.' domain, name.length ≤ 63) :
    toIdnaStrG chk lowerStr p domain = .ok domain := by
  unfold toIdnaStrG
  rw [idnaLabels_self hA chk p (splitOn '.' domain) ?_ h3]
  · simp only [join_split]
  · intro n hn
    simp only [allAscii, List.all_eq_true] at h1 ⊢
    exact ⟨fun c hc => h1 c (mem_of_mem_splitOn '.' domain n c hn hc),
           fun c hc => h2 c (mem_of_mem_splitOn '.' domain n c hn hc)⟩

/-- Applying `to_idna` twice is the same as applying it once — on the current tree provided no
label of the RESULT is longer than 63 characters (the check of commit 300bbf4 looks at the
original label only: 60 × `é` pass it and give an `xn--` label of more than 63 characters, which
a second application rejects). -/
theorem idna_idempotent (chk : Bool) (lowerStr : List Char → List Char) (hA : LowerAscii lowerStr)
    (hU : LowerNoUpper lowerStr) (p : Profile) (domain out : List Char)
    (h : toIdnaStrG chk lowerStr p domain = .ok out)
    (h3 : chk = true → ∀ l ∈ splitOn '.' out, l.length ≤ 63) :
    toIdnaStrG chk lowerStr p out = .ok out := by
  obtain ⟨_, _, _, _, h4, h5, _⟩ := idna_label_shape chk lowerStr hA p domain out h
  exact idna_ascii_idempotent chk lowerStr hA p out (by simpa [allAscii] using h4) (h5 hU) h3

/-- **`idna_label_count`.** The result has as many labels as the input. -/
theorem idna_label_count (chk : Bool) (lowerStr : List Char → List Char) (hA : LowerAscii lowerStr)
    (hD : LowerNoDot lowerStr) (p : Profile) (domain out : List Char)
    (h : toIdnaStrG chk lowerStr p domain = .ok out) :
    (splitOn '.' out).length = (splitOn '.' domain).length := by
  obtain ⟨ls, hls, rfl⟩ := toIdnaStr_ok chk lowerStr p domain out h
  obtain ⟨hlen, hz⟩ := idnaLabels_spec chk lowerStr p _ ls hls
  rw [split_join '.' ls ?_ ?_, hlen]
  · intro e
    subst e
    exact splitOn_ne_nil '.' domain (List.eq_nil_of_length_eq_zero hlen.symm)
  · intro l hl
    obtain ⟨name, hn⟩ := exists_zip_of_mem_right _ ls hlen l hl
    exact idnaLabel_noDot hA hD chk p name l
      (splitOn_no_sep '.' domain name (List.of_mem_zip hn).1) (hz _ hn)

/-- **`order_ids_exact`.** For every list of configured identifiers that loads: the identifier
list of the newOrder payload is the configured list mapped through the normalisation
(`to_idna` for `dns`, canonical text for `ip`), entry by entry: same length, same order, same
types. -/
theorem order_ids_exact (P : Params) (raws : List RawId) (ids : List Identifier)
    (h : mkIdentifiers P raws = .ok ids) :
    (orderIds ids).length = raws.length ∧
    (orderIds ids).map (fun x => some (x.1, Except.ok x.2)) =
      raws.map (fun r => r.typed.map fun tv => (tv.1, normValue P tv.1 tv.2)) := by
  refine ⟨?_, orderIds_eq_expected P raws ids h⟩
  simp only [orderIds, List.length_map]
  exact (mkIdentifiers_spec P raws ids h).1

/-- **`csr_sans_perm_order`.** For every identifier list: the dNSName entries followed by the
iPAddress entries handed to the CSR builder are a permutation of the newOrder identifiers (nothing
dropped, nothing duplicated, types kept), and each class is exactly the sub-sequence of the
newOrder identifiers of that type (relative order kept). -/
theorem csr_sans_perm_order (ids : List Identifier) :
    ((csrDomains ids).map (fun v => (IdType.dns, v)) ++
      (csrIps ids).map (fun v => (IdType.ip, v))).Perm (orderIds ids) ∧
    csrDomains ids = ((orderIds ids).filter fun x => x.1 = .dns).map (·.2) ∧
    csrIps ids = ((orderIds ids).filter fun x => x.1 = .ip).map (·.2) :=
  ⟨typed_split_perm ids, csrDomains_eq ids, csrIps_eq ids⟩

/-! ## Non-vacuity and fixed points of the model against known values -/

/-- The hypotheses on the lower-casing parameter are satisfiable together. -/
example : LowerAscii (liftLower lowerAsciiOnly) ∧ LowerNoUpper (liftLower lowerAsciiOnly) ∧
    LowerNoDot (liftLower lowerAsciiOnly) ∧ LowerBounded (liftLower lowerAsciiOnly) :=
  ⟨liftLower_ascii lowerAsciiOnly_ascii, lowerAsciiOnly_noUpper, lowerAsciiOnly_noDot,
   lowerAsciiOnly_bounded⟩

/-- A label of 64 characters is rejected, one of 63 passes (current tree). -/
example : toIdnaWith lowerAsciiOnly .release (List.replicate 64 'a') = .err ∧
    toIdnaWith lowerAsciiOnly .release (List.replicate 63 'a') = .ok (List.replicate 63 'a') := by
  refine ⟨by decide +kernel, by decide +kernel⟩

/-- RFC 3492 style sample: `bücher` ↦ `bcher-kva`. -/
example : punycodeEncodeP .dev ['b', Char.ofNat 0xFC, 'c', 'h', 'e', 'r'] =
    .ok "bcher-kva".toList := by decide +kernel

/-- A wildcard IDN name in mixed case. -/
example : toIdnaWith lowerConcrete .release
    ['*', '.', 'B', Char.ofNat 0xDC, 'c', 'h', 'e', 'r', '.', 'D', 'E'] =
    .ok "*.xn--bcher-kva.de".toList := by decide +kernel

/-- DESIGN §1 observation (i): U+212A KELVIN SIGN is not ASCII, lower-cases to ASCII `k`. -/
example : toIdnaWith lowerConcrete .release [Char.ofNat 0x212A, '.', 'e', 'x'] =
    .ok "xn--k-.ex".toList := by decide +kernel

/-- `mkIdentifiers` succeeds on a mixed list; the CSR split separates the classes. -/
def sampleParams : Params :=
  { lowerStr := liftLower lowerConcrete, profile := .release,
    ipCanon := fun s => if s = "192.0.2.1".toList then some s else none }

def sampleRaws : List RawId :=
  [ { dns := some "Example.ORG".toList, ip := none, challenge := "HTTP-01".toList, env := [] },
    { dns := none, ip := some "192.0.2.1".toList, challenge := "tls-alpn-01".toList, env := [] },
    { dns := some "*.example.org".toList, ip := none, challenge := "dns-01".toList, env := [] } ]

example : ∃ ids, mkIdentifiers sampleParams sampleRaws = .ok ids ∧
    orderIds ids = [(.dns, "example.org".toList), (.ip, "192.0.2.1".toList),
      (.dns, "*.example.org".toList)] ∧
    csrDomains ids = ["example.org".toList, "*.example.org".toList] ∧
    csrIps ids = ["192.0.2.1".toList] := by
  refine ⟨_, rfl, ?_, ?_, ?_⟩ <;> decide +kernel

/-- dns-01 is refused for an IP identifier (`identifier.rs:65-69`). -/
example : Identifier.new sampleParams .ip "192.0.2.1".toList "dns-01".toList [] = .errUnsupported := by
  decide +kernel

/-! ## Consistency of the judge with the model

`Spec.C01Ident.holds` accepts what the model produces (so a run that matches the model is judged
as holding, and the judge's own definition of "lowercase A-label form" is not stricter than what
`to_idna` delivers under the stated hypotheses on lower-casing). -/

open AcmedVerif.Spec.C01Ident in
theorem labelsOk_of_zip (names ls : List (List Char)) (hlen : ls.length = names.length)
    (h : ∀ x ∈ names.zip ls, labelOk x.1 x.2 = true) : labelsOk names ls = true := by
  induction names generalizing ls with
  | nil =>
    have : ls = [] := List.eq_nil_of_length_eq_zero hlen
    subst this; rfl
  | cons n ns ih =>
    cases ls with
    | nil => simp at hlen
    | cons l ls' =>
      simp only [labelsOk, Bool.and_eq_true]
      refine ⟨h (n, l) (by simp), ih ls' (by simpa using hlen) ?_⟩
      intro x hx
      exact h x (by simp only [List.zip_cons_cons]; exact List.mem_cons_of_mem _ hx)

open AcmedVerif.Spec.C01Ident in
/-- The judge's shape definition accepts every result of `to_idna`. -/
theorem judge_accepts_idna (chk : Bool) (lowerStr : List Char → List Char)
    (hA : LowerAscii lowerStr)
    (hU : LowerNoUpper lowerStr) (hD : LowerNoDot lowerStr) (p : Profile) (domain out : List Char)
    (h : toIdnaStrG chk lowerStr p domain = .ok out) : dnsShapeOk domain out = true := by
  obtain ⟨ls, hls, rfl⟩ := toIdnaStr_ok chk lowerStr p domain out h
  obtain ⟨hlen, hz⟩ := idnaLabels_spec chk lowerStr p _ ls hls
  have hnodot : ∀ l ∈ ls, '.' ∉ l := by
    intro l hl
    obtain ⟨name, hn⟩ := exists_zip_of_mem_right _ ls hlen l hl
    exact idnaLabel_noDot hA hD chk p name l
      (splitOn_no_sep '.' domain name (List.of_mem_zip hn).1) (hz _ hn)
  have hne : ls ≠ [] := by
    intro e
    subst e
    exact splitOn_ne_nil '.' domain (List.eq_nil_of_length_eq_zero hlen.symm)
  unfold dnsShapeOk
  rw [split_join '.' ls hne hnodot]
  apply labelsOk_of_zip _ _ hlen
  intro x hx
  have sh := idnaLabel_shape hA chk p x.1 x.2 (hz x hx)
  have hup := idnaLabel_noUpper hA hU chk p x.1 x.2 (hz x hx)
  simp only [labelOk, Bool.and_eq_true]
  refine ⟨⟨sh.ascii, ?_⟩, ?_⟩
  · rw [List.all_eq_true]
    intro c hc
    simp [hup c hc]
  · by_cases hn : allAscii x.1 = true
    · simp only [hn, if_true]
      rw [← sh.asciiCase hn]
      exact beq_self_eq_true _
    · simp only [hn, Bool.false_eq_true, if_false]
      obtain ⟨o, _, ho⟩ := sh.idnCase (by simpa using hn)
      rw [ho]
      exact List.isPrefixOf_iff_prefix.2 (List.prefix_append _ _)

/-- The configuration as the judge sees it, with the MODEL's values as expectation. -/
def cfgOf (raws : List RawId) (ids : List Identifier) : List Spec.C01Ident.CfgId :=
  (raws.zip ids).map fun x =>
    { idType := x.2.idType, raw := (x.1.typed.map (·.2)).getD [], expected := x.2.value }

open AcmedVerif.Spec.C01Ident in
/-- For every configuration that loads, the judge accepts the model's newOrder identifiers and CSR
split (given that the canonical IP text has the judge's IP shape). -/
theorem judge_accepts_model (P : Params) (hA : LowerAscii P.lowerStr)
    (hU : LowerNoUpper P.lowerStr) (hD : LowerNoDot P.lowerStr)
    (hip : ∀ s o, P.ipCanon s = some o → ipShapeOk o = true)
    (raws : List RawId) (ids : List Identifier) (h : mkIdentifiers P raws = .ok ids) :
    holds (cfgOf raws ids) (orderIds ids) (csrDomains ids) (csrIps ids) = true := by
  obtain ⟨hlen, hz⟩ := mkIdentifiers_spec P raws ids h
  have hmap : (cfgOf raws ids).map (fun c => (c.idType, c.expected)) = orderIds ids := by
    simp only [cfgOf, List.map_map, orderIds]
    have : ((fun c : CfgId => (c.idType, c.expected)) ∘ fun x : RawId × Identifier =>
        ({ idType := x.2.idType, raw := (x.1.typed.map (·.2)).getD [], expected := x.2.value } : CfgId))
        = (fun i : Identifier => (i.idType, i.value)) ∘ Prod.snd := rfl
    rw [this, ← List.map_map, List.map_snd_zip (by omega)]
  have hexp : ∀ t, expectedOf t (cfgOf raws ids) =
      ((orderIds ids).filter fun x => x.1 = t).map (·.2) := by
    intro t
    rw [← hmap, List.filter_map, List.map_map]
    rfl
  simp only [holds, Bool.and_eq_true]
  refine ⟨⟨⟨?_, ?_⟩, ?_⟩, ?_⟩
  · rw [List.all_eq_true]
    intro c hc
    simp only [cfgOf, List.mem_map] at hc
    obtain ⟨x, hx, rfl⟩ := hc
    obtain ⟨t, v, htv, h1, h2, _⟩ := RawId.toGeneric_ok P x.1 x.2 (hz x hx)
    simp only [shapeOk, htv, Option.map_some, Option.getD_some, h1]
    cases t with
    | dns =>
      simp only [normValue] at h2
      split at h2
      · rename_i o ho
        simp only [Except.ok.injEq] at h2
        subst h2
        exact judge_accepts_idna true P.lowerStr hA hU hD P.profile v _ ho
      · exact absurd h2 (by simp)
      · exact absurd h2 (by simp)
    | ip =>
      simp only [normValue] at h2
      split at h2
      · rename_i o ho
        simp only [Except.ok.injEq] at h2
        subst h2
        exact hip v _ ho
      · exact absurd h2 (by simp)
  · rw [hmap]; exact beq_self_eq_true _
  · rw [hexp, ← csrDomains_eq]
    exact List.isPerm_iff.2 (List.Perm.refl _)
  · rw [hexp, ← csrIps_eq]
    exact List.isPerm_iff.2 (List.Perm.refl _)

/-- The judge rejects a run in which the order of two identifiers is swapped, a name is not
lower-cased, or a SAN is missing. -/
example :
    let cfg : List Spec.C01Ident.CfgId :=
      [ { idType := .dns, raw := "A.example".toList, expected := "a.example".toList },
        { idType := .dns, raw := "b.example".toList, expected := "b.example".toList } ]
    Spec.C01Ident.holds cfg [(.dns, "a.example".toList), (.dns, "b.example".toList)]
      ["b.example".toList, "a.example".toList] [] = true ∧
    Spec.C01Ident.holds cfg [(.dns, "b.example".toList), (.dns, "a.example".toList)]
      ["b.example".toList, "a.example".toList] [] = false ∧
    Spec.C01Ident.holds cfg [(.dns, "A.example".toList), (.dns, "b.example".toList)]
      ["b.example".toList, "a.example".toList] [] = false ∧
    Spec.C01Ident.holds cfg [(.dns, "a.example".toList), (.dns, "b.example".toList)]
      ["a.example".toList] [] = false := by
  refine ⟨by decide +kernel, by decide +kernel, by decide +kernel, by decide +kernel⟩

end AcmedVerif.Props.C01Ident
