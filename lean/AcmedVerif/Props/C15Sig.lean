/-
C15 — signature lengths: the table of the judge agrees with the model's ECDSA encoder, with the
judge C04 applies to real JWS, and is total on the algorithms the code can produce (Gen/Tables).
-/
import AcmedVerif.Spec.C15Sig
import AcmedVerif.Spec.C15
import AcmedVerif.Spec.C04
import AcmedVerif.Model.Jose
import AcmedVerif.Lemmas.Jose
import AcmedVerif.Gen.Tables

namespace AcmedVerif.Props.C15Sig
open AcmedVerif AcmedVerif.Spec.C15

/-- Every (key type, default algorithm) pair the compiled code reports (`Gen/Tables.keyTypes`) has a
mandated length (RSA: for any non-zero modulus size). -/
theorem sig_len_total :
    Gen.keyTypes.all (fun kt => (sigLenFor kt.2.1 256).isSome) = true := by decide

/-- Whatever it encodes, the model's fixed-width encoder returns `2·w` octets. -/
theorem sigEncode_length (w r s : Nat) (sig : List UInt8) (h : Jose.sigEncode w r s = some sig) :
    sig.length = 2 * w := by
  have fixedLen : ∀ n a, Bytes.ofNatFixed w n = some a → a.length = w := by
    intro n a ha
    unfold Bytes.ofNatFixed at ha
    simp only at ha
    split at ha
    · next hle =>
      simp only [Option.some.injEq] at ha
      subst ha
      simp only [List.length_append, List.length_replicate]
      omega
    · cases ha
  unfold Jose.sigEncode at h
  split at h
  · next a b ha hb =>
    simp only [Option.some.injEq] at h
    subst h
    rw [List.length_append, fixedLen _ _ ha, fixedLen _ _ hb]; omega
  · cases h

/-- For the ECDSA algorithms the table is the width of the model's fixed-width encoder: whatever
`r`, `s` below `256^w`, `sigEncode w r s` has the mandated length (w = 32, 48, 66). -/
theorem ecdsa_len_is_encoder_len (alg : String) (w r s : Nat) (sig : List UInt8)
    (hw : (alg, w) ∈ [("ES256", 32), ("ES384", 48), ("ES512", 66)])
    (h : Jose.sigEncode w r s = some sig) : sigLenHolds alg 0 sig.length = true := by
  have hl : sig.length = 2 * w := sigEncode_length w r s sig h
  simp only [List.mem_cons, Prod.mk.injEq, List.mem_nil_iff, or_false] at hw
  rcases hw with ⟨rfl, rfl⟩ | ⟨rfl, rfl⟩ | ⟨rfl, rfl⟩ <;> simp [sigLenHolds, sigLenFor, hl]

/-- The table agrees with the length clause C04's judge applies to every real JWS, for every
algorithm whose length does not depend on the key. -/
theorem agrees_with_c04_judge (alg : String) (n : Nat)
    (ha : alg ∈ ["ES256", "ES384", "ES512", "Ed25519", "Ed448"]) :
    sigLenHolds alg 0 n = Spec.C04.sigLenOk alg n := by
  simp only [List.mem_cons, List.mem_nil_iff, or_false] at ha
  rcases ha with rfl | rfl | rfl | rfl | rfl <;>
    simp [sigLenHolds, sigLenFor, Spec.C04.sigLenOk] <;>
    (rw [Bool.eq_iff_iff]; simp only [beq_iff_eq]; constructor <;> intro h <;> omega)

/-- RSA: exactly the modulus size, nothing else. -/
theorem rsa_len_is_modulus (m n : Nat) (hm : m ≠ 0) : sigLenHolds "RS256" m n = decide (n = m) := by
  simp only [sigLenHolds, sigLenFor, hm, if_false]
  rw [Bool.eq_iff_iff]
  simp only [beq_iff_eq, Option.some.injEq, decide_eq_true_eq]
  constructor <;> intro h <;> omega

/-- An unknown algorithm has no mandated length: the judge refuses every signature for it. -/
theorem unknown_alg_refused (n : Nat) : sigLenHolds "HS256" 256 n = false := by
  simp [sigLenHolds, sigLenFor]

example : sigLenHolds "ES512" 0 132 = true ∧ sigLenHolds "ES512" 0 131 = false ∧
    sigLenHolds "RS256" 512 512 = true ∧ sigLenHolds "RS256" 512 256 = false ∧
    sigLenHolds "Ed448" 0 114 = true := by decide

end AcmedVerif.Props.C15Sig
