/-
C11 / C04 — a key roll-over the CA PROCESSED whose answer was LOST (5ce05e3, 1fb1c1a, d9d2cda).

The state after such an exchange: the CA holds the new (current) key, the endpoint record still
names the superseded one.  Before 5ce05e3 every later synchronisation — also after restarts — sent
the roll-over again, signed by the superseded key, and was refused: for ever
(`lost_rollover_wedged_preFix`, `…_forever`).  The working tree first asks the CA (a POST-as-GET of
the account signed by the recorded key); the refusal a failed signature verification produces is
followed by the same question signed by the current key, whose 2xx answer records the roll-over as
done: the next synchronisation against a conforming CA recovers, having sent exactly ONE request
that does not verify under the key on record (`lost_rollover_recovers`) — the one request no client
can avoid, since after an unanswered keyChange nobody knows which key the CA holds.

About `Model/Flow.lean` (`Flow.synchronize`), for EVERY world; through `C11Indep.sync_refines_flow`
about every endpoint of `Model/AccountMulti.lean`.  Lemmas in `Lemmas/Flow.lean`.
-/
import AcmedVerif.Model.Flow
import AcmedVerif.Lemmas.Flow
import AcmedVerif.Props.C11

namespace AcmedVerif.Props.C11Lost
open AcmedVerif.Flow

/-! ### A conforming CA, read off the trace -/

/-- The key a conforming CA holds after one `kid` request: a key change signed by the key it holds
and answered 2xx makes it hold `cur`. -/
def heldNext (cur held : KeyId) (k : ReqKind) (s : KeyId) (r : ExRes) : KeyId :=
  if k == .keyChange && s == held && isOkRes r then cur else held

/-- Replays a conforming and responsive CA that holds `held` for the account over the
`kid`-authenticated requests of a trace (`cur` = the key a roll-over installs): a request signed by
the key it holds is answered 2xx; a request signed by any other key is refused with an error a
failed signature verification produces (`sigRefused`). -/
def conforms (cur : KeyId) : KeyId → List Ev → Bool
  | _, [] => true
  | held, .exch k a s r :: es =>
    match a with
    | .kid =>
      (if s == held then isOkRes r else r == .acmeErr .sigRefused) &&
        conforms cur (heldNext cur held k s r) es
    | _ => conforms cur held es
  | held, _ :: es => conforms cur held es

/-- The key that CA holds after the trace. -/
def heldAfter (cur : KeyId) : KeyId → List Ev → KeyId
  | held, [] => held
  | held, .exch k a s r :: es =>
    match a with
    | .kid => heldAfter cur (heldNext cur held k s r) es
    | _ => heldAfter cur held es
  | held, _ :: es => heldAfter cur held es

/-- Every hook group of the trace succeeded. -/
def hooksOk : List Ev → Bool
  | [] => true
  | .hooks _ ok :: es => ok && hooksOk es
  | _ :: es => hooksOk es

/-- Number of `kid`-authenticated requests NOT signed by the key the CA holds at that moment (same
replay as `conforms`). -/
def misSigned (cur : KeyId) : KeyId → List Ev → Nat
  | _, [] => 0
  | held, .exch k a s r :: es =>
    match a with
    | .kid => (if s == held then 0 else 1) + misSigned cur (heldNext cur held k s r) es
    | _ => misSigned cur held es
  | held, _ :: es => misSigned cur held es

theorem conforms_append (cur : KeyId) (a b : List Ev) : ∀ held,
    conforms cur held (a ++ b) = (conforms cur held a && conforms cur (heldAfter cur held a) b) := by
  induction a with
  | nil => intro held; simp [conforms, heldAfter]
  | cons e tl ih =>
    intro held
    cases e with
    | exch k au s r => cases au <;> simp [conforms, heldAfter, ih, Bool.and_assoc]
    | _ => simp [conforms, heldAfter, ih]

theorem misSigned_append (cur : KeyId) (a b : List Ev) : ∀ held,
    misSigned cur held (a ++ b) = misSigned cur held a + misSigned cur (heldAfter cur held a) b := by
  induction a with
  | nil => intro held; simp [misSigned, heldAfter]
  | cons e tl ih =>
    intro held
    cases e with
    | exch k au s r => cases au <;> simp [misSigned, heldAfter, ih, Nat.add_assoc]
    | _ => simp [misSigned, heldAfter, ih]

theorem hooksOk_append (a b : List Ev) : hooksOk (a ++ b) = (hooksOk a && hooksOk b) := by
  induction a with
  | nil => rfl
  | cons e tl ih => cases e <;> simp [hooksOk, ih, Bool.and_assoc]

theorem noexch_replay (cur : KeyId) {es : List Ev} (h : ∀ e ∈ es, NoExch e) (held : KeyId) :
    conforms cur held es = true ∧ heldAfter cur held es = held ∧ misSigned cur held es = 0 := by
  induction es with
  | nil => exact ⟨rfl, rfl, rfl⟩
  | cons e tl ih =>
    have he := h e List.mem_cons_self
    have := ih fun x hx => h x (List.mem_cons_of_mem _ hx)
    cases e with
    | exch => exact he.elim
    | _ => simpa [conforms, heldAfter, misSigned] using this

/-- An account save: its events are no exchanges; with successful hooks and scripts that do not run
out it returns, leaving the account and the script of answers as they were. -/
theorem saveAccount_good (w : World) :
    ∃ es, (saveAccount w).2.trace = w.trace ++ es ∧ (∀ e ∈ es, NoExch e) ∧
      (saveAccount w).2.acc = w.acc ∧ (saveAccount w).2.exs = w.exs ∧
      (hooksOk es = true → (saveAccount w).1.tag ≠ .stuck → (saveAccount w).1.tag = .ok) := by
  obtain ⟨ha, hx, _, _, _, h | h | h | ⟨b, h⟩⟩ := saveAccount_spec w
  · exact ⟨[], by rw [h.2]; simp, by simp, ha, hx, fun _ hn => absurd (by rw [h.1]; rfl) hn⟩
  · exact ⟨_, h.2.2, by simp [NoExch], ha, hx, fun hk _ => by simp [hooksOk] at hk⟩
  · exact ⟨_, h.2.2, by simp [NoExch], ha, hx, fun _ hn => absurd (by rw [h.1]; rfl) hn⟩
  · refine ⟨_, h.2.2, by simp [NoExch], ha, hx, fun hk _ => ?_⟩
    cases b
    · simp [hooksOk] at hk
    · rw [h.1]; rfl

/-! ### (a) the working tree recovers -/

/-- The roll-over block in the state "the CA holds the current key, the record names another one",
against a conforming CA: the query signed by the recorded key is refused, the query signed by the
current key is answered, the roll-over is recorded; no key change request. -/
theorem updateKey_recovers (w : World) (hp : w.acc.pastKeyKnown = true)
    (hne : (w.acc.recKey == w.acc.curKey) = false) :
    ∃ es1, (updateKey .current w).2.trace = w.trace ++ es1 ∧
      (conforms w.acc.curKey w.acc.curKey es1 = true → hooksOk es1 = true →
        (updateKey .current w).1.tag ≠ .stuck →
        (updateKey .current w).1.tag = .ok ∧ (updateKey .current w).2.acc = keyAcc w.acc ∧
        ∃ b rest, es1 = .exch .accountProbe .kid w.acc.recKey (.acmeErr .sigRefused) ::
          .exch .accountProbe .kid w.acc.curKey (.ok b) :: rest ∧ ∀ e ∈ rest, NoExch e) := by
  rw [updateKey_run, if_pos hp]
  show ∃ es1, (keyChangeChecked w).2.trace = w.trace ++ es1 ∧
    (conforms w.acc.curKey w.acc.curKey es1 = true → hooksOk es1 = true →
      (keyChangeChecked w).1.tag ≠ .stuck →
      (keyChangeChecked w).1.tag = .ok ∧ (keyChangeChecked w).2.acc = keyAcc w.acc ∧
      ∃ b rest, es1 = .exch .accountProbe .kid w.acc.recKey (.acmeErr .sigRefused) ::
        .exch .accountProbe .kid w.acc.curKey (.ok b) :: rest ∧ ∀ e ∈ rest, NoExch e)
  -- whatever is sent first is the query signed by the recorded key
  have hfirst : ∀ p : ExRes, p ≠ .acmeErr .sigRefused → ∀ es',
      conforms w.acc.curKey w.acc.curKey (.exch .accountProbe .kid w.acc.recKey p :: es') = false := by
    intro p hps es'
    simp only [conforms, hne, Bool.false_eq_true, if_false, Bool.and_eq_false_iff]
    left
    simpa using hps
  rw [keyChangeChecked_run]
  rcases hx : w.exs with _ | ⟨p, rest⟩
  · exact ⟨[], by simp, fun _ _ hn => absurd rfl hn⟩
  · simp only
    by_cases hps : p = .acmeErr .sigRefused
    · subst hps
      simp only
      rw [checkNewKey_run]
      rcases rest with _ | ⟨q, rest2⟩
      · exact ⟨[.exch .accountProbe .kid w.acc.recKey (.acmeErr .sigRefused)],
          by simp [World.afterExch, authOf], fun _ _ hn => absurd rfl hn⟩
      · have hcur : (w.afterExch .accountProbe w.acc.recKey (.acmeErr .sigRefused)
            (q :: rest2)).acc = w.acc := rfl
        simp only [World.afterExch] at hcur ⊢
        by_cases hq : isOkRes q = true
        · obtain ⟨b, rfl⟩ : ∃ b, q = .ok b := by
            cases q <;> first | exact ⟨_, rfl⟩ | cases hq
          simp only
          obtain ⟨es, he, hno, hacc, _, hgood⟩ := saveAccount_good
            (World.withAcc { w with exs := rest2, trace := w.trace ++
              [.exch .accountProbe (authOf .accountProbe) w.acc.recKey (.acmeErr .sigRefused)] ++
              [.exch .accountProbe (authOf .accountProbe) w.acc.curKey (.ok b)] } (keyAcc w.acc))
          refine ⟨.exch .accountProbe .kid w.acc.recKey (.acmeErr .sigRefused) ::
            .exch .accountProbe .kid w.acc.curKey (.ok b) :: es, ?_, ?_⟩
          · simp only [World.withAcc, List.append_assoc] at he ⊢
            rw [he]; simp [authOf]
          · intro _ hh hn
            have hh' : hooksOk es = true := by simpa [hooksOk] using hh
            exact ⟨hgood hh' hn, hacc, b, es, rfl, hno⟩
        · refine ⟨[.exch .accountProbe .kid w.acc.recKey (.acmeErr .sigRefused),
            .exch .accountProbe .kid w.acc.curKey q], ?_, ?_⟩
          · cases q <;> first | exact absurd rfl hq | simp [authOf]
          · intro hc
            have : isOkRes q = false := by simpa using hq
            simp [conforms, hne, heldNext, this] at hc
    · obtain ⟨es1, he1⟩ : ∃ es1, (match p with
          | .ok _ => keyChangeStep false (w.afterExch .accountProbe w.acc.recKey p rest)
          | .acmeErr .accountDoesNotExist =>
            keyChangeStep false (w.afterExch .accountProbe w.acc.recKey p rest)
          | .acmeErr .sigRefused => checkNewKey (w.afterExch .accountProbe w.acc.recKey p rest)
          | _ => (.fail .keyChange, w.afterExch .accountProbe w.acc.recKey p rest)).2.trace =
            w.trace ++ .exch .accountProbe .kid w.acc.recKey p :: es1 := by
        have hstep : ∃ es1, (keyChangeStep false
            (w.afterExch .accountProbe w.acc.recKey p rest)).2.trace =
            w.trace ++ .exch .accountProbe .kid w.acc.recKey p :: es1 := by
          obtain ⟨es, he, _⟩ := keyChangeStep_shape false
            (w.afterExch .accountProbe w.acc.recKey p rest)
          exact ⟨es, by rw [he]; simp [World.afterExch, authOf]⟩
        cases p with
        | ok b => exact hstep
        | acmeErr ty =>
          cases ty with
          | accountDoesNotExist => exact hstep
          | sigRefused => exact absurd rfl hps
          | other => exact ⟨[], by simp [World.afterExch, authOf]⟩
        | otherErr => exact ⟨[], by simp [World.afterExch, authOf]⟩
        | lost => exact ⟨[], by simp [World.afterExch, authOf]⟩
      refine ⟨_, he1, fun hc => ?_⟩
      rw [hfirst p hps] at hc
      cases hc

/-- The contact-update block against a conforming CA that holds the current key. -/
theorem updateContacts_conforming (w : World) :
    ∃ es2, (updateContacts w).2.trace = w.trace ++ es2 ∧
      (conforms w.acc.curKey w.acc.curKey es2 = true → hooksOk es2 = true →
        (updateContacts w).1.tag ≠ .stuck →
        (updateContacts w).1.tag = .ok ∧ (updateContacts w).2.acc = contactsAcc w.acc ∧
        ∃ b rest, es2 = .exch .accountUpdate .kid w.acc.curKey (.ok b) :: rest ∧
          ∀ e ∈ rest, NoExch e) := by
  rw [updateContacts_run]
  rcases hx : w.exs with _ | ⟨r, rest⟩
  · exact ⟨[], by simp, fun _ _ hn => absurd rfl hn⟩
  · simp only
    by_cases hr : isOkRes r = true
    · obtain ⟨b, rfl⟩ : ∃ b, r = .ok b := by
        cases r <;> first | exact ⟨_, rfl⟩ | cases hr
      simp only
      obtain ⟨es, he, hno, hacc, _, hgood⟩ := saveAccount_good
        ((w.afterExch .accountUpdate w.acc.curKey (.ok b) rest).withAcc (contactsAcc w.acc))
      refine ⟨.exch .accountUpdate .kid w.acc.curKey (.ok b) :: es, ?_, ?_⟩
      · rw [he]; simp [World.afterExch, World.withAcc, authOf]
      · intro _ hh hn
        have hh' : hooksOk es = true := by simpa [hooksOk] using hh
        exact ⟨hgood hh' hn, hacc, b, es, rfl, hno⟩
    · have hnr : isOkRes r = false := by simpa using hr
      obtain ⟨es, he⟩ : ∃ es, (match r with
          | .ok _ => saveAccount ((w.afterExch .accountUpdate w.acc.curKey r rest).withAcc
              (contactsAcc w.acc))
          | .acmeErr .accountDoesNotExist =>
            register (w.afterExch .accountUpdate w.acc.curKey r rest)
          | .lost => (.fail .accountUpdate,
              (w.afterExch .accountUpdate w.acc.curKey r rest).withAcc (contactsLostAcc w.acc))
          | _ => (.fail .accountUpdate, w.afterExch .accountUpdate w.acc.curKey r rest)).2.trace =
            w.trace ++ .exch .accountUpdate .kid w.acc.curKey r :: es := by
        cases r with
        | ok b => cases hr rfl
        | acmeErr ty =>
          cases ty with
          | accountDoesNotExist =>
            obtain ⟨es, he, _⟩ := register_shape
              (w.afterExch .accountUpdate w.acc.curKey (.acmeErr .accountDoesNotExist) rest)
            exact ⟨es, by rw [he]; simp [World.afterExch, authOf]⟩
          | _ => exact ⟨[], by simp [World.afterExch, authOf]⟩
        | otherErr => exact ⟨[], by simp [World.afterExch, authOf]⟩
        | lost => exact ⟨[], by simp [World.afterExch, World.withAcc, authOf]⟩
      refine ⟨_, he, fun hc => ?_⟩
      simp [conforms, hnr] at hc

/-- What a synchronisation in the state "the CA holds the new key, the record names the old one"
looks like against a conforming CA. -/
structure Recovered (w : World) (tag : Result) (w' : World) (es : List Ev) : Prop where
  ok : tag = .ok
  /-- the record names the current key, which the CA holds -/
  recorded : w'.acc.recKey = w.acc.curKey
  held : w'.acc.caKey = w.acc.curKey
  cur : w'.acc.curKey = w.acc.curKey
  /-- exactly one request was signed by a key the CA does not hold … -/
  one : misSigned w.acc.curKey w.acc.curKey es = 1
  /-- … the first one: the query of the account signed by the recorded (superseded) key, refused;
  the second request is that query signed by the current key, answered 2xx; everything that follows
  verifies under the key on record; and no key change request is sent -/
  shape : ∃ b rest, es = .exch .accountProbe .kid w.acc.recKey (.acmeErr .sigRefused) ::
      .exch .accountProbe .kid w.acc.curKey (.ok b) :: rest ∧
    misSigned w.acc.curKey w.acc.curKey rest = 0 ∧
    ∀ a s r, Ev.exch .keyChange a s r ∉ es

/-- **`lost_rollover_recovers`.**  From ANY state in which the CA holds the new key while the
record still names the old one (URL stored, binding unchanged, the old key still among the past
keys; contacts changed or not), with ANY scripts: if the CA's answers are those of a conforming CA
holding the current key (`conforms`), the file hooks succeed and no script runs out, the next
synchronisation of the working tree returns with the record naming the current key, having sent
exactly one request signed by the old key — the refused query of the account — and thereafter only
requests that verify under the key on record; no key change request is sent. -/
theorem lost_rollover_recovers (w : World)
    (hu : w.acc.hasUrl = true) (hb : w.acc.bindingInSync = true) (hp : w.acc.pastKeyKnown = true)
    (hk : w.acc.keyInSync = false) (_hca : w.acc.caKey = w.acc.curKey) :
    ∃ es, (synchronize .current w).2.trace = w.trace ++ es ∧
      (conforms w.acc.curKey w.acc.curKey es = true → hooksOk es = true →
        (synchronize .current w).1.tag ≠ .stuck →
        Recovered w (synchronize .current w).1.tag (synchronize .current w).2 es) := by
  have hne : (w.acc.recKey == w.acc.curKey) = false := hk
  rw [sync_eq_keyFirst .current w hu hb rfl]
  simp only [hk, Bool.not_false, if_true]
  obtain ⟨es1, he1, hgood1⟩ := updateKey_recovers w hp hne
  -- what the first block's events amount to, once it is known to be the recovery
  have hrep : ∀ b rest, (∀ e ∈ rest, NoExch e) →
      es1 = .exch .accountProbe .kid w.acc.recKey (.acmeErr .sigRefused) ::
        .exch .accountProbe .kid w.acc.curKey (.ok b) :: rest →
      heldAfter w.acc.curKey w.acc.curKey es1 = w.acc.curKey ∧
      misSigned w.acc.curKey w.acc.curKey es1 = 1 ∧
      ∀ a s r, Ev.exch .keyChange a s r ∉ es1 := by
    intro b rest hno he
    obtain ⟨_, h2, h3⟩ := noexch_replay w.acc.curKey hno w.acc.curKey
    subst he
    refine ⟨by simp [heldAfter, heldNext, h2], by simp [misSigned, heldNext, hne, h3], ?_⟩
    intro a s r hm
    rcases List.mem_cons.mp hm with h | h
    · cases h
    · rcases List.mem_cons.mp h with h | h
      · cases h
      · exact hno _ h
  rcases bind_cases (updateKey .current) (fun _ =>
      if (!w.acc.contactsInSync) = true then updateContacts else pure ()) w with
    ⟨u, w1, e1, e2⟩ | ⟨hne1, e2, e3⟩
  · -- the roll-over block returned
    rw [e2]
    rw [e1] at he1 hgood1
    simp only at he1 hgood1
    cases hc : w.acc.contactsInSync
    · -- contacts changed too: the contact update, signed by the current key
      simp only [Bool.not_false, if_true]
      obtain ⟨es2, he2, hgood2⟩ := updateContacts_conforming w1
      refine ⟨es1 ++ es2, by rw [he2, he1, List.append_assoc], ?_⟩
      intro hcf hh hn
      rw [conforms_append, Bool.and_eq_true] at hcf
      rw [hooksOk_append, Bool.and_eq_true] at hh
      obtain ⟨_, hacc1, b, rest, hes1, hno1⟩ := hgood1 hcf.1 hh.1 (by simp)
      obtain ⟨hA, hM, hK⟩ := hrep b rest hno1 hes1
      have hcur1 : w1.acc.curKey = w.acc.curKey := by rw [hacc1]; rfl
      rw [hA, ← hcur1] at hcf
      obtain ⟨hok2, hacc2, b2, rest2, hes2, hno2⟩ := hgood2 hcf.2 hh.2 hn
      obtain ⟨_, _, h3⟩ := noexch_replay w.acc.curKey hno2 w.acc.curKey
      refine ⟨hok2, by rw [hacc2, hacc1]; rfl, by rw [hacc2, hacc1]; rfl,
        by rw [hacc2, hacc1]; rfl, ?_, b, rest ++ es2, by rw [hes1]; rfl, ?_, ?_⟩
      · rw [misSigned_append, hM, hA, hes2, hcur1]
        simp [misSigned, heldNext, h3]
      · obtain ⟨_, h2', h3'⟩ := noexch_replay w.acc.curKey hno1 w.acc.curKey
        rw [misSigned_append, h3', h2', hes2, hcur1]
        simp [misSigned, heldNext, h3]
      · intro a s r hm
        rcases List.mem_append.mp hm with h | h
        · exact hK a s r h
        · rw [hes2] at h
          rcases List.mem_cons.mp h with h | h
          · cases h
          · exact hno2 _ h
    · simp only [Bool.not_true, Bool.false_eq_true, if_false, pure_run]
      refine ⟨es1, he1, ?_⟩
      intro hcf hh _
      obtain ⟨_, hacc1, b, rest, hes1, hno1⟩ := hgood1 hcf hh (by simp)
      obtain ⟨_, hM, hK⟩ := hrep b rest hno1 hes1
      obtain ⟨_, _, h3'⟩ := noexch_replay w.acc.curKey hno1 w.acc.curKey
      exact ⟨rfl, by rw [hacc1]; rfl, by rw [hacc1]; rfl, by rw [hacc1]; rfl, hM, b, rest, hes1,
        h3', hK⟩
  · -- the roll-over block did not return: against a conforming CA it can only be stuck
    rw [e2, e3]
    refine ⟨es1, he1, ?_⟩
    intro hcf hh hn
    have := (hgood1 hcf hh hn).1
    exact absurd this hne1


/-- Non-vacuity: contacts changed as well; the conforming CA's answers are [refusal, 2xx, 2xx], the
four hook groups succeed. -/
example :
    let w : World := ⟨[.acmeErr .sigRefused, .ok .undecodable, .ok .undecodable],
      [true, true, true, true], [], ⟨none, none⟩, 0, true,
      ⟨true, false, true, true, 101, 100, 101, false⟩, []⟩
    conforms 101 101 (synchronize .current w).2.trace = true ∧
    hooksOk (synchronize .current w).2.trace = true ∧
    (synchronize .current w).1.tag = .ok ∧
    (synchronize .current w).2.acc = ⟨true, true, true, true, 101, 101, 101, true⟩ ∧
    misSigned 101 101 (synchronize .current w).2.trace = 1 := by
  decide +kernel

/-! ### (b) before 5ce05e3 the same state is a fixed point -/

/-- **`lost_rollover_wedged_preFix`.**  The tree before 5ce05e3 in the same state: the CA, holding
another key than the one that signs the roll-over request, refuses it (any ACME error other than
accountDoesNotExist; a conforming CA: `sigRefused`).  The synchronisation IS: that one request —
signed by the superseded key, it does not verify —, failure, the account exactly as it was. -/
theorem lost_rollover_wedged_preFix (w : World)
    (hu : w.acc.hasUrl = true) (hb : w.acc.bindingInSync = true) (hp : w.acc.pastKeyKnown = true)
    (hk : w.acc.keyInSync = false) (ty : ErrClass) (hty : ty ≠ .accountDoesNotExist)
    (rest : List ExRes) (hx : w.exs = .acmeErr ty :: rest) :
    synchronize .preFix w =
      (.fail .keyChange, w.afterExch .keyChange w.acc.recKey (.acmeErr ty) rest) := by
  rw [sync_eq_keyFirst .preFix w hu hb rfl]
  simp only [hk, Bool.not_false, if_true]
  have hkey : updateKey .preFix w =
      (.fail .keyChange, w.afterExch .keyChange w.acc.recKey (.acmeErr ty) rest) := by
    rw [updateKey_run, if_pos hp]
    show keyChangeStep false w = _
    rw [keyChangeStep_run, hx]
    cases ty with
    | accountDoesNotExist => exact absurd rfl hty
    | _ => rfl
  rw [bind_run, hkey]

/-- The request of `lost_rollover_wedged_preFix` seen by the replay of a conforming CA that holds
the current key: it is the conforming answer, and the request is mis-signed. -/
theorem wedged_request_is_missigned (rec cur : KeyId) (hne : (rec == cur) = false) :
    conforms cur cur [.exch .keyChange .kid rec (.acmeErr .sigRefused)] = true ∧
    misSigned cur cur [.exch .keyChange .kid rec (.acmeErr .sigRefused)] = 1 := by
  simp [conforms, misSigned, hne]

/-- `n` successive synchronisations of the tree before 5ce05e3 (the same daemon or restarts: what
is carried over is the account), the `i`-th with the scripts `sc i`: outcome, requests and other
events, the account afterwards. -/
def preFixRounds : Nat → (Nat → List ExRes × List Bool) → World → List (Result × List Ev × Acc)
  | 0, _, _ => []
  | n + 1, sc, w =>
    let r := synchronize .preFix { w with exs := (sc 0).1, hks := (sc 0).2, trace := [] }
    (r.1.tag, r.2.trace, r.2.acc) :: preFixRounds n (fun i => sc (i + 1)) r.2

/-- **For ever.**  However many synchronisations follow, as long as the CA keeps refusing the
request signed by the key it no longer holds: every one of them fails at the roll-over, sends that
one mis-signed request, and leaves the account as it was — the state is a fixed point. -/
theorem lost_rollover_wedged_preFix_forever (n : Nat) :
    ∀ (sc : Nat → List ExRes × List Bool) (w : World),
    w.acc.hasUrl = true → w.acc.bindingInSync = true → w.acc.pastKeyKnown = true →
    w.acc.keyInSync = false →
    (∀ i, ∃ ty rest, ty ≠ ErrClass.accountDoesNotExist ∧ (sc i).1 = .acmeErr ty :: rest) →
    ∀ x ∈ preFixRounds n sc w,
      x.1 = .failed .keyChange ∧ x.2.2 = w.acc ∧
      ∃ ty, x.2.1 = [.exch .keyChange .kid w.acc.recKey (.acmeErr ty)] := by
  induction n with
  | zero => intro sc w _ _ _ _ _ x hx; cases hx
  | succ n ih =>
    intro sc w hu hb hp hk hsc x hx
    obtain ⟨ty, rest, hty, h0⟩ := hsc 0
    have hrun := lost_rollover_wedged_preFix
      { w with exs := (sc 0).1, hks := (sc 0).2, trace := [] } hu hb hp hk ty hty rest h0
    simp only [preFixRounds, hrun, List.mem_cons] at hx
    rcases hx with rfl | hx
    · exact ⟨rfl, rfl, ty, by simp [World.afterExch, authOf]⟩
    · exact ih (fun i => sc (i + 1))
        (World.afterExch { w with exs := (sc 0).1, hks := (sc 0).2, trace := [] } .keyChange
          w.acc.recKey (.acmeErr ty) rest) hu hb hp hk (fun i => hsc (i + 1)) x hx

/-- Non-vacuity: three rounds. -/
example : (preFixRounds 3 (fun _ => ([.acmeErr .sigRefused], []))
    ⟨[], [], [], ⟨none, none⟩, 0, true, ⟨true, true, true, true, 101, 100, 101, true⟩, []⟩).map (·.1) =
      [.failed .keyChange, .failed .keyChange, .failed .keyChange] := by decide +kernel

/-! ### (c) how the two keys can come apart, and only so -/

/-- The CA's key and the recorded key stay in step through a synchronisation — whatever its outcome
— as long as no answer is LOST AFTER THE CA PROCESSED THE REQUEST (`ExRes.lost`). -/
def InStep : World → Result → World → Prop := fun w _ w' =>
  .lost ∉ w.exs → w.acc.caKey = w.acc.recKey →
    w'.acc.caKey = w'.acc.recKey ∧ .lost ∉ w'.exs ∧ w'.acc.curKey = w.acc.curKey

theorem InStep.law : Law InStep where
  refl := fun _ _ hn h => ⟨h, hn, rfl⟩
  trans := by
    intro w1 w2 w3 t h1 h2 hn h
    obtain ⟨a1, a2, a3⟩ := h1 hn h
    obtain ⟨b1, b2, b3⟩ := h2 a2 a1
    exact ⟨b1, b2, b3.trans a3⟩

theorem InStep.exchange (k : ReqKind) (s : KeyId) : Sat InStep (exchange k s) := by
  constructor; intro w; unfold Flow.exchange
  rcases hx : w.exs with _ | ⟨r, rest⟩
  · exact fun hn h => ⟨h, hn, rfl⟩
  · intro hn h
    rw [hx] at hn
    exact ⟨h, fun hm => hn (List.mem_cons_of_mem _ hm), rfl⟩

theorem InStep.hookGroup (ty : HookKind) : Sat InStep (hookGroup ty) := by
  constructor; intro w; unfold Flow.hookGroup
  cases w.hks <;> exact fun hn h => ⟨h, hn, rfl⟩

theorem InStep.emit (e : Ev) : Sat InStep (emit e) := ⟨fun _ hn h => ⟨h, hn, rfl⟩⟩

theorem InStep.saveAccount : Sat InStep saveAccount := by
  unfold Flow.saveAccount writeFileHooks
  walk [] [InStep.hookGroup, InStep.emit] InStep.law

/-- A value-aware bind for the exchange: the continuation may use that the answer consumed is not
`lost`. -/
theorem InStep.exchange_bind {k : ReqKind} {s : KeyId} {f : ExRes → M Unit}
    (hf : ∀ r, r ≠ .lost → Sat InStep (f r)) : Sat InStep (Flow.exchange k s >>= f) := by
  constructor
  intro w
  rw [bind_run]
  unfold Flow.exchange
  rcases hx : w.exs with _ | ⟨r, rest⟩
  · exact fun hn h => ⟨h, hn, rfl⟩
  · simp only
    intro hn h
    rw [hx] at hn
    have hr : r ≠ .lost := fun h => hn (by rw [h]; exact List.mem_cons_self)
    exact (hf r hr).run (w.afterExch k s r rest) (fun hm => hn (List.mem_cons_of_mem _ hm)) h

theorem InStep.modAcc (f : Acc → Acc) (hf : ∀ a, a.caKey = a.recKey →
    (f a).caKey = (f a).recKey ∧ (f a).curKey = a.curKey) : Sat InStep (modAcc f) :=
  ⟨fun w hn h => ⟨(hf w.acc h).1, hn, (hf w.acc h).2⟩⟩

theorem InStep.register : Sat InStep register := by
  unfold Flow.register
  refine Sat.bind InStep.law (Sat.getW InStep.law) fun w => InStep.exchange_bind fun r _ => ?_
  split
  · split
    · exact Sat.bind InStep.law (InStep.modAcc _ fun a _ => ⟨rfl, rfl⟩) fun _ => InStep.saveAccount
    · exact Sat.failAt InStep.law _
  · exact Sat.failAt InStep.law _

theorem InStep.updateContacts : Sat InStep updateContacts := by
  unfold Flow.updateContacts
  refine Sat.bind InStep.law (Sat.getW InStep.law) fun w => InStep.exchange_bind fun r hr => ?_
  split
  · exact Sat.bind InStep.law (InStep.modAcc _ fun a h => ⟨h, rfl⟩) fun _ => InStep.saveAccount
  · exact InStep.register
  · exact absurd rfl hr
  · exact Sat.failAt InStep.law _

theorem InStep.checkNewKey : Sat InStep checkNewKey := by
  unfold Flow.checkNewKey
  refine Sat.bind InStep.law (Sat.getW InStep.law) fun w => InStep.exchange_bind fun r _ => ?_
  split
  · exact Sat.bind InStep.law (InStep.modAcc _ fun a _ => ⟨rfl, rfl⟩) fun _ => InStep.saveAccount
  · exact Sat.failAt InStep.law _

theorem InStep.keyChangeStep (ca : Bool) : Sat InStep (keyChangeStep ca) := by
  unfold Flow.keyChangeStep
  refine Sat.bind InStep.law (Sat.getW InStep.law) fun w => InStep.exchange_bind fun r hr => ?_
  split
  · exact Sat.bind InStep.law (InStep.modAcc _ fun a _ => ⟨rfl, rfl⟩) fun _ => InStep.saveAccount
  · exact InStep.register
  · split
    · exact InStep.checkNewKey
    · exact Sat.failAt InStep.law _
  · exact absurd rfl hr
  · exact Sat.failAt InStep.law _

theorem InStep.keyChangeChecked : Sat InStep keyChangeChecked := by
  unfold Flow.keyChangeChecked
  refine Sat.bind InStep.law (Sat.getW InStep.law) fun w => InStep.exchange_bind fun r _ => ?_
  split
  · exact InStep.keyChangeStep _
  · exact InStep.keyChangeStep _
  · exact InStep.checkNewKey
  · exact Sat.failAt InStep.law _

theorem InStep.updateKey (v : Variant) : Sat InStep (updateKey v) := by
  unfold Flow.updateKey
  walk [InStep.keyChangeChecked, InStep.keyChangeStep] [] InStep.law

theorem InStep.synchronize (v : Variant) : Sat InStep (synchronize v) := by
  unfold Flow.synchronize
  walk [InStep.register, InStep.updateContacts, InStep.updateKey v] [] InStep.law

/-- **The keys come apart only through a lost answer.**  From a state in which the CA holds the
recorded key, a synchronisation (any tree, any answers, any outcome — failures included) whose
script contains no answer "processed, then lost" ends with the CA holding the recorded key. -/
theorem keys_in_step_without_lost_answer (v : Variant) (w : World)
    (hn : .lost ∉ w.exs) (h : w.acc.caKey = w.acc.recKey) :
    (synchronize v w).2.acc.caKey = (synchronize v w).2.acc.recKey :=
  ((InStep.synchronize v).run w hn h).1

/-- **…and a lost answer to the roll-over request gives exactly the state of (a).**  The CA holds
the recorded key, answers the query of the account, processes the roll-over, and the answer is
lost: the synchronisation fails; every request it sent verified; afterwards the CA holds the
current key, the record names the old one, and everything else the hypotheses of
`lost_rollover_recovers` ask for is as before. -/
theorem lost_answer_gives_pending (w : World)
    (hu : w.acc.hasUrl = true) (hb : w.acc.bindingInSync = true) (hp : w.acc.pastKeyKnown = true)
    (hk : w.acc.keyInSync = false) (_hca : w.acc.caKey = w.acc.recKey)
    (b : Body) (rest : List ExRes) (hx : w.exs = .ok b :: .lost :: rest) :
    (synchronize .current w).1.tag = .failed .keyChange ∧
    (synchronize .current w).2.trace = w.trace ++
      [.exch .accountProbe .kid w.acc.recKey (.ok b), .exch .keyChange .kid w.acc.recKey .lost] ∧
    misSigned w.acc.curKey w.acc.recKey
      [.exch .accountProbe .kid w.acc.recKey (.ok b), .exch .keyChange .kid w.acc.recKey .lost] = 0 ∧
    (synchronize .current w).2.acc = { w.acc with caKey := w.acc.curKey } := by
  rw [sync_eq_keyFirst .current w hu hb rfl]
  simp only [hk, Bool.not_false, if_true]
  have hkey : updateKey .current w = (.fail .keyChange,
      ((w.afterExch .accountProbe w.acc.recKey (.ok b) (.lost :: rest)).afterExch .keyChange
        w.acc.recKey .lost rest).withAcc (keyLostAcc w.acc)) := by
    rw [updateKey_run, if_pos hp]
    show keyChangeChecked w = _
    rw [keyChangeChecked_run, hx]
    simp only
    rw [keyChangeStep_run]
    rfl
  rw [bind_run, hkey]
  refine ⟨rfl, by simp [World.afterExch, World.withAcc, authOf], ?_, rfl⟩
  simp [misSigned, heldNext, isOkRes]

/-- The two facts chained on a concrete history: CA and record agree on key 100; the roll-over to
101 is processed, its answer lost; the next synchronisation (conforming CA, now holding 101)
recovers with ONE mis-signed request, the first after the unanswered key change — which is also the
first request that gets an answer. -/
example :
    let w0 : World := ⟨[.ok .undecodable, .lost], [], [], ⟨none, none⟩, 0, true,
      ⟨true, true, true, true, 101, 100, 100, true⟩, []⟩
    let w1 : World := { (synchronize .current w0).2 with
      exs := [.acmeErr .sigRefused, .ok .undecodable], hks := [true, true], trace := [] }
    (synchronize .current w0).1.tag = .failed .keyChange ∧
    w1.acc = ⟨true, true, true, true, 101, 100, 101, true⟩ ∧
    (synchronize .current w1).1.tag = .ok ∧
    (synchronize .current w1).2.acc = ⟨true, true, true, true, 101, 101, 101, true⟩ ∧
    conforms 101 101 (synchronize .current w1).2.trace = true ∧
    misSigned 101 101 (synchronize .current w1).2.trace = 1 ∧
    (synchronize .current w1).2.trace.head? =
      some (.exch .accountProbe .kid 100 (.acmeErr .sigRefused)) := by
  decide +kernel

end AcmedVerif.Props.C11Lost
