/-
C17 — tie of the survival theorem to what /repo ships NOW: `Gen/Profile.lean` is regenerated on
every run from Cargo.toml ([profile.release] panic), the Makefile (release build) and a scan of
tacd/src/openssl_server.rs (is the result of `accept` unwrapped? other panic sites in the accept
macro? does the loop leave on `Err`?).  If a change re-introduces an `unwrap` on the handshake result
while panic=abort is shipped, `shipped_instance_survives` stops checking.
-/
import AcmedVerif.Props.C17
import AcmedVerif.Gen.Profile

namespace AcmedVerif.Props.C17Gen
open AcmedVerif.Tacd

/-- The model instance the regenerated facts select. -/
def genOnFailure : OnFailure := if AcmedVerif.Gen.acceptResultUnwrapped then .panics else .ignored
def genStrategy : PanicStrategy := if AcmedVerif.Gen.releasePanicAbort then .abort else .unwind

/-- What the source scan must find for the survival argument to apply to the shipped build. -/
theorem shipped_facts :
    AcmedVerif.Gen.makefileShipsRelease = true ∧ AcmedVerif.Gen.acceptMacroPanicSites = 0 ∧
    AcmedVerif.Gen.acceptLoopExitsOnErr = false ∧
    (AcmedVerif.Gen.acceptResultUnwrapped = false ∨ AcmedVerif.Gen.releasePanicAbort = false) := by decide

/-- Clause C17.1 for the shipped instance: for EVERY history of connection outcomes (any length,
any order) the process is alive afterwards. -/
theorem shipped_instance_survives (history : List Conn) :
    run genOnFailure genStrategy history = .alive := by
  apply AcmedVerif.Props.C17.survives_all_histories
  rcases shipped_facts with ⟨_, _, _, h | h⟩
  · left; simp [genOnFailure, h]
  · right; simp [genStrategy, h]

/-- … and for every history of catalogue behaviours. -/
theorem shipped_instance_survives_behaviours (history : List Behaviour) :
    predict genOnFailure genStrategy history = .alive :=
  shipped_instance_survives _

end AcmedVerif.Props.C17Gen
