/-
The repaired defects, machine-checked: for each `fix:` commit of /repo that changed behaviour under
C19, C14 or C02,
  * `<name>_old_is_false`            the property's judge (`Spec.Cxx`) is FALSE on what the code before
                                     the commit (Model/OldVariants.lean) does on a concrete witness
                                     (the witnesses are observations a–e, l, m of DESIGN.md §1 and the
                                     `fixed:` lines of known-findings.txt);
  * `<name>_new_is_true_on_witness`  the current model satisfies the judge on the same witness;
  * a general statement relating old and new (they agree outside the defect's class).
Audited per property by Audit/C19Old.lean, Audit/C14Old.lean, Audit/C02Old.lean.
-/
import AcmedVerif.Model.OldVariants
import AcmedVerif.Lemmas.OldVariants
import AcmedVerif.Lemmas.Storage
import AcmedVerif.Spec.C19
import AcmedVerif.Spec.C14
import AcmedVerif.Spec.C02
import AcmedVerif.Props.C09
import AcmedVerif.Props.C14

namespace AcmedVerif.Props.OldVariants
open AcmedVerif AcmedVerif.OldVariants

/-! # C19 -/

section C19
open AcmedVerif.Spec.C19 AcmedVerif.Period

/-! ## 27b8611 — `parse_duration`: overflow panicked (observation c) -/

/-- What a caller of `parse_duration` observes. -/
def periodObs : Period.Outcome → PeriodObs
  | .ok v => .accepted v
  | .reject => .rejected
  | .panicMul => .crashed
  | .panicAdd => .crashed

def wMul : List Char := "30500568904944w".toList
def wAdd : List Char := "18446744073709551615s18446744073709551615s".toList

/-- **Before 27b8611 the C19 period judge fails.**  `30500568904944w`: the product overflows —
panic in the dev profile; in release it wraps and the string is ACCEPTED with the value 579584 s,
which is not the sum of its parts.  `18446744073709551615s18446744073709551615s`: `Duration +=`
panics in every profile. -/
theorem parse_duration_old_is_false :
    parseDurationOld .dev wMul = .panicMul ∧
    periodHolds wMul (periodObs (parseDurationOld .dev wMul)) = false ∧
    parseDurationOld .release wMul = .ok 579584 ∧
    periodHolds wMul (periodObs (parseDurationOld .release wMul)) = false ∧
    (∀ p, parseDurationOld p wAdd = .panicAdd) ∧
    (∀ p, periodHolds wAdd (periodObs (parseDurationOld p wAdd)) = false) := by
  refine ⟨by decide, by decide, by decide, by decide, ?_, ?_⟩ <;> intro p <;> cases p <;> decide

theorem parse_duration_new_is_true_on_witness :
    parse wMul = .reject ∧ periodHolds wMul (periodObs (parse wMul)) = true ∧
    parse wAdd = .reject ∧ periodHolds wAdd (periodObs (parse wAdd)) = true := by decide

/-- The current parser passes the period judge on every string (the judge IS the grammar,
`Props.C19.period_grammar`; this only says the observation mapping loses nothing). -/
theorem parse_duration_new_is_true (s : List Char) : periodHolds s (periodObs (parse s)) = true := by
  unfold periodHolds
  cases h : parse s <;> simp [periodObs] <;>
    (rcases parse_no_panic s with ⟨v, hv⟩ | hr <;> simp_all)

/-- **Old and new agree whenever no overflow occurs**: every string the repaired parser accepts was
accepted with the same value by the old one, in either profile. -/
theorem parse_old_eq_new_of_small (p : Profile) (s : List Char) (v : Nat) (h : parse s = .ok v) :
    parseDurationOld p s = .ok v := by
  unfold parse parseWith at h
  cases hf : fold .checked s.length s { sum := some 0, count := 0 } with
  | error o => simp [hf] at h; rcases fold_error_is_panic _ _ _ _ _ hf with rfl | rfl <;> cases h
  | ok r =>
    obtain ⟨acc, rest⟩ := r
    simp only [hf] at h
    have hsum : acc.sum = some v := by
      split at h
      · cases h
      · split at h
        · cases h
        · split at h
          · next v' hv' => cases h; exact hv'
          · cases h
    have := fold_unchecked_of_checked (arithOf p) _ _ _ _ _ _ v hf hsum
    simp only [parseDurationOld, parseWith, this]
    exact h

/-- … and the old parser (dev profile) never differed from the repaired one except by panicking. -/
theorem parse_old_dev_eq_new_or_panics (s : List Char) :
    parseDurationOld .dev s = parse s ∨ parseDurationOld .dev s = .panicMul ∨
      parseDurationOld .dev s = .panicAdd := by
  cases hf : fold .uncheckedDev s.length s { sum := some 0, count := 0 } with
  | error o =>
    right
    have : parseDurationOld .dev s = o := by simp only [parseDurationOld, arithOf, parseWith, hf]
    rw [this]
    exact fold_error_is_panic _ _ _ _ _ hf
  | ok r =>
    left
    have hc := fold_checked_of_dev _ _ _ _ _ hf
    simp only [parseDurationOld, arithOf, parse, parseWith, hf, hc]

/-! ## b48ba6e, b1fb377, 64663b5 — the rate limiter at start-up / first request -/

/-- The outcome class an observer assigns.  `blocked k` (no admission in the `k` passes watched) is
classed `hung`; the theorems below use it only where it holds for EVERY number of passes and every
clock, which is what a hang is. -/
def classify : FirstRequest → StartOutcome
  | .rejected => .rejected
  | .admitted 0 => .starts
  | .admitted (_ + 1) => .startsAfterLimiterSleep
  | .panicked _ => .panicked
  | .blocked _ => .hung

/-- `number = 0, period = "5s"` and `number = 0, period = "1s"` (observation d), nanoseconds. -/
def zero5s : List Limiter.Limit := [⟨0, 5000000000⟩]
def zero1s : List Limiter.Limit := [⟨0, 1000000000⟩]

/-- **Before b48ba6e**: `number = 0` with a period of 5 s divides by zero in `get_sleep_duration`
(every profile, before any pass: whatever the clock does); with a period of 1 s the sleep is the
100 ms minimum and `request_allowed` refuses in every pass, for every number of passes and every
sequence of clock readings — it blocks for ever.  Both outcome classes fail the start-up judge. -/
theorem ratelimit_zero_old_is_false :
    (∀ prof rs, firstRequest (pre_b48ba6e prof) zero5s rs = .panicked .panicDivZero) ∧
    (∀ prof rs, startupHolds (classify (firstRequest (pre_b48ba6e prof) zero5s rs)) = false) ∧
    (∀ prof rs, firstRequest (pre_b48ba6e prof) zero1s rs = .blocked rs.length) ∧
    (∀ prof rs, startupHolds (classify (firstRequest (pre_b48ba6e prof) zero1s rs)) = false) := by
  have h5 : ∀ prof rs, firstRequest (pre_b48ba6e prof) zero5s rs = .panicked .panicDivZero := by
    intro prof rs; cases prof <;> rfl
  have h1 : ∀ prof rs, firstRequest (pre_b48ba6e prof) zero1s rs = .blocked rs.length := by
    intro prof rs
    have hb := passes_blocked (pre_b48ba6e prof) zero1s rs [] 0
      (fun r _ lg => allowedOld_zero lg _ [] r.tTests r.tPrune)
    have : firstRequest (pre_b48ba6e prof) zero1s rs = passes (pre_b48ba6e prof) zero1s [] rs 0 := by
      cases prof <;> rfl
    rw [this, hb, Nat.zero_add]
  refine ⟨h5, ?_, h1, ?_⟩
  · intro prof rs; rw [h5]; rfl
  · intro prof rs; rw [h1]; rfl

theorem ratelimit_zero_new_is_true_on_witness :
    (∀ rs, firstRequest current zero5s rs = .rejected) ∧
    (∀ rs, firstRequest current zero1s rs = .rejected) ∧
    (∀ rs, startupHolds (classify (firstRequest current zero5s rs)) = true) ∧
    (∀ rs, startupHolds (classify (firstRequest current zero1s rs)) = true) :=
  ⟨fun _ => rfl, fun _ => rfl, fun _ => rfl, fun _ => rfl⟩

/-- The period `"100000000000000000s"` of known-findings.txt (10¹⁷ s, in nanoseconds), one request. -/
def hugePeriod : List Limiter.Limit := [⟨1, 100000000000000000 * 1000000000⟩]

/-- One pass of the limiter 15 minutes after boot (nanoseconds). -/
def pass15min : Limiter.Readings := ⟨900000000000, [900000000001], 900000000002⟩

/-- **Before b1fb377** (dev profile): `n * 200` overflows `u64` in `get_sleep_duration`: panic
before the first pass, whatever the clock does. -/
theorem sleep_overflow_old_is_false :
    (∀ rs, firstRequest (pre_b1fb377 .dev) hugePeriod rs = .panicked .panicMulOverflow) ∧
    (∀ rs, startupHolds (classify (firstRequest (pre_b1fb377 .dev) hugePeriod rs)) = false) := by
  have h : ∀ rs, firstRequest (pre_b1fb377 .dev) hugePeriod rs = .panicked .panicMulOverflow := by
    intro rs
    have hs : sleepOld .dev (Limiter.sortDesc hugePeriod) = .panicMulOverflow := by decide
    simp only [firstRequest, pre_b1fb377, show Limiter.mkLimits hugePeriod = some (Limiter.sortDesc hugePeriod) by decide, hs]
    rfl
  exact ⟨h, fun rs => by rw [h]; rfl⟩

/-- In the RELEASE profile the same input did not violate C19 before b1fb377 either: the product
wraps, and the wrapped value still clamps to the one-hour maximum, which is also what the saturating
product gives.  (For other periods the wrapped product gives a shorter sleep than the saturating one
— e.g. 184 ms instead of 1 h — which changes how often the limiter polls, not whether it admits.) -/
theorem sleep_overflow_old_release_no_violation :
    sleepOld .release hugePeriod = .ms 3600000 ∧ sleepNew hugePeriod = .ms 3600000 ∧
    sleepOld .release [⟨1, 92233720368547759 * 1000000000⟩] = .ms 184 ∧
    sleepNew [⟨1, 92233720368547759 * 1000000000⟩] = .ms 3600000 := by decide

theorem sleep_overflow_new_is_true_on_witness :
    firstRequest current hugePeriod [pass15min] = .admitted 1 ∧
    startupHolds (classify (firstRequest current hugePeriod [pass15min])) = true := by decide

/-- `number = 2, period = "5000w"` (observation e), nanoseconds. -/
def lim5000w : Limiter.Limit := ⟨2, 5000 * 604800 * 1000000000⟩

/-- **Before 64663b5**: while the machine has been up for less than the period (5000 weeks), every
pass refuses although nothing was ever sent — for every number of passes and every such sequence of
clock readings; in particular with an uptime of 15 minutes.  Classed `hung`, the judge fails. -/
theorem uptime_old_is_false :
    (∀ rs : List Limiter.Readings, (∀ r ∈ rs, r.tTests.headD r.tPrune < lim5000w.period) →
      firstRequest pre_64663b5 [lim5000w] rs = .blocked rs.length) ∧
    firstRequest pre_64663b5 [lim5000w] [pass15min, pass15min, pass15min] = .blocked 3 ∧
    startupHolds (classify (firstRequest pre_64663b5 [lim5000w] [pass15min, pass15min, pass15min]))
      = false := by
  refine ⟨?_, by decide, by decide⟩
  intro rs h
  have hb := passes_blocked pre_64663b5 [lim5000w] rs [] 0
    (fun r hr lg => Props.C09.progress_unrepaired_is_false lg lim5000w [] r.tTests r.tPrune (h r hr))
  have : firstRequest pre_64663b5 [lim5000w] rs = passes pre_64663b5 [lim5000w] [] rs 0 := by
    simp only [firstRequest, pre_64663b5,
      show Limiter.mkLimits [lim5000w] = some [lim5000w] by decide, sleepNew]
    rfl
  rw [this, hb, Nat.zero_add]

theorem uptime_new_is_true_on_witness :
    firstRequest current [lim5000w] [pass15min] = .admitted 1 ∧
    startupHolds (classify (firstRequest current [lim5000w] [pass15min])) = true := by decide

/-- **Old and new limiter agree outside the three defect classes**: every number positive, every
`secs · 200` within 64 bits, and the machine up for at least every period at every clock reading
used — then the code before b48ba6e (either profile) and the current code give the same outcome. -/
theorem ratelimit_old_eq_new_of_small (prof : Profile) (raw : List Limiter.Limit)
    (rs : List Limiter.Readings)
    (hpos : ∀ l ∈ raw, l.n ≠ 0)
    (hsmall : ∀ l ∈ raw, l.period / 1000000000 * 200 ≤ Limiter.u64Max)
    (hup : ∀ l ∈ raw, ∀ r ∈ rs, ∀ t' ∈ r.tPrune :: r.tTests, l.period ≤ t') :
    firstRequest (pre_b48ba6e prof) raw rs = firstRequest current raw rs := by
  have hmk : Limiter.mkLimits raw = some (Limiter.sortDesc raw) := by
    unfold Limiter.mkLimits
    have : raw.any (fun l => l.n == 0) = false := by
      rw [List.any_eq_false]
      intro l hl
      simpa using hpos l hl
    rw [this]; rfl
  have hsleep : sleepOld prof (Limiter.sortDesc raw) = sleepNew (Limiter.sortDesc raw) := by
    apply sleepOld_eq_new_of_small
    intro l hl
    have hm : l ∈ raw := (Limiter.mem_sortDesc l raw).mp (List.mem_of_getLast? hl)
    exact ⟨Nat.pos_of_ne_zero (hpos l hm), hsmall l hm⟩
  have hpass := passes_congr (pre_b48ba6e prof) current (Limiter.sortDesc raw) rs [] 0
    (fun r hr lg => allowedOld_eq_allowed_of_uptime lg _ r.tTests r.tPrune
      (fun l hl t' ht' => hup l ((Limiter.mem_sortDesc l raw).mp hl) r hr t' ht'))
  simp only [firstRequest, pre_b48ba6e, current, mkLimitsOld, hmk, hsleep] at hpass ⊢
  cases hs : sleepNew (Limiter.sortDesc raw) <;> simp only [hpass, sleepNew] at hs ⊢

/-! ## c679126 — a hook group that contains itself (observation m) -/

def classifyExpand : Expand → StartOutcome
  | .ok _ => .starts
  | .err _ => .rejected
  | .stackOverflow => .died

/-- `[[group]] name = "g"  hooks = ["g"]`, referenced by a certificate. -/
def selfGroup : Config.Config :=
  { endpoints := [{ name := "le" }], accounts := [{ name := "acc" }],
    groups := [{ name := "g", hooks := ["g"] }],
    certificates := [{ crtId := "a_rsa2048", account := "acc", endpoint := "le", hooks := ["g"] }] }

/-- **Before c679126**: whatever the size of the stack, expanding `g` overflows it (the process is
killed by SIGABRT at start-up): outcome class `died`, the judge fails. -/
theorem hook_cycle_old_is_false :
    (∀ depth, getHookOld selfGroup depth "g" = .stackOverflow) ∧
    (∀ depth, startupHolds (classifyExpand (getHookOld selfGroup depth "g")) = false) := by
  have h := getHookOld_self_first selfGroup "g" { name := "g", hooks := ["g"] } []
    (by decide) (by decide) rfl
  exact ⟨h, fun d => by rw [h d]; rfl⟩

theorem hook_cycle_new_is_true_on_witness :
    getHookNew selfGroup "g" = .err (.groupCycle "g") ∧
    startupHolds (classifyExpand (getHookNew selfGroup "g")) = true ∧
    Config.build selfGroup = .error (.groupCycle "g") := by
  refine ⟨by rfl, by rfl, by rfl⟩

/-- **Old and new agree on every name the repaired code expands**: same hooks, given as many stack
frames as there are groups (plus one); and whatever the old code expanded without overflowing, the
current code expands to the same hooks — provided the name stays within the limits introduced later
(537f12e, a9033b3: `ResolvesWithin`; without that proviso the second half is false of the current
code: a chain of 33 groups).  The two differ only on names that reach a cycle or exceed a limit. -/
theorem hook_old_eq_new_of_ok (cfg : Config.Config) (n : String) (r : List Config.Hook) :
    (Config.getHook cfg n = .ok r → getHookOld cfg (Config.expandFuel cfg) n = .ok r) ∧
    (∀ depth, getHookOld cfg depth n = .ok r → Spec.C14.ResolvesWithin cfg n →
      Config.getHook cfg n = .ok r) := by
  refine ⟨fun h => ?_, ?_⟩
  · obtain ⟨b, hb⟩ := Config.getHook_ok h
    exact getHookOld_of_expandHook cfg _ _ _ n r b hb
  · intro depth h hw
    have hd := getHookOld_denotes cfg depth n r h
    obtain ⟨r', hr'⟩ := Config.getHook_ok_of_within hw
    have hd' := Config.getHook_denotes hr'
    rw [hr', hd.unique hd']

end C19

/-! # C14 -/

section C14
open AcmedVerif.Config AcmedVerif.Spec.C14

/-! ## 4551043 — `[global]` of an included file: 8 of 15 options merged (observation l) -/

/-- Main file (0) with a `[global]` table, including file 1 whose `[global]` sets `renew_delay`,
`cert_file_ext`, `file_name_format`, `root_certificates`, `env` and `pk_file_mode`. -/
def treeL : List (Nat × FileContent (List Nat)) := [
  (0, { global := some { accounts_directory := some "/acc" },
        endpoints := [{ name := "le" }], accounts := [{ name := "acc" }],
        certificates := [{ crtId := "a_rsa2048", account := "acc", endpoint := "le" }],
        includes := [[1]] }),
  (1, { global := some { renew_delay := some "7d", cert_file_ext := some "crt",
                         file_name_format := some "ff", root_certificates := some "ca.pem",
                         env := [("K", "v")], pk_file_mode := some "0640" } })]

def dfltL : Defaults :=
  { renewDelay := "30d", randomEarlyRenew := "0s", fileNameFormat := "fmt", directory := "/certs" }

/-- What each file itself sets. -/
def ownL (p : Path) (o : GlobalOpt) : Option Val := optGet o (ownOf treeL p).global

/-- The merged `[global]` table a loader produced (`none` if it failed). -/
def globalOf (r : Except Err (Config × List Nat)) : Option Global :=
  match r with
  | .ok (cfg, _) => cfg.global
  | .error _ => none

def orderOf (r : Except Err (Config × List Nat)) : List Nat :=
  match r with
  | .ok (_, order) => order
  | .error _ => []

/-- The dump the daemon would print: one observation per certificate it built. -/
def dumpOf (r : Except Err Built) : Outcome :=
  match r with
  | .ok b => .started (b.certificates.map (CertObs.ofBuilt dfltL))
  | .error _ => .rejected

/-- What the daemon before 4551043 reports for the certificate: built-in values. -/
def dumpOldL : Outcome := .started [{ crtId := "a_rsa2048", renewDelay := "30d", randomEarlyRenew := "0s", fileNameFormat := "fmt", directory := "/certs" }]
/-- What the current daemon reports: the values of the included `[global]`. -/
def dumpNewL : Outcome := .started [{ crtId := "a_rsa2048", renewDelay := "7d", randomEarlyRenew := "0s", fileNameFormat := "ff", directory := "/certs" }]

/-- **Before 4551043 the C14 judges fail on the witness tree**: both files are read, in the order
[0, 1]; of the included file's options only `pk_file_mode` arrives; `renew_delay`, `cert_file_ext`,
`file_name_format`, `root_certificates` stay unset and the `env` entry is lost.  The `[global]`
judge fails, and so does the judge of the whole tree: the certificate runs with the built-in
`renew_delay` and `file_name_format` instead of the values of the included `[global]`. -/
theorem global_merge_old_is_false :
    orderOf (loadTreeOrderOld treeL 0) = [0, 1] ∧
    holdsGlobal [0, 1] ownL (fun o => optGet o (globalOf (loadTreeOrderOld treeL 0))) = false ∧
    (GlobalOpt.all.filter fun o => o != .env &&
        optGet o (globalOf (loadTreeOrderOld treeL 0)) != lastSome ([0, 1].map fun p => ownL p o)) =
      [.cert_file_ext, .file_name_format, .renew_delay, .root_certificates] ∧
    optGet .pk_file_mode (globalOf (loadTreeOrderOld treeL 0)) = some "0640" ∧
    envLookup "K" (envOf (globalOf (loadTreeOrderOld treeL 0))) = none ∧
    dumpOf (startUpOld treeL 0) = dumpOldL ∧
    holdsTree dfltL treeL 0 (dumpOf (startUpOld treeL 0)) = false := by
  refine ⟨by decide, by decide, by decide, by decide, by decide, by decide, by decide⟩

theorem global_merge_new_is_true_on_witness :
    orderOf (loadTreeOrder treeL 0) = [0, 1] ∧
    holdsGlobal [0, 1] ownL (fun o => optGet o (globalOf (loadTreeOrder treeL 0))) = true ∧
    envLookup "K" (envOf (globalOf (loadTreeOrder treeL 0))) = some "v" ∧
    dumpOf (startUp treeL 0) = dumpNewL ∧
    holdsTree dfltL treeL 0 (dumpOf (startUp treeL 0)) = true := by
  refine ⟨by decide, by decide, by decide, by decide, by decide⟩

/-- The source-level judge (`Spec.C14.globalMergeComplete`, evaluated on the merge block of the
file before 4551043): seven fields of `struct GlobalOptions` are never assigned. -/
theorem global_merge_old_incomplete :
    ((GlobalOpt.all.map GlobalOpt.name).filter fun o => !(oldMergedOptions.map GlobalOpt.name).contains o) =
      ["cert_file_ext", "env", "file_name_format", "pk_file_ext", "random_early_renew",
       "renew_delay", "root_certificates"] ∧
    globalMergeMissing = [] := by decide

/-- The parametrised loader used for the old variant IS the model's loader when given the current
merge block — so the only difference between `loadTreeOrderOld` and `loadTreeOrder` is the list. -/
theorem loader_with_current_block (files : List (Nat × FileContent (List Nat))) (main : Nat) :
    loadTreeOrderWith mergedOptions files main = loadTreeOrder files main := by
  unfold loadTreeOrderWith loadTreeOrder
  rw [readCnfWith_current]
  cases readCnf files (fun _ ps => ps) (loadFuel files) 0 main [] <;> rfl

/-- **Old and new merge agree on every option the old block assigned, and wherever the included
file does not set the option**; on a dropped option the old merge keeps the including file's value
(the included value is lost), and it never takes an `env` entry from the included file. -/
theorem merge_old_eq_new_unless_dropped (cur new : Global) (o : GlobalOpt) (ho : o ≠ .env) :
    (o ∈ oldMergedOptions ∨ new.get o = none →
      (mergeGlobalWith oldMergedOptions cur new).get o = (mergeGlobalWith mergedOptions cur new).get o) ∧
    (o ∉ oldMergedOptions → (mergeGlobalWith oldMergedOptions cur new).get o = cur.get o) ∧
    (mergeGlobalWith oldMergedOptions cur new).env = cur.env := by
  refine ⟨?_, ?_, ?_⟩
  · intro h
    rw [get_mergeGlobalWith _ _ _ _ ho, get_mergeGlobalWith _ _ _ _ ho,
      if_pos (Props.C14.model_merges_every_option o)]
    rcases h with h | h
    · rw [if_pos h]
    · rw [h]; simp
  · intro h
    rw [get_mergeGlobalWith _ _ _ _ ho, if_neg h]
  · simp [mergeGlobalWith, oldMergedOptions, List.foldl, env_mergeOpt]

end C14

/-! # C02 -/

section C02
open AcmedVerif.Fs AcmedVerif.Storage AcmedVerif.Spec.C02

def procW : Proc := { umask := 0o022, uid := 0, gid := 0 }
def pathW : Fs.Path := "c.pem".toList
/-- `c.pem` holds 20 × `A`. -/
def fsW : Fs := [(pathW, { content := List.replicate 20 65, mode := 0o644, uid := 0, gid := 0 })]
/-- `BBB`. -/
def dataW : List UInt8 := [66, 66, 66]
def obsW : List Obs := [{ path := pathW, data := dataW, ok := true }]

/-! ## 1d54e9b — no `flush` after `write_all` (observation b) -/

/-- **Before 1d54e9b the C02 judge fails** when the background write loses the race: `write_file`
returns `Ok(())` (having run `chown` and the post hook), and a reader at that instant finds the file
truncated and empty instead of `BBB`; the bytes arrive later.  Same over an absent file. -/
theorem flush_old_is_false :
    (writeFileNoFlush false Env.allOk procW {} fsW .certificate pathW dataW).1.result = .ok ∧
    contentAt (writeFileNoFlush false Env.allOk procW {} fsW .certificate pathW dataW).1.fs pathW
      = some [] ∧
    holds obsW (contents (writeFileNoFlush false Env.allOk procW {} fsW .certificate pathW dataW).1.fs)
      = false ∧
    contentAt (writeFileNoFlush false Env.allOk procW {} fsW .certificate pathW dataW).2 pathW
      = some dataW ∧
    holds obsW (contents (writeFileNoFlush false Env.allOk procW {} [] .certificate pathW dataW).1.fs)
      = false := by
  refine ⟨by decide, by decide, by decide, by decide, by decide⟩

theorem flush_new_is_true_on_witness :
    (writeFile .yes Env.allOk procW {} fsW .certificate pathW dataW).result = .ok ∧
    holds obsW (contents (writeFile .yes Env.allOk procW {} fsW .certificate pathW dataW).fs) = true ∧
    holds obsW (contents (writeFile .yes Env.allOk procW {} [] .certificate pathW dataW).fs) = true := by
  refine ⟨by decide, by decide, by decide⟩

/-- **Old and new agree whenever the background write wins the race** (and the later state is then
the state at return): the defect is exactly the `landed = false` schedule. -/
theorem flush_old_eq_new_of_landed (env : Env) (proc : Proc) (s : Settings) (fs : Fs) (t : FileType)
    (p : Fs.Path) (data : List UInt8) :
    writeFileNoFlush true env proc s fs t p data =
      (writeFile .yes env proc s fs t p data, (writeFile .yes env proc s fs t p data).fs) := by
  unfold writeFileNoFlush writeFile
  simp only [if_true]
  cases env.hookOk (preHook (get fs p).isNone) with
  | false => rfl
  | true =>
    simp only [Bool.not_true, Bool.false_eq_true, if_false]
    cases setOwner env proc s (writeAt0 proc (openCreate proc fs p (modeFor s t) .yes) p data) t p with
    | error e => rfl
    | ok r => cases env.hookOk (postHook (get fs p).isNone) <;> rfl

/-! ## 527d672 — no `.truncate(true)` (observation a); see also `Props.C02.write_no_trunc_is_false` -/

/-- **Before 527d672 the C02 judge fails**: `BBB` over 20 × `A` leaves `BBBAAAAAAAAAAAAAAAAA`. -/
theorem truncate_old_is_false :
    (writeFile .no Env.allOk procW {} fsW .certificate pathW dataW).result = .ok ∧
    contentAt (writeFile .no Env.allOk procW {} fsW .certificate pathW dataW).fs pathW
      = some (dataW ++ List.replicate 17 65) ∧
    holds obsW (contents (writeFile .no Env.allOk procW {} fsW .certificate pathW dataW).fs) = false := by
  refine ⟨by decide, by decide, by decide⟩

theorem truncate_new_is_true_on_witness :
    holds obsW (contents (writeFile .yes Env.allOk procW {} fsW .certificate pathW dataW).fs) = true := by
  decide

/-- **Old and new agree whenever the file was absent or not longer than the new content** (on the
content of the written file; `Props.C02.write_exact_unless_shrinking` is the same fact stated
against the property). -/
theorem truncate_old_eq_new_of_not_shrinking (proc : Proc) (fs : Fs) (p : Fs.Path) (mode : Nat)
    (data : List UInt8) (h : ∀ f, get fs p = some f → f.content.length ≤ data.length) :
    contentAt (writeAt0 proc (openCreate proc fs p mode .no) p data) p =
      contentAt (writeAt0 proc (openCreate proc fs p mode .yes) p data) p := by
  simp only [contentAt, get_writeAt0_same, get_openCreate_same, Option.map_some]
  cases hg : get fs p with
  | none => rfl
  | some f =>
    have hle := h f hg
    simp only [openedF, writtenF]
    cases data with
    | nil =>
      have : f.content = [] := List.eq_nil_of_length_eq_zero (by simpa using hle)
      simp [this]
    | cons d ds =>
      simp only [List.length_cons] at hle
      simp [overwrite, hle]

end C02

end AcmedVerif.Props.OldVariants
