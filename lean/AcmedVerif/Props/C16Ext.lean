/-
C16 `ext_bytes_exact` — composition across the two programs: the text acmed's `get_proof` hands to
the tls-alpn-01 hook (`Jose.proofTlsAlpn`), split at `=` the way tacd's `gen_certificate` splits it and
read the way OpenSSL reads a `critical,DER:hh:…` value, is a CRITICAL extension named
1.3.6.1.5.5.7.1.31 whose bytes are exactly `04 20 ‖ digest` — for every 32-byte digest, in particular
for the SHA-256 of every key authorization.
-/
import AcmedVerif.Props.C15

namespace AcmedVerif.Props.C16Ext
open AcmedVerif AcmedVerif.Jose

theorem ext_bytes_exact (digest : List UInt8) (h : digest.length = 32) :
    ∃ value, splitExt (proofTlsAlpn digest) = some ("1.3.6.1.5.5.7.1.31".toList, value) ∧
      parseDerConf value = some (true, [0x04, 0x20] ++ digest) :=
  ⟨proofTlsAlpnValue digest, AcmedVerif.Props.C15.splitExt_proof digest,
   AcmedVerif.Props.C15.parseDerConf_proof digest h⟩

/-- … hence for the digest of any key authorization (token and account-key thumbprint input). -/
theorem ext_bytes_exact_keyauth (token thumbInput : List Char) :
    ∃ value, splitExt (proofTlsAlpn (tlsAlpnDigest (keyAuthorization token thumbInput)))
        = some ("1.3.6.1.5.5.7.1.31".toList, value) ∧
      parseDerConf value = some (true, [0x04, 0x20] ++ tlsAlpnDigest (keyAuthorization token thumbInput)) :=
  ext_bytes_exact _ (by unfold tlsAlpnDigest; exact AcmedVerif.Props.C15.hash_length _)

end AcmedVerif.Props.C16Ext
