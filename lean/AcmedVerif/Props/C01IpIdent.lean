/-
C01 — the identifier theorems of `Props/C01Ident` instantiated with the MODELLED canonical IP text
(`IpText.canonChars`, proved to be std's parse-then-print in `Props/C01Ip`), so that the canonical form
is no longer a parameter of the statement.
-/
import AcmedVerif.Props.C01Ident
import AcmedVerif.Props.C01Ip

namespace AcmedVerif.Props.C01IpIdent
open AcmedVerif AcmedVerif.Idna AcmedVerif.Ident AcmedVerif.IpText
open AcmedVerif.Props.C01Ident AcmedVerif.Props.C01Ip

/-- The parameters of the identifier model with the IP canonicaliser fixed to the modelled one. -/
def withModelledIp (P : Params) : Params := { P with ipCanon := canonChars }

open AcmedVerif.Spec.C01Ident in
/-- For every configuration that loads — IP identifiers canonicalised by the MODEL of
`IpAddr::from_str` + `to_string`, not by an assumed function — the judge accepts the newOrder
identifiers and the CSR split. -/
theorem judge_accepts_model_ip (P : Params) (hA : LowerAscii P.lowerStr)
    (hU : LowerNoUpper P.lowerStr) (hD : LowerNoDot P.lowerStr)
    (raws : List RawId) (ids : List Identifier)
    (h : mkIdentifiers (withModelledIp P) raws = .ok ids) :
    holds (cfgOf raws ids) (orderIds ids) (csrDomains ids) (csrIps ids) = true :=
  judge_accepts_model (withModelledIp P) hA hU hD (fun s o hc => ipCanon_shape s o hc) raws ids h

/-- Non-vacuity: a configuration with non-canonical IPv6 and IPv4 spellings loads under the modelled
canonicaliser, and newOrder / CSR carry the canonical texts. -/
def ipRaws : List RawId :=
  [ { dns := some "Example.ORG".toList, ip := none, challenge := "http-01".toList, env := [] },
    { dns := none, ip := some "2001:0DB8:0:0:0:0:0:1".toList, challenge := "tls-alpn-01".toList, env := [] },
    { dns := none, ip := some "192.0.2.1".toList, challenge := "http-01".toList, env := [] } ]

example : ∃ ids, mkIdentifiers (withModelledIp sampleParams) ipRaws = .ok ids ∧
    orderIds ids = [(.dns, "example.org".toList), (.ip, "2001:db8::1".toList), (.ip, "192.0.2.1".toList)] ∧
    csrIps ids = ["2001:db8::1".toList, "192.0.2.1".toList] := by
  refine ⟨_, rfl, ?_, ?_⟩ <;> decide +kernel

/-- … and a spelling std refuses (a leading-zero octet) makes the configuration fail to load. -/
example : (mkIdentifiers (withModelledIp sampleParams)
    [{ dns := none, ip := some "192.0.2.01".toList, challenge := "http-01".toList, env := [] }]).toOption = none := by
  decide +kernel

end AcmedVerif.Props.C01IpIdent
