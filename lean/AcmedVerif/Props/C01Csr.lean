/-
C01.3 — "the CSR sent at finalization has … the configured subject attributes and digest, and a
valid self-signature": theorems about `Model/CsrReq.lean` (`Csr::new`,
`acme_common/src/crypto/openssl_certificate.rs:15-69`, fed by `acme_proto.rs:228-247` from the
`Certificate` that `main_event_loop.rs:111-116` builds out of the `[[certificate]]` table).

For EVERY certificate configuration that loads, every identifier list, every key pair, every
behaviour of OpenSSL's checks and every iteration order of the hash map.
-/
import AcmedVerif.Model.CsrReq
import AcmedVerif.Lemmas.CsrReq
import AcmedVerif.Spec.C01
import AcmedVerif.Gen.Tables
import AcmedVerif.Gen.Consts

namespace AcmedVerif.Props.C01Csr
open AcmedVerif AcmedVerif.CsrReq AcmedVerif.Ident

/-- **`csr_subject_exact`.**  Whenever a CSR is built for a loaded configuration, its subject name
consists of exactly the configured attributes: every entry is a configured (attribute, value) pair
and vice versa, no attribute occurs twice, and as a list it is a permutation of the configured
table (hence equal to it once both are sorted, which is what `Spec.C01.holds` compares) — in the
order in which the hash map yields them.  Read through OpenSSL's short names likewise. -/
theorem csr_subject_exact (lower : List Char → List Char) (cfg : CertCfg) (ids : List Identifier)
    (cert : Certificate) (o : Ossl) (ho : IterOk o) (kp : KeyPair) (c : Csr)
    (hl : Certificate.ofCfg lower cfg ids = some cert) (hc : finalizeCsr o cert kp = some c) :
    c.subject = o.iter (toGeneric cfg.subject) ∧
    c.subject.Perm (toGeneric cfg.subject) ∧
    (∀ a v, (a, v) ∈ c.subject ↔ cfg.subject a = some v) ∧
    (c.subject.map (·.1)).Nodup ∧
    c.subjectNames.Perm ((toGeneric cfg.subject).map fun p => (p.1.shortName, p.2)) := by
  have hcert : cert.subjectAttributes = toGeneric cfg.subject := by
    unfold Certificate.ofCfg at hl
    split at hl
    · cases hl; rfl
    · cases hl
  obtain ⟨_, _, _, _, _, hs, _, _⟩ := Csr.new_some hc
  rw [hcert] at hs
  have heq : c.subject = o.iter (toGeneric cfg.subject) := by
    rw [hs]
    cases he : (toGeneric cfg.subject).isEmpty
    · rfl
    · have hnil : toGeneric cfg.subject = [] := List.isEmpty_iff.mp he
      have := (ho []).eq_nil
      simp [hnil, this]
  have hp : c.subject.Perm (toGeneric cfg.subject) := heq ▸ ho _
  refine ⟨heq, hp, ?_, ?_, ?_⟩
  · intro a v
    rw [hp.mem_iff, mem_toGeneric]
  · exact ((hp.map (·.1)).nodup_iff).mpr (toGeneric_keys_nodup cfg.subject)
  · exact hp.map _

/-- The ORDER of the subject's entries is not determined by the configuration: two processes (two
iteration orders of the same map) give different names for `country_name = "FR"`,
`organization_name = "Ex"`. -/
def cfgFrEx : CertCfg where
  csrDigest := none
  keyType := none
  subject := fun a => match a with
    | .countryName => some ['F', 'R']
    | .organizationName => some ['E', 'x']
    | _ => none

def osslWith (iter : List (Attr × List Char) → List (Attr × List Char)) : Ossl where
  entryOk := fun _ v => !v.isEmpty
  sanOk := fun _ _ => true
  signOk := fun _ _ => true
  iter := iter

theorem iterOk_id : IterOk (osslWith id) := fun l => List.Perm.refl l
theorem iterOk_reverse : IterOk (osslWith List.reverse) := fun l => List.reverse_perm l

/-- The strict reading "in the configured order" is false of the code … -/
theorem csr_subject_in_order_full_is_false :
    ¬ ∀ (lower : List Char → List Char) (cfg : CertCfg) (ids : List Identifier) (cert : Certificate)
        (o : Ossl), IterOk o → ∀ (kp : KeyPair) (c : Csr),
        Certificate.ofCfg lower cfg ids = some cert → finalizeCsr o cert kp = some c →
        c.subject = toGeneric cfg.subject := by
  intro h
  have := h id cfgFrEx [] ⟨[], toGeneric cfgFrEx.subject, .rsa2048, .sha256⟩
    (osslWith List.reverse) iterOk_reverse ⟨1, .rsa2048⟩
    ⟨1, [(.organizationName, ['E', 'x']), (.countryName, ['F', 'R'])], [], [], 1, .sha256⟩
    (by decide) (by decide)
  revert this
  decide

/-- … and true when at most one attribute is configured. -/
theorem csr_subject_in_order_partial (lower : List Char → List Char) (cfg : CertCfg)
    (ids : List Identifier) (cert : Certificate) (o : Ossl) (ho : IterOk o) (kp : KeyPair) (c : Csr)
    (hl : Certificate.ofCfg lower cfg ids = some cert) (hc : finalizeCsr o cert kp = some c)
    (h1 : (toGeneric cfg.subject).length ≤ 1) :
    c.subject = toGeneric cfg.subject := by
  have hp := (csr_subject_exact lower cfg ids cert o ho kp c hl hc).2.1
  match hg : toGeneric cfg.subject, h1 with
  | [], _ => rw [hg] at hp; exact hp.eq_nil
  | [x], _ => rw [hg] at hp; exact List.perm_singleton.mp hp
  | _ :: _ :: _, h => simp at h

/-- **`csr_digest_exact`.**  Whenever a CSR is built for a loaded configuration: the digest the
configuration names (`csr_digest`, default sha256) is the one the certificate carries; the CSR is
signed with exactly that digest unless the key pair in use is an EdDSA key, in which case it is
signed with the null digest (Ed25519/Ed448 have no separate digest); the signing key is the key
whose public half the CSR carries (self-signature); and OpenSSL's name for "key family + digest"
is the single name the judge `Spec.C01.expectedSigAlg` expects. -/
theorem csr_digest_exact (lower : List Char → List Char) (cfg : CertCfg) (ids : List Identifier)
    (cert : Certificate) (o : Ossl) (kp : KeyPair) (c : Csr)
    (hl : Certificate.ofCfg lower cfg ids = some cert) (hc : finalizeCsr o cert kp = some c) :
    getCsrDigest lower cfg.csrDigest = some cert.csrDigest ∧
    (kp.keyType.isEdDsa = false → c.md = cert.csrDigest.native) ∧
    (kp.keyType.isEdDsa = true → c.md = .null) ∧
    c.signedBy = c.pubkey ∧ c.pubkey = kp.id ∧
    ∃ name, sigAlgName kp.keyType c.md = some name ∧
      Spec.C01.expectedSigAlg kp.keyType.name cert.csrDigest.name = [name] := by
  have hd : getCsrDigest lower cfg.csrDigest = some cert.csrDigest := by
    unfold Certificate.ofCfg at hl
    split at hl
    · rename_i kt d _ hd
      cases hl; exact hd
    · cases hl
  obtain ⟨hpk, hsg, _, _, hmd, _, _, _⟩ := Csr.new_some hc
  refine ⟨hd, ?_, ?_, by rw [hsg, hpk], hpk, ?_⟩
  · intro he
    rw [hmd]
    cases hk : kp.keyType <;> rw [hk] at he <;> first | rfl | cases he
  · intro he
    rw [hmd]
    cases hk : kp.keyType <;> rw [hk] at he <;> first | rfl | cases he
  · rw [hmd]
    cases kp.keyType <;> cases cert.csrDigest <;> exact ⟨_, rfl, by decide⟩

/-- With a freshly generated key (`kp_reuse = false`, or no usable key file) the key type is the
configured one (`key_type`, default rsa2048), so the signature algorithm follows from the
configuration alone. -/
theorem csr_digest_exact_new_key (lower : List Char → List Char) (cfg : CertCfg)
    (ids : List Identifier) (cert : Certificate) (o : Ossl) (id : Nat) (c : Csr)
    (hl : Certificate.ofCfg lower cfg ids = some cert)
    (hc : finalizeCsr o cert (genKeyPair cert id) = some c) :
    getKeyType lower cfg.keyType = some cert.keyType ∧
    c.md = getDigest cert.csrDigest cert.keyType ∧
    (sigAlgName cert.keyType c.md).toList =
      Spec.C01.expectedSigAlg cert.keyType.name cert.csrDigest.name := by
  have hk : getKeyType lower cfg.keyType = some cert.keyType := by
    unfold Certificate.ofCfg at hl
    split at hl
    · rename_i kt d hk _
      cases hl; exact hk
    · cases hl
  obtain ⟨_, _, _, _, hmd, _, _, _⟩ := Csr.new_some hc
  refine ⟨hk, hmd, ?_⟩
  rw [hmd]
  show (sigAlgName cert.keyType (getDigest cert.csrDigest cert.keyType)).toList = _
  cases cert.keyType <;> cases cert.csrDigest <;> decide

/-- The subjectAltName entries are the two identifier classes, in order (C01.2 for this model; the
permutation statement is `C01Ident.csr_sans_perm_order`). -/
theorem csr_sans_exact (lower : List Char → List Char) (cfg : CertCfg) (ids : List Identifier)
    (cert : Certificate) (o : Ossl) (kp : KeyPair) (c : Csr)
    (hl : Certificate.ofCfg lower cfg ids = some cert) (hc : finalizeCsr o cert kp = some c) :
    c.sanDns = csrDomains ids ∧ c.sanIp = csrIps ids := by
  have hi : cert.identifiers = ids := by
    unfold Certificate.ofCfg at hl
    split at hl
    · cases hl; rfl
    · cases hl
  obtain ⟨_, _, h1, h2, _⟩ := Csr.new_some hc
  rw [← hi]
  exact ⟨h1, h2⟩

/-- When a CSR is built at all: OpenSSL accepts every configured subject value, the names and the
signature.  (So the hypotheses above hide nothing else: no other `Err` path in `Csr::new`.) -/
theorem csr_built_iff (o : Ossl) (ho : IterOk o) (cert : Certificate) (kp : KeyPair) :
    (finalizeCsr o cert kp).isSome = true ↔
      (∀ p ∈ cert.subjectAttributes, o.entryOk p.1 p.2 = true) ∧
      o.sanOk (csrDomains cert.identifiers) (csrIps cert.identifiers) = true ∧
      o.signOk kp.id (getDigest cert.csrDigest kp.keyType) = true := by
  unfold finalizeCsr Csr.new
  have hname : (if !cert.subjectAttributes.isEmpty then
        buildName o (o.iter cert.subjectAttributes) else some []).isSome = true ↔
      ∀ p ∈ cert.subjectAttributes, o.entryOk p.1 p.2 = true := by
    cases he : cert.subjectAttributes.isEmpty
    · simp only [Bool.not_false, if_true]
      rw [buildName_isSome, List.all_eq_true]
      constructor
      · intro h p hp; exact h p ((ho _).mem_iff.mpr hp)
      · intro h p hp; exact h p ((ho _).mem_iff.mp hp)
    · have : cert.subjectAttributes = [] := List.isEmpty_iff.mp he
      simp [this]
  cases hn : (if !cert.subjectAttributes.isEmpty then
      buildName o (o.iter cert.subjectAttributes) else some []) with
  | none =>
    rw [hn] at hname
    simp only [Option.isSome_none, Bool.false_eq_true, false_iff] at hname ⊢
    exact fun h => hname h.1
  | some name =>
    rw [hn] at hname
    have h1 := hname.mp rfl
    simp only
    by_cases hs : o.sanOk (csrDomains cert.identifiers) (csrIps cert.identifiers) = true
    · by_cases hg : o.signOk kp.id (getDigest cert.csrDigest kp.keyType) = true
      · simp only [hs, hg, if_true, Option.isSome_some, true_iff, and_self, and_true]
        exact h1
      · simp [hs, hg]
    · simp [hs]

/-- `get_csr_digest` / `get_key_type` on their spellings: for a lower-casing that is ASCII
lower-casing on these inputs, `"SHA-384"`, `"sha_512"`, `"ECDSA-P384"`, `"ecdsa_p521"` are accepted
with the expected meaning, an absent option gives the default, another name is rejected. -/
def asciiLower (s : List Char) : List Char := s.map Char.toLower

theorem digest_and_key_type_parsing :
    getCsrDigest asciiLower none = some .sha256 ∧
    getCsrDigest asciiLower (some "SHA-384".toList) = some .sha384 ∧
    getCsrDigest asciiLower (some "sha_512".toList) = some .sha512 ∧
    getCsrDigest asciiLower (some "md5".toList) = none ∧
    getKeyType asciiLower none = some .rsa2048 ∧
    getKeyType asciiLower (some "ECDSA-P384".toList) = some .ecdsaP384 ∧
    getKeyType asciiLower (some "ecdsa_p521".toList) = some .ecdsaP521 ∧
    getKeyType asciiLower (some "ed25519".toList) = some .ed25519 ∧
    getKeyType asciiLower (some "ecdsap256".toList) = none := by decide

/-- The model's enumerations and defaults are those of the COMPILED code (`Gen/Tables.lean`, probe
op `tables`; `Gen/Consts.lean`): seven key types with these display names (both EdDSA features on),
three hash functions, defaults sha256 / rsa2048. -/
theorem tables_tied :
    KeyType.all.map KeyType.name = Gen.keyTypes.map (·.1) ∧
    Hash.all.map Hash.name = Gen.hashFunctions ∧
    Hash.ofVariant Gen.DEFAULT_CSR_DIGEST = some defaultCsrDigest ∧
    KeyType.ofVariant Gen.DEFAULT_CERT_KEY_TYPE = some defaultCertKeyType := by decide

/-- For all 7 × 3 combinations the model's signature algorithm is the judge's single expectation;
the digest is ignored exactly for the two EdDSA types. -/
theorem sigalg_matches_judge (kt : KeyType) (d : Hash) :
    (sigAlgName kt (getDigest d kt)).toList = Spec.C01.expectedSigAlg kt.name d.name ∧
    (Spec.C01.expectedSigAlg kt.name d.name).length = 1 ∧
    (getDigest d kt = .null ↔ kt.isEdDsa = true) := by
  cases kt <;> cases d <;> decide

/-! ## Non-vacuity -/

/-- A configuration that loads, an OpenSSL that refuses empty values, a reversed iteration order,
an Ed448 key: the CSR exists, has both attributes (reversed), the null digest, and the judge's
expectation for it is `ED448` although `csr_digest = "SHA-512"`. -/
def cfgEx : CertCfg := { cfgFrEx with csrDigest := some "SHA-512".toList, keyType := some "ed448".toList }

def idsEx : List Identifier :=
  [⟨.dns, "example.org".toList, .http01, []⟩, ⟨.ip, "192.0.2.7".toList, .http01, []⟩,
   ⟨.dns, "*.example.org".toList, .dns01, []⟩]

def certEx : Certificate :=
  ⟨idsEx, [(.countryName, ['F', 'R']), (.organizationName, ['E', 'x'])], .ed448, .sha512⟩

example : Certificate.ofCfg asciiLower cfgEx idsEx = some certEx := by decide

example : finalizeCsr (osslWith List.reverse) certEx (genKeyPair certEx 9) =
    some ⟨9, [(.organizationName, ['E', 'x']), (.countryName, ['F', 'R'])],
          ["example.org".toList, "*.example.org".toList], ["192.0.2.7".toList], 9, .null⟩ := by
  decide

example : Spec.C01.expectedSigAlg certEx.keyType.name certEx.csrDigest.name = ["ED448"] := by decide

/-- The same certificate with a reused RSA key (`kp_reuse`): sha512 is used. -/
example : (finalizeCsr (osslWith id) certEx ⟨3, .rsa4096⟩).map (·.md) = some .sha512 := by decide

/-- An OpenSSL that insists on two-letter country names refuses `country_name = "FRA"`: no CSR,
the attempt fails (`csr_built_iff`, first conjunct). -/
example : finalizeCsr
    { osslWith id with entryOk := fun a v => if a = .countryName then v.length == 2 else !v.isEmpty }
    { certEx with subjectAttributes := [(.countryName, ['F', 'R', 'A'])] } ⟨3, .rsa4096⟩ = none := by
  decide

/-- No subject attribute configured: the CSR has an empty subject. -/
example : (finalizeCsr (osslWith id) { certEx with subjectAttributes := [] } ⟨3, .rsa2048⟩).map
    (·.subject) = some [] := by decide

end AcmedVerif.Props.C01Csr
