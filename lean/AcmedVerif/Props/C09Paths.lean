/-
C09, "requests of any kind (GET, POST, nonce fetches, retries, polls)": the call-site theorem is about
Model/Http.lean and lives in Props/C08.lean (section Limiter): in the event trace of ANY sequence of
get / post / poll calls every transmission is immediately preceded by an admission of the limiter.
This module puts it under the C09 audit.
-/
import AcmedVerif.Props.C09
import AcmedVerif.Props.C08
