/-
Flow clauses of C01 (last sentence), C02 (what is written is what was issued), C04
(`jwk_only_where_allowed`) and C05 (last sentence).  Theorems about `Flow.attempt` and the
authorisation step `Flow.processAuthz`; lemmas in `Lemmas/Flow.lean`.
For EVERY world: scripts of any length, any configuration, any files, any account state.
-/
import AcmedVerif.Model.Flow
import AcmedVerif.Lemmas.Flow
import AcmedVerif.Props.C03

namespace AcmedVerif.Props.FlowMisc
open AcmedVerif.Flow

/-- **C01, last sentence (current tree).** If the attempt succeeds, EVERY key a CSR was built with
in this attempt (there is exactly one, used for the finalize request) is the key that sits in the
key file at the end. -/
theorem csr_key_is_stored_key (cfg : Cfg) (w : World) (h : (attempt .current cfg w).1 = .ok)
    (k : KeyId) (hk : .csr k ∈ (attempt .current cfg w).2.1) :
    (attempt .current cfg w).2.2.files.keyFile = some k := by
  obtain ⟨k0, hc0, _, hkey⟩ := C03.pair_consistent_on_success cfg w h
  suffices hu : ∀ k' k'', Ev.csr k' ∈ (attempt .current cfg w).2.1 →
      Ev.csr k'' ∈ (attempt .current cfg w).2.1 → k' = k'' by
    rw [hkey, hu k k0 hk hc0]
  rw [attempt_result_tag] at h
  show ∀ k' k'', Ev.csr k' ∈ (attemptM .current cfg { w with trace := [] }).2.trace →
      Ev.csr k'' ∈ (attemptM .current cfg { w with trace := [] }).2.trace → k' = k''
  rcases hr : attemptM .current cfg { w with trace := [] } with ⟨o, w'⟩
  rw [hr] at h
  cases o with
  | fail s => simp at h
  | stuck => simp at h
  | val u =>
    obtain ⟨k1, isNew, body, s, es1, es3, esI, htr, ha1, ha3, haI, _, _⟩ := attempt_ok_trace hr
    have uniq : ∀ k', Ev.csr k' ∈ w'.trace → k' = k1 := by
      intro k' hm
      rw [htr] at hm
      simp only [List.nil_append, List.mem_append, List.mem_cons] at hm
      rcases hm with (hm | hm | hm) | hm | hm
      · exact (ha1 _ hm).elim
      · cases isNew <;> cases hm
      · exact ha3 _ hm
      · cases hm
      · exact (haI _ hm).elim
    intro k' k'' h1 h2
    rw [uniq k' h1, uniq k'' h2]

/-- **C02, flow clause (any variant).** If the attempt succeeds, the certificate file holds exactly
the body the CA served in the (one) certificate download. -/
theorem cert_bytes_are_served_bytes (v : Variant) (cfg : Cfg) (w : World)
    (h : (attempt v cfg w).1 = .ok) (a : Auth) (s : KeyId) (body : Body)
    (hb : .exch .certDownload a s (.ok body) ∈ (attempt v cfg w).2.1) :
    (attempt v cfg w).2.2.files.certFile = some body.certClass.content := by
  rw [attempt_result_tag] at h
  have hb' : Ev.exch .certDownload a s (.ok body) ∈
      (attemptM v cfg { w with trace := [] }).2.trace := hb
  show (attemptM v cfg { w with trace := [] }).2.files.certFile = _
  rcases hr : attemptM v cfg { w with trace := [] } with ⟨o, w'⟩
  rw [hr] at h hb'
  cases o with
  | fail s => simp at h
  | stuck => simp at h
  | val u =>
    obtain ⟨k1, isNew, body1, s1, es1, es3, esI, htr, ha1, ha3, haI, hcert, _⟩ := attempt_ok_trace hr
    rw [htr] at hb'
    simp only [List.nil_append, List.mem_append, List.mem_cons] at hb'
    rcases hb' with (hm | hm | hm) | hm | hm
    · exact absurd rfl (ha1 _ hm).2.2
    · cases isNew <;> cases hm
    · rcases (ha3 _ hm).2 with h' | h' <;> cases h'
    · cases hm; exact hcert
    · exact (haI _ hm).elim

/-- **C04 `jwk_only_where_allowed`** (any variant): in every attempt every request is
authenticated as its kind demands — the public key as `jwk` exactly in account creation, the
account URL as `kid` in every other signed request (the outer JWS of a key change included; its
inner object, which carries the new key as `jwk`, is `Model/Jose`), nothing for the directory GET. -/
theorem jwk_only_where_allowed (v : Variant) (cfg : Cfg) (w : World) (k : ReqKind) (a : Auth)
    (s : KeyId) (r : ExRes) (h : .exch k a s r ∈ (attempt v cfg w).2.1) :
    a = authOf k ∧ (a = .jwk ↔ k = .newAccount) ∧
      (k ≠ .newAccount → k ≠ .directory → a = .kid) := by
  have hall : Sat (TR (AllEv fun e => ∀ k a s r, e = .exch k a s r → a = authOf k))
      (attemptM v cfg) := by
    have h1 := AllEv.obtainM (fun e => ∀ k a s r, e = Ev.exch k a s r → a = authOf k) v cfg
      (fun e he k a s r heq => by subst heq; exact he.1)
      (fun k0 n e he k a s r heq => by subst heq; exact he.1)
      (fun _ _ _ _ _ heq => by cases heq) (fun _ _ _ _ _ heq => by cases heq)
      (fun _ _ _ _ _ _ heq => by cases heq; rfl)
    have h2 := fun k0 n x => AllEv.install
      (fun e => ∀ k a s r, e = Ev.exch k a s r → a = authOf k)
      (fun _ => ⟨fun _ _ _ _ heq => (by cases heq), fun _ _ _ _ heq => (by cases heq)⟩)
      (fun _ _ _ _ _ heq => by cases heq) (fun _ _ _ _ _ heq => by cases heq) v k0 n x
    unfold attemptM
    walk [h1, h2] [] (AllEv.tlaw _).law
  obtain ⟨es, he, hp⟩ := hall.run { w with trace := [] }
  have hm : Ev.exch k a s r ∈ es := by
    have : (attempt v cfg w).2.1 = es := by
      show (attemptM v cfg { w with trace := [] }).2.trace = es
      rw [he]; simp
    rw [← this]; exact h
  have ha := hp _ hm k a s r rfl
  subst ha
  refine ⟨rfl, ?_, ?_⟩
  · cases k <;> simp [authOf]
  · intro h1 h2
    cases k <;> simp_all [authOf]

/-- **C05 `ready_after_hooks`** (any variant): in every attempt, a "challenge ready" POST for
challenge `c` is immediately preceded by the successful hook group of that same challenge (the
proof computation in between emits no event). -/
theorem ready_after_hooks (v : Variant) (cfg : Cfg) (w : World) (pre post : List Ev) (c : Nat)
    (a : Auth) (s : KeyId) (r : ExRes)
    (h : (attempt v cfg w).2.1 = pre ++ .exch (.challengeReady c) a s r :: post) :
    ∃ pre', pre = pre' ++ [.hooks (.challenge c) true] := by
  obtain ⟨es, he, hs, _⟩ := (ready_attemptM v cfg).run { w with trace := [] }
  have : (attempt v cfg w).2.1 = es := by
    show (attemptM v cfg { w with trace := [] }).2.trace = es
    rw [he]; simp
  rw [this] at h
  have hm := hs none
  rw [h] at hm
  rcases readyMon_sound pre none hm with ⟨_, h0⟩ | h1
  · cases h0
  · exact h1

/-- … and a failed challenge hook group ends the attempt at that step: no "ready" POST follows it
(previous theorem: a POST needs a SUCCESSFUL hook group right before it) and the attempt fails with
the hook error. -/
theorem hooks_failed_no_ready (v : Variant) (cfg : Cfg) (w : World) (c : Nat)
    (h : .hooks (.challenge c) false ∈ (attempt v cfg w).2.1) :
    (attempt v cfg w).1 = .failed .challengeHooks := by
  obtain ⟨es, he, _, hs⟩ := (ready_attemptM v cfg).run { w with trace := [] }
  have : (attempt v cfg w).2.1 = es := by
    show (attemptM v cfg { w with trace := [] }).2.trace = es
    rw [he]; simp
  rw [this] at h
  rw [attempt_result_tag]
  exact hs ⟨c, h⟩

/-- **C05 `no_hook_for_valid`**: an authorisation answered `valid` produces nothing but its fetch:
no hook event, no "ready" POST, no poll — the step returns at once. -/
theorem no_hook_for_valid (cfg : Cfg) (a : Nat) (w : World) (b : AuthzBody) (rest : List ExRes)
    (hx : w.exs = .ok (.authz b) :: rest) (hv : b.status = .valid) :
    (processAuthz cfg a w).1.tag = .ok ∧
    (processAuthz cfg a w).2.trace =
      w.trace ++ [.exch (.authz a) .kid w.acc.curKey (.ok (.authz b))] ∧
    (processAuthz cfg a w).2.hks = w.hks := by
  rw [processAuthz_valid cfg a w b rest hx hv]
  exact ⟨rfl, rfl, rfl⟩

/-- **C05 `clean_after_poll`**: for a pending authorisation whose identifier is configured, the
step is: solve the offered challenges of the configured type (`cs` = the challenges whose "ready"
POST was answered 2xx, which are ALL offered challenges of that type, in order), poll; and once
the poll has succeeded the clean hooks run for exactly `cs`, in order — all of them if the step
returns, a prefix (up to the first failing clean hook) otherwise; nothing else happens after the
poll. -/
theorem clean_after_poll (cfg : Cfg) (a : Nat) (w : World) (b : AuthzBody) (rest : List ExRes)
    (d : Ident) (hx : w.exs = .ok (.authz b) :: rest) (hp : b.status = .pending)
    (hl : lookup cfg.ids b.ident b.wildcard = some d)
    (cs : List Nat) (w2 w3 : World)
    (hs : solveChallenges d.chal b.challenges
      (w.afterExch (.authz a) w.acc.curKey (.ok (.authz b)) rest) = (.val cs, w2))
    (hpoll : pollAuthz a Gen.DEFAULT_POOL_NB_TRIES w2 = (.val (), w3)) :
    processAuthz cfg a w = cleanHooks cs w3 ∧
    cs = (b.challenges.filter fun x => x.1 == d.chal).map (·.2) ∧
    (∃ es, w2.trace = (w.afterExch (.authz a) w.acc.curKey (.ok (.authz b)) rest).trace ++ es ∧
      readyIds es = cs) ∧
    (∃ es, (processAuthz cfg a w).2.trace = w3.trace ++ es ∧ cleanIds es <+: cs ∧
      ∀ e ∈ es, ∃ c ok, e = .hooks (.clean c) ok) ∧
    ((processAuthz cfg a w).1.tag = .ok →
      (processAuthz cfg a w).2.trace = w3.trace ++ cs.map fun c => .hooks (.clean c) true) := by
  have hrun : processAuthz cfg a w = cleanHooks cs w3 := by
    rw [processAuthz_pending cfg a w b rest d hx hp hl]
    simp only [bind_run, hs, hpoll]
  obtain ⟨hcs, es, he, hr⟩ := solve_val _ _ _ _ _ hs
  refine ⟨hrun, hcs, ⟨es, he, hr⟩, ?_, ?_⟩
  · rw [hrun]; exact cleanHooks_prefix cs w3
  · rw [hrun]
    intro hok
    rcases hc : cleanHooks cs w3 with ⟨o, w4⟩
    rw [hc] at hok
    cases o with
    | val u => exact cleanHooks_val cs w3 w4 u hc
    | fail s => simp at hok
    | stuck => simp at hok

/-- Non-vacuity of `clean_after_poll` / `ready_after_hooks`: the happy path of `Props/C03`'s
conforming CA runs the http-01 hooks for challenge 5, posts "ready", polls, cleans. -/
example : ((attempt .current C03.cfg1 (C03.world1
    (C03.caScript (C03.okOrder .processing) (.chainFor 8)) (List.replicate 6 true))).2.1.filter
    fun e => match e with
      | .hooks (.challenge _) _ | .hooks (.clean _) _ | .exch (.challengeReady _) .. => true
      | _ => false) =
    [.hooks (.challenge 5) true, .exch (.challengeReady 5) .kid 100 (.ok .undecodable),
     .hooks (.clean 5) true] := by decide +kernel

end AcmedVerif.Props.FlowMisc
