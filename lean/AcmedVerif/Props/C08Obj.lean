/-
C08 (also C03, C07) — the clause "malformed or missing fields and headers, invalid object statuses,
non-JSON error bodies, unknown / absent error type": theorems about `Model/AcmeObj.lean`, the model of
how the TEXT of an answer becomes the objects the flow models take as inputs.

Reading guide.  `lex` is the JSON grammar serde_json demands of every text; `rOrder`, `rAuthorization` …
are serde's derived readers on the lexed value `J`; `parseOrder s = fromText rOrder s` is
`serde_json::from_str::<Order>(s)`.  `Spec.C08Obj.validOrder` … say member by member what a well-formed
object is.  `classifyAnswer` / `stepOutcome` are what `http.rs` / `acme_proto/http.rs` make of one
answer.  All statements are for every text, status and content type.
-/
import AcmedVerif.Model.AcmeObj
import AcmedVerif.Model.Http
import AcmedVerif.Lemmas.AcmeObj
import AcmedVerif.Gen.Tables
import AcmedVerif.Spec.C08Obj

namespace AcmedVerif.Props.C08Obj
open AcmedVerif.AcmeObj AcmedVerif.Spec.C08Obj

open Lean in
/-- `chars! "text"`: the list of the characters of a string literal, written out at elaboration time
(the kernel is slow at `String.toList` on long literals; `parseX s` is `fromChars rX s.toList` by
definition). -/
macro "chars!" s:str : term => do
  let elems := s.getString.toList.toArray.map fun c => Syntax.mkCharLit c
  `([$elems,*])

/-! ## Answers -/

/-- A non-2xx answer is never classified as a success, whatever its content type and body — neither by
`post` nor by `get` — and the step never proceeds on it. -/
theorem non_2xx_never_success (aw : Awaited) (status : Nat) (ct : Option String) (body : String)
    (h : is2xx status = false) :
    classifyAnswer status ct body ≠ .success ∧ classifyGet status ct body ≠ .success ∧
    stepOutcome aw status ct body ≠ .proceeds ∧ stepOutcomeGet aw status ct body ≠ .proceeds := by
  have h1 : classifyAnswer status ct body ≠ .success := by
    unfold classifyAnswer
    simp only [h, Bool.false_eq_true, if_false]
    cases parseProblem body <;> simp
  have h2 : classifyGet status ct body ≠ .success := by
    simp [classifyGet, h]
  refine ⟨h1, h2, ?_, ?_⟩
  · unfold stepOutcome
    cases hc : classifyAnswer status ct body with
    | success => exact absurd hc h1
    | acmeError ty r => cases r <;> simp
    | otherFailure => simp
  · unfold stepOutcomeGet
    cases hc : classifyGet status ct body with
    | success => exact absurd hc h2
    | acmeError ty r => simp
    | otherFailure => simp

/-- A 2xx answer whose body does not read as the awaited object makes the step FAIL (it is neither
used nor retried): POST steps and the directory GET alike. -/
theorem unparsable_2xx_fails (aw : Awaited) (status : Nat) (ct : Option String) (body : String)
    (h : is2xx status = true) (hb : bodyParses aw body = false) :
    stepOutcome aw status ct body = .fails ∧ stepOutcomeGet aw status ct body = .fails := by
  simp [stepOutcome, stepOutcomeGet, classifyAnswer, classifyGet, h, hb]

/-- … and a 2xx answer whose body does read lets it proceed: the hypothesis of the previous theorem is
exactly what decides. -/
theorem parsable_2xx_proceeds (aw : Awaited) (status : Nat) (ct : Option String) (body : String)
    (h : is2xx status = true) (hb : bodyParses aw body = true) :
    stepOutcome aw status ct body = .proceeds ∧ stepOutcomeGet aw status ct body = .proceeds := by
  simp [stepOutcome, stepOutcomeGet, classifyAnswer, classifyGet, h, hb]

/-- The model's step satisfies the judge `Spec.C08Obj.neverSuccess`, where "the body reads" is replaced
by the member-by-member definition of a well-formed object. -/
theorem step_never_success (aw : Awaited) (status : Nat) (ct : Option String) (body : String) :
    neverSuccess aw status body (stepOutcome aw status ct body) = true ∧
    neverSuccess aw status body (stepOutcomeGet aw status ct body) = true := by
  unfold neverSuccess
  rw [← bodyParses_eq_validBody]
  cases h : is2xx status
  · obtain ⟨_, _, h3, h4⟩ := non_2xx_never_success aw status ct body h
    simp [h3, h4]
  · cases hb : bodyParses aw body
    · obtain ⟨h1, h2⟩ := unparsable_2xx_fails aw status ct body h hb
      simp [h1, h2]
    · simp

/-- The `Content-Type` of an answer plays no part (RFC 8555 §6.7 wants `application/problem+json` on
errors; the code reads ANY non-2xx body as a problem document and any 2xx body as the object). -/
theorem content_type_ignored (aw : Awaited) (status : Nat) (ct ct' : Option String) (body : String) :
    classifyAnswer status ct body = classifyAnswer status ct' body ∧
    stepOutcome aw status ct body = stepOutcome aw status ct' body := by
  simp [stepOutcome, classifyAnswer]

/-- What a POST step does with a non-2xx answer, in full: retried iff the body reads as a problem
document whose `type` is a recoverable error; otherwise it fails. -/
theorem non_2xx_retry_iff (aw : Awaited) (status : Nat) (ct : Option String) (body : String)
    (h : is2xx status = false) :
    stepOutcome aw status ct body = .retries ↔
      ∃ p, parseProblem body = .ok p ∧ isRecoverable p.acmeType = true := by
  unfold stepOutcome classifyAnswer
  simp only [h, Bool.false_eq_true, if_false]
  cases hp : parseProblem body with
  | error e => simp
  | ok p => cases hr : isRecoverable p.acmeType <;> simp [hr]

/-! ## Objects: the reader succeeds iff the object is well-formed -/

/-- `serde_json::from_str::<Order>` succeeds iff the text is JSON and the value is a well-formed order:
every key decodes, none of the nine known members twice, `status` one of the five RFC 8555 words (lower
case; or `{"word": null}`), `identifiers` an array of identifiers, `authorizations` an array of
strings, `finalize` a string — these four present —, `expires` / `notBefore` / `notAfter` /
`certificate` strings or `null` or absent, `error` a problem document or `null` or absent; or the array
of exactly these nine in declaration order. -/
theorem order_parse_iff (j : J) : isOk (rOrder j) = validOrder j := isOk_rOrder j

theorem authorization_parse_iff (rem : Nat) (j : J) :
    isOk (rAuthorization rem j) = validAuthorization rem j := isOk_rAuthorization rem j

theorem challenge_parse_iff (rem : Nat) (j : J) : isOk (rChallenge rem j) = validChallenge rem j :=
  isOk_rChallenge rem j

theorem directory_parse_iff (j : J) : isOk (rDirectory j) = validDirectory j := isOk_rDirectory j

theorem account_parse_iff (rem : Nat) (j : J) : isOk (rAccount rem j) = validAccount rem j :=
  isOk_rAccount rem j

theorem problem_parse_iff (j : J) : isOk (rProblem j) = validProblem j := isOk_rProblem j

theorem identifier_parse_iff (j : J) : isOk (rIdentifier j) = validIdentifier j := isOk_rIdentifier j

/-- The same from the text, for the four objects a step awaits. -/
theorem body_parse_iff (aw : Awaited) (body : String) : bodyParses aw body = validBody aw body :=
  bodyParses_eq_validBody aw body

/-- A text that is not JSON (as far as `ignore_value` demands) is no object of any kind. -/
theorem non_json_fails (s : String) (h : lex s = none) :
    parseOrder s = .error .syntax ∧ parseAuthorization s = .error .syntax ∧
    parseDirectory s = .error .syntax ∧ parseAccountResponse s = .error .syntax ∧
    parseChallenge s = .error .syntax ∧ parseProblem s = .error .syntax := by
  have h' : lexChars s.toList = none := h
  simp [parseOrder, parseAuthorization, parseDirectory, parseAccountResponse, parseChallenge, parseProblem,
    fromText, fromChars, h']

/-- Consequences spelled out for an order given as an object: each required member must be there. -/
theorem order_requires (ms : List (List Char × J)) (h : isOk (rOrder (.obj ms)) = true) :
    present "status" ms = true ∧ present "identifiers" ms = true ∧ present "authorizations" ms = true ∧
    present "finalize" ms = true := by
  rw [order_parse_iff] at h
  simp only [validOrder, orderRequired, List.all_cons, List.all_nil, Bool.and_true, Bool.and_eq_true] at h
  exact ⟨h.2.1, h.2.2.1, h.2.2.2.1, h.2.2.2.2⟩

/-- … and its `status` member, wherever it stands, is one of the five RFC 8555 words. -/
theorem order_status_rfc8555 (ms : List (List Char × J)) (kv : List Char × J)
    (h : isOk (rOrder (.obj ms)) = true) (hm : kv ∈ ms) (hk : keyOf kv = some "status") :
    isWord false ["pending", "ready", "processing", "valid", "invalid"] kv.2 = true := by
  rw [order_parse_iff] at h
  simp only [validOrder, membersOk, Bool.and_eq_true, List.all_eq_true] at h
  have := h.1.2 kv hm
  simp only [memberOk, hk] at this
  have hc : orderFields.contains "status" = true := by decide
  simp only [hc, Bool.not_true, Bool.false_or, orderMemberOk, if_true] at this
  exact this

/-- A status word is matched exactly: the readers accept the lower-case RFC 8555 words and nothing else
(in particular no other case), and give the variant of that name. -/
theorem status_table_total :
    (∀ st : OrderStatus, rOrderStatus (.str st.name.toList) = .ok st) ∧
    (∀ st : AuthzStatus, rAuthzStatus (.str st.name.toList) = .ok st) ∧
    (∀ st : ChalStatus, rChalStatus (.str st.name.toList) = .ok st) ∧
    (∀ raw, isOk (rOrderStatus (.str raw)) = decodesTo raw ["pending", "ready", "processing", "valid", "invalid"]) ∧
    (∀ raw, isOk (rAuthzStatus (.str raw)) =
      decodesTo raw ["pending", "valid", "invalid", "deactivated", "expired", "revoked"]) ∧
    (∀ raw, isOk (rChalStatus (.str raw)) = decodesTo raw ["pending", "processing", "valid", "invalid"]) ∧
    [0, 1, 2, 3, 4].map (OrderStatus.name ∘ OrderStatus.ofIndex) = orderStatusNames ∧
    [0, 1, 2, 3, 4, 5].map (AuthzStatus.name ∘ AuthzStatus.ofIndex) = authzStatusNames ∧
    [0, 1, 2, 3].map (ChalStatus.name ∘ ChalStatus.ofIndex) = chalStatusNames := by
  refine ⟨?_, ?_, ?_, ?_, ?_, ?_, by decide, by decide, by decide⟩
  · intro st; cases st <;> decide +kernel
  · intro st; cases st <;> decide +kernel
  · intro st; cases st <;> decide +kernel
  · intro raw; rw [isOk_rOrderStatus]; rfl
  · intro raw; rw [isOk_rAuthzStatus]; rfl
  · intro raw; rw [isOk_rChalStatus]; rfl

/-! ## Unknown members -/

/-- A member whose name the struct does not know is ignored — wherever it stands and whatever its
value (any JSON value `lex` accepts: an unpaired surrogate, `1e999`, any nesting depth) — for orders,
authorizations, directories, accounts and problem documents: the RESULT (object or error) is the same as
without it.  (No `deny_unknown_fields` anywhere.) -/
theorem unknown_members_ignored (ms1 ms2 : List (List Char × J)) (k kc : List Char) (v : J)
    (hk : decodeStr k = some kc) :
    (orderFields.contains (String.ofList kc) = false →
      rOrder (.obj (ms1 ++ (k, v) :: ms2)) = rOrder (.obj (ms1 ++ ms2))) ∧
    (authzFields.contains (String.ofList kc) = false → ∀ rem,
      rAuthorization rem (.obj (ms1 ++ (k, v) :: ms2)) = rAuthorization rem (.obj (ms1 ++ ms2))) ∧
    (directoryFields.contains (String.ofList kc) = false →
      rDirectory (.obj (ms1 ++ (k, v) :: ms2)) = rDirectory (.obj (ms1 ++ ms2))) ∧
    (accountFields.contains (String.ofList kc) = false → ∀ rem,
      (rAccount rem (.obj (ms1 ++ (k, v) :: ms2))).toOption.map (fun a => (a.status, a.orders)) =
        (rAccount rem (.obj (ms1 ++ ms2))).toOption.map (fun a => (a.status, a.orders))) ∧
    (problemFields.contains (String.ofList kc) = false →
      rProblem (.obj (ms1 ++ (k, v) :: ms2)) = rProblem (.obj (ms1 ++ ms2))) := by
  refine ⟨fun hu => ?_, fun hu rem => ?_, fun hu => ?_, fun hu rem => ?_, fun hu => ?_⟩
  · simp only [rOrder, scan_unknown_member _ _ _ ms1 ms2 k kc v hk hu]
  · simp only [rAuthorization, scan_unknown_member _ _ _ ms1 ms2 k kc v hk hu]
  · simp only [rDirectory, scan_unknown_member _ _ _ ms1 ms2 k kc v hk hu]
  · simp only [rAccount, scan_unknown_member _ _ _ ms1 ms2 k kc v hk hu]
  · simp only [rProblem, problemMap, scan_unknown_member _ _ _ ms1 ms2 k kc v hk hu]

/-- Inside a challenge object an unknown member is NOT free: serde buffers the whole object, so the
member must be fully readable; an unreadable one makes a challenge — and with it the authorization —
fail, although the same member in an order is ignored. -/
theorem challenge_unknown_member_is_read :
    isOk (fromChars (rChallenge 128) (chars! "{\"type\":\"http-01\",\"url\":\"u\",\"token\":\"t\",\"x\":1e999}")) = false ∧
    isOk (fromChars (rChallenge 128) (chars! "{\"type\":\"http-01\",\"url\":\"u\",\"token\":\"t\",\"x\":1e99}")) = true ∧
    isOk (fromChars rOrder (chars! "{\"status\":\"ready\",\"identifiers\":[],\"authorizations\":[],\"finalize\":\"f\",\"x\":1e999}")) = true ∧
    isOk (fromChars rProblem (chars! "{\"type\":\"urn:ietf:params:acme:error:dns\",\"x\":1e999}")) = true := by
  decide +kernel

/-! ## Error types -/

/-- Exactly seven error types are recoverable; the model's `acmeErrorOfType` / `isRecoverable`
reproduce the table generated from the COMPILED Rust code row by row (URN suffix, variant name,
`is_recoverable`), and agree with `Model/Http.lean`'s `ErrType` (the type the retry theorems of
`Props/C08.lean` are about). -/
theorem recoverable_exactly_seven :
    AcmeError.all.filter isRecoverable =
      [.badNonce, .connection, .dns, .malformed, .rateLimited, .serverInternal, .tls] ∧
    (Gen.acmeErrors.filter (·.2.2)).map (·.1) =
      ["badNonce", "connection", "dns", "malformed", "rateLimited", "serverInternal", "tls"] ∧
    (∀ row ∈ Gen.acmeErrors,
      (acmeErrorOfType ("urn:ietf:params:acme:error:" ++ row.1)).rustName = row.2.1 ∧
      isRecoverable (acmeErrorOfType ("urn:ietf:params:acme:error:" ++ row.1)) = row.2.2) ∧
    (∀ t ∈ Http.ErrType.all,
      (acmeErrorOfType (Http.ErrType.urnPrefix ++ t.suffix)).rustName = t.rustName ∧
      isRecoverable (acmeErrorOfType (Http.ErrType.urnPrefix ++ t.suffix)) = Http.recoverable t) := by
  decide +kernel

/-- `AcmeError.all` misses no variant. -/
theorem acmeError_all_complete (e : AcmeError) : e ∈ AcmeError.all := by
  cases e <;> decide

/-- A problem document without a `type` (absent or `null`) is `about:blank`, hence `Unknown`, hence
not recoverable: a non-2xx answer carrying it makes the step fail at once. -/
theorem problem_without_type_is_not_recoverable (p : Problem) (h : p.type = none) :
    p.getType = "about:blank" ∧ p.acmeType = .unknown ∧ isRecoverable p.acmeType = false := by
  have h1 : p.getType = "about:blank" := by simp [Problem.getType, h]
  have h2 : p.acmeType = .unknown := by
    simp only [Problem.acmeType, h1]
    decide
  exact ⟨h1, h2, by rw [h2]; rfl⟩

theorem untyped_problem_fails (aw : Awaited) (status : Nat) (ct : Option String) (body : String) (p : Problem)
    (h : is2xx status = false) (hp : parseProblem body = .ok p) (ht : p.type = none) :
    classifyAnswer status ct body = .acmeError .unknown false ∧ stepOutcome aw status ct body = .fails := by
  obtain ⟨_, h2, _⟩ := problem_without_type_is_not_recoverable p ht
  simp [stepOutcome, classifyAnswer, h, hp, h2, isRecoverable]

/-- A type that is no URN of the table (a near miss in case, with a space, a bare suffix) is `Unknown`,
not recoverable. -/
theorem unknown_type_is_not_recoverable :
    acmeErrorOfType "urn:ietf:params:acme:error:BadNonce" = .unknown ∧
    acmeErrorOfType "urn:ietf:params:acme:error:badNonce " = .unknown ∧
    acmeErrorOfType "badNonce" = .unknown ∧ acmeErrorOfType "" = .unknown ∧
    isRecoverable .unknown = false ∧ isRecoverable .unauthorized = false := by
  decide

/-! ## Non-vacuity: Let's-Encrypt-shaped texts -/

/-- `parseOrder s` is `fromChars rOrder s.toList` (and so on) by definition: the examples below give the
characters directly. -/
theorem parse_is_fromChars (s : String) :
    parseOrder s = fromChars rOrder s.toList ∧ parseAuthorization s = fromChars (rAuthorization 128) s.toList ∧
    parseDirectory s = fromChars rDirectory s.toList ∧ parseProblem s = fromChars rProblem s.toList ∧
    parseChallenge s = fromChars (rChallenge 128) s.toList ∧
    parseAccountResponse s = fromChars (rAccount 128) s.toList :=
  ⟨rfl, rfl, rfl, rfl, rfl, rfl⟩

def leOrder : List Char := chars!
  "{\n  \"status\": \"ready\",\n  \"expires\": \"2026-10-04T21:06:43Z\",\n  \"identifiers\": [\n    {\"type\": \"dns\", \"value\": \"example.org\"},\n    {\"type\": \"dns\", \"value\": \"www.example.org\"}\n  ],\n  \"authorizations\": [\n    \"https://acme-v02.api.letsencrypt.org/acme/authz/1234/5678\",\n    \"https://acme-v02.api.letsencrypt.org/acme/authz/1234/5679\"\n  ],\n  \"finalize\": \"https://acme-v02.api.letsencrypt.org/acme/finalize/1234/91011\",\n  \"profile\": \"classic\"\n}"

def leOrderObj : Order where
  status := .ready
  expires := some "2026-10-04T21:06:43Z"
  identifiers := [{ idType := .dns, value := "example.org" }, { idType := .dns, value := "www.example.org" }]
  notBefore := none
  notAfter := none
  error := none
  authorizations := ["https://acme-v02.api.letsencrypt.org/acme/authz/1234/5678",
                     "https://acme-v02.api.letsencrypt.org/acme/authz/1234/5679"]
  finalize := "https://acme-v02.api.letsencrypt.org/acme/finalize/1234/91011"
  certificate := none

/-- The order is read, the unknown member `profile` ignored. -/
example : fromChars rOrder leOrder = .ok leOrderObj := by decide +kernel

/-- Mutations that must fail: `finalize` missing, an upper-case status, a status that is no RFC 8555
word, a duplicate `status`, `finalize: null`, a truncated text; each with the error serde names. -/
example :
    fromChars rOrder (chars! "{\"status\":\"ready\",\"identifiers\":[],\"authorizations\":[]}") = .error (.missingField "finalize") ∧
    fromChars rOrder (chars! "{\"status\":\"READY\",\"identifiers\":[],\"authorizations\":[],\"finalize\":\"f\"}") = .error .unknownVariant ∧
    fromChars rOrder (chars! "{\"status\":\"done\",\"identifiers\":[],\"authorizations\":[],\"finalize\":\"f\"}") = .error .unknownVariant ∧
    fromChars rOrder (chars! "{\"status\":\"ready\",\"status\":\"ready\",\"identifiers\":[],\"authorizations\":[],\"finalize\":\"f\"}")
      = .error (.duplicateField "status") ∧
    fromChars rOrder (chars! "{\"status\":\"ready\",\"identifiers\":[],\"authorizations\":[],\"finalize\":null}") = .error .invalidType ∧
    fromChars rOrder (chars! "{\"status\":\"ready\",\"identifiers\":[],\"authorizations\":[],\"finali") = .error .syntax := by
  decide +kernel

/-- serde's alternative notations ARE accepted: an order as the array of its nine fields, a status as
`{"ready": null}`; a member name written with an escape is the member. -/
example :
    isOk (fromChars rOrder (chars! "[\"ready\",null,[[\"dns\",\"a.example\"]],null,null,null,[],\"f\",null]")) = true ∧
    isOk (fromChars rOrder (chars! "{\"status\":{\"ready\":null},\"identifiers\":[],\"authorizations\":[],\"finalize\":\"f\"}")) = true ∧
    fromChars rOrder (chars! "{\"st\\u0061tus\":\"ready\",\"status\":\"ready\",\"identifiers\":[],\"authorizations\":[],\"finalize\":\"f\"}")
      = .error (.duplicateField "status") := by
  decide +kernel

/-- The step: a 2xx answer with a good body proceeds; the same body under 500 fails; an upper-case status
under 200 fails (strings, short because the kernel is slow at `String.toList`). -/
example :
    stepOutcome .order 200 none "{\"status\":\"ready\",\"identifiers\":[],\"authorizations\":[],\"finalize\":\"f\"}" = .proceeds ∧
    stepOutcome .order 500 none "{\"status\":\"ready\",\"identifiers\":[],\"authorizations\":[],\"finalize\":\"f\"}" = .fails ∧
    stepOutcome .order 200 none "{\"status\":\"READY\",\"identifiers\":[],\"authorizations\":[],\"finalize\":\"f\"}" = .fails := by
  decide +kernel

def leAuthz : List Char := chars!
  "{\"identifier\":{\"type\":\"dns\",\"value\":\"example.org\"},\"status\":\"pending\",\"expires\":\"2026-10-04T21:06:43Z\",\"challenges\":[{\"type\":\"http-01\",\"url\":\"https://acme-v02.api.letsencrypt.org/acme/chall/1/2/AbC\",\"status\":\"pending\",\"token\":\"LoqXcYV8q5ONbJQxbmR7SCTNo3tiAXDfowyjxAjEuX0\"},{\"type\":\"dns-account-01\",\"url\":\"https://acme-v02.api.letsencrypt.org/acme/chall/1/2/DeF\",\"status\":\"pending\",\"token\":\"LoqXcYV8q5ONbJQxbmR7SCTNo3tiAXDfowyjxAjEuX0\"}]}"

/-- An authorization with a challenge type the code does not know: the flow's reader
(`response.json::<Authorization>()`, the derive alone) KEEPS it as `Challenge::Unknown`; only
`Authorization::from_str` (used by the crate's unit tests alone) filters it out. -/
example :
    ((fromChars (rAuthorization 128) leAuthz).toOption.map fun a => a.challenges.length) = some 2 ∧
    ((fromChars (rAuthorization 128) leAuthz).toOption.map fun a => a.challenges.getLast?) = some (some .unknown) ∧
    ((fromChars (rAuthorization 128) leAuthz).toOption.map fun a =>
      (a.challenges.filter (· ≠ .unknown)).length) = some 1 := by
  decide +kernel

/-- Problem documents: a recoverable type is retried, `unauthorized` fails, an untyped / non-JSON /
ill-typed body fails; the content type does not matter; `get` never reads the body. -/
example :
    classifyAnswer 400 (some "application/problem+json") "{\"type\":\"urn:ietf:params:acme:error:badNonce\",\"status\":400}"
      = .acmeError .badNonce true ∧
    stepOutcome .order 400 (some "text/html") "{\"type\":\"urn:ietf:params:acme:error:badNonce\",\"status\":400}" = .retries ∧
    stepOutcome .order 403 none "{\"type\":\"urn:ietf:params:acme:error:unauthorized\"}" = .fails ∧
    stepOutcome .order 500 none "{\"detail\":\"no type\"}" = .fails ∧
    classifyAnswer 502 none "<html>Bad Gateway</html>" = .otherFailure ∧
    classifyAnswer 400 none "{\"type\":\"urn:ietf:params:acme:error:badNonce\",\"status\":\"400\"}" = .otherFailure ∧
    classifyGet 404 none "{\"type\":\"urn:ietf:params:acme:error:badNonce\"}" = .otherFailure := by
  decide +kernel

def leDirectory : List Char := chars!
  "{\"keyChange\":\"https://acme-v02.api.letsencrypt.org/acme/key-change\",\"meta\":{\"caaIdentities\":[\"letsencrypt.org\"],\"termsOfService\":\"https://letsencrypt.org/documents/LE-SA-v1.5.pdf\",\"website\":\"https://letsencrypt.org\"},\"newAccount\":\"https://acme-v02.api.letsencrypt.org/acme/new-acct\",\"newNonce\":\"https://acme-v02.api.letsencrypt.org/acme/new-nonce\",\"newOrder\":\"https://acme-v02.api.letsencrypt.org/acme/new-order\",\"renewalInfo\":\"https://acme-v02.api.letsencrypt.org/acme/renewal-info\",\"revokeCert\":\"https://acme-v02.api.letsencrypt.org/acme/revoke-cert\"}"

example : isOk (fromChars rDirectory leDirectory) = true ∧
    fromChars rDirectory (chars! "{\"newNonce\":\"a\",\"newAccount\":\"b\",\"revokeCert\":\"d\",\"keyChange\":\"e\"}")
      = .error (.missingField "newOrder") := by
  decide +kernel

end AcmedVerif.Props.C08Obj
