/-
C10 — hooks run in declared order, by type, one at a time, with the documented data.
Theorems about `Model/Hooks.lean`, stated with the reference notions of `Spec/C10.lean`; helper
lemmas in `Lemmas/Hooks.lean`.  All statements are for every input (no bound on the number of hooks,
groups, nesting depth, exits, challenges or environment sizes).
-/
import AcmedVerif.Model.Hooks
import AcmedVerif.Spec.C10
import AcmedVerif.Lemmas.Hooks
import AcmedVerif.Gen.Tables
import AcmedVerif.Props.C02

namespace AcmedVerif.Props.C10
open AcmedVerif.Hooks AcmedVerif.Spec.C10

/-! ## Expansion of the `hooks = [...]` list (clause C10.1, "declaration order, groups in place") -/

/-- The hook list of a certificate/account is the concatenation, in declaration order, of the
expansion of each listed name; the first name that fails decides the error; a hook shadows a group of
the same name; a group that is accepted is replaced, in place, by the expansions of its members in
their order (a group may also be refused since 537f12e / a9033b3 — nested too deeply, too many members
visited — which is why this is stated for accepted names: before those repairs it was an equation,
`getHook … n = mapCat (expand … [n]) g.hooks`, which is false of the current code). -/
theorem expand_order (hooks : List Hook) (groups : List Group) (names : List Name) :
    (∀ r, expandAll hooks groups names = .ok r ↔
      ∃ parts : List (List Hook),
        names.map (getHook hooks groups) = parts.map .ok ∧ r = parts.flatten) ∧
    (∀ e, expandAll hooks groups names = .error e ↔
      ∃ pre n post, names = pre ++ n :: post ∧ (∀ m ∈ pre, ∃ r, getHook hooks groups m = .ok r) ∧
        getHook hooks groups n = .error e) ∧
    (∀ n h, findHook hooks n = some h → getHook hooks groups n = .ok [h]) ∧
    (∀ n g r, findHook hooks n = none → findGroup groups n = some g → getHook hooks groups n = .ok r →
      mapCat (expand hooks groups (enoughFuel groups) [n]) g.hooks = .ok r) := by
  refine ⟨fun r => mapCat_ok_iff _ _ _, fun e => mapCat_error_iff _ _ _, ?_, ?_⟩
  · intro n h hh
    have hpos : maxMembers = (maxMembers - 1) + 1 := by decide
    simp only [getHook, getHookFuel, enoughFuel]
    rw [hpos, expandB_succ]
    simp only [hh, dropBudget]
  · intro n g r hh hg hr
    have h1 := getHookFuel_ok_expand hr
    simp only [enoughFuel, expand_succ, hh, hg, List.not_mem_nil, if_false] at h1
    rw [← h1]
    apply mapCat_congr
    intro m _
    exact expand_stable hooks groups groups.length [n] m
      ((PathInv.nil groups).cons List.not_mem_nil hg) (by simp)

/-- Concatenating two name lists concatenates their expansions. -/
theorem expand_order_append (hooks : List Hook) (groups : List Group) (a b : List Name)
    (ra rb : List Hook) (ha : expandAll hooks groups a = .ok ra)
    (hb : expandAll hooks groups b = .ok rb) :
    expandAll hooks groups (a ++ b) = .ok (ra ++ rb) := by
  unfold expandAll at *
  rw [mapCat_append, ha, hb]

/-- `#groups + 1` units of fuel are enough for every configuration: more fuel changes nothing and
the model's own `fuel` error never comes out; and what is accepted is what the names denote (`expand`,
the expansion without the two limits). -/
theorem expand_total (hooks : List Hook) (groups : List Group) (fuel : Nat)
    (hf : enoughFuel groups ≤ fuel) :
    (∀ n, getHookFuel hooks groups fuel n = getHook hooks groups n) ∧
    (∀ n, getHook hooks groups n ≠ .error .fuel) ∧
    (∀ names, expandAllFuel hooks groups fuel names = expandAll hooks groups names) ∧
    (∀ names, expandAll hooks groups names ≠ .error .fuel) ∧
    (∀ n r, getHook hooks groups n = .ok r → expand hooks groups fuel [] n = .ok r) := by
  have h1 : ∀ n, getHookFuel hooks groups fuel n = getHook hooks groups n := by
    intro n
    obtain ⟨k, rfl⟩ := Nat.exists_eq_add_of_le hf
    simp only [getHook, getHookFuel]
    rw [expandB_stable_add hooks groups (enoughFuel groups) [] _ n (PathInv.nil groups)
      (by simp [enoughFuel]) k]
  have h2 : ∀ n, getHook hooks groups n ≠ .error .fuel := fun n h =>
    expandB_no_fuel_error hooks groups (enoughFuel groups) [] _ n (PathInv.nil groups)
      (by simp [enoughFuel]) (dropBudget_error h)
  refine ⟨h1, h2, ?_, ?_, ?_⟩
  · intro names
    exact mapCat_congr names (fun n _ => h1 n)
  · intro names h
    obtain ⟨n, _, hn⟩ := mapCat_error_mem h
    exact h2 n hn
  · intro n r hr
    rw [← h1 n] at hr
    exact getHookFuel_ok_expand hr

/-- The two limits of `get_hook_rec` (537f12e, a9033b3): whatever one `Config::get_hook` returns has at
most MAX_HOOK_GROUP_MEMBERS hooks — each hook returned was charged to the budget (`|r| + left ≤ budget`
at every level) — and is what the name denotes without the limits. -/
theorem expand_limits (hooks : List Hook) (groups : List Group) :
    (∀ fuel path budget n r left, expandB hooks groups fuel path budget n = .ok (r, left) →
      r.length + left ≤ budget ∧ expand hooks groups fuel path n = .ok r) ∧
    (∀ n r, getHook hooks groups n = .ok r → r.length ≤ maxMembers) := by
  have key : ∀ fuel path budget n r left, expandB hooks groups fuel path budget n = .ok (r, left) →
      r.length + left ≤ budget := by
    intro fuel
    induction fuel with
    | zero => intro path budget n r left h; simp [expandB] at h
    | succ k ih =>
      intro path budget n r left h
      rw [expandB_succ] at h
      cases budget with
      | zero => simp at h
      | succ budget =>
        simp only at h
        cases hh : findHook hooks n with
        | some x =>
          simp only [hh, Except.ok.injEq, Prod.mk.injEq] at h
          obtain ⟨rfl, rfl⟩ := h
          simp only [List.length_singleton]; omega
        | none =>
          simp only [hh] at h
          cases hg : findGroup groups n with
          | none => simp [hg] at h
          | some g =>
            simp only [hg] at h
            by_cases hp : n ∈ path
            · simp [hp] at h
            · simp only [hp, if_false] at h
              by_cases hd : path.length ≥ maxDepth
              · simp [hd] at h
              · simp only [hd, if_false] at h
                have loop : ∀ (ns : List Name) (b : Nat) (r : List Hook) (left : Nat),
                    mapCatB (expandB hooks groups k (n :: path)) ns b = .ok (r, left) → r.length + left ≤ b := by
                  intro ns
                  induction ns with
                  | nil =>
                    intro b r left h'
                    simp only [mapCatB, Except.ok.injEq, Prod.mk.injEq] at h'
                    obtain ⟨rfl, rfl⟩ := h'; simp
                  | cons a ns ihn =>
                    intro b r left h'
                    simp only [mapCatB] at h'
                    cases ha : expandB hooks groups k (n :: path) b a with
                    | error e => simp [ha] at h'
                    | ok res =>
                      obtain ⟨hs, b₁⟩ := res
                      simp only [ha] at h'
                      cases hm : mapCatB (expandB hooks groups k (n :: path)) ns b₁ with
                      | error e => simp [hm] at h'
                      | ok res' =>
                        obtain ⟨rest, b₂⟩ := res'
                        simp only [hm, Except.ok.injEq, Prod.mk.injEq] at h'
                        obtain ⟨rfl, rfl⟩ := h'
                        have h1 := ih (n :: path) b a hs b₁ ha
                        have h2 := ihn b₁ rest b₂ hm
                        simp only [List.length_append]; omega
                have := loop g.hooks budget r left h
                omega
  refine ⟨fun fuel path budget n r left h =>
    ⟨key fuel path budget n r left h, expandB_ok_expand hooks groups fuel path budget n r left h⟩, ?_⟩
  intro n r h
  obtain ⟨b, hb⟩ := dropBudget_ok h
  have := key _ _ _ _ _ _ hb
  omega

/-- A listed name from which a cycle of groups can be reached makes the whole list fail (with any
amount of fuel) … -/
theorem expand_rejects_cycles (hooks : List Hook) (groups : List Group) (names : List Name)
    (s n : Name) (hs : s ∈ names) (hreach : Star hooks groups s n) (hcyc : Plus hooks groups n n) :
    (∀ fuel r, expandAllFuel hooks groups fuel names ≠ .ok r) ∧
    (∀ r, expandAll hooks groups names ≠ .ok r) := by
  constructor
  · intro fuel r h
    obtain ⟨r', hr'⟩ := mapCat_ok_mem h s hs
    exact expand_cycle_not_ok hreach hcyc fuel [] r' (getHookFuel_ok_expand hr')
  · intro r h
    obtain ⟨r', hr'⟩ := mapCat_ok_mem h s hs
    exact expand_cycle_not_ok hreach hcyc _ [] r' (getHookFuel_ok_expand hr')

/-- … and the "hook group contains itself" error is only ever raised for a real cycle reachable from
a listed name. -/
theorem expand_cycle_error_is_real (hooks : List Hook) (groups : List Group) (names : List Name)
    (n : Name) (h : expandAll hooks groups names = .error (.cycle n)) :
    ∃ s ∈ names, Star hooks groups s n ∧ Plus hooks groups n n := by
  obtain ⟨s, hs, he⟩ := mapCat_error_mem h
  exact ⟨s, hs, expandB_cycle_error_sound _ [] _ s n (fun _ hp => by cases hp) (dropBudget_error he)⟩

/-! ## `hooks::call` (clauses C10.1 and C10.3) -/

/-- The executed hooks are exactly the attached hooks having the event's type, in order, up to and
including the first hard failure; the call succeeds iff there was none; one exit per executed hook
is consumed. -/
theorem call_runs_prefix (hooks : List Hook) (ty : HookType) (ex : List Exit) :
    (call hooks ty ex).1 = expectedRun hooks ty ex ∧
    ((call hooks ty ex).2.1 = true ↔ noHard (call hooks ty ex).1 = true) ∧
    (call hooks ty ex).2.2 = ex.drop (call hooks ty ex).1.length := by
  refine ⟨call_fst hooks ty ex, ?_, call_rest hooks ty ex⟩
  rw [call_ok]

/-- What "up to and including the first hard failure" means: a prefix of the candidates; nothing
before its last entry is a hard failure; it is the whole list iff it holds no hard failure, and
otherwise it ends with one.  The i-th candidate receives the i-th exit. -/
theorem expectedRun_spec (hooks : List Hook) (ty : HookType) (ex : List Exit) :
    let cand := zipExits (hooks.filter fun h => h.hasType ty) ex
    expectedRun hooks ty ex <+: cand ∧
    cand.map Prod.fst = hooks.filter (fun h => h.hasType ty) ∧
    (∀ i (h : i < cand.length), (cand[i]).2 = ex.getD i .ok) ∧
    (∀ i (h : i + 1 < (expectedRun hooks ty ex).length),
      ((expectedRun hooks ty ex)[i]'(by omega)).2.hard
        ((expectedRun hooks ty ex)[i]'(by omega)).1.allowFailure = false) ∧
    (noHard (expectedRun hooks ty ex) = true → expectedRun hooks ty ex = cand) ∧
    (noHard (expectedRun hooks ty ex) = false →
      ∃ p, (expectedRun hooks ty ex).getLast? = some p ∧ p.2.hard p.1.allowFailure = true) := by
  intro cand
  exact ⟨uptoHard_prefix cand, zipExits_map_fst _ _, zipExits_snd _ _, uptoHard_init cand,
    (uptoHard_noHard cand).1, (uptoHard_noHard cand).2⟩

/-- A hook with `allow_failure` that exits non-zero (or is killed) does not stop the sequence … -/
theorem allow_failure_continues (h : Hook) (hs : List Hook) (ty : HookType) (e : Exit)
    (ex : List Exit) (ht : h.hasType ty = true) (ha : h.allowFailure = true)
    (he : e = .ok ∨ (∃ c, e = .fail c) ∨ e = .signal) :
    call (h :: hs) ty (e :: ex) =
      ((h, e) :: (call hs ty ex).1, (call hs ty ex).2.1, (call hs ty ex).2.2) := by
  have hh : ((e :: ex).headD Exit.ok).hard h.allowFailure = false := by
    rcases he with rfl | ⟨c, rfl⟩ | rfl <;> simp [Exit.hard, ha]
  rw [call_cons_soft ht hh]
  rfl

/-- … whereas without it the sequence stops there and the operation is aborted; a failure to render
a template, to spawn, or to feed stdin aborts whatever `allow_failure` says. -/
theorem hard_failure_aborts (h : Hook) (hs : List Hook) (ty : HookType) (e : Exit)
    (ex : List Exit) (ht : h.hasType ty = true)
    (he : (h.allowFailure = false ∧ ((∃ c, e = .fail c) ∨ e = .signal)) ∨
      e = .spawnError ∨ e = .templateError ∨ e = .stdinError) :
    call (h :: hs) ty (e :: ex) = ([(h, e)], false, ex) := by
  have hh : ((e :: ex).headD Exit.ok).hard h.allowFailure = true := by
    rcases he with ⟨ha, ⟨c, rfl⟩ | rfl⟩ | rfl | rfl | rfl <;> simp [Exit.hard, *]
  rw [call_cons_hard ht hh]
  rfl

/-- One at a time: in program order every child that is started is awaited before the next one is
started (the only child that may be left un-awaited is the one whose stdin could not be fed, and the
call ends there); no two starts are adjacent; the events are those of the executed hooks. -/
theorem one_at_a_time (hooks : List Hook) (ty : HookType) (ex : List Exit) :
    alternates (callTrace hooks ty ex) = true ∧
    noAdjacentStarts (callTrace hooks ty ex) = true ∧
    callTrace hooks ty ex =
      ((call hooks ty ex).1.map fun p => singleTrace p.1 p.2).flatten := by
  exact ⟨alternates_callTrace hooks ty ex,
    noAdjacentStarts_of_alternates _ (alternates_callTrace hooks ty ex), callTrace_eq hooks ty ex⟩

/-- Only hooks with the event's type run; those that run are an initial segment of the attached
hooks of that type (each once, in order); all of them when the call succeeds, and otherwise the last
one that ran is the hard failure. -/
theorem only_matching_types (hooks : List Hook) (ty : HookType) (ex : List Exit) :
    (∀ p ∈ (call hooks ty ex).1, p.1 ∈ hooks ∧ ty ∈ p.1.types) ∧
    (call hooks ty ex).1.map Prod.fst <+: hooks.filter (fun h => h.hasType ty) ∧
    ((call hooks ty ex).2.1 = true →
      (call hooks ty ex).1.map Prod.fst = hooks.filter (fun h => h.hasType ty)) ∧
    ((call hooks ty ex).2.1 = false →
      ∃ p, (call hooks ty ex).1.getLast? = some p ∧ p.2.hard p.1.allowFailure = true) := by
  have hpre : (call hooks ty ex).1.map Prod.fst <+: hooks.filter (fun h => h.hasType ty) := by
    rw [call_fst]
    have := (uptoHard_prefix (zipExits (hooks.filter fun h => h.hasType ty) ex)).map Prod.fst
    rw [zipExits_map_fst] at this
    exact this
  refine ⟨?_, hpre, ?_, ?_⟩
  · intro p hp
    have : p.1 ∈ hooks.filter (fun h => h.hasType ty) :=
      hpre.subset (List.mem_map.mpr ⟨p, hp, rfl⟩)
    rw [List.mem_filter] at this
    exact ⟨this.1, by simpa [Hook.hasType] using this.2⟩
  · intro hok
    rw [call_ok] at hok
    rw [call_fst] at hok ⊢
    unfold expectedRun at hok ⊢
    rw [(uptoHard_noHard _).1 hok, zipExits_map_fst]
  · intro hok
    rw [call_ok] at hok
    rw [call_fst] at hok ⊢
    exact (uptoHard_noHard _).2 hok

/-! ## The file / certificate split (`main_event_loop.rs`) -/

/-- Both lists keep the declaration order, no hook having a file type (certificate type) is lost
from the file list (certificate list), and an event of a file type (certificate type) runs the same
hooks with the same outcome on the split list as on the whole list. -/
theorem split_preserves_order (hooks : List Hook) :
    (splitHooks hooks).1.Sublist hooks ∧ (splitHooks hooks).2.Sublist hooks ∧
    (∀ h ∈ hooks, (∃ t ∈ h.types, t ∈ fileTypes) → h ∈ (splitHooks hooks).1) ∧
    (∀ h ∈ hooks, (∃ t ∈ h.types, t ∈ certTypes) → h ∈ (splitHooks hooks).2) ∧
    (∀ ty ∈ fileTypes, ∀ ex, call (splitHooks hooks).1 ty ex = call hooks ty ex) ∧
    (∀ ty ∈ certTypes, ∀ ex, call (splitHooks hooks).2 ty ex = call hooks ty ex) := by
  refine ⟨List.filter_sublist, List.filter_sublist, ?_, ?_, ?_, ?_⟩
  · rintro h hh ⟨t, ht, htf⟩
    exact List.mem_filter.mpr ⟨hh, intersects_of_hasType htf (by simpa [Hook.hasType] using ht)⟩
  · rintro h hh ⟨t, ht, htf⟩
    exact List.mem_filter.mpr ⟨hh, intersects_of_hasType htf (by simpa [Hook.hasType] using ht)⟩
  · intro ty hty ex
    exact call_filter _ hooks ty ex (fun h _ ht => intersects_of_hasType hty ht)
  · intro ty hty ex
    exact call_filter _ hooks ty ex (fun h _ ht => intersects_of_hasType hty ht)

/-- Every hook type is a file type or a certificate type, never both: each event sees the list it
needs. -/
theorem types_partition (ty : HookType) : (ty ∈ fileTypes ∨ ty ∈ certTypes) ∧
    ¬(ty ∈ fileTypes ∧ ty ∈ certTypes) := by
  cases ty <;> decide

/-! ## Environment (clause C10.2) -/

/-- Repaired `set_env`: for every key the child process of a challenge (or clean) hook sees the
identifier's value if set, else the certificate's, else the global one, else the daemon's own; the
child of a post-operation hook or of a certificate's file hook sees certificate ▸ global ▸ daemon. -/
theorem env_precedence (proc global cert ident : Env) (k : Key) :
    lookup (challengeChildEnv .repaired proc global cert ident) k =
      expectedEnv proc global cert ident k ∧
    lookup (postOpChildEnv .repaired proc global cert) k = expectedEnv proc global cert [] k ∧
    lookup (certFileChildEnv .repaired proc global cert) k = expectedEnv proc global cert [] k := by
  simp only [challengeChildEnv, postOpChildEnv, certFileChildEnv, childEnv, challengeEnv, postOpEnv,
    fileEnv, lookup_append, lookup_setEnv_repaired, lookup_dispatchGlobal, expectedEnv, lookup]
  cases lookup ident k <;> cases lookup cert k <;> cases lookup global k <;> cases lookup proc k <;>
    simp [orElse]

/-- An account's file hooks (repaired `dispatch_global_env_vars`, commit 703ab3f): account ▸ global ▸
daemon, for every key. -/
theorem env_precedence_account (proc global account : Env) (k : Key) :
    lookup (accountFileChildEnv .repaired .repaired proc global account) k =
      expectedEnv proc global account [] k := by
  simp only [accountFileChildEnv, accountEnvAfterDispatch, childEnv, fileEnv, lookup_append,
    lookup_setEnv_repaired, lookup_dispatchGlobal, expectedEnv, lookup]
  cases lookup account k <;> cases lookup global k <;> cases lookup proc k <;> simp [orElse]

/-- Before that repair the `global` table was not consulted for accounts (only certificates were
visited): account ▸ daemon … -/
theorem env_precedence_account_old (proc global account : Env) (k : Key) :
    lookup (accountFileChildEnv .repaired .old proc global account) k =
      orElse (lookup account k) (lookup proc k) := by
  simp only [accountFileChildEnv, accountEnvAfterDispatch, childEnv, fileEnv, lookup_append,
    lookup_setEnv_repaired, lookup]
  cases lookup account k <;> cases lookup proc k <;> simp [orElse]

/-- … so "account over global over the daemon's own" was false: a variable set only in
`[global] env` did not reach an account's file hooks. -/
theorem env_precedence_account_old_is_false :
    ¬ ∀ (proc global account : Env) (k : Key),
      lookup (accountFileChildEnv .repaired .old proc global account) k =
        expectedEnv proc global account [] k := by
  intro h
  have := h [] [(['K'], ['g'])] [] ['K']
  revert this
  decide

/-- It held for every key the global table does not set. -/
theorem env_precedence_account_old_partial (proc global account : Env) (k : Key)
    (hk : lookup global k = none) :
    lookup (accountFileChildEnv .repaired .old proc global account) k =
      expectedEnv proc global account [] k := by
  rw [env_precedence_account_old]
  simp only [expectedEnv, hk, lookup, orElse_none_left]

/-- Before the repair: a variable present both in the daemon's environment and in the certificate's
table reached a challenge hook with the daemon's value (observation f). -/
theorem env_precedence_old_is_false :
    ¬ ∀ (proc global cert ident : Env) (k : Key),
      lookup (challengeChildEnv .old proc global cert ident) k =
        expectedEnv proc global cert ident k := by
  intro h
  have := h [(['K'], ['d'])] [] [(['K'], ['c'])] [] ['K']
  revert this
  decide

/-- Before the repair the precedence was right for every key not set in the daemon's environment. -/
theorem env_precedence_old_partial (proc global cert ident : Env) (k : Key)
    (hk : lookup proc k = none) :
    lookup (challengeChildEnv .old proc global cert ident) k =
      expectedEnv proc global cert ident k ∧
    lookup (postOpChildEnv .old proc global cert) k = expectedEnv proc global cert [] k ∧
    lookup (certFileChildEnv .old proc global cert) k = expectedEnv proc global cert [] k := by
  simp only [challengeChildEnv, postOpChildEnv, certFileChildEnv, childEnv, challengeEnv, postOpEnv,
    fileEnv, lookup_append, lookup_setEnv_old_absent _ _ _ _ hk, lookup_dispatchGlobal, expectedEnv,
    lookup, hk]
  cases lookup ident k <;> cases lookup cert k <;> cases lookup global k <;> simp [orElse]

/-! ## Challenge hooks and their clean hooks (clause C10.5) -/

/-- `markClean` changes `is_clean_hook` and nothing else. -/
theorem markClean_only_flag (d : ChallengeData) :
    (markClean d).isCleanHook = true ∧ (markClean d).identifier = d.identifier ∧
    (markClean d).identifierTlsAlpn = d.identifierTlsAlpn ∧ (markClean d).challenge = d.challenge ∧
    (markClean d).fileName = d.fileName ∧ (markClean d).proof = d.proof ∧
    (markClean d).rawProof = d.rawProof ∧ (markClean d).env = d.env ∧
    { markClean d with isCleanHook := d.isCleanHook } = d :=
  ⟨rfl, rfl, rfl, rfl, rfl, rfl, rfl, rfl, rfl⟩

/-- The authorization fragment, as the code is.  With `p` the challenge phase:
1. the challenge phase never makes a clean call, and its data has `is_clean_hook = false`;
2. whatever happens, what was collected is `cleanEntry` of the first `k` challenges, and exactly
   those were POSTed (a hook hard failure ⇒ that challenge is neither pushed nor POSTed);
3. if a challenge hook fails hard, or a POST fails, or the poll fails, NO clean hook is called — not
   even for the challenges already collected (`?` returns early);
4. if all of that succeeds: the events are, per challenge, hooks (no hard failure) then POST; then
   the poll; then, for each challenge in order, one call of its clean type with the challenge's own
   data marked clean — up to the first clean call that fails (at least one if there was a
   challenge, all of them if the fragment succeeds). -/
theorem clean_follows_validated (mode : EnvMode) (proc certEnv : Env) (hooks : List Hook)
    (chals : List ChallengeIn) (pollOk : Bool) (ex : List Exit) :
    let p := challengePhase mode proc certEnv hooks chals [] ex
    let r := authFragment mode proc certEnv hooks chals pollOk ex
    (∀ e ∈ p.events, isCleanCall e = false) ∧
    (∃ k, k ≤ chals.length ∧ p.pushed = (chals.take k).map (cleanEntry mode proc certEnv) ∧
      (p.events.filterMap fun e => match e with | .post d => some d | _ => none) =
        (chals.take k).map (mkChallengeData mode proc certEnv)) ∧
    (p.ok = false → r.1 = p.events ∧ r.2.1 = false) ∧
    (p.ok = true → pollOk = false → r.1 = p.events ++ [AuthEvent.poll] ∧ r.2.1 = false) ∧
    (p.ok = true → pollOk = true →
      ∃ rans cleanRans : List (List (Hook × Exit)),
        rans.length = chals.length ∧ (∀ ran ∈ rans, noHard ran = true) ∧
        cleanRans.length ≤ chals.length ∧ (1 ≤ chals.length → 1 ≤ cleanRans.length) ∧
        (r.2.1 = true → cleanRans.length = chals.length) ∧
        r.1 = okEvents mode proc certEnv chals rans ++ AuthEvent.poll ::
          cleanEvents (chals.map (cleanEntry mode proc certEnv)) cleanRans) := by
  intro p r
  refine ⟨challengePhase_events_not_clean mode proc certEnv hooks chals [] ex, ?_, ?_, ?_, ?_⟩
  · obtain ⟨k, hk, hp, he⟩ := challengePhase_pushed mode proc certEnv hooks chals [] ex
    exact ⟨k, hk, by simpa using hp, he⟩
  · intro hok
    simp only [r, authFragment]
    rw [show (challengePhase mode proc certEnv hooks chals [] ex).ok = false from hok]
    simp [p]
  · intro hok hpoll
    simp only [r, authFragment]
    rw [show (challengePhase mode proc certEnv hooks chals [] ex).ok = true from hok, hpoll]
    simp [p]
  · intro hok hpoll
    obtain ⟨hp, rans, hlen, hno, hev⟩ := challengePhase_ok mode proc certEnv hooks chals [] ex hok
    simp only [List.nil_append] at hp
    obtain ⟨crans, hcl, hcok, hc1, hcev⟩ := cleanPhase_events hooks
      (challengePhase mode proc certEnv hooks chals [] ex).pushed
      (challengePhase mode proc certEnv hooks chals [] ex).exits
    rw [hp] at hcl hcok hc1 hcev
    simp only [List.length_map] at hcl hcok hc1
    refine ⟨rans, crans, hlen, hno, hcl, hc1, ?_, ?_⟩
    · intro hr
      apply hcok
      simp only [r, authFragment] at hr
      rw [show (challengePhase mode proc certEnv hooks chals [] ex).ok = true from hok, hpoll] at hr
      simp only [if_true] at hr
      rw [hp] at hr
      exact hr
    · simp only [r, authFragment]
      rw [show (challengePhase mode proc certEnv hooks chals [] ex).ok = true from hok, hpoll]
      simp only [if_true]
      rw [hev, hp, hcev]

/-! ## Template variables (clause C10.2) -/

/-- Given the table of serde field names of the three hook data structures (tabulated from the
compiled code), if the decidable check passes then every variable the man page documents for a hook
type is a member of the structure serialised for that type. -/
theorem documented_vars_provided (table : List (String × List String))
    (h : coversDocumented table = true) :
    ∀ ty v, v ∈ documentedVars ty → v ∈ membersOf table (dataStruct ty) := by
  intro ty v hv
  simp only [coversDocumented, List.all_eq_true] at h
  have := h ty (by cases ty <;> decide) v hv
  simpa using this

/-- The field names read from `hooks.rs:50-84` pass the check. -/
example : coversDocumented providedVars = true := by decide

/-- The check is not vacuous: dropping `raw_proof` from `ChallengeHookData` fails it. -/
example : coversDocumented
    [("PostOperationHookData",
        ["identifiers", "key_type", "status", "is_success", "certificate_path", "private_key_path",
         "env"]),
     ("ChallengeHookData",
        ["identifier", "identifier_tls_alpn", "challenge", "file_name", "proof", "is_clean_hook",
         "env"]),
     ("FileStorageHookData", ["file_name", "file_directory", "file_path", "env"])] = false := by
  decide

/-! ## The judge accepts the model (the `Spec` predicates are satisfiable and tied to the model) -/

/-- With children that can be spawned, fed and awaited, the observed log of a `call` of the model
satisfies `Spec.C10.holds`. -/
theorem model_satisfies_holds (hooks : List Hook) (ty : HookType) (ex : List Exit)
    (hobs : ∀ p ∈ (call hooks ty ex).1, Exit.observable p.2 = true) :
    holds hooks ty (obsOf (call hooks ty ex).1) (call hooks ty ex).2.1 = true := by
  unfold holds
  induction hooks generalizing ex with
  | nil => rfl
  | cons h hs ih =>
    cases ht : h.hasType ty with
    | false =>
      rw [call_cons_skip ht] at hobs ⊢
      simp only [List.filter_cons, ht, Bool.false_eq_true, if_false]
      exact ih ex hobs
    | true =>
      simp only [List.filter_cons, ht, if_true]
      cases hh : (ex.headD Exit.ok).hard h.allowFailure with
      | true =>
        rw [call_cons_hard ht hh] at hobs ⊢
        have ho := hobs (h, ex.headD Exit.ok) (List.mem_cons_self ..)
        simp only [obsOf, List.map_cons, List.map_nil, holdsAux, decide_true, Bool.true_and]
        have : obsHard h (Exit.code (ex.headD Exit.ok)) = true := by
          generalize ex.headD Exit.ok = e at hh ho
          cases e <;> simp_all [Exit.hard, Exit.observable, obsHard, Exit.code]
        simp only [this, if_true]
        rfl
      | false =>
        rw [call_cons_soft ht hh] at hobs ⊢
        have ho := hobs (h, ex.headD Exit.ok) (List.mem_cons_self ..)
        simp only [obsOf, List.map_cons, holdsAux, decide_true, Bool.true_and]
        have : obsHard h (Exit.code (ex.headD Exit.ok)) = false := by
          generalize ex.headD Exit.ok = e at hh ho
          cases e <;> simp_all [Exit.hard, Exit.observable, obsHard, Exit.code]
        simp only [this, Bool.false_eq_true, if_false]
        exact ih ex.tail (fun p hp => hobs p (List.mem_cons_of_mem _ hp))

/-- The repaired model's child environments satisfy `Spec.C10.envHolds` for any keys of interest. -/
theorem model_satisfies_envHolds (proc global owner ident : Env) (keys : List Key) :
    envHolds proc global owner ident (challengeChildEnv .repaired proc global owner ident) keys = true ∧
    envHolds proc global owner [] (postOpChildEnv .repaired proc global owner) keys = true ∧
    envHolds proc global owner [] (certFileChildEnv .repaired proc global owner) keys = true ∧
    envHolds proc global owner [] (accountFileChildEnv .repaired .repaired proc global owner) keys =
      true := by
  simp only [envHolds, List.all_eq_true, beq_iff_eq]
  exact ⟨fun k _ => (env_precedence proc global owner ident k).1,
    fun k _ => (env_precedence proc global owner ident k).2.1,
    fun k _ => (env_precedence proc global owner ident k).2.2,
    fun k _ => env_precedence_account proc global owner k⟩

/-- `expectedChildEnv` (what the harness compares observed child environments with) is exactly what
the repaired model's child sees, for every kind and every list of keys. -/
theorem model_matches_expectedChildEnv (kind : EnvKind) (proc global owner ident : Env)
    (keys : List Key) :
    expectedChildEnv kind proc global owner ident keys =
      keys.map fun k => (k, lookup (modelChildEnv kind proc global owner ident) k) := by
  unfold expectedChildEnv
  apply List.map_congr_left
  intro k _
  cases kind
  · simp only [modelChildEnv, (env_precedence proc global owner ident k).1]
  · simp only [modelChildEnv, (env_precedence proc global owner ident k).2.1]
  · simp only [modelChildEnv, (env_precedence proc global owner ident k).2.2]
  · simp only [modelChildEnv, env_precedence_account proc global owner k]

/-! ## Non-vacuity: concrete inputs -/

section Examples

private def hk (s : String) (t : List HookType) (a : Bool := false) : Hook := ⟨s.toList, t, a⟩
private def exHooks : List Hook :=
  [hk "a" [.postOperation], hk "b" [.filePreCreate, .postOperation] true,
   hk "c" [.challengeHttp01, .challengeHttp01Clean, .postOperation]]
private def exGroups : List Group :=
  [⟨"g".toList, ["b".toList, "g2".toList]⟩, ⟨"g2".toList, ["c".toList, "a".toList]⟩,
   ⟨"loop".toList, ["a".toList, "loop2".toList]⟩, ⟨"loop2".toList, ["loop".toList]⟩,
   ⟨"a".toList, ["loop".toList]⟩]

/-- Nested groups are expanded in place; the group called `a` is shadowed by the hook `a`. -/
example : expandAll exHooks exGroups ["g".toList, "a".toList] =
    .ok [hk "b" [.filePreCreate, .postOperation] true,
         hk "c" [.challengeHttp01, .challengeHttp01Clean, .postOperation],
         hk "a" [.postOperation], hk "a" [.postOperation]] := by rfl
example : expandAll exHooks exGroups ["a".toList, "loop".toList] = .error (.cycle "loop".toList) := by
  rfl
example : expandAll exHooks exGroups ["zz".toList] = .error (.notFound "zz".toList) := by rfl
/-- The hypotheses of `expand_rejects_cycles` are satisfiable. -/
example : Star exHooks exGroups "loop".toList "loop2".toList ∧
    Plus exHooks exGroups "loop2".toList "loop2".toList := by
  have s1 : Step exHooks exGroups "loop".toList "loop2".toList :=
    ⟨by decide, ⟨"loop".toList, ["a".toList, "loop2".toList]⟩, by decide, by decide⟩
  have s2 : Step exHooks exGroups "loop2".toList "loop".toList :=
    ⟨by decide, ⟨"loop2".toList, ["loop".toList]⟩, by decide, by decide⟩
  exact ⟨.head s1 (.refl _), "loop".toList, s2, .head s1 (.refl _)⟩

/-- `allow_failure` continues, a plain failure stops; the unconsumed exit is handed back. -/
example : call exHooks .postOperation [.ok, .fail 2, .fail 3, .ok] =
    ([(hk "a" [.postOperation], .ok), (hk "b" [.filePreCreate, .postOperation] true, .fail 2),
      (hk "c" [.challengeHttp01, .challengeHttp01Clean, .postOperation], .fail 3)], false, [.ok]) := by
  decide
example : callTrace exHooks .postOperation [.ok, .signal, .stdinError] =
    [.start "a".toList, .finish "a".toList .ok, .start "b".toList, .finish "b".toList .signal,
     .start "c".toList] := by decide
example : holds exHooks .postOperation
    [⟨"a".toList, some 0⟩, ⟨"b".toList, some 2⟩, ⟨"c".toList, some 3⟩] false = true := by decide
/-- The judge rejects a skipped hook, a wrong order, a continuation after a hard failure. -/
example : holds exHooks .postOperation [⟨"a".toList, some 0⟩, ⟨"c".toList, some 0⟩] true = false := by
  decide
example : holds exHooks .postOperation
    [⟨"b".toList, some 0⟩, ⟨"a".toList, some 0⟩, ⟨"c".toList, some 0⟩] true = false := by decide
example : holds exHooks .postOperation
    [⟨"a".toList, some 1⟩, ⟨"b".toList, some 0⟩, ⟨"c".toList, some 0⟩] true = false := by decide

example : splitHooks exHooks =
    ([hk "b" [.filePreCreate, .postOperation] true], exHooks) := by decide

/-- `expectedChildEnv` on witness f and on the account witness. -/
example : expectedChildEnv .challenge [(['K'], ['d'])] [] [(['K'], ['c'])] [] [['K'], ['L']] =
    [(['K'], some ['c']), (['L'], none)] := by decide
example : expectedChildEnv .accountFile [] [(['K'], ['g'])] [] [(['Z'], ['i'])] [['K'], ['Z']] =
    [(['K'], some ['g']), (['Z'], none)] := by decide

private def exChal (id : String) (postOk : Bool) : ChallengeIn :=
  { kind := .http01, identifier := id.toList, identifierTlsAlpn := [], fileName := "tok".toList,
    proof := "prf".toList, rawProof := [], identEnv := [("I".toList, id.toList)], postOk := postOk }

/-- Two validated challenges: each is followed, after the poll, by its clean hook with the same data
but `is_clean_hook`. -/
example :
    let d1 := mkChallengeData .repaired [] [] (exChal "x" true)
    let d2 := mkChallengeData .repaired [] [] (exChal "y" true)
    let c := hk "c" [.challengeHttp01, .challengeHttp01Clean, .postOperation]
    authFragment .repaired [] [] exHooks [exChal "x" true, exChal "y" true] true [] =
      ([.hooks .challengeHttp01 d1 [(c, .ok)], .post d1, .hooks .challengeHttp01 d2 [(c, .ok)],
        .post d2, .poll, .hooks .challengeHttp01Clean (markClean d1) [(c, .ok)],
        .hooks .challengeHttp01Clean (markClean d2) [(c, .ok)]], true, []) := by decide

/-- The second POST fails: the first challenge's proof is never cleaned. -/
example :
    let d1 := mkChallengeData .repaired [] [] (exChal "x" true)
    let d2 := mkChallengeData .repaired [] [] (exChal "y" false)
    let c := hk "c" [.challengeHttp01, .challengeHttp01Clean, .postOperation]
    authFragment .repaired [] [] exHooks [exChal "x" true, exChal "y" false] true [] =
      ([.hooks .challengeHttp01 d1 [(c, .ok)], .post d1, .hooks .challengeHttp01 d2 [(c, .ok)],
        .post d2], false, []) := by decide

end Examples

end AcmedVerif.Props.C10

/-! ## Tie to the compiled code: the serde member names of the three hook data structures

`AcmedVerif.Gen.hookDataMembers` is regenerated on every run by `py/gen.py: gen_tables()` from the
COMPILED crate (probe op `tables` serialises one value of each structure with serde_json and lists
the keys).  The probe labels the three rows by the hook family; `compiledStructs` gives them the
names of the Rust structures (`Hooks.dataStruct`).  Removing or renaming a member that the man page
documents in `hooks.rs` makes `documented_vars_in_compiled_structs` fail to check. -/

namespace AcmedVerif.Props.C10
open AcmedVerif.Hooks

/-- Row label of `Gen.hookDataMembers` → Rust structure name (a row already labelled with a structure
name is kept). -/
def structOfLabel (s : String) : String :=
  if s == "post-operation" then "PostOperationHookData"
  else if s == "challenge" then "ChallengeHookData"
  else if s == "file" then "FileStorageHookData"
  else s

def compiledStructs : List (String × List String) :=
  AcmedVerif.Gen.hookDataMembers.map fun p => (structOfLabel p.1, p.2)

theorem documented_vars_in_compiled_structs : Hooks.coversDocumented compiledStructs = true := by
  decide

/-- Every variable the man page documents for a hook type is a member of the structure the compiled
code serialises into the template context for that type. -/
theorem documented_vars_compiled :
    ∀ ty v, v ∈ documentedVars ty → v ∈ membersOf compiledStructs (dataStruct ty) :=
  documented_vars_provided compiledStructs documented_vars_in_compiled_structs

end AcmedVerif.Props.C10
