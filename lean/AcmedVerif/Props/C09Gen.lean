/-
C09 / C19 — tie of the limiter model's sleep bounds to the shipped constants
(`acmed/src/main.rs` MIN_/MAX_RATE_LIMIT_SLEEP_MILISEC, regenerated into `Gen/Consts.lean` on every run;
used at `acmed/src/endpoint.rs:95-99`).
-/
import AcmedVerif.Model.Limiter
import AcmedVerif.Gen.Consts

namespace AcmedVerif.Props.C09Gen
open AcmedVerif

/-- The bounds `Model/Limiter.sleepMs` clamps with are the constants the code is compiled with. -/
theorem limiter_sleep_bounds_are_shipped :
    Limiter.minSleepMs = Gen.MIN_RATE_LIMIT_SLEEP_MILISEC ∧
    Limiter.maxSleepMs = Gen.MAX_RATE_LIMIT_SLEEP_MILISEC := by decide

end AcmedVerif.Props.C09Gen
