/-
C18 — "An https endpoint is used only if its certificate chain validates for the URL's host name
against the system trust store extended by exactly the root certificates given with --root-cert, in
the endpoint's root_certificates and in the global root_certificates; otherwise the attempt fails and
no ACME request, hence no signature by the account key, reaches that server."

PARTIAL CLAIM.  These theorems are about acmed's wiring (`Model/Trust.lean`).  X.509 path validation,
the host-name check and "no application data before the handshake completes" are native-tls/OpenSSL's:
they are the uninterpreted parameter `validates` and the assumption built into `Trust.transfer`
(modelled, not verified; exercised by the harness's TLS grid).  `no_danger_calls` ties the assumption
"the library's validation is switched on" to a scan of the source.
-/
import AcmedVerif.Model.Trust
import AcmedVerif.Lemmas.Trust
import AcmedVerif.Spec.C18
import AcmedVerif.Gen.Trust

namespace AcmedVerif.Props.C18
open AcmedVerif.Trust

/-- **C18.1, "exactly the root certificates given".** The list handed to every client is the
concatenation command line ++ endpoint ++ global (an absent key contributes nothing): same order,
same multiplicity, and a file is listed iff one of the three sources names it. -/
theorem roots_exact (cli ep gl : List Path) (es gs : Bool) :
    rootList cli ep gl es gs = cli ++ (if es then ep else []) ++ (if gs then gl else []) ∧
    (∀ p, p ∈ rootList cli ep gl es gs ↔
      p ∈ cli ∨ (es = true ∧ p ∈ ep) ∨ (gs = true ∧ p ∈ gl)) ∧
    (∀ p, (rootList cli ep gl es gs).count p =
      cli.count p + (if es then ep.count p else 0) + (if gs then gl.count p else 0)) := by
  refine ⟨rootList_eq cli ep gl es gs, ?_, ?_⟩
  · intro p
    rw [rootList_eq]
    cases es <;> cases gs <;> simp
  · intro p
    rw [rootList_eq]
    cases es <;> cases gs <;> simp [List.count_append, Nat.add_assoc]

/-- … and the store of a client that could be built is the system store plus exactly those files
(`fs` = what the file system holds at each path, any function). -/
theorem store_exact (fs : Path → RootFile) (cli ep gl : List Path) (es gs : Bool) (st : Store)
    (h : getClient (withFs fs (rootList cli ep gl es gs)) = some st) :
    st = { builtin := true, added := rootList cli ep gl es gs } ∧
    ∀ p ∈ rootList cli ep gl es gs, fs p = RootFile.readablePem := by
  have := (getClient_some_iff _ st).1 h
  rw [withFs_map_fst] at this
  refine ⟨this.2, ?_⟩
  intro p hp
  exact this.1 (p, fs p) (by simp only [withFs, List.mem_map]; exact ⟨p, hp, rfl⟩)

section
variable {Chain Host : Type} (validates : Chain → Host → Store → Bool) (maxRounds : Nat)

/-- **C18.2 (bad root file).** If any listed root file is unreadable or malformed then, for every
sequence of attempts, every sequence of calls in them and whatever the network presents: nothing is
transmitted (not even a handshake is started: every event is `clientFailed`), and every attempt
that makes at least one call fails. -/
theorem bad_root_file_no_request (roots : List (Path × RootFile))
    (hbad : ∃ r ∈ roots, r.2 ≠ RootFile.readablePem) (as : List (List (Call Chain Host))) :
    sentCount (attempts validates maxRounds roots as) = 0 ∧
    signedSentCount (attempts validates maxRounds roots as) = 0 ∧
    (∀ e ∈ attempts validates maxRounds roots as, e = Ev.clientFailed) ∧
    (∀ a ∈ as, a ≠ [] → (attempt validates maxRounds roots a).2 = false) := by
  have hs := getClient_none_of_bad roots hbad
  have h0 := (attempts_noClient_silent validates maxRounds roots hs as).sentCount
  refine ⟨h0, ?_, ?_, ?_⟩
  · have := signedSent_le_sent (attempts validates maxRounds roots as)
    omega
  · induction as with
    | nil => intro e he; simp [attempts] at he
    | cons a rest ih =>
      intro e he
      simp only [attempts, List.mem_append] at he
      rcases he with he | he
      · rw [attempt_noClient validates maxRounds roots hs a] at he
        cases a with
        | nil => simp at he
        | cons c cs => simpa using he
      · exact ih ((attempts_noClient_silent validates maxRounds roots hs rest).sentCount) e he
  · intro a _ hne
    rw [attempt_noClient validates maxRounds roots hs a]
    cases a with
    | nil => exact absurd rfl hne
    | cons c cs => rfl

/-- **C18.1 (wiring).** In every trace of any number of attempts, every transmitted request is
immediately preceded — same exchange, same connection — by a successful handshake, and that
connection's chain validates for its host against system ∪ (command line ++ endpoint ++ global). -/
theorem request_implies_validated (fs : Path → RootFile) (cli ep gl : List Path) (es gs : Bool)
    (as : List (List (Call Chain Host)))
    (pre post : List (Ev Chain Host)) (c : Conn Chain Host) (s : Bool)
    (h : attempts validates maxRounds (withFs fs (rootList cli ep gl es gs)) as =
      pre ++ Ev.requestSent c s :: post) :
    (∃ pre', pre = pre' ++ [Ev.handshakeOk c]) ∧
    validates c.chain c.host { builtin := true, added := rootList cli ep gl es gs } = true := by
  have hb : Blocks (Valid validates { builtin := true, added := rootList cli ep gl es gs })
      (attempts validates maxRounds (withFs fs (rootList cli ep gl es gs)) as) := by
    cases hs : getClient (withFs fs (rootList cli ep gl es gs)) with
    | none => exact (attempts_noClient_silent validates maxRounds _ hs as).blocks
    | some st =>
      have := (store_exact fs cli ep gl es gs st hs).1
      subst this
      exact attempts_blocks validates maxRounds _ _ hs as
  obtain ⟨pre', hp, hv⟩ := hb.sent_preceded pre post c s h
  exact ⟨⟨pre', hp⟩, hv⟩

/-- **C18.2 (no signature without trust), per connection.** A connection whose chain does not
validate against system ∪ configured roots never carries a request, signed or not, in any trace of
any number of attempts — whatever else happens on other connections. -/
theorem no_signature_without_trust (fs : Path → RootFile) (cli ep gl : List Path) (es gs : Bool)
    (as : List (List (Call Chain Host))) (c : Conn Chain Host)
    (hbad : validates c.chain c.host { builtin := true, added := rootList cli ep gl es gs } = false)
    (s : Bool) :
    Ev.requestSent c s ∉ attempts validates maxRounds (withFs fs (rootList cli ep gl es gs)) as := by
  intro hmem
  obtain ⟨pre, post, h⟩ := List.append_of_mem hmem
  have := (request_implies_validated validates maxRounds fs cli ep gl es gs as pre post c s h).2
  rw [hbad] at this
  cases this

end

section
variable {Chain Host : Type} (validates : Chain → Host → Store → Bool) (maxRounds : Nat)

/-- **C18.2 (no signature without trust), whole endpoint.** If none of the connections the attempts
may open presents a chain that validates against system ∪ configured roots (the endpoint is not
trusted), then in any trace of any number of attempts NO request at all — signed or unsigned — is
transmitted, and every attempt that makes at least one call fails.  (Root files may be good or
bad: the bad case is `bad_root_file_no_request`.) -/
theorem untrusted_endpoint_no_request (fs : Path → RootFile) (cli ep gl : List Path) (es gs : Bool)
    (as : List (List (Call Chain Host)))
    (hbad : ∀ a ∈ as, ∀ cl ∈ a, ∀ c ∈ cl.conns,
      validates c.chain c.host { builtin := true, added := rootList cli ep gl es gs } = false) :
    sentCount (attempts validates maxRounds (withFs fs (rootList cli ep gl es gs)) as) = 0 ∧
    signedSentCount (attempts validates maxRounds (withFs fs (rootList cli ep gl es gs)) as) = 0 ∧
    (∀ a ∈ as, a ≠ [] →
      (attempt validates maxRounds (withFs fs (rootList cli ep gl es gs)) a).2 = false) := by
  cases hs : getClient (withFs fs (rootList cli ep gl es gs)) with
  | none =>
    have hb : ∃ r ∈ withFs fs (rootList cli ep gl es gs), r.2 ≠ RootFile.readablePem := by
      apply Classical.byContradiction
      intro hn
      have hall : ∀ r ∈ withFs fs (rootList cli ep gl es gs), r.2 = RootFile.readablePem := by
        intro r hr
        apply Classical.byContradiction
        intro hne
        exact hn ⟨r, hr, hne⟩
      have := (getClient_some_iff _ _).2 ⟨hall, rfl⟩
      rw [hs] at this
      cases this
    have := bad_root_file_no_request validates maxRounds _ hb as
    exact ⟨this.1, this.2.1, this.2.2.2⟩
  | some st =>
    have hst := (store_exact fs cli ep gl es gs st hs).1
    subst hst
    have hsil : Silent (attempts validates maxRounds (withFs fs (rootList cli ep gl es gs)) as) := by
      induction as with
      | nil => intro e he; simp [attempts] at he
      | cons a rest ih =>
        intro e he
        simp only [attempts, List.mem_append] at he
        rcases he with he | he
        · exact (attempt_invalid validates maxRounds _ _ hs a
            (hbad a List.mem_cons_self)).1 e he
        · exact ih (fun a' ha' => hbad a' (List.mem_cons_of_mem _ ha')) e he
    refine ⟨hsil.sentCount, ?_, ?_⟩
    · have := signedSent_le_sent
        (attempts validates maxRounds (withFs fs (rootList cli ep gl es gs)) as)
      have := hsil.sentCount
      omega
    · intro a ha hne
      exact (attempt_invalid validates maxRounds _ _ hs a (hbad a ha)).2 hne

end

/-- The library's validation is never switched off and the built-in (system) roots are kept: the
source scan (regenerated on every run) finds no `danger_accept_invalid_certs`,
`danger_accept_invalid_hostnames` or `tls_built_in_root_certs(false)` call. -/
theorem no_danger_calls : Gen.dangerCalls = [] ∧ Gen.builtinRootsDisabled = false := by
  decide

/-- acmed/src adds trust anchors (or touches the TLS back end at all) in at most ONE place — the loop over
the endpoint's configured root files that `Model/Trust.client` transliterates (today in
`http::get_client`; the name is not part of the claim) — source scan, regenerated on every run. -/
theorem roots_added_in_one_place : Gen.rootAdders.length ≤ 1 := by
  decide

/-- The model's prediction for a grid scenario always satisfies the judge: with the scenario's
ground truth as `validates`, whatever the root files and the (non-empty) call sequence. -/
theorem model_satisfies_spec (chainValid : Bool) (files : List (Path × RootFile))
    (calls : List (Call Unit Unit)) (hne : calls ≠ []) :
    Spec.C18.holds
      { chainValid := chainValid, rootFilesOk := rootFilesOk files,
        requestsSeen := (predict chainValid files calls).1,
        signedRequestsSeen := (predict chainValid files calls).2.1,
        attemptOk := (predict chainValid files calls).2.2 } = true := by
  unfold Spec.C18.holds
  split
  next hcond =>
    simp only [predict]
    have key : Silent (attempt (fun _ _ _ => chainValid) 10 files calls).1 ∧
        (attempt (fun (_ _ : Unit) (_ : Store) => chainValid) 10 files calls).2 = false := by
      cases hs : getClient files with
      | none =>
        rw [attempt_noClient _ 10 files hs calls]
        cases calls with
        | nil => exact absurd rfl hne
        | cons c cs =>
          refine ⟨?_, rfl⟩
          intro e he
          simp only [List.mem_singleton] at he
          subst he
          exact ⟨rfl, by intro c'; simp⟩
      | some st =>
        have hok : rootFilesOk files = true := by
          rw [← getClient_isSome_iff, hs]; rfl
        have hcv : chainValid = false := by
          simp only [hok, Bool.not_true, Bool.or_false, Bool.not_eq_true'] at hcond
          exact hcond
        have := attempt_invalid (fun (_ _ : Unit) (_ : Store) => chainValid) 10 files st hs calls
          (by intro _ _ _ _; exact hcv)
        exact ⟨this.1, this.2 hne⟩
    have h0 := key.1.sentCount
    have h1 := signedSent_le_sent (attempt (fun (_ _ : Unit) (_ : Store) => chainValid) 10 files calls).1
    have h2 : signedSentCount (attempt (fun (_ _ : Unit) (_ : Store) => chainValid) 10 files calls).1 = 0 := by
      omega
    simp [h0, h2, key.2]
  next => rfl

/-! ## Non-vacuity -/

private def c0 : Conn Unit Unit := ⟨(), (), true⟩
private def r0 : Round Unit Unit := ⟨true, c0, true, c0, false⟩

/-- Trusted chain, good files: requests do flow (3 transfers, 1 signed), the attempt succeeds. -/
example : predict true [("/etc/ca.pem", .readablePem)] [.get c0, .post [r0]] = (3, 1, true) := by
  decide

/-- Untrusted chain: nothing flows. -/
example : predict false [("/etc/ca.pem", .readablePem)] [.get c0, .post [r0]] = (0, 0, false) := by
  decide

/-- A bad file among good ones: nothing flows although the chain would validate. -/
example : predict true [("/a.pem", .readablePem), ("/b.pem", .malformed)] [.get c0, .post [r0]]
    = (0, 0, false) := by decide

/-- `hbad` of `bad_root_file_no_request` is satisfiable. -/
example : ∃ r ∈ [(("/a.pem" : Path), RootFile.readablePem), ("/b.pem", .unreadable)],
    r.2 ≠ RootFile.readablePem := ⟨("/b.pem", .unreadable), by simp, by simp⟩

/-- What C18 does NOT say (and the code does not guarantee): with a nonce cached from an earlier,
trusted exchange, `post` calls the data builder BEFORE it connects, so a JWS is built locally even
when the handshake then fails; it is never transmitted. -/
example :
    (attempt (fun (_ _ : Unit) (_ : Store) => false) 10 [] [.post [⟨false, c0, true, c0, false⟩]]).1
      = [.clientBuilt, .jwsBuilt, .handshakeFailed c0] := by decide

/-- The three sources really are concatenated in that order, duplicates kept. -/
example : rootList ["/cli.pem"] ["/ep.pem", "/cli.pem"] ["/gl.pem"] true true
    = ["/cli.pem", "/ep.pem", "/cli.pem", "/gl.pem"] := by decide
example : rootList ["/cli.pem"] ["/ep.pem"] ["/gl.pem"] false true = ["/cli.pem", "/gl.pem"] := by
  decide

end AcmedVerif.Props.C18
