/-
C14, clause "glob expansion relative to the including file" (anchor: acmed/src/config.rs `get_cnf_path`):
theorems about Model/Glob.lean (the `glob` crate's `Pattern` and directory walk, `get_cnf_path`).

For ALL inputs (any file-system view, any fuel, any names):
* `escape_matches_only_itself`      `Pattern::new(Pattern::escape(s))` never fails and matches `s` only;
* `relative_include_stays_in_dir`   every path a relative include resolves to has the including file's
                                    directory as its literal prefix, whatever characters that directory has
                                    in its name (`_listing`: for every well-formed finite listing; the judge
                                    `Spec.C14Glob.allInside` accepts the model's answer);
* `relative_include_walk`           the result IS the walk that first follows the escaped components of the
                                    directory and then the include's own component patterns.
By concrete witnesses (`decide`):
* `old_pattern_escapes_dir`, `old_pattern_loses_include`: the construction before 3e3e4c9 (no escape);
* `resolve_nodup_full_is_false`: two `**` groups return the same path twice (as the real crate does); that each
  FILE is read once is `read_cnf`'s loaded-set (Props/C14 `each_file_once`), not the resolver's;
* `escaped_dir_needs_listable_parent`: observation outside the property - the escaped directory component is
  matched against a LISTING of the parent; a parent that can be searched but not listed loses the include.
* `relative_include_is_walk_from_dir`  the result is empty or is the walk started at the directory itself;
* `resolve_fuel_irrelevant`         the fuel of the model never changes an answer.
PARTIAL: "no path twice" is proved for patterns without a `**` component only (`glob_nodup_partial`,
`resolve_nodup_partial`); "the result depends on the file system only through what is inside the directory"
is proved up to reachability of the directory (`relative_include_depends_on_dir_only_partial`,
`relative_include_ignores_siblings_partial`).
-/
import AcmedVerif.Lemmas.GlobCnf
import AcmedVerif.Lemmas.GlobTree
import AcmedVerif.Lemmas.GlobIndep
import AcmedVerif.Spec.C14Glob

namespace AcmedVerif.Props.C14Glob
open AcmedVerif.Glob
open AcmedVerif.Spec.C14Glob (inDir allInside)

/-- `Pattern::escape`: "The resulting string will, when compiled into a `Pattern`, match the input string and
nothing else" - for every string `s` (separators included) and every text `t`. -/
theorem escape_matches_only_itself (s t : Str) :
    ∃ p, Pattern.new (escape s) = .ok p ∧ (p.matches t = true ↔ t = s) :=
  ⟨escPattern s, new_escape s, escPattern_matches s t⟩

/-- The same on the token level: the escaped string never fails to tokenise. -/
theorem escape_tokens (s t : Str) :
    ∃ ts, tokenize (escape s) = .ok ts ∧ (matchesToks ts t = true ↔ t = s) :=
  ⟨s.map escTok, tokenize_escape s, by simpa [Pattern.matches, escPattern] using escPattern_matches s t⟩

/-- A relative include of a file whose canonical directory has the components `cs` (any proper names: not
empty, no separator, not `.` or `..` - every character else, metacharacters included): whatever the file system
answers (entries with proper names), every returned path is the directory or continues it after a separator. -/
theorem relative_include_stays_in_dir (fs : FsView) (hwf : fs.WF) (cs : List Str)
    (hv : ∀ c ∈ cs, validName c = true) (file : Str) (hrel : file.head? ≠ some '/') (fuel : Nat) (ps : List Str)
    (h : resolve fs fuel (absDir cs) file = .paths ps) :
    ∀ p ∈ ps, inDir (absDir cs) p = true := by
  obtain ⟨fpats, rd, hlit, hrun⟩ := resolve_run fs fuel cs hv file hrel ps h
  intro p hp
  rw [inDir_iff]
  refine run_inside fs cs fpats hwf hv hlit rd fuel _ [] ps ?_ (by simp) hrun p hp
  intro it hit
  have := fillTodo_onTheWay fs cs fpats hwf hv hlit cs.length 0 (fromPath fs ['/']) (by omega)
    (by simp [fromPath, absDir]) it
  simpa using this hit

/-- For every finite listing a real directory tree can give: the part of the judge that says "inside the
including file's directory" accepts what the model returns. -/
theorem relative_include_stays_in_dir_listing (L : Listing) (hL : L.wf = true) (cs : List Str)
    (hv : ∀ c ∈ cs, validName c = true) (file : Str) (hrel : file.head? ≠ some '/') (fuel : Nat) (ps : List Str)
    (h : resolve L.view fuel (absDir cs) file = .paths ps) :
    allInside (absDir cs) ps = true := by
  simp only [allInside, List.all_eq_true]
  exact relative_include_stays_in_dir L.view (view_wf L hL) cs hv file hrel fuel ps h

/-- What a relative include resolves to is the walk that follows the escaped components of the directory -
each matched by the entry with exactly that name, `escape_matches_only_itself` - and then the include's own
component patterns `fpats` (none of whose literal components starts with a separator). -/
theorem relative_include_walk (fs : FsView) (cs : List Str) (hv : ∀ c ∈ cs, validName c = true) (file : Str)
    (hrel : file.head? ≠ some '/') (fuel : Nat) (ps : List Str)
    (h : resolve fs fuel (absDir cs) file = .paths ps) :
    ∃ fpats rd, Lit fpats ∧
      run fs rd fuel (fillTodo fs (cs.map escPattern ++ fpats) (fromPath fs ['/'])) [] = some ps :=
  resolve_run fs fuel cs hv file hrel ps h

/-- What a relative include resolves to is nothing (the directory is not reached: a component of it cannot be
listed or found), or exactly what the walk started AT the directory `dir`, with the include's own component
patterns, returns (`finalItems`: the `todo` stack on arrival at `dir`; `Outs`: the depth-first reading of the
stack machine).  `LastTypeOk`: the entry for `dir` in its parent says "directory" exactly when `metadata(dir)`
does (true of a real file system). -/
theorem relative_include_is_walk_from_dir (fs : FsView) (hwf : fs.WF) (cs : List Str)
    (hv : ∀ c ∈ cs, validName c = true) (file : Str) (hrel : file.head? ≠ some '/') (ht : LastTypeOk fs cs)
    (fuel : Nat) (ps : List Str) (h : resolve fs fuel (absDir cs) file = .paths ps) :
    ∃ fpats rd, Lit fpats ∧ (ps = [] ∨ Outs fs rd (finalItems fs cs fpats) ps) :=
  resolve_viaDir fs hwf cs hv file hrel ht fuel ps h

/-- PARTIAL: two file systems that answer alike for every path inside the including file's directory `dir` - and
may differ in everything else: the siblings of `dir`, of its ancestors, the rest of the world - resolve a
relative include to the same paths, in the same order, unless one of the results is empty.  What is missing
for the full statement ("equal whenever both get to `dir`"): a predicate saying that the walk reaches `dir`;
an empty result on one side only is the case where only the other side reaches it. -/
theorem relative_include_depends_on_dir_only_partial (fs1 fs2 : FsView) (hwf1 : fs1.WF) (hwf2 : fs2.WF)
    (cs : List Str) (hv : ∀ c ∈ cs, validName c = true) (file : Str) (hrel : file.head? ≠ some '/')
    (hag : AgreeIn fs1 fs2 (absDir cs)) (ht1 : LastTypeOk fs1 cs) (ht2 : LastTypeOk fs2 cs)
    (f1 f2 : Nat) (p1 p2 : List Str)
    (h1 : resolve fs1 f1 (absDir cs) file = .paths p1) (h2 : resolve fs2 f2 (absDir cs) file = .paths p2) :
    p1 = [] ∨ p2 = [] ∨ p1 = p2 :=
  resolve_agree fs1 fs2 hwf1 hwf2 cs hv file hrel hag ht1 ht2 f1 f2 p1 p2 h1 h2

/-- In particular: strip every directory outside `dir` of all entries that are not on the way to `dir` (no
sibling of `dir` or of any of its ancestors is left) - the answer does not change (non-vacuity of
`relative_include_depends_on_dir_only_partial`: the two views differ wherever there was a sibling). -/
theorem relative_include_ignores_siblings_partial (fs : FsView) (hwf : fs.WF) (cs : List Str)
    (hv : ∀ c ∈ cs, validName c = true) (file : Str) (hrel : file.head? ≠ some '/') (ht : LastTypeOk fs cs)
    (f1 f2 : Nat) (p1 p2 : List Str) (h1 : resolve fs f1 (absDir cs) file = .paths p1)
    (h2 : resolve (pruneOutside fs cs) f2 (absDir cs) file = .paths p2) : p1 = [] ∨ p2 = [] ∨ p1 = p2 :=
  resolve_agree fs (pruneOutside fs cs) hwf (pruneOutside_wf fs hwf cs) cs hv file hrel (pruneOutside_agree fs cs) ht
    (pruneOutside_lastTypeOk fs cs ht) f1 f2 p1 p2 h1 h2

/-- PARTIAL (the full statement is `resolve_nodup_full_is_false` below): over the class `nonRecursive` - no
component of the globbed pattern is `**` - `glob` returns no path twice, in whatever order the walk defines
(entries of a directory by ascending name, `..` and `.` first).  Missing for the full class: patterns with ONE
`**` group (true, not proved); with two groups it is false. -/
theorem glob_nodup_partial (fs : FsView) (hwf : fs.WF) (fuel : Nat) (pattern : Str) (ps : List Str)
    (hnr : nonRecursive pattern = true) (h : glob fs fuel pattern = .paths ps) : ps.Nodup :=
  glob_nodup fs hwf fuel pattern ps hnr h

/-- `get_cnf_path` returns no path twice when no component of the include (relative or absolute) is `**`. -/
theorem resolve_nodup_partial (fs : FsView) (hwf : fs.WF) (fuel : Nat) (dir file : Str) (ps : List Str)
    (hnr : nonRecursive (cnfPattern dir file) = true) (h : resolve fs fuel dir file = .paths ps) : ps.Nodup :=
  glob_nodup fs hwf fuel _ ps hnr h

/-- Fuel only decides whether the model's walk ends, never what it returns. -/
theorem resolve_fuel_irrelevant (fs : FsView) (f1 f2 : Nat) (dir file : Str) (p1 p2 : List Str)
    (h1 : resolve fs f1 dir file = .paths p1) (h2 : resolve fs f2 dir file = .paths p2) : p1 = p2 := by
  obtain ⟨pats1, hp1, hr1⟩ := glob_paths_run fs f1 _ p1 h1
  obtain ⟨pats2, hp2, hr2⟩ := glob_paths_run fs f2 _ p2 h2
  rw [hp1] at hp2
  simp at hp2; subst hp2
  exact run_fuel_irrelevant fs _ f1 f2 _ _ _ hr1 hr2

/-! ## Concrete witnesses -/

/-- Text of a literal. -/
def S (s : String) : Str := s.toList

/-- A readable, searchable directory. -/
def openDir (es : List (String × Kind)) : DirInfo := ⟨true, true, es.map fun e => (S e.1, e.2)⟩

/-- `/r/a*b/{main.toml,inc/x.toml}` next to `/r/aXb/inc/x.toml`. -/
def starTree : Listing :=
  [ ([], openDir [("r", .dir)]),
    ([S "r"], openDir [("a*b", .dir), ("aXb", .dir)]),
    ([S "r", S "a*b"], openDir [("main.toml", .file), ("inc", .dir)]),
    ([S "r", S "a*b", S "inc"], openDir [("x.toml", .file)]),
    ([S "r", S "aXb"], openDir [("inc", .dir)]),
    ([S "r", S "aXb", S "inc"], openDir [("x.toml", .file)]) ]

/-- `/r/conf[1]/{main.toml,inc/x.toml}`, with or without a sibling `/r/conf1/inc/x.toml`. -/
def bracketTree (sibling : Bool) : Listing :=
  [ ([], openDir [("r", .dir)]),
    ([S "r"], openDir ([("conf[1]", .dir)] ++ if sibling then [("conf1", .dir)] else [])),
    ([S "r", S "conf[1]"], openDir [("main.toml", .file), ("inc", .dir)]),
    ([S "r", S "conf[1]", S "inc"], openDir [("x.toml", .file)]),
    ([S "r", S "conf1"], openDir [("inc", .dir)]),
    ([S "r", S "conf1", S "inc"], openDir [("x.toml", .file)]) ]

/-- Before 3e3e4c9 (the directory is part of the pattern): the include of `/r/a*b/main.toml` also reads the file of
the sibling `/r/aXb`, a path outside the including file's directory; now it does not. -/
theorem old_pattern_escapes_dir :
    resolveOld starTree.view 100 (S "/r/a*b") (S "inc/x.toml")
        = .paths [S "/r/a*b/inc/x.toml", S "/r/aXb/inc/x.toml"] ∧
    inDir (S "/r/a*b") (S "/r/aXb/inc/x.toml") = false ∧
    Spec.C14Glob.holds starTree (S "/r/a*b") (S "inc/x.toml") [S "/r/a*b/inc/x.toml", S "/r/aXb/inc/x.toml"] = false ∧
    resolve starTree.view 100 (S "/r/a*b") (S "inc/x.toml") = .paths [S "/r/a*b/inc/x.toml"] ∧
    Spec.C14Glob.holds starTree (S "/r/a*b") (S "inc/x.toml") [S "/r/a*b/inc/x.toml"] = true := by
  decide

/-- Before 3e3e4c9: in `/r/conf[1]` the existing `inc/x.toml` is NOT returned (`[1]` is a class: the pattern
names `/r/conf1/…`; with such a sibling ITS file is returned instead); now it is. -/
theorem old_pattern_loses_include :
    resolveOld (bracketTree false).view 100 (S "/r/conf[1]") (S "inc/x.toml") = .paths [] ∧
    resolveOld (bracketTree true).view 100 (S "/r/conf[1]") (S "inc/x.toml") = .paths [S "/r/conf1/inc/x.toml"] ∧
    Spec.C14Glob.namesFile (bracketTree false) (S "/r/conf[1]") (S "inc/x.toml") = true ∧
    Spec.C14Glob.holds (bracketTree false) (S "/r/conf[1]") (S "inc/x.toml") [] = false ∧
    resolve (bracketTree false).view 100 (S "/r/conf[1]") (S "inc/x.toml") = .paths [S "/r/conf[1]/inc/x.toml"] ∧
    resolve (bracketTree true).view 100 (S "/r/conf[1]") (S "inc/x.toml") = .paths [S "/r/conf[1]/inc/x.toml"] := by
  decide

/-- `/d/x/x/y`. -/
def nestedTree : Listing :=
  [ ([], openDir [("d", .dir)]),
    ([S "d"], openDir [("x", .dir), ("main.toml", .file)]),
    ([S "d", S "x"], openDir [("x", .dir)]),
    ([S "d", S "x", S "x"], openDir [("y", .file)]) ]

/-- The FULL statement "the resolver never returns a path twice" is false of the code as it is (and of the real
crate: same answer on disk): two `**` groups reach `/d/x/x/y` by two routes. -/
theorem resolve_nodup_full_is_false :
    ¬ (∀ (fs : FsView), fs.WF → ∀ (cs : List Str), (∀ c ∈ cs, validName c = true) → ∀ (file : Str) (fuel : Nat)
        (ps : List Str), resolve fs fuel (absDir cs) file = .paths ps → ps.Nodup) := by
  intro h
  have hwf : nestedTree.view.WF := view_wf _ (by decide)
  have := h nestedTree.view hwf [S "d"] (by decide) (S "**/x/**/y") 40 [S "/d/x/x/y", S "/d/x/x/y"] (by decide)
  exact absurd this (by decide)

/-- `/p/{conf[1],conf1}/{main.toml,x.toml}`; `/p` can be searched, and listed or not. -/
def searchOnlyParent (canList : Bool) : Listing :=
  [ ([], openDir [("p", .dir)]),
    ([S "p"], ⟨canList, true, [(S "conf[1]", .dir), (S "conf1", .dir)]⟩),
    ([S "p", S "conf[1]"], openDir [("main.toml", .file), ("x.toml", .file)]),
    ([S "p", S "conf1"], openDir [("main.toml", .file), ("x.toml", .file)]) ]

/-- Observation outside the property (permissions are not in its quantifier).  `escape` turns `conf[1]` into
`conf[[]1[]]`, a component WITH metacharacters: glob lists the parent and matches its entries instead of asking
whether the entry exists.  A parent that can be searched but not listed therefore loses every relative include
of a file in `conf[1]` (an existing, literally named file is not returned), while the neighbour `conf1` under
the same parent keeps its includes. -/
theorem escaped_dir_needs_listable_parent :
    Spec.C14Glob.namesFile (searchOnlyParent false) (S "/p/conf[1]") (S "x.toml") = true ∧
    resolve (searchOnlyParent false).view 100 (S "/p/conf[1]") (S "x.toml") = .paths [] ∧
    resolve (searchOnlyParent true).view 100 (S "/p/conf[1]") (S "x.toml") = .paths [S "/p/conf[1]/x.toml"] ∧
    resolve (searchOnlyParent false).view 100 (S "/p/conf1") (S "x.toml") = .paths [S "/p/conf1/x.toml"] := by
  decide

/-! ## Non-vacuity -/

/-- The hypotheses of `relative_include_stays_in_dir_listing` hold of a tree with look-alike siblings and a glob
that finds something. -/
example : starTree.wf = true ∧ (∀ c ∈ [S "r", S "a*b"], validName c = true) ∧ (S "*/*.toml").head? ≠ some '/' ∧
    absDir [S "r", S "a*b"] = S "/r/a*b" ∧
    resolve starTree.view 100 (absDir [S "r", S "a*b"]) (S "*/*.toml") = .paths [S "/r/a*b/inc/x.toml"] := by
  decide

/-- `Except` has no decidable equality in core: the two sides of `tokenize`. -/
def tokOk (s : Str) : Option (List Token) := match tokenize s with | .ok t => some t | .error _ => none
def tokErr (s : Str) : Option PatternError := match tokenize s with | .ok _ => none | .error e => some e

/-- The hypothesis `LastTypeOk` of `relative_include_is_walk_from_dir` / `…_depends_on_dir_only_partial` holds of the
same tree (the parent's entry for `a*b` says "directory", and so does `metadata`). -/
example : LastTypeOk starTree.view [S "r", S "a*b"] := by
  intro k hk es t h hm
  have hk1 : k = 1 := by simp at hk; omega
  subst hk1
  have hr : starTree.view.readDir (absDir ([S "r", S "a*b"].take 1)) =
      some [(S "a*b", EntryType.dir), (S "aXb", EntryType.dir)] := by decide
  rw [hr] at h
  simp only [Option.some.injEq] at h
  subst h
  have ht : t = EntryType.dir := by
    simp only [List.mem_cons, Prod.mk.injEq, List.not_mem_nil, or_false] at hm
    rcases hm with ⟨_, rfl⟩ | ⟨_, rfl⟩ <;> rfl
  subst ht
  decide

/-- `escape_matches_only_itself` on a string made of metacharacters only. -/
example : tokOk (escape (S "[*]?")) = some (escPattern (S "[*]?")).tokens ∧ escape (S "[*]?") = S "[[][*][]][?]" ∧
    (escPattern (S "[*]?")).matches (S "[*]?") = true ∧ (escPattern (S "[*]?")).matches (S "[x]y") = false := by
  decide

/-- The three error cases of `Pattern::new`, with the crate's positions. -/
example : tokErr (S "a***") = some ⟨3, .wildcards⟩ ∧ tokErr (S "a**") = some ⟨0, .recursiveWildcards⟩ ∧
    tokErr (S "**a") = some ⟨2, .recursiveWildcards⟩ ∧ tokErr (S "a[!") = some ⟨1, .invalidRange⟩ ∧
    tokOk (S "[]a]") = some [.anyWithin [.singleChar ']', .singleChar 'a']] ∧
    tokOk (S "**/a/**/**/[!x-z]") =
      some [.anyRecursiveSequence, .char 'a', .char '/', .anyRecursiveSequence, .anyExcept [.charRange 'x' 'z']] := by
  decide

end AcmedVerif.Props.C14Glob
