/-
C19 — property theorems about `parse_duration` (time periods are accepted exactly per the
documented grammar and equal the sum of their parts; no input makes the parser panic).
Helper lemmas live in `Lemmas/Period.lean`.
-/
import AcmedVerif.Model.Period
import AcmedVerif.Lemmas.Period
import AcmedVerif.Gen.Consts

namespace AcmedVerif.Props.C19
open AcmedVerif.Period

/-- Full statement, clause C19.2: a string is accepted iff it is a non-empty sequence of
`<digits><unit>` items in which every number, every product and the total fit 64 bits, and the
value is then the sum of the parts. -/
theorem period_grammar (s : List Char) (v : Nat) :
    parse s = .ok v ↔
      ∃ is : List Item, is ≠ [] ∧ (∀ i ∈ is, i.wf = true) ∧ itemsText is = s ∧
        itemsFit is = true ∧ v = itemsValue is :=
  parse_grammar s v

/-- Clause C19.1 for the period parser: whatever the input, the repaired parser answers
`ok` or `reject` — it has no panic outcome. -/
theorem period_total (s : List Char) :
    (∃ v, parse s = .ok v) ∨ parse s = .reject :=
  parse_no_panic s

/-- An accepted value always fits 64 bits (so `Duration::from_secs` is total on it). -/
theorem period_value_fits (s : List Char) (v : Nat) (h : parse s = .ok v) : v ≤ u64Max :=
  parse_value_fits s v h

/-- The fuel of the model's fold is a proof device, not a bound: giving more fuel than
`s.length` never changes the answer. -/
theorem parse_fuel_enough (a : Arith) (s : List Char) (acc : Acc) (extra : Nat) :
    fold a (s.length + extra) s acc = fold a s.length s acc :=
  fold_fuel_extra a s acc extra

/-- The code before the repair (unchecked arithmetic): the same full statement is false.
Witnesses: observation (c) of DESIGN.md. -/
theorem period_total_unchecked_is_false :
    parseWith .uncheckedDev "30500568904944w".toList = .panicMul ∧
    parseWith .uncheckedDev "18446744073709551615s18446744073709551615s".toList = .panicAdd ∧
    parseWith .uncheckedRelease "18446744073709551615s18446744073709551615s".toList = .panicAdd ∧
    -- release profile: wrap-around accepted with a value that is NOT the sum of the parts
    (∃ v, parseWith .uncheckedRelease "30500568904944w".toList = .ok v ∧
          v ≠ 30500568904944 * 604800) := by
  refine ⟨by decide, by decide, by decide, 579584, by decide, by decide⟩

/-- Non-vacuity: a concrete multi-part period meets the right-hand side of `period_grammar`. -/
example : parse "1d12h30m".toList = .ok (86400 + 12 * 3600 + 30 * 60) := by decide

example : parse "".toList = .reject ∧ parse "5".toList = .reject ∧ parse "5x".toList = .reject ∧
    parse "5s ".toList = .reject ∧ parse "s".toList = .reject ∧
    parse "18446744073709551616s".toList = .reject ∧
    parse "30500568904944w".toList = .reject := by decide

end AcmedVerif.Props.C19

/-! ### Tie to the source text: the unit table regenerated from `duration.rs` on every run -/
namespace AcmedVerif.Props.C19
open AcmedVerif.Period

/-- The unit letters and multipliers the model uses are the ones `duration.rs` contains now
(`Gen/Consts.lean` is rewritten from the source on every run; if the Rust table changes, this stops
checking). -/
theorem gen_unit_table :
    AcmedVerif.Gen.unitTable = [('s', 1), ('m', 60), ('h', 3600), ('d', 86400), ('w', 604800)] ∧
    AcmedVerif.Gen.unitChars = ['s', 'm', 'h', 'd', 'w'] := by decide

/-- … and the model's `unitMult` is exactly the look-up in that table, for every character. -/
theorem unitMult_is_gen_table (c : Char) :
    unitMult c = if c ∈ AcmedVerif.Gen.unitChars then AcmedVerif.Gen.unitTable.lookup c else none := by
  unfold unitMult
  simp only [AcmedVerif.Gen.unitChars, AcmedVerif.Gen.unitTable, List.mem_cons, List.lookup]
  by_cases h1 : c = 's' <;> by_cases h2 : c = 'm' <;> by_cases h3 : c = 'h' <;>
    by_cases h4 : c = 'd' <;> by_cases h5 : c = 'w' <;> simp_all

end AcmedVerif.Props.C19
