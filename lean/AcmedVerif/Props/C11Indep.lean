/-
C11, clause "…the next renewal first brings the CA's record into line with the configuration (one
update per changed item, key roll-overs authorised by the key the CA currently holds, EACH ENDPOINT
INDEPENDENTLY)…".

About `Model/AccountMulti.lean`: the account with its map of endpoint records
(`account.rs:88-96`) and `Account::synchronize` for the endpoint named `e` (`account.rs:205-243`,
`acme_proto/account.rs`).  For EVERY account state (any number of endpoints), every script of CA
answers and hook exits, every variant unless stated.  Lemmas in `Lemmas/C11Indep.lean`.

What is per endpoint: the record `AccountEndpoint` (URLs and the three fingerprints).  What is per
ACCOUNT (`Shared`): `contacts`, `current_key`, `past_keys`, `external_account`.  `synchronize` never
writes the shared part (`sync_other_records_untouched`); only `Account::load` does
(`key_change_is_for_all_endpoints`), so after a key change EVERY endpoint needs its own roll-over,
and gets it at its own next synchronisation, authorised by the key its own CA holds
(`other_endpoint_brought_into_line_later`).
-/
import AcmedVerif.Model.AccountMulti
import AcmedVerif.Lemmas.C11Indep
import AcmedVerif.Props.C11

namespace AcmedVerif.Props.C11Indep
open AcmedVerif.AccountMulti
open AcmedVerif.Flow (Variant KeyId)

/-! ### (a) requests -/

/-- **(a) Requests go to endpoint `e` only.**  Every request of the synchronisation of `e` is sent
through the `Endpoint` object `e`; an account creation to `e`'s `newAccount` URL with the key as
`jwk`; a roll-over to `e`'s `keyChange` URL; a contact update, and the queries of the account made
by the roll-over block (since 5ce05e3 / 1fb1c1a), to the URL they carry as `kid` (the `account_url`
of the record of `e`). -/
theorem sync_requests_only_to_e (v : Variant) (e : EpName) (s : MWorld) :
    ∃ es, (synchronize v e s).2.log = s.log ++ es ∧ ∀ ev ∈ es, ReqOk e ev :=
  (ReqOk.synchronize v e).run s

/-- An endpoint the account has no record for: an error, nothing is sent, nothing changes
(`account.rs:206`). -/
theorem sync_unknown_endpoint (v : Variant) (e : EpName) (s : MWorld)
    (h : s.acct.getEndpoint e = none) : synchronize v e s = (.unknownEndpoint, s) :=
  synchronize_unknown v e s h

/-- An endpoint the account has a record for is never reported unknown, and stays known. -/
theorem sync_known_endpoint (v : Variant) (e : EpName) (s : MWorld) (h : Known e s.acct) :
    (synchronize v e s).1.tag ≠ .unknownEndpoint ∧ Known e (synchronize v e s).2.acct :=
  (KnownR.synchronize v e).run s h

/-! ### (b) the other records -/

/-- **(b) The records of the other endpoints are untouched**, whatever the outcome: the shared
fields (contacts, current key, past keys, binding) are unchanged; the map is the old one with the
FIRST entry named `e` replaced by a function of itself — same length, same names in the same order,
every entry with another name literally the same; in particular `get_endpoint(e')` is unchanged
for every `e' ≠ e`. -/
theorem sync_other_records_untouched (v : Variant) (e : EpName) (s : MWorld) :
    (synchronize v e s).2.acct.shared = s.acct.shared ∧
    (∃ g, (synchronize v e s).2.acct.endpoints = modFirst e g s.acct.endpoints) ∧
    (synchronize v e s).2.acct.endpoints.map (·.1) = s.acct.endpoints.map (·.1) ∧
    (∀ n r, n ≠ e → ((n, r) ∈ (synchronize v e s).2.acct.endpoints ↔ (n, r) ∈ s.acct.endpoints)) ∧
    (∀ e', e' ≠ e → (synchronize v e s).2.acct.getEndpoint e' = s.acct.getEndpoint e') := by
  obtain ⟨h1, ⟨g, h2⟩, _⟩ := (FrameR.synchronize v e).run s
  refine ⟨h1, ⟨g, h2⟩, ?_, ?_, ?_⟩
  · rw [h2, modFirst_names]
  · intro n r hn
    rw [h2]
    exact modFirst_mem_other g hn
  · intro e' he
    unfold Account.getEndpoint
    rw [h2, lookupEp_modFirst_other he]

/-- **(b′) The account file too.**  Whatever the synchronisation of `e` writes to disk (the whole
account is written, `account/storage.rs:143-174`) has the shared fields and the records of the other
endpoints that are in memory. -/
theorem sync_saved_file_keeps_others (v : Variant) (e : EpName) (s : MWorld) :
    (synchronize v e s).2.disk = s.disk ∨
    ∃ a, (synchronize v e s).2.disk = some a ∧ a.shared = s.acct.shared ∧
      ∀ e', e' ≠ e → a.getEndpoint e' = s.acct.getEndpoint e' := by
  obtain ⟨_, _, h3⟩ := (FrameR.synchronize v e).run s
  rcases h3 with h3 | ⟨a, g, h4, h5, h6⟩
  · exact .inl h3
  · refine .inr ⟨a, h4, h5, ?_⟩
    intro e' he
    unfold Account.getEndpoint
    rw [h6, lookupEp_modFirst_other he]

/-! ### (c) the outcome for `e` -/

/-- **(c) The outcome for `e` does not depend on the other records.**  Two states with the same
scripts, the same log, the same shared fields and the same record for `e` — the records of all
other endpoints, their number, their order, and the file on disk being arbitrary on both sides —
give the same outcome, the same requests (the whole log), the same unused scripts, the same shared
fields and the same record for `e`. -/
theorem sync_outcome_independent_of_others (v : Variant) (e : EpName) (s1 s2 : MWorld)
    (hx : s1.exs = s2.exs) (hh : s1.hks = s2.hks) (hl : s1.log = s2.log)
    (hs : s1.acct.shared = s2.acct.shared)
    (he : s1.acct.getEndpoint e = s2.acct.getEndpoint e) :
    (synchronize v e s1).1 = (synchronize v e s2).1 ∧
    (synchronize v e s1).2.log = (synchronize v e s2).2.log ∧
    (synchronize v e s1).2.exs = (synchronize v e s2).2.exs ∧
    (synchronize v e s1).2.hks = (synchronize v e s2).2.hks ∧
    (synchronize v e s1).2.acct.shared = (synchronize v e s2).2.acct.shared ∧
    (synchronize v e s1).2.acct.getEndpoint e = (synchronize v e s2).2.acct.getEndpoint e := by
  obtain ⟨h0, h1, h2, h3, h4, h5⟩ :=
    (NI2.synchronize (RelE.prims e) v).run s1 s2 ⟨hx, hh, hl, hs, he⟩
  exact ⟨h0, h3, h1, h2, h4, h5⟩

/-- **Each endpoint independently** ((a), (b), (c) together). -/
theorem endpoints_independent (v : Variant) (e : EpName) (s : MWorld) :
    -- (a)
    (∃ es, (synchronize v e s).2.log = s.log ++ es ∧ ∀ ev ∈ es, ReqOk e ev) ∧
    -- (b)
    ((synchronize v e s).2.acct.shared = s.acct.shared ∧
     ∀ e', e' ≠ e → (synchronize v e s).2.acct.getEndpoint e' = s.acct.getEndpoint e') ∧
    -- (c)
    (∀ s2 : MWorld, s.exs = s2.exs → s.hks = s2.hks → s.log = s2.log →
      s.acct.shared = s2.acct.shared → s.acct.getEndpoint e = s2.acct.getEndpoint e →
      (synchronize v e s).1 = (synchronize v e s2).1 ∧
      (synchronize v e s).2.log = (synchronize v e s2).2.log ∧
      (synchronize v e s).2.acct.getEndpoint e = (synchronize v e s2).2.acct.getEndpoint e) := by
  refine ⟨sync_requests_only_to_e v e s, ?_, ?_⟩
  · have := sync_other_records_untouched v e s
    exact ⟨this.1, this.2.2.2.2⟩
  · intro s2 hx hh hl hs he
    have := sync_outcome_independent_of_others v e s s2 hx hh hl hs he
    exact ⟨this.1, this.2.1, this.2.2.2.2.2⟩

/-- The ghost (what each CA holds) is never read: two states that differ only in ghosts give the
same outcome, log and unused scripts, and accounts that differ only in ghosts. -/
theorem ghost_not_read (v : Variant) (e : EpName) (s1 s2 : MWorld) (h : RelG s1 s2) :
    (synchronize v e s1).1 = (synchronize v e s2).1 ∧
    RelG (synchronize v e s1).2 (synchronize v e s2).2 :=
  (NI2.synchronize (RelG.prims e) v).run s1 s2 h

/-! ### What is shared: the key -/

/-- **A key change is one event for the whole account.**  `Account::load` with a changed key type
(`update_keys`, `account.rs:288-306`): the old current key is appended to `past_keys`, the new one
becomes current, no endpoint record is touched — so every endpoint whose record carries the
fingerprint of another key than the new one now has `key_changed` true, and the old key can be
found again by its fingerprint. -/
theorem key_change_is_for_all_endpoints (a : Account) (contacts : Nat) (fresh : KeyId)
    (eab : Option Nat) :
    (a.load contacts true fresh eab).endpoints = a.endpoints ∧
    (a.load contacts true fresh eab).shared.currentKey = fresh ∧
    (a.load contacts true fresh eab).shared.pastKeys = a.shared.pastKeys ++ [a.shared.currentKey] ∧
    (∀ e r k, a.getEndpoint e = some r → r.keyHash = some k → k ≠ fresh →
      (a.load contacts true fresh eab).getEndpoint e = some r ∧
      (viewAcc (a.load contacts true fresh eab).shared r).keyInSync = false) ∧
    (a.load contacts true fresh eab).getPastKey (some a.shared.currentKey) =
      some a.shared.currentKey := by
  refine ⟨rfl, rfl, rfl, ?_, ?_⟩
  · intro e r k hr hk hne
    refine ⟨hr, ?_⟩
    rw [view_keyInSync, hk]
    show (!(some k != some fresh)) = false
    simp [hne]
  · show (a.shared.pastKeys ++ [a.shared.currentKey]).find? (· == a.shared.currentKey) = _
    induction a.shared.pastKeys with
    | nil => simp
    | cons x rest ih =>
      by_cases hx : (x == a.shared.currentKey) = true
      · have : x = a.shared.currentKey := by simpa using hx
        simp [this]
      · simp [hx, ih]

/-! ### Keys held by the CAs -/

/-- **The invariant `HeldAll`** — for every endpoint with an account URL: a key fingerprint is
recorded, the CA of that endpoint holds exactly that key, and the account still has that key
(current or past) — is kept by the synchronisation of ANY endpoint, whatever the outcome (failures
included), as long as no answer is LOST AFTER THE CA PROCESSED THE REQUEST (`NoLost`); by a (re)start
with any configuration edit; and by a new endpoint name; hence along any history without such an
answer. -/
theorem held_kept_by_sync (v : Variant) (e : EpName) (s : MWorld) (hn : NoLost s.exs)
    (h : HeldAll s.acct) : HeldAll (synchronize v e s).2.acct :=
  ((HeldR.synchronize v e).run s hn h).1

/-- **Without `NoLost` it is false** (what the ghost could not express before 5ce05e3: the CA's
record moves only when the client sees a 2xx): the CA of endpoint 1 processes the roll-over 100 → 101
and its answer is lost; the record still names key 100, the CA holds key 101. -/
theorem held_kept_by_sync_full_is_false :
    ∃ (s : MWorld), HeldAll s.acct ∧ ¬ HeldAll (synchronize .current 1 s).2.acct ∧
      (synchronize .current 1 s).1.tag = .failed .keyChange ∧
      ((synchronize .current 1 s).2.acct.getEndpoint 1).map (fun r => (r.keyHash, r.ca.key)) =
        some (some 100, 101) :=
  ⟨⟨⟨[(1, ⟨0, 11, 12, some 100, some 7, none, ⟨100, some 7⟩⟩)], ⟨7, 101, [100], none⟩⟩,
     [.okOther, .lost], [], [], none⟩,
   heldAllB_sound (by decide +kernel),
   by
    intro h
    obtain ⟨k, h1, h2, _⟩ := h 1 ⟨0, 11, 12, some 100, some 7, none, ⟨101, some 7⟩⟩
      (by decide +kernel) (by decide)
    simp only [Option.some.injEq] at h1
    subst h1
    exact absurd h2 (by decide),
   by decide +kernel, by decide +kernel⟩

/-- **With lost answers**: the weaker invariant `HeldPAll` — the CA holds the recorded key OR the
account's current key (a roll-over it processed whose answer was lost) — is kept by the
synchronisation of ANY endpoint with ANY answers. -/
theorem heldP_kept_by_sync (v : Variant) (e : EpName) (s : MWorld) (h : HeldPAll s.acct) :
    HeldPAll (synchronize v e s).2.acct :=
  (HeldPR.synchronize v e).run s h

/-- A new account (no account file) satisfies it, and so does it with any endpoint names added. -/
theorem held_of_new_account (contacts : Nat) (fresh : KeyId) (eab : Option Nat)
    (names : List EpName) :
    HeldAll (runOps (names.map .addEndpoint) (Account.create contacts fresh eab)) :=
  HeldAll.runOps (fun _ _ h => by cases h) _ (by
    intro op hop
    obtain ⟨n, _, rfl⟩ := List.mem_map.mp hop
    trivial)

theorem held_kept_by_load (a : Account) (h : HeldAll a) (contacts : Nat) (keyChanged : Bool)
    (fresh : KeyId) (eab : Option Nat) : HeldAll (a.load contacts keyChanged fresh eab) :=
  h.load contacts keyChanged fresh eab

theorem held_kept_by_history (a : Account) (h : HeldAll a) (ops : List Op)
    (hn : ∀ op ∈ ops, op.noLost) : HeldAll (runOps ops a) :=
  h.runOps ops hn

/-- **Roll-overs are authorised by the key the endpoint's own CA holds** (current order of the
updates, `v.keyFirst`).  When the record of `e` satisfies `Held`, the synchronisation of `e` sends
no keyChange request at all, or exactly one: through `e`, to `e`'s `keyChange` URL, `kid` = the
recorded account URL, signed by the key the CA of `e` holds — a past key of the account, different
from the current one; it is the first request, or (since 1fb1c1a) the second, after the query of the
account (through `e`, to the recorded account URL) signed by that same key. -/
theorem rollover_authorised_by_held_key (v : Variant) (hv : v.keyFirst = true) (e : EpName)
    (s : MWorld) (r0 : EpRec) (hk : s.acct.getEndpoint e = some r0)
    (hh : Held s.acct.shared r0) :
    ∃ es, (synchronize v e s).2.log = s.log ++ es ∧
      ((∀ ev ∈ es, NotKeyChange ev) ∨ ∃ a pre rest,
        es = pre ++ .req e .keyChange (.dirKeyChange e) r0.ca.key r0.accountUrl a :: rest ∧
        (pre = [] ∨ ∃ p, pre =
          [.req e .accountProbe (.url r0.accountUrl) r0.ca.key r0.accountUrl p]) ∧
        r0.ca.key ∈ s.acct.shared.pastKeys ∧ r0.ca.key ≠ s.acct.shared.currentKey ∧
        ∀ ev ∈ rest, NotKeyChange ev) := by
  obtain ⟨es, he, hs⟩ := synchronize_shape v hv e s r0 hk
  refine ⟨es, he, ?_⟩
  rcases hs with hs | ⟨old, a, pre, rest, g1, g2, g3, g4, g5, g7, g6⟩
  · exact .inl hs
  · obtain ⟨k, k1, k2, _⟩ := hh g4
    have : old = k := by rw [g1] at k1; exact Option.some.inj k1
    subst this
    rw [k2]
    exact .inr ⟨a, pre, rest, g5, g7, g2, g3, g6⟩

/-- **The record of `e` and its CA are brought into line** (current order of the updates).
Whenever the synchronisation of `e` returns (no `Location` header of the script being empty): the
record has an account URL, the fingerprints of the CURRENT key, of the configured contacts and of
the configured binding; and, `HeldAll` holding before, the CA of `e` holds the current key.
(Through `sync_refines_flow` and `Props.C11.sync_converges`.) -/
theorem sync_brings_into_line (v : Variant) (hv : v.keyFirst = true) (e : EpName) (s s' : MWorld)
    (r0 : EpRec) (u : Unit) (hk : s.acct.getEndpoint e = some r0)
    (hn : ∀ o ex, Ans.account ⟨some 0, o, ex⟩ ∉ s.exs) (hh : HeldAll s.acct) (hnl : NoLost s.exs)
    (hrun : synchronize v e s = (.val u, s')) :
    s'.acct.shared = s.acct.shared ∧
    ∃ r', s'.acct.getEndpoint e = some r' ∧ r'.accountUrl ≠ 0 ∧
      r'.keyHash = some s.acct.shared.currentKey ∧
      r'.contactsHash = some s.acct.shared.contacts ∧
      bindingChanged s.acct.shared r' = false ∧
      r'.ca.key = s.acct.shared.currentKey := by
  have hsh : s'.acct.shared = s.acct.shared := by
    have := (sync_other_records_untouched v e s).1
    rw [hrun] at this; exact this
  have hheld : HeldAll s'.acct := by
    have := held_kept_by_sync v e s hnl hh
    rw [hrun] at this; exact this
  have hsim := synchronize_sim v hv (simR_view hk hn)
    (by intro r hr; rw [hk] at hr; cases hr; rfl)
  rw [hrun] at hsim
  obtain ⟨⟨ht, _⟩, hr⟩ := hsim
  rcases hq : Flow.synchronize v (viewWorld s r0) with ⟨o', w'⟩
  rw [hq] at ht hr
  cases o' with
  | fail st => simp [Tag.abs] at ht
  | stuck => simp [Tag.abs] at ht
  | val u' =>
    obtain ⟨⟨c1, c2, c3, c4⟩, _, _⟩ := AcmedVerif.Props.C11.sync_converges v _ w' u' hq
    obtain ⟨r', hk', hacc'⟩ := hr.ep
    obtain ⟨f1, f2, f3, f4, f5, _, _⟩ := forgetPk_fields hacc'
    simp only at hk' f1 f2 f3 f4 f5
    rw [hsh] at f1 f2 f3 f4 f5
    have hu : r'.accountUrl ≠ 0 := by
      rw [c1] at f1
      have : (r'.accountUrl != 0) = true := f1.symm
      simpa using this
    have hkey : r'.keyHash = some s.acct.shared.currentKey := by
      have h1 : (viewAcc s.acct.shared r').keyInSync = true := by
        unfold Flow.Acc.keyInSync at c3 ⊢
        rw [← f5, ← f4]; exact c3
      rw [view_keyInSync] at h1
      simpa using h1
    have hct : r'.contactsHash = some s.acct.shared.contacts := by
      rw [c2] at f2
      have : (r'.contactsHash == some s.acct.shared.contacts) = true := f2.symm
      simpa using this
    have hb : bindingChanged s.acct.shared r' = false := by
      rw [c4] at f3
      have : (!bindingChanged s.acct.shared r') = true := f3.symm
      simpa using this
    refine ⟨hsh, r', hk', hu, hkey, hct, hb, ?_⟩
    obtain ⟨k, k1, k2, _⟩ := hheld e r' hk' hu
    rw [hkey] at k1
    rw [k2, ← Option.some.inj k1]

/-- **After a key change, an endpoint whose CA still holds the old key is brought into line at ITS
next synchronisation, authorised by the key ITS CA holds** — whatever happened in between: the
synchronisation of other endpoints (first, successfully or not), further key changes, contact or
binding edits, restarts, new endpoints — as long as no answer was lost after the CA had processed
the request (`noLost`; for that case see `Props/C11Lost.lean`).  From an account satisfying `HeldAll` (e.g. a new one, or
one whose endpoints are all in line), after ANY history `ops`, for ANY endpoint `e'` with a record:
(1) its synchronisation sends no keyChange request, or exactly one, first, signed by the key the
CA of `e'` holds (`kid` = the recorded URL, through `e'`); (2) if it returns, the record of `e'` is
in line with the configuration and the CA of `e'` holds the current key. -/
theorem other_endpoint_brought_into_line_later (a : Account) (h : HeldAll a) (ops : List Op)
    (hnl : ∀ op ∈ ops, op.noLost)
    (v : Variant) (hv : v.keyFirst = true) (e' : EpName) (exs : List Ans) (hks : List Bool)
    (r0 : EpRec) (hk : (runOps ops a).getEndpoint e' = some r0)
    (hn : ∀ o ex, Ans.account ⟨some 0, o, ex⟩ ∉ exs) (hnx : NoLost exs) :
    (∃ es, (synchronize v e' ⟨runOps ops a, exs, hks, [], none⟩).2.log = es ∧
      ((∀ ev ∈ es, NotKeyChange ev) ∨ ∃ ans pre rest,
        es = pre ++ .req e' .keyChange (.dirKeyChange e') r0.ca.key r0.accountUrl ans :: rest ∧
        (pre = [] ∨ ∃ p, pre =
          [.req e' .accountProbe (.url r0.accountUrl) r0.ca.key r0.accountUrl p]) ∧
        r0.ca.key ∈ (runOps ops a).shared.pastKeys ∧
        r0.ca.key ≠ (runOps ops a).shared.currentKey ∧ ∀ ev ∈ rest, NotKeyChange ev)) ∧
    (∀ u s', synchronize v e' ⟨runOps ops a, exs, hks, [], none⟩ = (.val u, s') →
      ∃ r', s'.acct.getEndpoint e' = some r' ∧ r'.accountUrl ≠ 0 ∧
        r'.keyHash = some (runOps ops a).shared.currentKey ∧
        r'.contactsHash = some (runOps ops a).shared.contacts ∧
        bindingChanged (runOps ops a).shared r' = false ∧
        r'.ca.key = (runOps ops a).shared.currentKey) := by
  have hh := held_kept_by_history a h ops hnl
  constructor
  · obtain ⟨es, he, hs⟩ := rollover_authorised_by_held_key v hv e'
      ⟨runOps ops a, exs, hks, [], none⟩ r0 hk (hh e' r0 hk)
    exact ⟨es, by simpa using he, hs⟩
  · intro u s' hrun
    exact (sync_brings_into_line v hv e' ⟨runOps ops a, exs, hks, [], none⟩ s' r0 u hk hn hh hnx
      hrun).2

/-! ### Refinement -/

/-- **Seen from endpoint `e`, this model is `Model/Flow.lean`** (current order of the updates, no
empty `Location` header in the script): running `Flow.synchronize v` on the view of the state from
`e` (`viewWorld`) gives the same outcome, and its final world is the view of the final state from
`e`: the flags of the final record of `e` (all but the input flag `pastKeyKnown`), the unused
scripts, the trace (`MEv.abs` of the log).  So every theorem of `Props/C11.lean` about
`Flow.synchronize` speaks about each endpoint of the account. -/
theorem sync_refines_flow (v : Variant) (hv : v.keyFirst = true) (e : EpName) (s : MWorld)
    (r0 : EpRec) (hk : s.acct.getEndpoint e = some r0)
    (hn : ∀ o ex, Ans.account ⟨some 0, o, ex⟩ ∉ s.exs) :
    (synchronize v e s).1.tag.abs = (Flow.synchronize v (viewWorld s r0)).1.tag ∧
    (synchronize v e s).1.tag ≠ .unknownEndpoint ∧
    ∃ r', (synchronize v e s).2.acct.getEndpoint e = some r' ∧
      forgetPk (Flow.synchronize v (viewWorld s r0)).2.acc =
        forgetPk (viewAcc (synchronize v e s).2.acct.shared r') ∧
      (Flow.synchronize v (viewWorld s r0)).2.exs = (synchronize v e s).2.exs.map Ans.abs ∧
      (Flow.synchronize v (viewWorld s r0)).2.hks = (synchronize v e s).2.hks ∧
      (Flow.synchronize v (viewWorld s r0)).2.trace = (synchronize v e s).2.log.map MEv.abs := by
  obtain ⟨⟨h1, h2⟩, hr⟩ := synchronize_sim v hv (simR_view hk hn)
    (by intro r hr; rw [hk] at hr; cases hr; rfl)
  obtain ⟨r', g1, g2⟩ := hr.ep
  exact ⟨h1, h2, r', g1, g2, hr.exs, hr.hks, hr.trace⟩

/-! ### The two side conditions are needed -/

/-- Contacts and key changed; the contact update (sent first before e0bc7c2) is answered
`accountDoesNotExist`, the re-registration succeeds. -/
def wOld : MWorld :=
  ⟨⟨[(1, ⟨0, 11, 12, some 100, some 7, none, ⟨100, some 7⟩⟩)], ⟨8, 101, [100], none⟩⟩,
   [.acmeErr .accountDoesNotExist, .account ⟨some 13, none, false⟩, .okOther],
   [true, true, true, true], [], none⟩

/-- **`sync_refines_flow` without `v.keyFirst` is false** (order of the updates before e0bc7c2):
after the re-registration the record carries the fingerprint of the CURRENT key, which
`get_past_key` does not find among the past keys — this model (like `update_account_key`, which
reads `ep.key_hash` when called) stops with "key not found", while `Model/Flow.lean`, whose flag
`pastKeyKnown` is an input that no step refreshes, goes on with a keyChange request.  The two
models agree on the current tree (`sync_refines_flow`); they differ on this historical variant. -/
theorem sync_refines_flow_old_is_false :
    ∃ (s : MWorld) (r0 : EpRec), s.acct.getEndpoint 1 = some r0 ∧
      (∀ o ex, Ans.account ⟨some 0, o, ex⟩ ∉ s.exs) ∧
      (synchronize .old 1 s).1.tag = .failed .pastKey ∧
      (Flow.synchronize .old (viewWorld s r0)).1.tag = .ok ∧
      (synchronize .old 1 s).1.tag.abs ≠ (Flow.synchronize .old (viewWorld s r0)).1.tag :=
  ⟨wOld, ⟨0, 11, 12, some 100, some 7, none, ⟨100, some 7⟩⟩, by decide +kernel,
    by intro o ex h; simp [wOld] at h, by decide +kernel, by decide +kernel, by decide +kernel⟩

/-- A CA that answers newAccount with an EMPTY `Location` header. -/
def wEmptyLoc : MWorld :=
  ⟨⟨[(1, EpRec.new)], ⟨7, 100, [], none⟩⟩, [.account ⟨some 0, none, false⟩], [true, true], [],
   none⟩

/-- **`sync_brings_into_line` without the side condition on `Location` is false**: `new_account`
(`acme_proto/http.rs:41-55`) only checks that the header is PRESENT; an empty one is stored as the
account URL, the synchronisation returns, and the endpoint still counts as not registered
(`account_url.is_empty()`, `account.rs:207`). -/
theorem sync_brings_into_line_empty_location_is_false :
    ∃ (s : MWorld) (r0 : EpRec), s.acct.getEndpoint 1 = some r0 ∧ HeldAll s.acct ∧
      (synchronize .current 1 s).1.tag = .ok ∧
      ((synchronize .current 1 s).2.acct.getEndpoint 1).map (·.accountUrl) = some 0 :=
  ⟨wEmptyLoc, EpRec.new, by decide +kernel, heldAllB_sound (by decide +kernel), by decide +kernel,
    by decide +kernel⟩

/-! ### Non-vacuity: two endpoints, one key change -/

/-- Registered on endpoints 1 and 2 with key 100 and contacts 7; each CA holds key 100. -/
def acct0 : Account :=
  ⟨[(1, ⟨0, 11, 12, some 100, some 7, none, ⟨100, some 7⟩⟩),
    (2, ⟨0, 21, 22, some 100, some 7, none, ⟨100, some 7⟩⟩)], ⟨7, 100, [], none⟩⟩

/-- Restart with another key type in the configuration: new key 101. -/
def acct1 : Account := acct0.load 7 true 101 none

/-- The renewal on endpoint 1 comes first; its CA accepts the roll-over. -/
def w1 : MWorld := ⟨acct1, [.okOther, .okOther], [true, true], [], none⟩

/-- The same, except that endpoint 2 was never registered, a third endpoint exists, and the
file on disk is something else. -/
def w1' : MWorld :=
  ⟨⟨[(3, ⟨0, 31, 0, some 55, none, none, ⟨55, none⟩⟩), (2, EpRec.new),
     (1, ⟨0, 11, 12, some 100, some 7, none, ⟨100, some 7⟩⟩)], acct1.shared⟩,
   [.okOther, .okOther], [true, true], [], some acct0⟩

/-- Afterwards: endpoint 2's turn. -/
def w2 : MWorld :=
  ⟨(synchronize .current 1 w1).2.acct, [.okOther, .okOther], [true, true], [], none⟩

example : HeldAll acct0 := heldAllB_sound (by decide +kernel)

/-- `key_change_is_for_all_endpoints`: both endpoints now need a roll-over. -/
example : acct0.getEndpoint 2 = some ⟨0, 21, 22, some 100, some 7, none, ⟨100, some 7⟩⟩ ∧
    (100 : KeyId) ≠ 101 ∧
    (viewAcc acct1.shared ⟨0, 11, 12, some 100, some 7, none, ⟨100, some 7⟩⟩).keyInSync = false ∧
    (viewAcc acct1.shared ⟨0, 21, 22, some 100, some 7, none, ⟨100, some 7⟩⟩).keyInSync = false := by
  decide +kernel

/-- (a), (b): the synchronisation of endpoint 1 sends two requests, the query of the account and the
roll-over, through endpoint 1, both signed by the old key; the record of endpoint 2 is as before and still carries the old
fingerprint; the current key is shared and unchanged. -/
example :
    (synchronize .current 1 w1).1.tag = .ok ∧
    (synchronize .current 1 w1).2.log =
      [.req 1 .accountProbe (.url 11) 100 11 .okOther,
       .req 1 .keyChange (.dirKeyChange 1) 100 11 .okOther, .hooks .filePre true, .saveAccount,
       .hooks .filePost true] ∧
    (synchronize .current 1 w1).2.acct.getEndpoint 1 =
      some ⟨0, 11, 12, some 101, some 7, none, ⟨101, some 7⟩⟩ ∧
    (synchronize .current 1 w1).2.acct.getEndpoint 2 = acct1.getEndpoint 2 ∧
    (synchronize .current 1 w1).2.acct.getEndpoint 2 =
      some ⟨0, 21, 22, some 100, some 7, none, ⟨100, some 7⟩⟩ ∧
    (synchronize .current 1 w1).2.acct.shared = ⟨7, 101, [100], none⟩ ∧
    (synchronize .current 1 w1).2.disk = some (synchronize .current 1 w1).2.acct := by
  decide +kernel

/-- (c): the hypotheses of `sync_outcome_independent_of_others` hold of two different states, and
the conclusion is not trivial (a request is sent, the record of 1 changes). -/
example : w1.exs = w1'.exs ∧ w1.hks = w1'.hks ∧ w1.log = w1'.log ∧
    w1.acct.shared = w1'.acct.shared ∧ w1.acct.getEndpoint 1 = w1'.acct.getEndpoint 1 ∧
    w1.acct.getEndpoint 2 ≠ w1'.acct.getEndpoint 2 ∧ w1.disk ≠ w1'.disk ∧
    (synchronize .current 1 w1').2.log = (synchronize .current 1 w1).2.log ∧
    (synchronize .current 1 w1').2.acct.getEndpoint 1 =
      some ⟨0, 11, 12, some 101, some 7, none, ⟨101, some 7⟩⟩ ∧
    (synchronize .current 1 w1').2.acct.getEndpoint 2 = some EpRec.new := by
  decide +kernel

/-- `other_endpoint_brought_into_line_later`, `rollover_authorised_by_held_key`,
`sync_brings_into_line`: at ITS next synchronisation endpoint 2 — whose CA still holds key 100 —
sends the roll-over through endpoint 2, signed by key 100, with its own account URL as `kid`, and
ends with the fingerprint of key 101, its CA holding key 101. -/
example :
    w2.acct.getEndpoint 2 = some ⟨0, 21, 22, some 100, some 7, none, ⟨100, some 7⟩⟩ ∧
    (synchronize .current 2 w2).1.tag = .ok ∧
    (synchronize .current 2 w2).2.log =
      [.req 2 .accountProbe (.url 21) 100 21 .okOther,
       .req 2 .keyChange (.dirKeyChange 2) 100 21 .okOther, .hooks .filePre true, .saveAccount,
       .hooks .filePost true] ∧
    (synchronize .current 2 w2).2.acct.getEndpoint 2 =
      some ⟨0, 21, 22, some 101, some 7, none, ⟨101, some 7⟩⟩ ∧
    (synchronize .current 2 w2).2.acct.getEndpoint 1 =
      some ⟨0, 11, 12, some 101, some 7, none, ⟨101, some 7⟩⟩ := by
  decide +kernel

/-- A longer history: key change (101), endpoint 1 renews, SECOND key change (102), endpoint 1's
next synchronisation fails, a third endpoint is added; then endpoint 2 renews: one roll-over
100 → 102, signed by key 100 (the key its CA holds), and its CA ends with key 102. -/
def history : List Op :=
  [.load 7 true 101 none, .sync .current 1 [.okOther, .okOther] [true, true],
   .load 7 true 102 none, .sync .current 1 [.otherErr] [], .addEndpoint 3]

example :
    (runOps history acct0).getEndpoint 2 =
      some ⟨0, 21, 22, some 100, some 7, none, ⟨100, some 7⟩⟩ ∧
    (runOps history acct0).getEndpoint 1 =
      some ⟨0, 11, 12, some 101, some 7, none, ⟨101, some 7⟩⟩ ∧
    (runOps history acct0).shared = ⟨7, 102, [100, 101], none⟩ ∧
    (∀ o ex, Ans.account ⟨some 0, o, ex⟩ ∉ [Ans.okOther, Ans.okOther]) ∧
    (∀ op ∈ history, op.noLost) ∧
    (synchronize .current 2
      ⟨runOps history acct0, [.okOther, .okOther], [true, true], [], none⟩).1.tag = .ok ∧
    (synchronize .current 2
      ⟨runOps history acct0, [.okOther, .okOther], [true, true], [], none⟩).2.log.take 2 =
      [.req 2 .accountProbe (.url 21) 100 21 .okOther,
       .req 2 .keyChange (.dirKeyChange 2) 100 21 .okOther] ∧
    (synchronize .current 2
      ⟨runOps history acct0, [.okOther, .okOther], [true, true], [], none⟩).2.acct.getEndpoint 2 =
      some ⟨0, 21, 22, some 102, some 7, none, ⟨102, some 7⟩⟩ := by
  refine ⟨by decide +kernel, by decide +kernel, by decide +kernel, by simp, ?_, by decide +kernel,
    by decide +kernel, by decide +kernel⟩
  intro op hop
  simp only [history, List.mem_cons, List.mem_nil_iff, or_false] at hop
  rcases hop with rfl | rfl | rfl | rfl | rfl <;> simp [Op.noLost, NoLost]

/-- `sync_refines_flow`: its hypotheses hold of `w1`, and the `Flow` run is the roll-over. -/
example : w1.acct.getEndpoint 1 = some ⟨0, 11, 12, some 100, some 7, none, ⟨100, some 7⟩⟩ ∧
    (∀ o ex, Ans.account ⟨some 0, o, ex⟩ ∉ w1.exs) ∧
    (Flow.synchronize .current
      (viewWorld w1 ⟨0, 11, 12, some 100, some 7, none, ⟨100, some 7⟩⟩)).2.trace.take 2 =
      [.exch .accountProbe .kid 100 (.ok .undecodable),
       .exch .keyChange .kid 100 (.ok .undecodable)] := by
  refine ⟨by decide +kernel, ?_, by decide +kernel⟩
  intro o ex h
  simp [w1] at h

/-- `ghost_not_read`: two states that differ in a ghost only. -/
example : RelG w1 ⟨⟨[(1, ⟨0, 11, 12, some 100, some 7, none, ⟨5, none⟩⟩),
    (2, ⟨0, 21, 22, some 100, some 7, none, ⟨100, some 7⟩⟩)], acct1.shared⟩,
    [.okOther, .okOther], [true, true], [], none⟩ := by
  unfold RelG
  decide +kernel

/-- `sync_unknown_endpoint`, `sync_known_endpoint`. -/
example : w1.acct.getEndpoint 5 = none ∧ Known 1 w1.acct := by
  unfold Known
  decide +kernel

end AcmedVerif.Props.C11Indep
