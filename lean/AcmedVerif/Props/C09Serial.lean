/-
C09 — "from all certificates and accounts using that endpoint": the requests of ALL certificates on one
endpoint pass ONE limiter one at a time.  `Limiter.admit`/`rateLimit` (Props/C09) are sequential
functions of one `RateLimit`; that they are never run concurrently for the same endpoint is mutual
exclusion of the endpoint's write lock (Props/C12), because every sender holds it:
`http::get`, `http::post`, `http::new_nonce` take `&mut Endpoint`, and the only way the code obtains a
`&mut Endpoint` is `endpoint_s.write().await` (Rust's borrow rules make this a compile-time fact; the
traced-lock runs of C12/C07 observe the same guards on the real code).
-/
import AcmedVerif.Props.C12
import AcmedVerif.Gen.Senders

namespace AcmedVerif.Props.C09Serial
open AcmedVerif.Locks

/-- Task `t` is inside a request on endpoint lock `e`: it holds `e` for writing. -/
def Sending (s : Sys) (t e : Nat) : Prop := (e, Mode.w) ∈ (s t).held

/-- **Sends on one endpoint are serialised.**  In every reachable state of any number of tasks running
any programs under any admissible reader/writer lock, two tasks are never inside a request on the same
endpoint at once — so the limiter's log is updated by one request at a time and the window bound of
`Props/C09` (stated for ONE sequence of admissions) is a bound on the union of all certificates'
requests. -/
theorem serialised_sends (G : Grant) (hG : ∀ s l m, G s l m → safeGrant s l m)
    (progs : Nat → List Op) (s : Sys) (hr : Reachable G (init progs) s)
    (t u e : Nat) (ht : Sending s t e) (hu : Sending s u e) : t = u :=
  ((AcmedVerif.Props.C12.mutual_exclusion G hG progs s hr t u e Mode.w ht hu).1).symm

/-- … and nobody even reads the endpoint (its `dir`, its `nonce`, its limiter) meanwhile. -/
theorem no_reader_during_send (G : Grant) (hG : ∀ s l m, G s l m → safeGrant s l m)
    (progs : Nat → List Op) (s : Sys) (hr : Reachable G (init progs) s)
    (t u e : Nat) (ht : Sending s t e) (hu : (e, Mode.r) ∈ (s u).held) : False := by
  have := (AcmedVerif.Props.C12.mutual_exclusion G hG progs s hr t u e Mode.r ht hu).2
  cases this

/-- The hypothesis "a sender holds the endpoint for writing", as far as the source shows it: every
function of the HTTP layers in whose body a request is sent (`.send()`), and the limiter call itself,
takes `&mut Endpoint` (regenerated from acmed/src/http.rs and acme_proto/http.rs on every run). -/
theorem senders_take_exclusive_endpoint :
    Gen.sendingFns ≠ [] ∧
    Gen.sendingFns.all (fun n => Gen.asyncHttpFns.lookup n == some true) = true ∧
    Gen.asyncHttpFns.lookup "http::rate_limit" = some true := by decide

/-- … and so does every other async function of the two layers (none of them reaches the network
through a shared reference). -/
theorem all_http_fns_take_exclusive_endpoint : Gen.asyncHttpFns.all (·.2) = true := by decide

end AcmedVerif.Props.C09Serial
