/-
C14, the loader and the include resolver COMPOSED (anchor: acmed/src/config.rs `read_cnf` + `get_cnf_path`):
theorems about Model/ConfigGlob.lean = `Config.readCnf` with `resolve := Glob.resolve` over the listing of the
directory tree, canonicalisation = the listing's link resolution.  Before this file the two models met only
through the real code: Props/C14 is about any resolver, Props/C14Glob about the resolver alone.

For ALL listings, contents, main paths and fuels:
* `load_glob_total`             the composed loader answers with a configuration, "file not found", "includes nested
                                too deeply" - or, when (and only when) the model's glob walk runs out of fuel on a pattern
                                of the contents, with the model artefact `outOfFuel` (`load_glob_ends`: never, when
                                `globEnds`); `load_glob_fuel_irrelevant`: neither fuel changes an answer
                                (`include_fuel_irrelevant` + `resolve_fuel_irrelevant` through `readCnf_congr`);
* `each_file_once_glob`         the files read are pairwise different entries of the contents - pairwise different
                                CANONICAL files when the contents name each file once - whatever the patterns name and
                                however often `get_cnf_path` returns a path (`resolve_nodup_full_is_false`: it does
                                return paths twice; the loaded-set absorbs them: `duplicate_paths_read_once`);
                                `each_file_once_glob_calls`: the call-level statement of `each_file_once`, instantiated;
* `relative_includes_stay_below` with relative includes only, every file read is reached from the main file by steps
                                "a path written inside the directory of the including file (literal prefix, from
                                `relative_include_stays_in_dir`), canonicalised by the listing" (`BelowClosure`) - which
                                says nothing more when that path runs through a symbolic link or a `..`:
                                `relative_include_leaves_through_link`, `relative_include_leaves_through_dotdot`;
                                `relative_includes_stay_below_nolinks_partial`: in a listing without links, when no
                                returned path has a `..` component, the canonical path of every file read has the main
                                file's directory as a prefix (PARTIAL: the condition is on the returned paths, not yet
                                derived from the patterns);
* `later_global_wins_glob`      the files are read in THE depth-first first-visit order of the graph whose edges are what
                                `Glob.resolve` returns, in the order it returns them, and every `[global]` option (and
                                every `env` key) ends with the value of the last file in that order that sets it;
                                `two_file_glob_winner`: a glob that returns two files: the SECOND one wins;
* `resolved_tree_loads_alike`   loading the tree with its includes resolved beforehand (`resolvedTree`, the input of the
                                judge op `c14_judge_glob`) is loading through Model/Glob.
-/
import AcmedVerif.Lemmas.ConfigGlob
import AcmedVerif.Props.C14
import AcmedVerif.Props.C14Glob

namespace AcmedVerif.Props.C14Compose
open AcmedVerif.Config AcmedVerif.ConfigGlob AcmedVerif.Spec.C14
open AcmedVerif.Glob (Str Listing validName)
open AcmedVerif.Spec.C14Glob (inDir)
open AcmedVerif.Props.C14 AcmedVerif.Props.C14Glob

/-- The directory text of the composed model is the one the theorems of Props/C14Glob are about. -/
theorem dirText_eq_absDir (cs : Loc) : dirText cs = Glob.absDir cs := rfl

/-! ## What a successful load is -/

theorem surface_ok {α : Type} (cs : Contents) (r : Except Err α) (x : α) (h : surface cs r = .ok x) : r = .ok x := by
  cases r with
  | ok y => simpa [surface] using h
  | error e =>
    cases e <;> simp only [surface] at h
    all_goals first | cases h | (split at h <;> cases h)

/-- A successful composed load is a successful `readCnf` with the composed resolver, then `dispatch_global_env_vars`. -/
theorem load_ok_raw {L : Listing} {cs : Contents} {gfuel : Nat} {mainPath : Str} {cfg : Config} {order : List Path}
    (h : loadTreeGlobOrder L cs gfuel mainPath = .ok (cfg, order)) :
    ∃ cfg0, readCnf (files cs) (resolveIds L cs gfuel) (loadFuel (files cs)) 0 (idOfPath L cs mainPath) [] = .ok (cfg0, order) ∧
      cfg = dispatchGlobalEnv cfg0 := by
  unfold loadTreeGlobOrder readMain readGlob at h
  cases hr : surface cs (readCnf (files cs) (resolveIds L cs gfuel) (loadFuel (files cs)) 0 (idOfPath L cs mainPath) []) with
  | error e => simp [hr] at h
  | ok r =>
    obtain ⟨cfg0, loaded⟩ := r
    simp only [hr, Except.ok.injEq, Prod.mk.injEq] at h
    obtain ⟨rfl, rfl⟩ := h
    exact ⟨cfg0, surface_ok cs _ _ hr, rfl⟩

theorem dispatch_global (cfg : Config) : (dispatchGlobalEnv cfg).global = cfg.global := by
  cases hg : cfg.global with
  | none => simp [dispatchGlobalEnv, hg]
  | some g => simp [dispatchGlobalEnv, hg]

/-! ## (a) The composed loader is total; fuel never changes an answer -/

/-- For every listing, contents, fuel and main path the composed loader answers with a configuration or with one of
the loader's errors.  The fourth answer is the model's own: the glob walk of Model/Glob ran out of fuel on some
include pattern of the contents (`globEnds = false`; a `**` through a link to an ancestor never ends in the model,
the real file system ends it with ELOOP, which `Listing.view` does not model). -/
theorem load_glob_total (L : Listing) (cs : Contents) (gfuel : Nat) (mainPath : Str) :
    (∃ r, loadTreeGlobOrder L cs gfuel mainPath = .ok r) ∨
    (∃ p, loadTreeGlobOrder L cs gfuel mainPath = .error (.fileNotFound p)) ∨
    (∃ p, loadTreeGlobOrder L cs gfuel mainPath = .error (.includeTooDeep p)) ∨
    (loadTreeGlobOrder L cs gfuel mainPath = .error .outOfFuel ∧ globEnds L cs gfuel = false) := by
  unfold loadTreeGlobOrder readMain readGlob
  cases h : readCnf (files cs) (resolveIds L cs gfuel) (loadFuel (files cs)) 0 (idOfPath L cs mainPath) [] with
  | ok r => exact .inl ⟨_, by simp [surface]; rfl⟩
  | error e =>
    rcases readCnf_error_class _ _ _ _ _ _ _ h with hk | ⟨q, hq⟩ | ⟨q, hq⟩
    · subst hk; exact absurd h (include_terminates _ _ _ _)
    · subst hq
      by_cases hqf : q = fuelId cs
      · refine .inr (.inr (.inr ⟨by simp [surface, hqf], ?_⟩))
        rcases readCnf_notFound_origin _ _ _ _ _ _ _ h with hmain | ⟨p, fc, pat, hf, hp, hmem⟩
        · have := idOfPath_le L cs mainPath
          rw [← hmain, hqf] at this
          exact absurd this (by simp [fuelId])
        · obtain ⟨e, he, hfc, hmemcs, _⟩ := lookupFile_files_some hf
          subst hfc
          unfold resolveIds at hmem
          simp only [he] at hmem
          rcases mem_idsOfResult hmem with ⟨ps, t, _, _, hqt⟩ | hb | ⟨_, hr⟩
          · have := idOfPath_le L cs t
            rw [← hqt, hqf] at this
            exact absurd this (by simp [fuelId])
          · rw [hqf] at hb; exact absurd hb (by simp [fuelId, badPatternId])
          · rw [Bool.eq_false_iff]
            intro ht
            exact (globEnds_iff L cs gfuel).mp ht e hmemcs pat hp hr
      · exact .inr (.inl ⟨q, by simp [surface, hqf]⟩)
    · subst hq; exact .inr (.inr (.inl ⟨q, by simp [surface]⟩))

/-- With glob fuel enough for every pattern of the contents (a decidable condition on the input) the answer is a
configuration, "file not found" or "includes nested too deeply": no fuel of the model shows. -/
theorem load_glob_ends (L : Listing) (cs : Contents) (gfuel : Nat) (mainPath : Str) (hg : globEnds L cs gfuel = true) :
    loadTreeGlobOrder L cs gfuel mainPath ≠ .error .outOfFuel := by
  intro h
  rcases load_glob_total L cs gfuel mainPath with ⟨r, hr⟩ | ⟨p, hp⟩ | ⟨p, hp⟩ | ⟨_, hf⟩
  · rw [hr] at h; cases h
  · rw [hp] at h; cases h
  · rw [hp] at h; cases h
  · rw [hg] at hf; cases hf

/-- Neither fuel is a bound on behaviour: two glob fuels that are enough for the patterns of the contents give the same
answer (`resolve_fuel_irrelevant`, lifted through the loader by `readCnf_congr`), and more loader fuel than
`number of files + 1` gives the same answer (`include_fuel_irrelevant`), at any nesting level. -/
theorem load_glob_fuel_irrelevant (L : Listing) (cs : Contents) (f1 f2 : Nat) (mainPath : Str)
    (h1 : globEnds L cs f1 = true) (h2 : globEnds L cs f2 = true) :
    loadTreeGlobOrder L cs f1 mainPath = loadTreeGlobOrder L cs f2 mainPath ∧
    ∀ extra depth main, readGlob L cs f1 (loadFuel (files cs) + extra) depth main [] =
      readGlob L cs f2 (loadFuel (files cs)) depth main [] := by
  have hc := readCnf_congr (files cs) (resolveIds L cs f1) (resolveIds L cs f2) (resolveIds_fuel L cs f1 f2 h1 h2)
  refine ⟨?_, ?_⟩
  · unfold loadTreeGlobOrder readMain readGlob
    rw [hc]
  · intro extra depth main
    unfold readGlob
    rw [include_fuel_irrelevant, hc]

/-! ## (b) Each canonical file is read at most once -/

/-- The canonical path of the file with id `p`. -/
def locOf (cs : Contents) (p : Path) : Option Loc := (cs[p]?).map (·.1)

/-- Whatever the include patterns name - literal paths, globs, the same file under several spellings or through
links, paths that `get_cnf_path` returns twice - the files read are pairwise different entries of the contents; when
the contents list every canonical file once (`os.walk` does), pairwise different canonical files. -/
theorem each_file_once_glob (L : Listing) (cs : Contents) (gfuel : Nat) (mainPath : Str) (cfg : Config)
    (order : List Path) (h : loadTreeGlobOrder L cs gfuel mainPath = .ok (cfg, order)) :
    order.Nodup ∧ (∀ p ∈ order, p < cs.length) ∧
    ((cs.map (·.1)).Nodup → (order.map (locOf cs)).Nodup) := by
  obtain ⟨cfg0, hraw, _⟩ := load_ok_raw h
  obtain ⟨hnd, hex⟩ := (each_file_once (files cs) (resolveIds L cs gfuel)).1 _ _ _ _ _ hraw
  have hlt : ∀ p ∈ order, p < cs.length := by
    intro p hp
    have := hex p hp
    cases hf : lookupFile (files cs) p with
    | none => simp [hf] at this
    | some fc => exact (lookupFile_files_some hf).choose_spec.2.2.2
  refine ⟨hnd, hlt, ?_⟩
  intro hk
  rw [List.Nodup, List.pairwise_map]
  refine List.Pairwise.imp_of_mem ?_ hnd
  intro a b ha hb hab heq
  apply hab
  have hla := hlt a ha
  have hlb := hlt b hb
  simp only [locOf, List.getElem?_eq_getElem hla, List.getElem?_eq_getElem hlb, Option.map_some,
    Option.some.injEq] at heq
  have hla' : a < (cs.map (·.1)).length := by simpa using hla
  have hlb' : b < (cs.map (·.1)).length := by simpa using hlb
  exact (List.getElem_inj (h₀ := hla') (h₁ := hlb') hk).mp (by simpa using heq)

/-- The call-level statement of `each_file_once` for the composed resolver: a file already loaded contributes nothing
and changes nothing when it is met again within the depth limit, deeper than the limit it is an error. -/
theorem each_file_once_glob_calls (L : Listing) (cs : Contents) (gfuel : Nat) :
    (∀ fuel depth main cfg order, readGlob L cs gfuel fuel depth main [] = .ok (cfg, order) →
      order.Nodup ∧ ∀ p, p ∈ order → (lookupFile (files cs) p).isSome = true) ∧
    (∀ fuel depth path loaded fc, lookupFile (files cs) path = some fc → depth ≤ maxIncludeDepth →
      path ∈ loaded → readGlob L cs gfuel fuel depth path loaded = .ok (Config.empty, loaded)) ∧
    (∀ fuel depth path loaded fc, lookupFile (files cs) path = some fc → depth > maxIncludeDepth →
      readGlob L cs gfuel fuel depth path loaded = .error (.includeTooDeep path)) :=
  each_file_once (files cs) (resolveIds L cs gfuel)

/-! ## (c) Relative includes -/

/-- `q` is named from inside the directory `d`: some path TEXT that has `d` as its literal directory prefix (it is
`d`, or continues `d` after a separator) canonicalises - through whatever links and `..` components the text runs -
to `q`. -/
def NamedBelow (L : Listing) (d q : Loc) : Prop := ∃ t, inDir (dirText d) t = true ∧ canon L t = some q

/-- The closure of the main file `m` under "named from inside the directory of". -/
inductive BelowClosure (L : Listing) (m : Loc) : Loc → Prop
  | main : BelowClosure L m m
  | step {f q : Loc} : BelowClosure L m f → NamedBelow L f.dropLast q → BelowClosure L m q

/-- One include edge of the composed graph that ends in a file: the including file is an entry of the contents, and
the included file is the canonical form of a path `get_cnf_path` returned, which - the include being relative - is
written inside the including file's directory. -/
theorem include_edge (L : Listing) (hL : L.wf = true) (cs : Contents)
    (hnames : ∀ e ∈ cs, ∀ c ∈ e.1, validName c = true)
    (hrel : ∀ e ∈ cs, ∀ pat ∈ e.2.includes, pat.head? ≠ some '/') (gfuel : Nat) (p q : Path)
    (hinc : Includes (files cs) (resolveIds L cs gfuel) p q) (eq : Loc × FileContent Str) (hq : cs[q]? = some eq) :
    ∃ ep pat ps t, cs[p]? = some ep ∧ ep ∈ cs ∧ pat ∈ ep.2.includes ∧
      Glob.resolve L.view gfuel (dirText ep.1.dropLast) pat = .paths ps ∧ t ∈ ps ∧
      inDir (dirText ep.1.dropLast) t = true ∧ canon L t = some eq.1 := by
  obtain ⟨fc, hf, hmem⟩ := hinc
  simp only [includePaths, List.mem_flatMap] at hmem
  obtain ⟨pat, hpat, hmem⟩ := hmem
  obtain ⟨e, he, hfc, hmemcs, _⟩ := lookupFile_files_some hf
  subst hfc
  unfold resolveIds at hmem
  simp only [he] at hmem
  have hqlt : q < cs.length := (List.getElem?_eq_some_iff.mp hq).1
  rcases mem_idsOfResult hmem with ⟨ps, t, hr, ht, hqt⟩ | hb | ⟨hfu, _⟩
  · refine ⟨e, pat, ps, t, he, hmemcs, hpat, hr, ht, ?_, ?_⟩
    · exact relative_include_stays_in_dir L.view (Glob.view_wf L hL) e.1.dropLast
        (fun c hc => hnames e hmemcs c (List.dropLast_subset _ hc)) pat (hrel e hmemcs pat hpat) gfuel ps hr t ht
    · rw [hqt] at hq
      exact idOfPath_getElem hq
  · rw [hb] at hqlt; exact absurd hqlt (by simp [badPatternId])
  · rw [hfu] at hqlt; exact absurd hqlt (by simp [fuelId])

/-- With relative includes only: every file read is in the closure of the main file under "a path written inside the
directory of the including file, canonicalised".  W.r.t. symbolic links this is exact and no more: the TEXT of every
included path has the including file's directory as literal prefix (`relative_include_stays_in_dir`, whatever
characters the directory names contain), the FILE is what that text resolves to - inside the directory tree unless the
text runs through a link or a `..` (`relative_include_leaves_through_link`, `…_through_dotdot`). -/
theorem relative_includes_stay_below (L : Listing) (hL : L.wf = true) (cs : Contents)
    (hnames' : properKeys cs = true) (hrel' : relativeOnly cs = true)
    (gfuel : Nat) (mainPath : Str) (cfg : Config) (order : List Path)
    (h : loadTreeGlobOrder L cs gfuel mainPath = .ok (cfg, order)) :
    ∃ m, cs[idOfPath L cs mainPath]? = some m ∧ canon L mainPath = some m.1 ∧
      ∀ p ∈ order, ∃ e, cs[p]? = some e ∧ BelowClosure L m.1 e.1 := by
  have hnames := (properKeys_iff cs).mp hnames'
  have hrel := (relativeOnly_iff cs).mp hrel'
  obtain ⟨cfg0, hraw, _⟩ := load_ok_raw h
  obtain ⟨hdfs, _, hmain, _⟩ := sections_merged _ _ _ _ _ _ _ hraw
  obtain ⟨_, hex⟩ := (each_file_once (files cs) (resolveIds L cs gfuel)).1 _ _ _ _ _ hraw
  have hentry : ∀ p ∈ order, ∃ e, cs[p]? = some e := by
    intro p hp
    have := hex p hp
    cases hf : lookupFile (files cs) p with
    | none => simp [hf] at this
    | some fc => obtain ⟨e, he, _⟩ := lookupFile_files_some hf; exact ⟨e, he⟩
  obtain ⟨m, hm⟩ := hentry _ hmain
  refine ⟨m, hm, idOfPath_getElem hm, ?_⟩
  have hP := DfsList.induct (files := files cs) (resolve := resolveIds L cs gfuel)
    (fun x => ∀ ex, cs[x]? = some ex → BelowClosure L m.1 ex.1) ?_ hdfs ?_
  · intro p hp
    obtain ⟨e, he⟩ := hentry p hp
    exact ⟨e, he, hP p hp e he⟩
  · intro p q hPp hinc eq hq
    obtain ⟨ep, pat, ps, t, hep, _, _, _, _, hin, hcan⟩ := include_edge L hL cs hnames hrel gfuel p q hinc eq hq
    exact .step (hPp ep hep) ⟨t, hin, hcan⟩
  · intro t ht ex hex'
    simp only [List.mem_singleton] at ht
    subst ht
    rw [hm] at hex'
    cases hex'
    exact .main

/-- PARTIAL (what is missing: deriving `hdd` from the patterns - no component of an include is `..` or begins with
`.`, for glob matches `..` with a component pattern that begins with `.`: `dotdotFree` is a condition on what
`Glob.resolve` RETURNS).  In a listing WITHOUT symbolic links, with
relative includes only, when no path `get_cnf_path` returns has a `..` component: the canonical path of every file
read has the main file's directory as a prefix - the files read lie in the directory tree of the main file.
`filesNotDirs` / the premise of the conclusion: a decodable file is not a directory of the listing, the main
file's directory is one.  All hypotheses are decidable conditions on the input (examples below). -/
theorem relative_includes_stay_below_nolinks_partial (L : Listing) (hL : L.wf = true) (hnl : noLinks L = true)
    (cs : Contents) (hnames' : properKeys cs = true) (hrel' : relativeOnly cs = true)
    (hfiles' : filesNotDirs L cs = true)
    (gfuel : Nat) (mainPath : Str) (cfg : Config) (order : List Path)
    (h : loadTreeGlobOrder L cs gfuel mainPath = .ok (cfg, order))
    (hdd' : dotdotFree L cs gfuel = true) :
    ∃ m, cs[idOfPath L cs mainPath]? = some m ∧
      ((L.lookup m.1.dropLast).isSome = true → ∀ p ∈ order, ∃ e, cs[p]? = some e ∧ m.1.dropLast <+: e.1) := by
  have hnames := (properKeys_iff cs).mp hnames'
  have hrel := (relativeOnly_iff cs).mp hrel'
  have hfiles := (filesNotDirs_iff L cs).mp hfiles'
  have hdd := dotdotFree_spec L cs gfuel hdd'
  obtain ⟨cfg0, hraw, _⟩ := load_ok_raw h
  obtain ⟨hdfs, _, hmain, _⟩ := sections_merged _ _ _ _ _ _ _ hraw
  obtain ⟨_, hex⟩ := (each_file_once (files cs) (resolveIds L cs gfuel)).1 _ _ _ _ _ hraw
  have hentry : ∀ p ∈ order, ∃ e, cs[p]? = some e := by
    intro p hp
    have := hex p hp
    cases hf : lookupFile (files cs) p with
    | none => simp [hf] at this
    | some fc => obtain ⟨e, he, _⟩ := lookupFile_files_some hf; exact ⟨e, he⟩
  obtain ⟨m, hm⟩ := hentry _ hmain
  refine ⟨m, hm, ?_⟩
  intro hD
  have hP := DfsList.induct (files := files cs) (resolve := resolveIds L cs gfuel)
    (fun x => ∀ ex, cs[x]? = some ex → m.1.dropLast <+: ex.1) ?_ hdfs ?_
  · intro p hp
    obtain ⟨e, he⟩ := hentry p hp
    exact ⟨e, he, hP p hp e he⟩
  · intro p q hPp hinc eq hq
    obtain ⟨ep, pat, ps, t, hep, hepm, hpat, hres, ht, hin, hcan⟩ :=
      include_edge L hL cs hnames hrel gfuel p q hinc eq hq
    have h1 : ep.1.dropLast <+: eq.1 :=
      canon_below_nolinks L hnl ep.1.dropLast (fun c hc => hnames ep hepm c (List.dropLast_subset _ hc)) t hin
        (hdd ep hepm pat hpat ps hres t ht) eq.1 hcan
    obtain ⟨k, hk⟩ := hPp ep hep
    have hkne : k ≠ [] := by
      intro hk0
      subst hk0
      rw [List.append_nil] at hk
      have := hfiles ep hepm
      rw [hk, this] at hD
      simp at hD
    have h2 : m.1.dropLast <+: ep.1.dropLast := by
      rw [← hk, List.dropLast_append_of_ne_nil hkne]
      exact List.prefix_append _ _
    exact h2.trans h1
  · intro t ht ex hex'
    simp only [List.mem_singleton] at ht
    subst ht
    rw [hm] at hex'
    cases hex'
    exact List.dropLast_prefix _

/-! ## (d) A later-included file overrides: "later" is the order `Glob.resolve` returns -/

/-- The files are read in THE depth-first first-visit order of the include graph whose edges are, for each file, what
`Glob.resolve` returns for its patterns one after the other, in the order the glob crate's walk returns them
(`includePaths (resolveIds …)`); every `[global]` option ends with the value of the LAST file in that order that
sets it (the including file counts as earliest), every `env` key with the binding of the last file that binds it.
Instance of `sections_merged` and `later_global_wins_all` (all 15 options: `later_global_wins_full` /
`model_merges_every_option` over the regenerated merge block). -/
theorem later_global_wins_glob (L : Listing) (cs : Contents) (gfuel : Nat) (mainPath : Str) (cfg : Config)
    (order : List Path) (h : loadTreeGlobOrder L cs gfuel mainPath = .ok (cfg, order)) :
    DfsList (files cs) (resolveIds L cs gfuel) [idOfPath L cs mainPath] [] order ∧
    (∀ order', DfsList (files cs) (resolveIds L cs gfuel) [idOfPath L cs mainPath] [] order' → order' = order) ∧
    (∀ o : GlobalOpt, o ≠ .env →
      optGet o cfg.global = lastSome (order.map fun p => optGet o (ownOf (files cs) p).global)) ∧
    (∀ k, envLookup k (envOf cfg.global) =
      envLookup k (order.flatMap fun p => envOf (ownOf (files cs) p).global)) := by
  obtain ⟨cfg0, hraw, rfl⟩ := load_ok_raw h
  obtain ⟨hdfs, huniq, _⟩ := sections_merged _ _ _ _ _ _ _ hraw
  obtain ⟨hopt, henv⟩ := later_global_wins_all _ _ _ _ _ _ _ hraw
  rw [dispatch_global]
  exact ⟨hdfs, huniq, hopt, henv⟩

/-- A main file whose one include pattern resolves to two other files `a`, `b` (in this order) that include nothing:
they are read in the order `Glob.resolve` returned them, and for every option the value of `b` - the path returned
LATER - wins over that of `a`, which wins over the main file's. -/
theorem two_file_glob_winner (L : Listing) (cs : Contents) (gfuel : Nat) (mainPath : Str) (cfg : Config)
    (order : List Path) (h : loadTreeGlobOrder L cs gfuel mainPath = .ok (cfg, order))
    (fm fa fb : FileContent Str) (pat : Str) (a b : Path)
    (hm : lookupFile (files cs) (idOfPath L cs mainPath) = some fm) (hinc : fm.includes = [pat])
    (hres : resolveIds L cs gfuel (idOfPath L cs mainPath) pat = [a, b])
    (ha : lookupFile (files cs) a = some fa) (hai : fa.includes = [])
    (hb : lookupFile (files cs) b = some fb) (hbi : fb.includes = [])
    (ham : a ≠ idOfPath L cs mainPath) (hbm : b ≠ idOfPath L cs mainPath) (hab : a ≠ b) :
    order = [idOfPath L cs mainPath, a, b] ∧
    ∀ o : GlobalOpt, o ≠ .env →
      optGet o cfg.global = ((optGet o fb.global).or ((optGet o fa.global).or (optGet o fm.global))) := by
  obtain ⟨_, huniq, hopt, _⟩ := later_global_wins_glob L cs gfuel mainPath cfg order h
  have hd : DfsList (files cs) (resolveIds L cs gfuel) [idOfPath L cs mainPath] [] [idOfPath L cs mainPath, a, b] := by
    have hpm : includePaths (resolveIds L cs gfuel) (idOfPath L cs mainPath) fm = [a, b] := by
      simp [includePaths, hinc, hres]
    have hpa : includePaths (resolveIds L cs gfuel) a fa = [] := by simp [includePaths, hai]
    have hpb : includePaths (resolveIds L cs gfuel) b fb = [] := by simp [includePaths, hbi]
    have hvb : DfsList (files cs) (resolveIds L cs gfuel) [b] ([] ++ [idOfPath L cs mainPath] ++ [a] ++ []) (b :: [] ++ []) :=
      .visit (by simp [hbm, Ne.symm hab]) hb (by rw [hpb]; exact .nil _) (.nil _)
    have hva : DfsList (files cs) (resolveIds L cs gfuel) [a, b] ([] ++ [idOfPath L cs mainPath]) (a :: [] ++ [b]) :=
      .visit (by simpa using ham) ha (by rw [hpa]; exact .nil _) hvb
    have := DfsList.visit (ps := []) (visited := []) (n₂ := []) (by simp) hm (by rw [hpm]; exact hva) (.nil _)
    simpa using this
  have ho : order = [idOfPath L cs mainPath, a, b] := (huniq _ hd).symm
  refine ⟨ho, ?_⟩
  intro o hoe
  rw [hopt o hoe, ho]
  simp only [List.map, ownOf, hm, ha, hb, FileContent.toConfig]
  unfold lastSome
  cases optGet o fb.global <;> cases optGet o fa.global <;> cases optGet o fm.global <;> rfl

/-! ## The judge's input -/

/-- The tree with every include resolved beforehand by the composed resolver - what the driver op `c14_judge_glob` hands
to `Spec.C14.holdsTree` / `Config.loadTreeOrder` - loads exactly as the composed loader does (before `surface`). -/
theorem resolved_tree_loads_alike (L : Listing) (cs : Contents) (gfuel : Nat) (fuel depth : Nat) (main : Path)
    (loaded : List Path) :
    readCnf (resolvedTree L cs gfuel) (fun _ ps => ps) fuel depth main loaded = readGlob L cs gfuel fuel depth main loaded :=
  readCnf_preresolved (files cs) (resolveIds L cs gfuel) (resolvedTree L cs gfuel) (lookupFile_resolvedTree L cs gfuel)
    fuel depth main loaded

theorem resolved_tree_length (L : Listing) (cs : Contents) (gfuel : Nat) :
    (resolvedTree L cs gfuel).length = (files cs).length := by
  have : ∀ (es : Contents) n, (resolvedFrom L cs gfuel n es).length = es.length := by
    intro es
    induction es with
    | nil => intro n; rfl
    | cons e es ih => intro n; simp [resolvedFrom, ih]
  rw [resolvedTree, this, files_length]

/-- `Config.loadTreeOrder` on the resolved tree is the composed `loadTreeGlobOrder` whenever the glob fuel was
enough (otherwise the former says "file not found" where the latter says "out of fuel"). -/
theorem loadTreeOrder_resolved (L : Listing) (cs : Contents) (gfuel : Nat) (mainPath : Str)
    (hg : globEnds L cs gfuel = true) :
    loadTreeOrder (resolvedTree L cs gfuel) (idOfPath L cs mainPath) = loadTreeGlobOrder L cs gfuel mainPath := by
  have hne := load_glob_ends L cs gfuel mainPath hg
  unfold loadTreeOrder
  unfold loadTreeGlobOrder readMain at hne ⊢
  have hfu : loadFuel (resolvedTree L cs gfuel) = loadFuel (files cs) := by
    simp [loadFuel, resolved_tree_length]
  rw [hfu, resolved_tree_loads_alike]
  cases hr : readGlob L cs gfuel (loadFuel (files cs)) 0 (idOfPath L cs mainPath) [] with
  | ok r => simp [surface]
  | error e =>
    rw [hr] at hne
    cases e with
    | fileNotFound p =>
      by_cases hq : p = fuelId cs
      · simp [surface, hq] at hne
      · simp [surface, hq]
    | _ => simp [surface]

/-! ## Concrete witnesses and non-vacuity

(`decide +kernel`: the elaborator's own evaluation of these closed terms runs out of memory, the kernel's takes a second) -/

section Examples

/-- A file that only sets `renew_delay` in its `[global]` table and includes `incs`. -/
def gfile (delay : String) (incs : List String) : FileContent Str :=
  { global := some { renew_delay := some delay }, includes := incs.map String.toList }

def locS (l : List String) : Loc := l.map String.toList

/-- `/r/conf[1]/{main.toml,inc/{a.toml,b.toml}}` next to the look-alike `/r/conf1/inc/a.toml`. -/
def metaTree : Listing :=
  [ ([], openDir [("r", .dir)]),
    ([S "r"], openDir [("conf[1]", .dir), ("conf1", .dir)]),
    ([S "r", S "conf[1]"], openDir [("main.toml", .file), ("inc", .dir)]),
    ([S "r", S "conf[1]", S "inc"], openDir [("b.toml", .file), ("a.toml", .file)]),
    ([S "r", S "conf1"], openDir [("inc", .dir)]),
    ([S "r", S "conf1", S "inc"], openDir [("a.toml", .file)]) ]

def metaContents : Contents :=
  [ (locS ["r", "conf[1]", "main.toml"], gfile "8d" ["inc/*.toml"]),
    (locS ["r", "conf[1]", "inc", "a.toml"], gfile "9d" []),
    (locS ["r", "conf[1]", "inc", "b.toml"], gfile "10d" []),
    (locS ["r", "conf1", "inc", "a.toml"], gfile "77d" []) ]

/-- A directory named like a pattern, a glob that names two files: both are read, in the glob crate's order, the
look-alike sibling is not, and `b.toml` - returned later - wins.  All hypotheses of `relative_includes_stay_below`,
`…_nolinks_partial` and `two_file_glob_winner` hold of this input. -/
example :
    (loadTreeGlobOrder metaTree metaContents 100 (S "/r/conf[1]/main.toml")).toOption.map (·.2) = some [0, 1, 2] ∧
    (loadTreeGlobOrder metaTree metaContents 100 (S "/r/conf[1]/main.toml")).toOption.map
      (fun r => optGet .renew_delay r.1.global) = some (some "10d") ∧
    resolveIds metaTree metaContents 100 0 (S "inc/*.toml") = [1, 2] ∧
    metaTree.wf = true ∧ noLinks metaTree = true ∧ properKeys metaContents = true ∧
    relativeOnly metaContents = true ∧ filesNotDirs metaTree metaContents = true ∧
    dotdotFree metaTree metaContents 100 = true ∧ globEnds metaTree metaContents 100 = true ∧
    idOfPath metaTree metaContents (S "/r/conf[1]/main.toml") = 0 ∧
    (metaTree.lookup (locS ["r", "conf[1]"])).isSome = true := by
  decide +kernel

/-- `/r/{main.toml,inc/{B.toml,a.toml}}`: the glob crate returns names in byte order, `B.toml` before `a.toml`. -/
def caseTree : Listing :=
  [ ([], openDir [("r", .dir)]),
    ([S "r"], openDir [("main.toml", .file), ("inc", .dir)]),
    ([S "r", S "inc"], openDir [("a.toml", .file), ("B.toml", .file)]) ]

def caseContents : Contents :=
  [ (locS ["r", "main.toml"], gfile "1d" ["inc/*.toml"]),
    (locS ["r", "inc", "a.toml"], gfile "2d" []),
    (locS ["r", "inc", "B.toml"], gfile "3d" []) ]

/-- The winner among the `[global]` definitions is decided by the order `Glob.resolve` returns: `a.toml` is returned
(and read) last and wins - not `B.toml`, which a case-insensitive order would put last. -/
example :
    resolveIds caseTree caseContents 100 0 (S "inc/*.toml") = [2, 1] ∧
    (loadTreeGlobOrder caseTree caseContents 100 (S "/r/main.toml")).toOption.map (·.2) = some [0, 2, 1] ∧
    (loadTreeGlobOrder caseTree caseContents 100 (S "/r/main.toml")).toOption.map
      (fun r => optGet .renew_delay r.1.global) = some (some "2d") := by
  decide +kernel

/-- `get_cnf_path` returns `/d/x/x/y` twice for `**/x/**/y` (`resolve_nodup_full_is_false`); the composed loader reads
the file once: the loaded-set absorbs the repetition. -/
theorem duplicate_paths_read_once :
    resolveIds nestedTree [(locS ["d", "main.toml"], gfile "1d" ["**/x/**/y"]), (locS ["d", "x", "x", "y"], gfile "2d" [])]
      40 0 (S "**/x/**/y") = [1, 1] ∧
    (loadTreeGlobOrder nestedTree
      [(locS ["d", "main.toml"], gfile "1d" ["**/x/**/y"]), (locS ["d", "x", "x", "y"], gfile "2d" [])] 40
      (S "/d/main.toml")).toOption.map (·.2) = some [0, 1] := by
  decide +kernel

/-- `/r/a/{main.toml, lnk -> /r/b}`, `/r/b/x.toml`, `/r/x.toml`. -/
def linkTree : Listing :=
  [ ([], openDir [("r", .dir)]),
    ([S "r"], openDir [("a", .dir), ("b", .dir), ("x.toml", .file)]),
    ([S "r", S "a"], openDir [("main.toml", .file), ("lnk", .link (some [S "r", S "b"]))]),
    ([S "r", S "b"], openDir [("x.toml", .file)]) ]

def linkContents (inc : String) : Contents :=
  [ (locS ["r", "a", "main.toml"], gfile "1d" [inc]),
    (locS ["r", "b", "x.toml"], gfile "2d" []),
    (locS ["r", "x.toml"], gfile "3d" []) ]

/-- A relative include whose text stays inside the including file's directory (`/r/a/lnk/x.toml`) reads a file
outside it (`/r/b/x.toml`) when the text runs through a symbolic link: "below the directory" holds of the path as
written, `BelowClosure` follows the link. -/
theorem relative_include_leaves_through_link :
    Glob.resolve linkTree.view 100 (S "/r/a") (S "lnk/x.toml") = .paths [S "/r/a/lnk/x.toml"] ∧
    inDir (S "/r/a") (S "/r/a/lnk/x.toml") = true ∧
    canon linkTree (S "/r/a/lnk/x.toml") = some (locS ["r", "b", "x.toml"]) ∧
    (loadTreeGlobOrder linkTree (linkContents "lnk/x.toml") 100 (S "/r/a/main.toml")).toOption.map (·.2) = some [0, 1] ∧
    (locS ["r", "a"]).isPrefixOf (locS ["r", "b", "x.toml"]) = false ∧
    noLinks linkTree = false := by
  decide +kernel

/-- The same without any link: glob matches `..` with a component pattern that begins with `.`, so the relative
include `.*/x.toml` of `/r/a/main.toml` reads `/r/x.toml` (returned as `/r/a/../x.toml`: inside `/r/a` as written). -/
theorem relative_include_leaves_through_dotdot :
    Glob.resolve linkTree.view 100 (S "/r/a") (S ".*/x.toml") = .paths [S "/r/a/../x.toml"] ∧
    inDir (S "/r/a") (S "/r/a/../x.toml") = true ∧
    (loadTreeGlobOrder linkTree (linkContents ".*/x.toml") 100 (S "/r/a/main.toml")).toOption.map (·.2) = some [0, 2] ∧
    dotdotFree linkTree (linkContents ".*/x.toml") 100 = false := by
  decide +kernel

/-- A pattern the glob crate rejects is the loader's error (reached after the earlier includes were read); an empty
glob and a literal that names nothing are not. -/
example :
    (loadTreeGlobOrder caseTree [(locS ["r", "main.toml"], gfile "1d" ["inc/a.toml", "inc/**x"]),
        (locS ["r", "inc", "a.toml"], gfile "2d" [])] 100 (S "/r/main.toml")).toOption.map (·.2) = none ∧
    resolveIds caseTree [(locS ["r", "main.toml"], gfile "1d" ["inc/a.toml", "inc/**x"]),
        (locS ["r", "inc", "a.toml"], gfile "2d" [])] 100 0 (S "inc/**x") = [3] ∧
    (loadTreeGlobOrder caseTree [(locS ["r", "main.toml"], gfile "1d" ["nothing-*.toml", "inc/absent.toml"])] 100
      (S "/r/main.toml")).toOption.map (·.2) = some [0] := by
  decide +kernel

/-- The main file through another spelling (`/r/inc/../main.toml`) and a cycle back to it: read once. -/
example :
    (loadTreeGlobOrder caseTree [(locS ["r", "main.toml"], gfile "1d" ["inc/a.toml", "./inc/../main.toml"]),
        (locS ["r", "inc", "a.toml"], gfile "2d" ["../*.toml", "/r/inc/a.toml"])] 100
      (S "/r/inc/../main.toml")).toOption.map (·.2) = some [0, 1] := by
  decide +kernel

end Examples

end AcmedVerif.Props.C14Compose
