/-
C04.1 `url_is_post_url` and C04.3 (the key-change object): theorems about
`Model/PostBind.lean` (every call site of `http::post`, its `data_builder`, the request on the wire),
`Model/KeyChange.lean` (`jws.rs` builders, `update_account_key`) and, for who signs the roll-over in an
attempt, `Model/Flow.lean`.

For EVERY signature primitive, directory, set of URLs supplied by the CA, payload data, account
state, request kind, nonce list (first try and retries), and for every run of `Http.post`.
-/
import AcmedVerif.Model.PostBind
import AcmedVerif.Model.KeyChange
import AcmedVerif.Model.Flow
import AcmedVerif.Lemmas.PostBind
import AcmedVerif.Lemmas.FlowKeyChange
import AcmedVerif.Props.C15
import AcmedVerif.Props.C03
import AcmedVerif.Spec.C04

namespace AcmedVerif.Props.C04Bind
open AcmedVerif AcmedVerif.Bytes AcmedVerif.Json AcmedVerif.Jose AcmedVerif.KeyChange
open AcmedVerif.PostBind

/-! ## C04.1 — the protected header names the URL the request is sent to -/

/-- A POST the trace of an attempt (or of an account synchronisation) can give rise to: some signed
exchange of the trace, the account as it was at that moment, any nonces (one per transmission of
the call: first try and retries). -/
def Emits (sg : Signer) (dir : Dir) (u : Urls) (d : Data) (trace : List Flow.Ev) (tx : Tx) : Prop :=
  ∃ k au s r, Flow.Ev.exch k au s r ∈ trace ∧
    ∃ (a : Account) (site : Site) (nonces : List (List Char)),
      (siteOf sg dir u d a k = some site ∨
       (k = .accountProbe ∧ oldKeyProbeSite sg dir.keyChange a = some site)) ∧
      tx ∈ callTxs site nonces

/-- `url_is_post_url` for the query of the account signed by the recorded key (the first request of
a key roll-over since 1fb1c1a): sent to the account URL; header `url` = that URL, `kid` = that URL;
no inner object; the round's nonce. -/
theorem url_is_post_url_old_key_probe (sg : Signer) (dk : List Char) (a : Account) (site : Site)
    (nonces : List (List Char)) (tx : Tx)
    (hs : oldKeyProbeSite sg dk a = some site) (ht : tx ∈ callTxs site nonces) :
    tx.dest = site.url ∧ tx.body.hdr.url = tx.dest ∧ tx.inners = [] ∧
    tx.body.hdr.kid = some site.url ∧ tx.body.hdr.jwk = none ∧ tx.body.payload = [] ∧
    ∃ n ∈ nonces, tx.body.hdr.nonce = some n := by
  obtain ⟨n, hn, hb, hd, hi⟩ := mem_callTxs ht
  obtain ⟨hbind, hinn, p, _, hu, _, hsig⟩ := oldKeyProbeSite_spec hs
  obtain ⟨h1, h2, h3, _⟩ := hbind n site.url tx.body hb
  obtain ⟨h5, h6, _⟩ := hsig n site.url tx.body hb
  refine ⟨hd, by rw [h1, hd], by rw [hi, hinn], by rw [h5, hu], ?_, h6, n, hn, h2⟩
  cases hj : tx.body.hdr.jwk with
  | none => rfl
  | some x => rw [hj] at h3; cases h3

/-- **`url_is_post_url`, per call.**  For every request kind and every transmission of the call
(first try or retry): the request is sent to the call's URL; the `url` member of its protected
header is exactly that URL; every JWS object carried inside its payload (key-change inner object,
external account binding) names that URL too; and its `nonce` member is the nonce `post` handed to
the builder for this round. -/
theorem url_is_post_url (sg : Signer) (dir : Dir) (u : Urls) (d : Data) (a : Account)
    (k : Flow.ReqKind) (site : Site) (nonces : List (List Char)) (tx : Tx)
    (hs : siteOf sg dir u d a k = some site) (ht : tx ∈ callTxs site nonces) :
    tx.dest = site.url ∧ tx.body.hdr.url = tx.dest ∧ (∀ i ∈ tx.inners, i.hdr.url = tx.dest) ∧
    ∃ n ∈ nonces, tx.body.hdr.nonce = some n := by
  obtain ⟨n, hn, hb, hd, hi⟩ := mem_callTxs ht
  obtain ⟨hbind, hinn⟩ := siteOf_spec hs
  obtain ⟨h1, h2, _, _⟩ := hbind n site.url tx.body hb
  refine ⟨hd, by rw [h1, hd], ?_, n, hn, h2⟩
  intro i hm
  rw [hi] at hm
  rw [hd]
  exact hinn i hm

/-- **`url_is_post_url`, for an attempt and for the account synchronisation, retries included.**
Every POST that the trace of `Flow.attempt` (any variant, configuration, world) or of
`Flow.synchronize` can give rise to carries, in its protected header and in every inner object,
exactly the URL it is sent to. -/
theorem url_is_post_url_attempt (sg : Signer) (dir : Dir) (u : Urls) (d : Data) (v : Flow.Variant)
    (cfg : Flow.Cfg) (w : Flow.World) (tx : Tx) :
    (Emits sg dir u d (Flow.attempt v cfg w).2.1 tx ∨
     Emits sg dir u d (Flow.synchronize v w).2.trace tx) →
    tx.body.hdr.url = tx.dest ∧ ∀ i ∈ tx.inners, i.hdr.url = tx.dest := by
  rintro (⟨k, _, _, _, _, a, site, nonces, hs | ⟨_, hs⟩, ht⟩ |
    ⟨k, _, _, _, _, a, site, nonces, hs | ⟨_, hs⟩, ht⟩)
  · obtain ⟨_, h2, h3, _⟩ := url_is_post_url sg dir u d a k site nonces tx hs ht
    exact ⟨h2, h3⟩
  · obtain ⟨_, h2, h3, _⟩ := url_is_post_url_old_key_probe sg dir.keyChange a site nonces tx hs ht
    exact ⟨h2, by rw [h3]; simp⟩
  · obtain ⟨_, h2, h3, _⟩ := url_is_post_url sg dir u d a k site nonces tx hs ht
    exact ⟨h2, h3⟩
  · obtain ⟨_, h2, h3, _⟩ := url_is_post_url_old_key_probe sg dir.keyChange a site nonces tx hs ht
    exact ⟨h2, by rw [h3]; simp⟩

/-- The same on a trace of `Model/Http.lean`: all transmissions of ONE call of `Http.post` (any
retry bound, nonce mode, endpoint state, answer script) are the call site's rounds, one per
`postSend` event, each for the nonce that event carries; hence each goes to the call's URL and says
so in its header. -/
theorem url_is_post_url_http (sg : Signer) (dir : Dir) (u : Urls) (d : Data) (a : Account)
    (k : Flow.ReqKind) (site : Site) (hs : siteOf sg dir u d a k = some site)
    (ut : Nat → List Char) (nt : Option Nat → List Char) (N : Nat) (mode : Http.NonceMode)
    (st : Http.State) (clientOk builderOk : Bool) (url : Nat) (hu : ut url = site.url) :
    txsOfEvs ut nt site.builder site.inners (Http.post N mode st clientOk builderOk url).evs =
      callTxs site ((Http.posts (Http.post N mode st clientOk builderOk url).evs).map
        fun p => nt p.nonce) ∧
    ∀ tx ∈ txsOfEvs ut nt site.builder site.inners (Http.post N mode st clientOk builderOk url).evs,
      tx.dest = ut url ∧ tx.body.hdr.url = tx.dest ∧ ∀ i ∈ tx.inners, i.hdr.url = tx.dest := by
  have he := txsOfEvs_post ut nt site N mode st clientOk builderOk url hu
  refine ⟨he, fun tx ht => ?_⟩
  rw [he] at ht
  obtain ⟨h1, h2, h3, _⟩ := url_is_post_url sg dir u d a k site _ tx hs ht
  exact ⟨by rw [h1, hu], h2, h3⟩

/-- The URL each kind of request is sent to (`none`: no fixed expectation is stated here). -/
def expectedUrl (dir : Dir) (u : Urls) (a : Account) : Flow.ReqKind → Option (List Char)
  | .directory => none
  | .newAccount => some dir.newAccount
  | .accountUpdate => a.ep.map (·.accountUrl)
  | .keyChange => some dir.keyChange
  | .newOrder => some dir.newOrder
  | .authz i => some (u.authz i)
  | .challengeReady c => some (u.chal c)
  | .authzPoll i => some (u.authz i)
  | .orderPoll => some u.order
  | .finalize => some u.finalize
  | .certDownload => some u.cert
  | .accountProbe => a.ep.map (·.accountUrl)

/-- Every call site posts to the URL the protocol step names: the directory's newAccount /
newOrder / keyChange URL, the stored account URL, the authorization / challenge / order / finalize /
certificate URL the CA supplied. -/
theorem site_url_table (sg : Signer) (dir : Dir) (u : Urls) (d : Data) (a : Account)
    (k : Flow.ReqKind) (site : Site) (hs : siteOf sg dir u d a k = some site) :
    expectedUrl dir u a k = some site.url := by
  cases k with
  | directory => cases hs
  | newAccount =>
    rw [(registerSite_some (show registerSite sg dir d a = some site from hs)).1]; rfl
  | accountUpdate =>
    simp only [siteOf] at hs
    cases hep : a.ep with
    | none => rw [hep] at hs; cases hs
    | some ep => rw [hep] at hs; cases hs; simp [expectedUrl, hep]
  | keyChange =>
    simp only [siteOf] at hs
    cases hp : prepare sg dir.keyChange a with
    | none => rw [hp] at hs; cases hs
    | some p =>
      rw [hp] at hs
      cases hs
      obtain ⟨_, _, _, _, _, hu, _⟩ := prepare_some hp
      simp [expectedUrl, hu]
  | newOrder => cases hs; rfl
  | authz i => cases hs; rfl
  | challengeReady c => cases hs; rfl
  | authzPoll i => cases hs; rfl
  | orderPoll => cases hs; rfl
  | finalize => cases hs; rfl
  | certDownload => cases hs; rfl
  | accountProbe =>
    simp only [siteOf] at hs
    cases hep : a.ep with
    | none => rw [hep] at hs; cases hs
    | some ep => rw [hep] at hs; cases hs; simp [expectedUrl, hep]

/-- The text on the wire: the serialised protected header of every transmission ends with
`,"url":"<the destination, JSON-escaped>"}` (`C15.header_members` for the rest of the text). -/
theorem url_member_text (sg : Signer) (dir : Dir) (u : Urls) (d : Data) (a : Account)
    (k : Flow.ReqKind) (site : Site) (nonces : List (List Char)) (tx : Tx)
    (hs : siteOf sg dir u d a k = some site) (ht : tx ∈ callTxs site nonces) :
    ∃ front, tx.body.hdr.render = front ++ ",\"url\":".toList ++ str tx.dest ++ "}".toList := by
  obtain ⟨_, h2, _, _⟩ := url_is_post_url sg dir u d a k site nonces tx hs ht
  unfold Hdr.render
  rw [C15.header_members, h2]
  exact ⟨_, rfl⟩

/-! ## C04.3 — `jwk` / `kid` by kind of request, at header level -/

def kindOf (k : Flow.ReqKind) : Spec.C04.Kind := if k = .newAccount then .newAccount else .other

/-- The header of every transmission has exactly the members the judge `Spec.C04.membersFor`
demands for its kind — `alg, jwk, nonce, url` for account creation, `alg, kid, nonce, url` for every
other request (the outer key-change request included) — and this is the authentication the flow
model's tag `Flow.authOf` records (`FlowMisc.jwk_only_where_allowed`).  The inner objects: `alg, jwk,
url` for the key change, `alg, kid, url` for the external account binding. -/
theorem header_members_by_kind (sg : Signer) (dir : Dir) (u : Urls) (d : Data) (a : Account)
    (k : Flow.ReqKind) (site : Site) (nonces : List (List Char)) (tx : Tx)
    (hs : siteOf sg dir u d a k = some site) (ht : tx ∈ callTxs site nonces) :
    tx.body.hdr.members = Spec.C04.membersFor (kindOf k) ∧
    (tx.body.hdr.jwk.isSome = true ↔ Flow.authOf k = .jwk) ∧
    (tx.body.hdr.kid.isSome = true ↔ Flow.authOf k = .kid) ∧
    (∀ i ∈ tx.inners, i.hdr.members =
      Spec.C04.membersFor (if k = .keyChange then .keyChangeInner else .eabInner)) := by
  obtain ⟨n, hn, hb, hd, hi⟩ := mem_callTxs ht
  obtain ⟨hbind, _⟩ := siteOf_spec hs
  obtain ⟨_, h2, h3, h4⟩ := hbind n site.url tx.body hb
  have hmem : tx.body.hdr.members = Spec.C04.membersFor (kindOf k) := by
    unfold Hdr.members
    rw [h2, h3, h4]
    cases k <;> first | (cases hs; done) | rfl
  refine ⟨hmem, ?_, ?_, ?_⟩
  · rw [h3]; cases k <;> first | (cases hs; done) | simp [Flow.authOf]
  · rw [h4]; cases k <;> first | (cases hs; done) | simp [Flow.authOf]
  · intro i hm
    rw [hi] at hm
    cases k with
    | directory => cases hs
    | newAccount =>
      obtain ⟨_, _, hx⟩ := registerSite_some (show registerSite sg dir d a = some site from hs)
      rcases hx with ⟨_, hx⟩ | ⟨ea, e, _, he, hx⟩
      · rw [hx] at hm; cases hm
      · rw [hx] at hm
        rw [List.mem_singleton.mp hm]
        obtain ⟨_, _, _, hh, _⟩ := eabInner_some he
        rw [hh]; rfl
    | keyChange =>
      simp only [siteOf] at hs
      cases hp : prepare sg dir.keyChange a with
      | none => rw [hp] at hs; cases hs
      | some p =>
        rw [hp] at hs
        cases hs
        rw [List.mem_singleton.mp hm]
        obtain ⟨_, _, _, _, _, _, _, hin⟩ := prepare_some hp
        obtain ⟨_, _, hh, _⟩ := encodeJwk_some hin
        rw [hh]; rfl
    | accountUpdate =>
      simp only [siteOf] at hs
      cases hep : a.ep with
      | none => rw [hep] at hs; cases hs
      | some ep => rw [hep] at hs; cases hs; cases hm
    | newOrder => cases hs; cases hm
    | authz i => cases hs; cases hm
    | challengeReady c => cases hs; cases hm
    | authzPoll i => cases hs; cases hm
    | orderPoll => cases hs; cases hm
    | finalize => cases hs; cases hm
    | certDownload => cases hs; cases hm
    | accountProbe =>
      simp only [siteOf] at hs
      cases hep : a.ep with
      | none => rw [hep] at hs; cases hs
      | some ep => rw [hep] at hs; cases hs; cases hm

/-! ## C04.3 — the key-change object (RFC 8555 §7.3.5) -/

/-- **`key_change_object`.**  Whenever `update_account_key` gets as far as building its request
(`prepare … = some p`) and a transmission with nonce `n` is built (`outerFor … = some o`):

* `old` = `p.oldKey` is a PAST key of the account, the first one whose public-key hash is the hash
  the endpoint record carries (the key that endpoint was last told about: the key the CA holds);
* the INNER JWS is signed by the NEW (current) key with its algorithm; its header is exactly
  `alg` = the new key's algorithm, `jwk` = the new key's public JWK, no `kid`, NO `nonce`, `url` =
  the directory's keyChange URL; its payload is `{"account": <account URL>, "oldKey": <public JWK
  of old>}`;
* the OUTER JWS is signed by the OLD key with the old key's algorithm; its header is exactly
  `alg`, no `jwk`, `kid` = the account URL, `nonce` = `n`, `url` = the keyChange URL, to which it is
  sent; its payload is the serialised inner JWS. -/
theorem key_change_object (sg : Signer) (dirKeyChange : List Char) (a : Account) (p : Prepared)
    (n : List Char) (o : Jws) (hp : prepare sg dirKeyChange a = some p)
    (ho : outerFor sg p n = some o) :
    ∃ ep newJwk oldJwk,
      a.ep = some ep ∧ a.currentKey.jwk = some newJwk ∧ p.oldKey.jwk = some oldJwk ∧
      -- the old key
      (p.oldKey.pemHash = some ep.keyHash ∧ ∃ pre post, a.pastKeys = pre ++ p.oldKey :: post ∧
        ∀ k' ∈ pre, ∃ h', k'.pemHash = some h' ∧ h' ≠ ep.keyHash) ∧
      -- the inner object
      p.inner.hdr = ⟨a.currentKey.alg, some newJwk, none, none, dirKeyChange⟩ ∧
      SignedBy sg a.currentKey.id a.currentKey.alg p.inner ∧
      p.inner.payload = utf8 (rolloverJson ep.accountUrl oldJwk) ∧
      -- the outer object
      p.postUrl = dirKeyChange ∧
      o.hdr = ⟨p.oldKey.alg, none, some ep.accountUrl, some n, dirKeyChange⟩ ∧
      SignedBy sg p.oldKey.id p.oldKey.alg o ∧
      o.payload = utf8 p.inner.render := by
  obtain ⟨ep, oldJwk, hep, hpk, hoj, hurl, hacc, hin⟩ := prepare_some hp
  obtain ⟨newJwk, hnj, hih, hipl, hisg⟩ := encodeJwk_some hin
  unfold outerFor outerBuilder at ho
  obtain ⟨hoh, hopl, hosg⟩ := encodeKid_some ho
  obtain ⟨hh, hfirst⟩ := getPastKey_some hpk
  refine ⟨ep, newJwk, oldJwk, hep, hnj, hoj, ⟨hh, hfirst⟩, hih, hisg, hipl, hurl, ?_, hosg, hopl⟩
  rw [hoh, hacc, hurl]

/-- The texts: the inner protected header is `{"alg":"…","jwk":{…},"url":"…"}` — no `kid`, no
`nonce` member — and the inner payload is `{"account":"…","oldKey":{…}}`. -/
theorem key_change_texts (sg : Signer) (dirKeyChange : List Char) (a : Account) (p : Prepared)
    (hp : prepare sg dirKeyChange a = some p) :
    ∃ ep newJwk oldJwk, a.ep = some ep ∧ a.currentKey.jwk = some newJwk ∧
      p.oldKey.jwk = some oldJwk ∧
      p.inner.hdr.render = "{\"alg\":".toList ++ str a.currentKey.alg ++ ",\"jwk\":".toList ++ newJwk
        ++ ",\"url\":".toList ++ str dirKeyChange ++ "}".toList ∧
      p.inner.payload = utf8 ("{\"account\":".toList ++ str ep.accountUrl ++ ",\"oldKey\":".toList
        ++ oldJwk ++ "}".toList) := by
  obtain ⟨ep, oldJwk, hep, _, hoj, _, _, hin⟩ := prepare_some hp
  obtain ⟨newJwk, hnj, hih, hipl, _⟩ := encodeJwk_some hin
  refine ⟨ep, newJwk, oldJwk, hep, hnj, hoj, ?_, ?_⟩
  · unfold Hdr.render
    rw [C15.header_members, hih]
    simp only [List.append_nil, List.append_assoc]
  · rw [hipl]
    congr 1
    have h1 : str "account".toList = "\"account\"".toList := by decide
    have h2 : str "oldKey".toList = "\"oldKey\"".toList := by decide
    have e1 : "{\"account\":".toList = '{' :: ("\"account\"".toList ++ [':']) := by decide
    have e2 : ",\"oldKey\":".toList = ',' :: ("\"oldKey\"".toList ++ [':']) := by decide
    have e3 : "}".toList = ['}'] := by decide
    rw [e1, e2, e3]
    simp only [rolloverJson, obj, members, member, h1, h2, List.append_assoc, List.cons_append,
      List.nil_append]

/-- Retries of the roll-over: every transmission carries the SAME inner object (it is built once,
before `post` is called); only the outer nonce differs. -/
theorem key_change_retries_same_inner (sg : Signer) (p : Prepared) (n1 n2 : List Char) (o1 o2 : Jws)
    (h1 : outerFor sg p n1 = some o1) (h2 : outerFor sg p n2 = some o2) :
    o1.payload = o2.payload ∧ o1.hdr.url = o2.hdr.url ∧ o1.hdr.kid = o2.hdr.kid ∧
    o1.hdr.alg = o2.hdr.alg ∧ o1.signer = o2.signer ∧
    o1.hdr.nonce = some n1 ∧ o2.hdr.nonce = some n2 := by
  unfold outerFor outerBuilder at h1 h2
  obtain ⟨a1, b1, c1, _⟩ := encodeKid_some h1
  obtain ⟨a2, b2, c2, _⟩ := encodeKid_some h2
  rw [a1, a2, b1, b2, c1, c2]
  exact ⟨rfl, rfl, rfl, rfl, rfl, rfl, rfl⟩

/-- **Who signs the roll-over in an attempt** (`Model/Flow.lean`, current tree, every configuration
and world): every key-change request of the attempt is `kid`-authenticated and signed by the key
RECORDED for the endpoint before the attempt (`recKey`: the key whose hash the endpoint record
carries, i.e. `p.oldKey` above) — never by the new key.  (That this is the key the CA holds at that
moment, and that the roll-over precedes every other `kid` request, is `C11.sync_order_current`.) -/
theorem rollover_outer_signed_by_recorded_key (cfg : Flow.Cfg) (w : Flow.World) (a : Flow.Auth)
    (s : Flow.KeyId) (r : Flow.ExRes)
    (h : .exch .keyChange a s r ∈ (Flow.attempt .current cfg w).2.1) :
    a = .kid ∧ s = w.acc.recKey := by
  obtain ⟨es, he, hp⟩ := Flow.attemptM_kcBy cfg { w with trace := [] }
  have : (Flow.attempt .current cfg w).2.1 = es := by
    show (Flow.attemptM .current cfg { w with trace := [] }).2.trace = es
    rw [he]; simp
  rw [this] at h
  exact hp _ h

/-- The external account binding inside a newAccount payload: HMAC-signed with the configured MAC
key, `kid` = the configured identifier, no `jwk`, no `nonce`, `url` = the newAccount URL (to which
the request is sent), payload = the account key's public JWK. -/
theorem eab_inner_object (sg : Signer) (dir : Dir) (u : Urls) (d : Data) (a : Account) (site : Site)
    (ea : ExtAccount) (hx : d.ext = some ea) (hs : siteOf sg dir u d a .newAccount = some site) :
    ∃ e jwk, site.inners = [e] ∧ site.url = dir.newAccount ∧ a.currentKey.jwk = some jwk ∧
      e.hdr = ⟨ea.alg, none, some ea.identifier, none, dir.newAccount⟩ ∧ e.payload = utf8 jwk ∧
      SignedBy sg ea.macKey ea.alg e := by
  obtain ⟨hu, _, hi⟩ := registerSite_some (show registerSite sg dir d a = some site from hs)
  rcases hi with ⟨hn, _⟩ | ⟨ea', e, hx', he, hi⟩
  · rw [hx] at hn; cases hn
  · rw [hx] at hx'
    cases hx'
    obtain ⟨jwk, hj, _, hh, hpl, hsg⟩ := eabInner_some he
    exact ⟨e, jwk, hi, hu, hj, hh, hpl, hsg⟩

/-! ## Non-vacuity -/

/-- A signature primitive that never fails. -/
def sgEx : Signer := fun id _ msg => some [UInt8.ofNat id, UInt8.ofNat msg.length]

def newKey : Key := ⟨101, "ES256".toList, some "{\"kty\":\"EC\"}".toList, some [1]⟩
def oldKey : Key := ⟨100, "RS256".toList, some "{\"kty\":\"RSA\"}".toList, some [0]⟩
def olderKey : Key := ⟨99, "RS256".toList, some "{\"kty\":\"RSA\",\"n\":\"x\"}".toList, some [9]⟩

def acctUrl : List Char := "https://ca.test/acct/1".toList
def dirEx : Dir := ⟨"https://ca.test/new-acct".toList, "https://ca.test/new-order".toList,
  "https://ca.test/key-change".toList⟩

/-- Account whose endpoint record still carries the hash of `oldKey`. -/
def acctEx : Account := ⟨newKey, [olderKey, oldKey], some ⟨acctUrl, [0]⟩⟩

def urlsEx : Urls where
  authz := fun i => "https://ca.test/authz/".toList ++ Nat.toDigits 10 i
  chal := fun c => "https://ca.test/chal/".toList ++ Nat.toDigits 10 c
  order := "https://ca.test/order/1".toList
  finalize := "https://ca.test/order/1/finalize".toList
  cert := "https://ca.test/cert/1".toList

def dataEx : Data where
  contacts := ["mailto:a@example.org".toList]
  tos := true
  ext := some ⟨"kid-1".toList, 7, "HS256".toList⟩
  accountUpdate := utf8 "{\"contact\":[]}".toList
  newOrder := utf8 "{\"identifiers\":[]}".toList
  csr := utf8 "{\"csr\":\"AA\"}".toList

structure InnerView where
  url      : List Char
  hasJwk   : Bool
  hasNonce : Bool
  signer   : Nat
  deriving DecidableEq, Repr

/-- What the examples read off a transmission. -/
structure View where
  dest   : List Char
  url    : List Char
  kid    : Option (List Char)
  hasJwk : Bool
  signer : Nat
  inners : List InnerView
  deriving DecidableEq, Repr

def view (tx : Tx) : View :=
  ⟨tx.dest, tx.body.hdr.url, tx.body.hdr.kid, tx.body.hdr.jwk.isSome, tx.body.signer,
   tx.inners.map fun i => ⟨i.hdr.url, i.hdr.jwk.isSome, i.hdr.nonce.isSome, i.signer⟩⟩

def nonce1 : List Char := "n1".toList
def nonce2 : List Char := "n2".toList

/-- The roll-over is prepared, and two transmissions (first try, retry) go to the keyChange URL,
say so, have `kid`, are signed by key 100 (old); the inner object names the same URL, has `jwk`, no
nonce, and is signed by key 101 (new). -/
example : ((siteOf sgEx dirEx urlsEx dataEx acctEx .keyChange).map fun s =>
      (callTxs s [nonce1, nonce2]).map view) =
    some [⟨dirEx.keyChange, dirEx.keyChange, some acctUrl, false, 100,
            [⟨dirEx.keyChange, true, false, 101⟩]⟩,
          ⟨dirEx.keyChange, dirEx.keyChange, some acctUrl, false, 100,
            [⟨dirEx.keyChange, true, false, 101⟩]⟩] := by decide +kernel

/-- The old key found is the second past key (the first has another hash). -/
example : (prepare sgEx dirEx.keyChange acctEx).map (·.oldKey.id) = some 100 := by decide +kernel

/-- The inner payload names the account URL and the OLD key. -/
example : (prepare sgEx dirEx.keyChange acctEx).map (·.inner.payload) =
    some (utf8 "{\"account\":\"https://ca.test/acct/1\",\"oldKey\":{\"kty\":\"RSA\"}}".toList) := by
  decide +kernel

/-- The inner protected header as text. -/
example : (prepare sgEx dirEx.keyChange acctEx).map (·.inner.hdr.render) =
    some "{\"alg\":\"ES256\",\"jwk\":{\"kty\":\"EC\"},\"url\":\"https://ca.test/key-change\"}".toList := by
  decide +kernel

/-- Account creation with an external account: sent to newAccount, `jwk`, no `kid`; the binding
names the same URL, has `kid` (no `jwk`), no nonce, and is signed by the MAC key 7. -/
example : ((siteOf sgEx dirEx urlsEx dataEx acctEx .newAccount).map fun s =>
      (callTxs s [nonce1]).map view) =
    some [⟨dirEx.newAccount, dirEx.newAccount, none, true, 101,
            [⟨dirEx.newAccount, false, false, 7⟩]⟩] := by decide +kernel

/-- A challenge "ready" POST and a finalize: each to its own URL. -/
example : ((siteOf sgEx dirEx urlsEx dataEx acctEx (.challengeReady 5)).map fun s =>
      (callTxs s [nonce1]).map view) =
    some [⟨"https://ca.test/chal/5".toList, "https://ca.test/chal/5".toList, some acctUrl, false, 101,
           []⟩] := by decide +kernel

/-- An account without endpoint record cannot build any `kid` request: nothing is sent. -/
example : ((siteOf sgEx dirEx urlsEx dataEx { acctEx with ep := none } .finalize).map fun s =>
      (callTxs s [nonce1]).length) = some 0 := by decide +kernel

/-- `Emits` is inhabited for a real attempt trace: the CA answers the check of the account and
refuses the roll-over, the attempt's trace is `[directory, account query signed by 100, keyChange
signed by 100]`, and the first transmission of that key change is one of the POSTs the theorem
speaks about. -/
def wEx : Flow.World :=
  ⟨[.ok (.directory true), .ok .undecodable, .acmeErr .other], [], [], ⟨none, none⟩, 0, true,
   ⟨true, true, true, true, 101, 100, 100, true⟩, []⟩

example : (Flow.attempt .current C03.cfg1 wEx).2.1 =
    [.exch .directory .none 0 (.ok (.directory true)),
     .exch .accountProbe .kid 100 (.ok .undecodable),
     .exch .keyChange .kid 100 (.acmeErr .other)] := by decide +kernel

example : ∃ tx, Emits sgEx dirEx urlsEx dataEx (Flow.attempt .current C03.cfg1 wEx).2.1 tx ∧
    tx.dest = dirEx.keyChange := by
  have hp : (prepare sgEx dirEx.keyChange acctEx).isSome = true := by decide +kernel
  obtain ⟨p, hp'⟩ := Option.isSome_iff_exists.mp hp
  have hsite : siteOf sgEx dirEx urlsEx dataEx acctEx .keyChange =
      some ⟨p.postUrl, outerBuilder sgEx p, [p.inner]⟩ := by
    simp only [siteOf, hp']
  obtain ⟨_, _, _, _, _, hurl, _, _⟩ := prepare_some hp'
  have ho : (outerBuilder sgEx p nonce1 p.postUrl).isSome = true := by
    simp [outerBuilder, encodeKid, getJwsData, sgEx]
  obtain ⟨o, ho'⟩ := Option.isSome_iff_exists.mp ho
  refine ⟨⟨p.postUrl, o, [p.inner]⟩, ⟨.keyChange, .kid, 100, .acmeErr .other, by decide +kernel,
    acctEx, _, [nonce1], .inl hsite, ?_⟩, hurl⟩
  simp only [callTxs, roundTx, List.filterMap_cons, List.filterMap_nil, ho', List.mem_singleton]

end AcmedVerif.Props.C04Bind
