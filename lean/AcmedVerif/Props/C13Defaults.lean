/-
C13, the default clause: "private keys and account files … are never readable by group or others
unless the administrator asked for it".  With nothing configured the modes are the constants of
`main.rs`, regenerated from the source into `Gen/Consts.lean` at every run; this file ties those
constants to the sentence, for EVERY umask (a statement over all naturals, not a sample), through
the model's `created_mode`.
-/
import AcmedVerif.Gen.Consts
import AcmedVerif.Model.Storage
import AcmedVerif.Spec.C13
import AcmedVerif.Lemmas.Storage
import AcmedVerif.Props.C13

namespace AcmedVerif.Props.C13Defaults
open AcmedVerif.Fs AcmedVerif.Storage
open AcmedVerif.Props.C13

/-- The regenerated constants are the documented defaults. -/
theorem default_mode_constants :
    AcmedVerif.Gen.DEFAULT_PK_FILE_MODE = 0o600 ∧
    AcmedVerif.Gen.DEFAULT_ACCOUNT_FILE_MODE = 0o600 ∧
    AcmedVerif.Gen.DEFAULT_CERT_FILE_MODE = 0o644 := by
  decide

/-- With no `pk_file_mode`/`cert_file_mode` in the configuration the model uses exactly those
constants for the three file types. -/
theorem default_settings_modes :
    modeFor {} .privateKey = AcmedVerif.Gen.DEFAULT_PK_FILE_MODE ∧
    modeFor {} .certificate = AcmedVerif.Gen.DEFAULT_CERT_FILE_MODE ∧
    ∀ s : Settings, modeFor s .account = AcmedVerif.Gen.DEFAULT_ACCOUNT_FILE_MODE :=
  ⟨rfl, rfl, fun _ => rfl⟩

/-- Arithmetic core, all umasks: a default key/account mode masked by ANY umask has no group/other
permission bit — indeed no bit outside owner read/write — and is accepted by the judge's
`isPrivate`. -/
theorem default_masked_private (umask : Nat) :
    maskMode AcmedVerif.Gen.DEFAULT_PK_FILE_MODE umask &&& 0o077 = 0 ∧
    maskMode AcmedVerif.Gen.DEFAULT_ACCOUNT_FILE_MODE umask &&& 0o077 = 0 ∧
    Spec.C13.isPrivate (maskMode AcmedVerif.Gen.DEFAULT_PK_FILE_MODE umask) = true ∧
    Spec.C13.isPrivate (maskMode AcmedVerif.Gen.DEFAULT_ACCOUNT_FILE_MODE umask) = true ∧
    (∀ c, 0o600 &&& c = 0 →
      maskMode AcmedVerif.Gen.DEFAULT_PK_FILE_MODE umask &&& c = 0 ∧
      maskMode AcmedVerif.Gen.DEFAULT_ACCOUNT_FILE_MODE umask &&& c = 0) := by
  have h : ∀ c, 0o600 &&& c = 0 →
      maskMode AcmedVerif.Gen.DEFAULT_PK_FILE_MODE umask &&& c = 0 ∧
      maskMode AcmedVerif.Gen.DEFAULT_ACCOUNT_FILE_MODE umask &&& c = 0 := by
    intro c hc
    unfold maskMode
    exact ⟨and_and_eq_zero _ _ _ hc, and_and_eq_zero _ _ _ hc⟩
  have h77 := h 0o077 (by decide)
  refine ⟨h77.1, h77.2, ?_, ?_, h⟩
  · simp [Spec.C13.isPrivate, h77.1]
  · simp [Spec.C13.isPrivate, h77.2]

/-- **Default key files are private under every umask.**  For every process (any umask, any ids),
environment, file system, path and content: a private-key file created by `write_file` with the
default settings has mode `0o600 &&& ~umask` exactly (`created_mode`), hence no group/other bit. -/
theorem default_key_created_private (trunc : Trunc) (env : Env) (proc : Proc) (fs : Fs)
    (p : Path) (data : List UInt8) (hnew : get fs p = none)
    (hpre : env.hookOk (preHook (get fs p).isNone) = true) :
    ∃ f, get (writeFile trunc env proc {} fs .privateKey p data).fs p = some f ∧
      f.mode = maskMode 0o600 proc.umask ∧ f.mode &&& 0o077 = 0 ∧
      Spec.C13.isPrivate f.mode = true := by
  obtain ⟨f, hf, hm⟩ := created_mode trunc env proc {} fs .privateKey p data hnew hpre (by decide)
  have hm' : f.mode = maskMode AcmedVerif.Gen.DEFAULT_PK_FILE_MODE proc.umask := hm
  obtain ⟨h1, _, h3, _, _⟩ := default_masked_private proc.umask
  exact ⟨f, hf, hm', by rw [hm']; exact h1, by rw [hm']; exact h3⟩

/-- **Account files are private under every umask, whatever is configured** (their mode is not
configurable: the constant of `main.rs`). -/
theorem account_created_private (trunc : Trunc) (env : Env) (proc : Proc) (s : Settings) (fs : Fs)
    (p : Path) (data : List UInt8) (hnew : get fs p = none)
    (hpre : env.hookOk (preHook (get fs p).isNone) = true) :
    ∃ f, get (writeFile trunc env proc s fs .account p data).fs p = some f ∧
      f.mode = maskMode 0o600 proc.umask ∧ f.mode &&& 0o077 = 0 ∧
      Spec.C13.isPrivate f.mode = true := by
  obtain ⟨f, hf, hm⟩ := created_mode trunc env proc s fs .account p data hnew hpre
    (by show AcmedVerif.Gen.DEFAULT_ACCOUNT_FILE_MODE &&& 0o6000 = 0; decide)
  have hm' : f.mode = maskMode AcmedVerif.Gen.DEFAULT_ACCOUNT_FILE_MODE proc.umask := hm
  obtain ⟨_, h2, _, h4, _⟩ := default_masked_private proc.umask
  exact ⟨f, hf, hm', by rw [hm']; exact h2, by rw [hm']; exact h4⟩

/-- Both at once, in the words of the property: for EVERY umask, a key or account file created
with the default mode has no group/other permission bit. -/
theorem default_secret_files_private (trunc : Trunc) (env : Env) (proc : Proc) (fs : Fs)
    (t : FileType) (ht : t = .privateKey ∨ t = .account)
    (p : Path) (data : List UInt8) (hnew : get fs p = none)
    (hpre : env.hookOk (preHook (get fs p).isNone) = true) :
    ∃ f, get (writeFile trunc env proc {} fs t p data).fs p = some f ∧ f.mode &&& 0o077 = 0 := by
  rcases ht with rfl | rfl
  · obtain ⟨f, hf, _, h, _⟩ := default_key_created_private trunc env proc fs p data hnew hpre
    exact ⟨f, hf, h⟩
  · obtain ⟨f, hf, _, h, _⟩ := account_created_private trunc env proc {} fs p data hnew hpre
    exact ⟨f, hf, h⟩

/-- Certificates are public by default (`0o644`): the created mode is `0o644 &&& ~umask`; it is the
umask, not the default, that may restrict them. -/
theorem default_cert_created_mode (trunc : Trunc) (env : Env) (proc : Proc) (fs : Fs)
    (p : Path) (data : List UInt8) (hnew : get fs p = none)
    (hpre : env.hookOk (preHook (get fs p).isNone) = true) :
    ∃ f, get (writeFile trunc env proc {} fs .certificate p data).fs p = some f ∧
      f.mode = maskMode 0o644 proc.umask :=
  created_mode trunc env proc {} fs .certificate p data hnew hpre (by decide)

/-! ### Non-vacuity -/

/-- The hypotheses are satisfiable, and the masks really act: umask `0o022` leaves `0o600`, umask
`0o277` leaves `0o400`, and a certificate under `0o022` is `0o644`. -/
example :
    (get (writeFile .yes Env.allOk { umask := 0o022, uid := 0, gid := 0 } {} [] .privateKey
      "k.pem".toList [1]).fs "k.pem".toList).map (·.mode) = some 0o600 ∧
    (get (writeFile .yes Env.allOk { umask := 0o277, uid := 0, gid := 0 } {} [] .account
      "a.bin".toList [1]).fs "a.bin".toList).map (·.mode) = some 0o400 ∧
    (get (writeFile .yes Env.allOk { umask := 0o022, uid := 0, gid := 0 } {} [] .certificate
      "c.pem".toList [1]).fs "c.pem".toList).map (·.mode) = some 0o644 := by
  decide

/-- Were a default changed to `0o640`, `default_masked_private` would be false (umask 0). -/
example : maskMode 0o640 0 &&& 0o077 ≠ 0 := by decide

end AcmedVerif.Props.C13Defaults
