/-
C20 — "With the hook groups shipped in default_hooks.toml (http-01-echo, tls-alpn-01-tacd-tcp,
tls-alpn-01-tacd-unix, git) configured as the manual describes, a conforming CA's http-01 or
tls-alpn-01 validation of every DNS identifier succeeds, the proof being reachable at the documented
path, address or socket with the expected content, at the first issuance and at every later renewal.
After validation the clean hooks leave no proof file, responder process, pid file or socket behind
that would block a later run, and the git group records every stored file in a commit."

The hooks are `Gen.defaultHooks` / `Gen.defaultGroups` — the shipped TOML itself, regenerated on every
run — interpreted by `Model/HooksWorld.lean`.  PARTIAL CLAIM: the semantics of mkdir, echo, chmod, rm,
pkill, git and of the tacd daemon are ASSUMPTIONS of that model (validated against the real commands
by the harness, not verified); the model is sequential (no race between the daemonised tacd and the
CA; observation b is judged on the real run).

Abbreviations (`Lemmas/HooksWorld.lean`): `httpGroup = groupHooks defaultHooks defaultGroups
"http-01-echo"`, likewise `tcpGroup`, `unixGroup`, `gitGroup`; `oldTcpGroup` / `oldUnixGroupHooks` are the
same groups resolved in `oldDefaultHooks defaultHooks` / `oldDefaultGroups defaultGroups` (the file as it
was before commits 3552932 and 11d63da).  `httpIssuances`, `tcpIssuances`, `unixIssuances` = `issuances`
for the group with the CA's verdict read at the documented path / address / socket.
-/
import AcmedVerif.Model.HooksWorld
import AcmedVerif.Gen.DefaultHooks
import AcmedVerif.Lemmas.HooksWorld
import AcmedVerif.Spec.C20

namespace AcmedVerif.Props.C20
open AcmedVerif.HooksWorld AcmedVerif.Gen

/-! ## http-01-echo -/

/-- **C20.1, http-01.** For every environment (HTTP_ROOT set or defaulted to /var/www), identifier,
token and proof, from ANY world in which the proof path can be created (`HttpReady`: not under an
unwritable prefix, no directory/socket sitting there, the challenge directory exists or can be made):
the challenge hooks all succeed and the file at the DOCUMENTED path
`<HTTP_ROOT|/var/www>/<identifier>/.well-known/acme-challenge/<token>` exists with content
`proof ++ "\n"` and is world-readable — so a conforming CA validates.
NOT modelled: search permission on the intermediate directories.  `mkdir -m 0755 -p` applies 0755 to
the LAST directory only; `<root>/<identifier>` and `.well-known` get 0777 & ~umask, i.e. 0750 when
acmed runs daemonised (`Daemonize` sets umask 027), which a web server of another user cannot enter. -/
theorem http01_reachable (w : World) (env : String → Option String) (c : Challenge)
    (hr : HttpReady w env c) (ht : TokenOk c) :
    httpDocPath env c =
      envOr env "HTTP_ROOT" "/var/www" ++ "/" ++ c.identifier ++ "/.well-known/acme-challenge/" ++
        c.fileName ∧
    (runHooks w (groupHooks defaultHooks defaultGroups "http-01-echo") "challenge-http-01"
      c.vars env).2 = true ∧
    getFile (runHooks w (groupHooks defaultHooks defaultGroups "http-01-echo") "challenge-http-01"
      c.vars env).1 (httpDocPath env c) = some ⟨c.proof ++ "\n", true⟩ ∧
    http01Validates (runHooks w (groupHooks defaultHooks defaultGroups "http-01-echo")
      "challenge-http-01" c.vars env).1 env c = true := by
  obtain ⟨h1, h2, _⟩ := http_challenge_spec w env c hr ht
  refine ⟨rfl, h1, h2, ?_⟩
  have h2' : getFile (runHooks w httpGroup "challenge-http-01" c.vars env).1 (httpDocPath env c)
      = some ⟨c.proof ++ "\n", true⟩ := h2
  show http01Validates (runHooks w httpGroup "challenge-http-01" c.vars env).1 env c = true
  simp [http01Validates, h2']

/-- The literal reading "from any world in which the root directory exists and is writable" is false
of hooks and code as they are: if a DIRECTORY sits at the proof path, `File::create` for the echo
hook's stdout fails (`hooks.rs:119`), the challenge hooks abort and nothing is served.  `HttpReady` is
the complement of this (decidable) class of worlds. -/
theorem http01_reachable_full_is_false :
    ∃ (w : World) (env : String → Option String) (c : Challenge), TokenOk c ∧
      isBlocked w (httpDocPath env c) = false ∧
      (runHooks w (groupHooks defaultHooks defaultGroups "http-01-echo") "challenge-http-01"
        c.vars env).2 = false := by
  refine ⟨{ World.empty with dirs := ["/var/www/a.example/.well-known/acme-challenge/tok"] },
    fun _ => none, ⟨"a.example", "a.example", "http-01", "tok", "tok.thumb"⟩, ?_, ?_, ?_⟩
  · exact ⟨by decide, by decide⟩
  · rfl
  · decide

/-- **C20.2, http-01.** After validation and the clean hooks the proof file is gone; the three
stages all succeeded. -/
theorem http01_clean (w : World) (env : String → Option String) (c : Challenge)
    (hr : HttpReady w env c) (ht : TokenOk c) :
    (httpCycle env w c).1 = true ∧ (httpCycle env w c).2.1 = true ∧ (httpCycle env w c).2.2.1 = true ∧
    getFile (httpCycle env w c).2.2.2 (httpDocPath env c) = none := by
  obtain ⟨h1, h2, h3, h4, _⟩ := http_cycle_spec w env c hr ht
  exact ⟨h1, h2, h3, h4⟩

/-- **C20.1/2, http-01, every renewal.** For every number of issuances of the same identifier
(`cs`: one challenge — token, proof — per issuance, any length), each of whose proof paths is creatable
in the initial world: every issuance's challenge hooks succeed, the CA validates, the clean hooks
succeed.  (Induction over the list; the invariant is `HttpReady` for the remaining challenges.) -/
theorem http01_repeatable (w : World) (env : String → Option String) (id : String)
    (cs : List Challenge)
    (h : ∀ c ∈ cs, c.identifier = id ∧ TokenOk c ∧ HttpReady w env c) :
    (httpIssuances env w cs).1 = cs.map (fun _ => true) :=
  http_issuances_all env id cs w h

/-! ## tls-alpn-01-tacd-tcp -/

/-- **C20.1, tacd over TCP: the rendered command line.** For every environment and challenge the start
hook runs `tacd --pid-file <TACD_PID_ROOT|/run>/tacd_<identifier>.pid --domain <identifier_tls_alpn>
--acme-ext <proof> --listen <TACD_HOST|identifier>:<TACD_PORT|5001>` — the address the manual documents. -/
theorem tacd_tcp_listen_documented (env : String → Option String) (c : Challenge) :
    (hookNamed "tls-alpn-01-tacd-start-tcp").cmd = "tacd" ∧
    (hookNamed "tls-alpn-01-tacd-start-tcp").args.map (fun t => render t c.vars env) =
      ["--pid-file", envOr env "TACD_PID_ROOT" "/run" ++ "/tacd_" ++ c.identifier ++ ".pid",
       "--domain", c.identifierTlsAlpn, "--acme-ext", c.proof,
       "--listen", envOr env "TACD_HOST" c.identifier ++ ":" ++ envOr env "TACD_PORT" "5001"] := by
  rw [hookNamed_all.2.2.2.2.1]
  simp [defaultHooks, render, renderTok_envLit, renderTok_envVar, renderTok_lit, renderTok_var,
    Challenge.vars, String.append_assoc]

/-- … and tacd accepts it: whenever the host part is non-empty, the port part is a port number and
the whole does not start with `unix:`, `--listen` parses as that host and port. -/
theorem tacd_tcp_listen_parses (env : String → Option String) (c : Challenge) (n : Nat)
    (hu : "unix:".toList.isPrefixOf (tcpDocListen env c).toList = false)
    (hc : ':' ∉ (envOr env "TACD_PORT" "5001").toList)
    (hp : parsePort (envOr env "TACD_PORT" "5001").toList = some n)
    (hh : envOr env "TACD_HOST" c.identifier ≠ "") :
    parseListen (tcpDocListen env c) = some (.tcp (envOr env "TACD_HOST" c.identifier) n) :=
  parseListen_tcp _ _ n hu hc hp hh

/-- **C20.1/2, tacd over TCP, every renewal.** From any world that is ready for the pid file `P` and
the address `host:port` (`TcpReady`: pid file creatable and not locked by a live process, the host is
an address of this machine, the address is free), for every number of issuances whose rendered pid
file is `P` and whose rendered `--listen` parses as `host:port`: every issuance is validated by a CA
that reaches `host:port`, and afterwards the world is ready again, with exactly the responders it
had before and no pid file. -/
theorem tacd_tcp_repeatable (w : World) (env : String → Option String) (P host : String) (port : Nat)
    (cs : List Challenge) (hr : TcpReady w P host port)
    (h : ∀ c ∈ cs, pidDocPath env c = P ∧
      parseListen (tcpDocListen env c) = some (.tcp host port)) :
    (tcpIssuances env (.tcp host port) w cs).1 = cs.map (fun _ => true) ∧
    TcpReady (tcpIssuances env (.tcp host port) w cs).2 P host port ∧
    (tcpIssuances env (.tcp host port) w cs).2.responders = w.responders ∧
    (cs ≠ [] → getPid (tcpIssuances env (.tcp host port) w cs).2 P = none) :=
  tcp_issuances_all env P host port cs w hr h

/-- **History (observation g).** With the start hook as shipped before the repair the rendered
`--listen` is the bare port; for every environment whose TACD_PORT (set or defaulted) contains no
':' — every port number — tacd rejects it ("invalid socket address"): the hook still "succeeds"
(tacd has daemonised) but NO responder is added, so no CA can validate. -/
theorem tacd_tcp_old_is_false (w : World) (env : String → Option String) (c : Challenge)
    (hport : ':' ∉ (envOr env "TACD_PORT" "5001").toList) :
    (runHooks w oldTcpGroup "challenge-tls-alpn-01" c.vars env).2 = true ∧
    (runHooks w oldTcpGroup "challenge-tls-alpn-01" c.vars env).1.responders = w.responders ∧
    ((∀ r ∈ w.responders, r.ext ≠ c.proof) → ∀ l,
      tlsAlpnValidates (runHooks w oldTcpGroup "challenge-tls-alpn-01" c.vars env).1 l c = false) := by
  obtain ⟨h1, h2⟩ := tcpOld_challenge w env c hport
  refine ⟨h1, h2, fun hno l => ?_⟩
  apply tlsAlpnValidates_false
  intro r hr _
  rw [h2] at hr
  exact hno r hr

/-! ## tls-alpn-01-tacd-unix -/

/-- **C20.1/2, tacd on a unix socket, every renewal.** From any world ready for pid file `P` and socket
`S` (`UnixReady`: both creatable, the pid file not locked, NOTHING at the socket path), for every number
of issuances rendering to `P` and `S`: at every issuance the bind succeeds — because the clean hooks
of the previous one removed pid file AND socket — the CA reaching the documented socket validates,
the responder is killed, and the world is ready again. -/
theorem tacd_unix_repeatable (w : World) (env : String → Option String) (P S : String)
    (cs : List Challenge) (hr : UnixReady w P S)
    (h : ∀ c ∈ cs, pidDocPath env c = P ∧ unixDocSock env c = S) :
    (unixIssuances unixGroup env (.unix S) w cs).1 = cs.map (fun _ => true) ∧
    UnixReady (unixIssuances unixGroup env (.unix S) w cs).2 P S ∧
    (unixIssuances unixGroup env (.unix S) w cs).2.responders = w.responders ∧
    (cs ≠ [] → getPid (unixIssuances unixGroup env (.unix S) w cs).2 P = none) :=
  unix_issuances_all env P S cs w hr h

/-- The documented pid file and socket paths never coincide (…`.pid` vs …`.sock`), for every
environment and identifier — `UnixReady.ne` is always satisfiable for them. -/
theorem tacd_pid_ne_sock (env : String → Option String) (c : Challenge) :
    pidDocPath env c ≠ unixDocSock env c := pid_ne_sock env c

/-- **C20.2, tacd: nothing is left.** After one complete cycle of either tacd group from a ready
world: the three stages succeeded, there is no pid file, nothing at the socket path, and the running
responders are exactly those from before (the one started has been killed, its address released). -/
theorem tacd_clean_leaves_nothing (w : World) (env : String → Option String) (c : Challenge) :
    (∀ host port, TcpReady w (pidDocPath env c) host port →
      parseListen (tcpDocListen env c) = some (.tcp host port) →
      tcpCycle env (.tcp host port) w c = (true, true, true, afterTcp w (pidDocPath env c)) ∧
      getPid (afterTcp w (pidDocPath env c)) (pidDocPath env c) = none ∧
      (afterTcp w (pidDocPath env c)).responders = w.responders ∧
      tcpBound (afterTcp w (pidDocPath env c)) host port = false) ∧
    (UnixReady w (pidDocPath env c) (unixDocSock env c) →
      unixCycle unixGroup env (.unix (unixDocSock env c)) w c =
        (true, true, true, afterUnix w (pidDocPath env c) (unixDocSock env c)) ∧
      getPid (afterUnix w (pidDocPath env c) (unixDocSock env c)) (pidDocPath env c) = none ∧
      existsPath (afterUnix w (pidDocPath env c) (unixDocSock env c)) (unixDocSock env c) = false ∧
      (afterUnix w (pidDocPath env c) (unixDocSock env c)).responders = w.responders) := by
  constructor
  · intro host port hr hA
    refine ⟨tcp_cycle_spec w env c host port hr hA, ?_, rfl, ?_⟩
    · simp [getPid, afterTcp, lookup_erase_self]
    · exact (tcpReady_after w _ host port hr).free
  · intro hr
    obtain ⟨h1, h2, h3⟩ := afterUnix_clean w _ _ hr
    exact ⟨unix_cycle_spec w env c hr, h1, h2, h3⟩

/-- **History (observation s).** With the unix group as shipped before the repair (no rm-sock hook):
the first issuance from a ready world is validated, but its clean hooks leave the socket file; at the
second issuance the start hook still "succeeds" while the bind fails on the left-over socket, so no
responder runs and — unless some other process happens to serve the right proof there — the CA's
validation fails.  For every environment and every pair of challenges of the same identifier. -/
theorem tacd_unix_old_is_false (w : World) (env : String → Option String) (c1 c2 : Challenge)
    (hr : UnixReady w (pidDocPath env c1) (unixDocSock env c1))
    (hid : c2.identifier = c1.identifier)
    (hno : ∀ r ∈ w.responders, r.ext ≠ c2.proof) :
    (unixIssuances oldUnixGroupHooks env (.unix (unixDocSock env c1)) w [c1, c2]).1
      = [true, false] := by
  have hS : unixDocSock env c2 = unixDocSock env c1 := by simp [unixDocSock, hid]
  have e1 : cycle oldUnixGroupHooks "challenge-tls-alpn-01" "challenge-tls-alpn-01-clean"
      (fun w c => tlsAlpnValidates w (.unix (unixDocSock env c1)) c) env w c1 =
      unixCycle oldUnixGroupHooks env (.unix (unixDocSock env c1)) w c1 := rfl
  have hsock : unixDocSock env c2 ∈
      (afterUnixOld w (pidDocPath env c1) (unixDocSock env c1)).socks := by
    rw [hS]; exact sock_left_old w _ _ hr.ne
  obtain ⟨k1, k2⟩ := unixOld_second_challenge
    (afterUnixOld w (pidDocPath env c1) (unixDocSock env c1)) env c2 hsock
  have hv : tlsAlpnValidates (runHooks (afterUnixOld w (pidDocPath env c1) (unixDocSock env c1))
      oldUnixGroupHooks "challenge-tls-alpn-01" c2.vars env).1 (.unix (unixDocSock env c1)) c2
      = false := by
    apply tlsAlpnValidates_false
    intro r hrm _
    rw [k2] at hrm
    exact hno r hrm
  simp only [unixIssuances, issuances]
  rw [e1, unixOld_cycle_spec w env c1 hr]
  simp only [cycle, k1, hv, Bool.and_self, Bool.and_false, Bool.false_and]

/-- The documented pid file, socket and listen address depend on the challenge only through the
identifier: every renewal of the same identifier renders the same ones (so the hypotheses of the
`…_repeatable` theorems hold for any list of challenges of one identifier). -/
theorem tacd_paths_by_identifier (env : String → Option String) (c c' : Challenge)
    (h : c.identifier = c'.identifier) :
    pidDocPath env c = pidDocPath env c' ∧ unixDocSock env c = unixDocSock env c' ∧
    tcpDocListen env c = tcpDocListen env c' := by
  simp [pidDocPath, unixDocSock, tcpDocListen, h]

/-! ## What the clean-hook wiring does NOT give (observation) -/

/-- The clean hooks run only on the success path (`acme_proto.rs:176,189,204-209`).  If an attempt
ends between the challenge hooks and the clean hooks (the "challenge ready" POST or the poll failed),
the tacd it started keeps running: at the next attempt the new tacd cannot lock the pid file nor bind,
the start hook still exits 0, and the OLD responder presents the OLD proof — the CA's validation of
the new challenge fails, and so will every later one until someone kills that process. -/
theorem tacd_tcp_aborted_run_blocks_next (w : World) (env : String → Option String)
    (c1 c2 : Challenge) (host : String) (port : Nat)
    (hr : TcpReady w (pidDocPath env c1) host port)
    (hA : parseListen (tcpDocListen env c1) = some (.tcp host port))
    (hid : c2.identifier = c1.identifier) (hproof : c2.proof ≠ c1.proof) :
    (tcpCycle env (.tcp host port) (abortedCycle tcpGroup "challenge-tls-alpn-01" env w c1) c2).2.1
      = false :=
  tcp_after_aborted w env c1 c2 host port hr hA hid hproof

/-! ## git -/

/-- **C20.3.** Every file write bracketed by the git group's pre/post hooks (`storage.rs:194-247`), in
any world where the directory and the file can be written, whether the file is new or edited and
whether or not the directory is already a repository: the operation succeeds, HEAD of the repository
in that directory records exactly the stored content under the file's name, and — unless HEAD
already had that very content — a new commit whose subject is the file name is added. -/
theorem git_records_every_write (w : World) (env : String → Option String)
    (dir name content : String)
    (hbd : isBlocked w dir = false) (hbf : isBlocked w (dir ++ "/" ++ name) = false) :
    ∃ w', storeFile (groupHooks defaultHooks defaultGroups "git") env w dir name content
        = (some w', true) ∧
      getFile w' (dir ++ "/" ++ name) = some ⟨content, false⟩ ∧
      gitHead w' dir name = some content ∧
      (gitHead w dir name ≠ some content → gitCommits w' dir = name :: gitCommits w dir) ∧
      (gitHead w dir name = some content → gitCommits w' dir = gitCommits w dir) :=
  git_store_spec w env dir name content hbd hbf

/-- … hence, in a repository where every file of HEAD is named by some commit (true of the empty
repository and preserved by the hooks), the stored file is named by a commit afterwards. -/
theorem git_commit_names_file (w : World) (env : String → Option String)
    (dir name content : String)
    (hbd : isBlocked w dir = false) (hbf : isBlocked w (dir ++ "/" ++ name) = false)
    (hwf : ∀ c, gitHead w dir name = some c → name ∈ gitCommits w dir) :
    ∃ w', storeFile (groupHooks defaultHooks defaultGroups "git") env w dir name content
        = (some w', true) ∧ name ∈ gitCommits w' dir := by
  obtain ⟨w', h1, _, _, h4, h5⟩ := git_store_spec w env dir name content hbd hbf
  refine ⟨w', h1, ?_⟩
  by_cases hs : gitHead w dir name = some content
  · rw [h5 hs]; exact hwf content hs
  · rw [h4 hs]; exact List.mem_cons_self

/-! ## The model's behaviour satisfies the judge `Spec.C20` -/

theorem model_satisfies_spec_http (w : World) (env : String → Option String) (c : Challenge)
    (hr : HttpReady w env c) (ht : TokenOk c) :
    Spec.C20.issuanceOk .http01Echo (modelObsHttp env w c) = true := by
  obtain ⟨_, _, h2, h3⟩ := http01_reachable w env c hr ht
  obtain ⟨_, _, _, h4⟩ := http01_clean w env c hr ht
  have h2' : getFile (runHooks w httpGroup "challenge-http-01" c.vars env).1 (httpDocPath env c)
      = some ⟨c.proof ++ "\n", true⟩ := h2
  have h3' : http01Validates (runHooks w httpGroup "challenge-http-01" c.vars env).1 env c = true := h3
  simp [modelObsHttp, Spec.C20.issuanceOk, Spec.C20.challengeOk, Spec.C20.contentOk, h2', h3', h4]

theorem model_satisfies_spec_unix (w : World) (env : String → Option String) (c : Challenge)
    (hr : UnixReady w (pidDocPath env c) (unixDocSock env c))
    (hfree : ∀ r ∈ w.responders, r.listen ≠ .unix (unixDocSock env c)) :
    Spec.C20.issuanceOk .tacdUnix
      (modelObsTacd unixGroup env (.unix (unixDocSock env c)) (some (unixDocSock env c)) w c)
      = true := by
  obtain ⟨h1, h2, h3⟩ := afterUnix_clean w _ _ hr
  have hnone : (afterUnix w (pidDocPath env c) (unixDocSock env c)).responders.any
      (fun r => r.listen == Listen.unix (unixDocSock env c)) = false := by
    rw [h3, Bool.eq_false_iff]
    intro h
    rw [List.any_eq_true] at h
    obtain ⟨r, hrm, hl⟩ := h
    exact hfree r hrm (by simpa using hl)
  simp [modelObsTacd, Spec.C20.issuanceOk, Spec.C20.challengeOk, unix_challenge_spec w env c hr,
    unix_cycle_spec w env c hr, h1, h2, hnone, tlsAlpnValidates]

theorem model_satisfies_spec_tcp (w : World) (env : String → Option String) (c : Challenge)
    (host : String) (port : Nat) (hr : TcpReady w (pidDocPath env c) host port)
    (hA : parseListen (tcpDocListen env c) = some (.tcp host port)) :
    Spec.C20.issuanceOk .tacdTcp (modelObsTacd tcpGroup env (.tcp host port) none w c) = true := by
  have hc : unixCycle tcpGroup env (.tcp host port) w c = tcpCycle env (.tcp host port) w c := rfl
  have hf := hr.free
  simp only [tcpBound, Bool.or_eq_false_iff] at hf
  have hp : getPid (afterTcp w (pidDocPath env c)) (pidDocPath env c) = none := by
    simp [getPid, afterTcp, lookup_erase_self]
  have hrs : (afterTcp w (pidDocPath env c)).responders = w.responders := rfl
  simp [modelObsTacd, Spec.C20.issuanceOk, Spec.C20.challengeOk, hc,
    tcp_challenge_spec w env c host port hr hA, tcp_cycle_spec w env c host port hr hA, hp, hrs, hf.2,
    tlsAlpnValidates]

/-! ## Non-vacuity: the hypotheses are satisfiable, the shipped hooks do run in the model -/

private def envNone : String → Option String := fun _ => none
private def cHttp : Challenge := ⟨"a.example", "a.example", "http-01", "tok", "tok.thumb"⟩
private def cAlpn (p : String) : Challenge := ⟨"a.example", "a.example", "tls-alpn-01", "", p⟩
private def wLocal : World := { World.empty with localHosts := ["a.example"] }

example : TokenOk cHttp := ⟨by decide, by decide⟩
example : HttpReady World.empty envNone cHttp :=
  ⟨rfl, by decide, by decide, Or.inr (by decide)⟩

example : (httpIssuances envNone World.empty [cHttp, cHttp, cHttp]).1 = [true, true, true] := by
  decide

example : TcpReady wLocal (pidDocPath envNone (cAlpn "p")) "a.example" 5001 :=
  ⟨rfl, by decide, by decide, by decide, by decide, (by intro r h; cases h)⟩
example : parseListen (tcpDocListen envNone (cAlpn "p")) = some (.tcp "a.example" 5001) := by decide
example : (tcpIssuances envNone (.tcp "a.example" 5001) wLocal [cAlpn "p", cAlpn "q"]).1
    = [true, true] := by decide

example : UnixReady World.empty (pidDocPath envNone (cAlpn "p")) (unixDocSock envNone (cAlpn "p")) :=
  ⟨rfl, by decide, by decide, rfl, by decide, (by intro r h; cases h), by decide⟩
example : (unixIssuances unixGroup envNone (.unix "/run/tacd_a.example.sock") World.empty
    [cAlpn "p", cAlpn "q", cAlpn "r"]).1 = [true, true, true] := by decide
/-- The defect before the repairs, on concrete data. -/
example : (unixIssuances oldUnixGroupHooks envNone (.unix "/run/tacd_a.example.sock") World.empty
    [cAlpn "p", cAlpn "q"]).1 = [true, false] := by decide
example : (tcpIssuances envNone (.tcp "a.example" 5001)
    (abortedCycle tcpGroup "challenge-tls-alpn-01" envNone wLocal (cAlpn "p")) [cAlpn "q"]).1
    = [false] := by decide

/-- `tacd_tcp_old_is_false` cannot drop its hypothesis on TACD_PORT: an environment that (against the
manual) put a whole address into TACD_PORT made the old hook work. -/
example : (tcpIssuances envNone (.tcp "a.example" 5001) wLocal [cAlpn "p"]).1 = [true] ∧
    (issuances oldTcpGroup "challenge-tls-alpn-01" "challenge-tls-alpn-01-clean"
      (fun w c => tlsAlpnValidates w (.tcp "a.example" 5001) c)
      (fun k => if k = "TACD_PORT" then some "a.example:5001" else none) wLocal [cAlpn "p"]).1 = [true] ∧
    (issuances oldTcpGroup "challenge-tls-alpn-01" "challenge-tls-alpn-01-clean"
      (fun w c => tlsAlpnValidates w (.tcp "a.example" 5001) c) envNone wLocal [cAlpn "p"]).1 = [false] := by
  decide

/-- TACD_HOST set to the empty string is NOT defaulted (MiniJinja's `default` only replaces undefined):
the listen argument is ":5001" and tacd refuses it. -/
example : parseListen (tcpDocListen (fun k => if k = "TACD_HOST" then some "" else none) (cAlpn "p"))
    = none := by decide

example : (storeFile gitGroup envNone World.empty "/etc/acmed/certs" "a.pem" "X").2 = true ∧
    ((storeFile gitGroup envNone World.empty "/etc/acmed/certs" "a.pem" "X").1.map
      fun w => gitCommits w "/etc/acmed/certs") = some ["a.pem"] := by decide

end AcmedVerif.Props.C20
