/-
C14 — the most specific setting wins; included files merge as documented; unresolved references
and duplicate certificate ids are rejected at start-up.

Model: Model/Config.lean (`readCnf`, `effective*`, `expandHook`, `build`); vocabulary and judge:
Spec/C14.lean; helper lemmas: Lemmas/Config.lean.  Every theorem is for ALL trees / sections /
values; the fuel arguments of the model are shown never to run out.
-/
import AcmedVerif.Model.Config
import AcmedVerif.Spec.C14
import AcmedVerif.Lemmas.Config
import AcmedVerif.Gen.GlobalMerge

namespace AcmedVerif.Props.C14
open AcmedVerif.Config AcmedVerif.Spec.C14

/-! ## Clause 1: the most specific value given wins -/

/-- renew_delay, random_early_renew, file_name_format: for every certificate whose endpoint exists,
every presence pattern and all values, the getter returns the most specific value given
(certificate ▸ endpoint ▸ global ▸ built-in default); the directory: certificate ▸ global ▸
built-in default (and its getter cannot fail). -/
theorem precedence (cfg : Config) (c : Certificate) (ep : Endpoint)
    (hep : findEndpoint cfg c.endpoint = some ep) :
    effectiveRenewDelay cfg c =
      .ok (mostSpecific [c.renewDelay, ep.renewDelay, optGet .renew_delay cfg.global]) ∧
    effectiveRandomEarlyRenew cfg c =
      .ok (mostSpecific [c.randomEarlyRenew, ep.randomEarlyRenew,
        optGet .random_early_renew cfg.global]) ∧
    effectiveFileNameFormat cfg c =
      .ok (mostSpecific [c.fileNameFormat, ep.fileNameFormat,
        optGet .file_name_format cfg.global]) ∧
    effectiveDirectory cfg c =
      mostSpecific [c.directory, optGet .certificates_directory cfg.global] :=
  ⟨certLevel_found cfg c _ _ _ ep hep, certLevel_found cfg c _ _ _ ep hep,
   certLevel_found cfg c _ _ _ ep hep, effectiveDirectory_eq cfg c⟩

/-- A value set on the certificate wins whatever else is (or is not) configured — even when the
certificate's endpoint does not exist. -/
theorem precedence_certificate (cfg : Config) (c : Certificate) :
    (∀ v, c.renewDelay = some v → effectiveRenewDelay cfg c = .ok (.given v)) ∧
    (∀ v, c.randomEarlyRenew = some v → effectiveRandomEarlyRenew cfg c = .ok (.given v)) ∧
    (∀ v, c.fileNameFormat = some v → effectiveFileNameFormat cfg c = .ok (.given v)) ∧
    (∀ v, c.directory = some v → effectiveDirectory cfg c = .given v) := by
  refine ⟨?_, ?_, ?_, ?_⟩ <;> intro v hv
  · simp [effectiveRenewDelay, hv, certLevel_given]
  · simp [effectiveRandomEarlyRenew, hv, certLevel_given]
  · simp [effectiveFileNameFormat, hv, certLevel_given]
  · simp [effectiveDirectory, hv]

/-- The guard the real getters have: when the certificate does not set the value and its endpoint
does not exist, the getter fails ("unknown endpoint") instead of falling through to the global
level. -/
theorem precedence_unknown_endpoint (cfg : Config) (c : Certificate)
    (hep : findEndpoint cfg c.endpoint = none) :
    (c.renewDelay = none → effectiveRenewDelay cfg c = .error (.unknownEndpoint c.endpoint)) ∧
    (c.randomEarlyRenew = none →
      effectiveRandomEarlyRenew cfg c = .error (.unknownEndpoint c.endpoint)) ∧
    (c.fileNameFormat = none →
      effectiveFileNameFormat cfg c = .error (.unknownEndpoint c.endpoint)) := by
  refine ⟨?_, ?_, ?_⟩ <;> intro hv
  · simp [effectiveRenewDelay, hv, certLevel_unknown _ _ _ _ hep]
  · simp [effectiveRandomEarlyRenew, hv, certLevel_unknown _ _ _ _ hep]
  · simp [effectiveFileNameFormat, hv, certLevel_unknown _ _ _ _ hep]

/-- `mostSpecific` is what its name says: the first level that is set, else the default. -/
theorem mostSpecific_spec (ls : List (Option Val)) :
    (∀ v, mostSpecific ls = .given v ↔
      ∃ before after, ls = before ++ some v :: after ∧ ∀ x, x ∈ before → x = none) ∧
    (mostSpecific ls = .builtin ↔ ∀ x, x ∈ ls → x = none) :=
  mostSpecific_char ls

/-! ## Clause 2: sections from all files are merged, each file is read once -/

/-- For every include graph — cycles, repeats, missing files — loading with fuel
`number of files + 1` never runs out of fuel (invariant `fuel + |loaded| ≥ |files| + 1`), at
whatever nesting level `depth` the call is made (`from_file` calls with 0). -/
theorem include_terminates {π : Type} (files : Files π) (resolve : Path → π → List Path)
    (main : Path) (depth : Nat) :
    readCnf files resolve (loadFuel files) depth main [] ≠ .error .outOfFuel :=
  readCnf_fuel files resolve _ depth main [] (LoadInv.init files)

/-- The fuel is a proof device, not a bound on behaviour: any larger fuel gives the same answer. -/
theorem include_fuel_irrelevant {π : Type} (files : Files π) (resolve : Path → π → List Path)
    (main : Path) (depth extra : Nat) :
    readCnf files resolve (loadFuel files + extra) depth main [] =
      readCnf files resolve (loadFuel files) depth main [] :=
  readCnf_more_fuel files resolve _ extra depth main [] (include_terminates files resolve main depth)

/-- Hence loading answers with a configuration, a missing-file error or (since 537f12e) an
"includes are nested too deeply" error, nothing else. -/
theorem load_total {π : Type} (files : Files π) (resolve : Path → π → List Path) (main : Path) :
    (∃ cfg, fromFile files resolve main = .ok cfg) ∨
    (∃ p, fromFile files resolve main = .error (.fileNotFound p)) ∨
    (∃ p, fromFile files resolve main = .error (.includeTooDeep p)) := by
  unfold fromFile
  cases h : readCnf files resolve (loadFuel files) 0 main [] with
  | ok r => exact .inl ⟨_, rfl⟩
  | error e =>
    rcases readCnf_error_class files resolve _ _ _ _ _ h with hk | ⟨q, hq⟩ | ⟨q, hq⟩
    · subst hk; exact absurd h (include_terminates files resolve main 0)
    · subst hq; exact .inr (.inl ⟨q, rfl⟩)
    · subst hq; exact .inr (.inr ⟨q, rfl⟩)

/-- Each file is read once: the files read are pairwise different; all of them exist; a file that
is already loaded contributes nothing and changes nothing when it is met again within the depth
limit — and met again deeper than the limit it is an error like any other file there (the depth
test of `read_cnf` comes before its "already loaded" test). -/
theorem each_file_once {π : Type} (files : Files π) (resolve : Path → π → List Path) :
    (∀ fuel depth main cfg order, readCnf files resolve fuel depth main [] = .ok (cfg, order) →
      order.Nodup ∧ ∀ p, p ∈ order → (lookupFile files p).isSome = true) ∧
    (∀ fuel depth path loaded fc, lookupFile files path = some fc → depth ≤ maxIncludeDepth →
      path ∈ loaded → readCnf files resolve fuel depth path loaded = .ok (Config.empty, loaded)) ∧
    (∀ fuel depth path loaded fc, lookupFile files path = some fc → depth > maxIncludeDepth →
      readCnf files resolve fuel depth path loaded = .error (.includeTooDeep path)) := by
  refine ⟨?_, ?_, ?_⟩
  · intro fuel depth main cfg order h
    obtain ⟨new, rfl, hd, _⟩ := readCnf_spec files resolve fuel depth main [] cfg order h
    exact ⟨hd.facts.1, hd.facts.2.2⟩
  · intro fuel depth path loaded fc hf hd hm
    exact readCnf_loaded files resolve fuel depth path loaded fc hf hd hm
  · intro fuel depth path loaded fc hf hd
    exact readCnf_too_deep files resolve fuel depth path loaded fc hf hd

/-- Sections from all files are merged: the files read are exactly the depth-first first-visit
order `order` of the include graph from the main file (which is determined by the tree, contains
the main file and is closed under "includes"), and each of the six section lists of the result is
the concatenation, over `order`, of what each file itself contains. -/
theorem sections_merged {π : Type} (files : Files π) (resolve : Path → π → List Path)
    (fuel depth : Nat) (main : Path) (cfg : Config) (order : List Path)
    (h : readCnf files resolve fuel depth main [] = .ok (cfg, order)) :
    DfsList files resolve [main] [] order ∧
    (∀ order', DfsList files resolve [main] [] order' → order' = order) ∧
    main ∈ order ∧
    (∀ p, p ∈ order → ∀ fc, lookupFile files p = some fc →
      ∀ q, q ∈ includePaths resolve p fc → q ∈ order) ∧
    cfg.endpoints = order.flatMap (fun p => (ownOf files p).endpoints) ∧
    cfg.rateLimits = order.flatMap (fun p => (ownOf files p).rateLimits) ∧
    cfg.hooks = order.flatMap (fun p => (ownOf files p).hooks) ∧
    cfg.groups = order.flatMap (fun p => (ownOf files p).groups) ∧
    cfg.accounts = order.flatMap (fun p => (ownOf files p).accounts) ∧
    cfg.certificates = order.flatMap (fun p => (ownOf files p).certificates) := by
  obtain ⟨new, rfl, hd, he⟩ := readCnf_spec files resolve fuel depth main [] cfg order h
  have hc := hd.closed
  simp only [List.nil_append, List.mem_singleton, forall_eq] at hc
  refine ⟨hd, fun o ho => ho.unique hd, hc.1, hc.2, ?_, ?_, ?_, ?_, ?_, ?_⟩
  · simpa [Config.empty] using he.endpoints
  · simpa [Config.empty] using he.rateLimits
  · simpa [Config.empty] using he.hooks
  · simpa [Config.empty] using he.groups
  · simpa [Config.empty] using he.accounts
  · simpa [Config.empty] using he.certificates

/-! ## Clause 3: a global option set in a later-included file overrides earlier ones -/

/-- Every option of `struct GlobalOptions` is assigned in the merge block of `read_cnf` (both lists
are extracted from the source text on every run). -/
theorem later_global_wins_full : ∀ o, o ∈ Gen.globalOptions → o ∈ Gen.mergedOptions := by decide

/-- Every option the model enumerates is a field of the struct, in the struct's order (nothing
invented, nothing the code dropped) … -/
theorem model_options_match_source :
    (GlobalOpt.all.map GlobalOpt.name).Sublist Gen.globalOptions := by
  decide

/-- … and the fields the model does NOT know — options added to the code after the model was written;
none on the tree the model was written for (`unmodelled_options_none_at_writing` is an `example`
below, not a theorem, so that a new option does not break the proofs).  For such an option the model
says nothing; `later_global_wins_full` (from the regenerated lists alone) still shows it is merged. -/
def unmodelledOptions : List String :=
  Gen.globalOptions.filter fun o => !(GlobalOpt.all.map GlobalOpt.name).contains o

/-- Every field of the struct is either modelled or listed as unmodelled — and merged in both cases. -/
theorem every_source_option_accounted_for :
    ∀ o, o ∈ Gen.globalOptions →
      (o ∈ GlobalOpt.all.map GlobalOpt.name ∨ o ∈ unmodelledOptions) ∧ o ∈ Gen.mergedOptions := by
  decide

/-- … so the model merges every option there is. -/
theorem model_merges_every_option : ∀ o : GlobalOpt, o ∈ mergedOptions := by
  intro o; cases o <;> decide

/-- Semantics of the merge, for every option the merge block assigns: after loading, the option
holds the value of the LAST file in depth-first include order that sets it (the including file
counts as earliest); unset if no file sets it. -/
theorem later_global_wins {π : Type} (files : Files π) (resolve : Path → π → List Path)
    (fuel depth : Nat) (main : Path) (cfg : Config) (order : List Path)
    (h : readCnf files resolve fuel depth main [] = .ok (cfg, order))
    (o : GlobalOpt) (hm : o ∈ mergedOptions) (ho : o ≠ .env) :
    optGet o cfg.global = lastSome (order.map fun p => optGet o (ownOf files p).global) := by
  obtain ⟨new, rfl, _, he⟩ := readCnf_spec files resolve fuel depth main [] cfg order h
  simpa [Config.empty, optGet] using he.opt o hm ho

/-- Same for the `env` map, key by key: the value of the last file that binds the key. -/
theorem later_global_wins_env {π : Type} (files : Files π) (resolve : Path → π → List Path)
    (fuel depth : Nat) (main : Path) (cfg : Config) (order : List Path)
    (h : readCnf files resolve fuel depth main [] = .ok (cfg, order))
    (hm : GlobalOpt.env ∈ mergedOptions) (k : String) :
    envLookup k (envOf cfg.global) =
      envLookup k (order.flatMap fun p => envOf (ownOf files p).global) := by
  obtain ⟨new, rfl, _, he⟩ := readCnf_spec files resolve fuel depth main [] cfg order h
  simpa [Config.empty, envOf, envLookup_nil] using he.env hm k

/-- With the source as it is now (all 15 options merged): every option, no side condition. -/
theorem later_global_wins_all {π : Type} (files : Files π) (resolve : Path → π → List Path)
    (fuel depth : Nat) (main : Path) (cfg : Config) (order : List Path)
    (h : readCnf files resolve fuel depth main [] = .ok (cfg, order)) :
    (∀ o : GlobalOpt, o ≠ .env →
      optGet o cfg.global = lastSome (order.map fun p => optGet o (ownOf files p).global)) ∧
    (∀ k, envLookup k (envOf cfg.global) =
      envLookup k (order.flatMap fun p => envOf (ownOf files p).global)) :=
  ⟨fun o ho => later_global_wins files resolve fuel depth main cfg order h o (model_merges_every_option o) ho,
   fun k => later_global_wins_env files resolve fuel depth main cfg order h (model_merges_every_option _) k⟩

/-- `lastSome` is what its name says. -/
theorem lastSome_spec {α : Type} (l : List (Option α)) :
    (∀ v, lastSome l = some v ↔
      ∃ before after, l = before ++ some v :: after ∧ ∀ x, x ∈ after → x = none) ∧
    (lastSome l = none ↔ ∀ x, x ∈ l → x = none) :=
  lastSome_char l

/-- `dispatch_global_env_vars`: a certificate's own binding of a key wins over the global one. -/
theorem env_dispatch (cfg : Config) (g : Global) (hg : cfg.global = some g) (k : String) :
    (dispatchGlobalEnv cfg).certificates.map (fun c => envLookup k c.env) =
      cfg.certificates.map (fun c => (envLookup k c.env).or (envLookup k g.env)) := by
  simp [dispatchGlobalEnv, hg, envLookup_append, Function.comp_def]

/-! ## Clause 4: unresolved references and duplicate certificate ids are rejected -/

/-- If start-up succeeds then every certificate's endpoint, every rate limit of that endpoint, its
account and every hook or group it names (transitively through groups) resolve, the same for the
hooks of every account, and certificate ids are pairwise distinct.  Contrapositive: any such
unresolved reference, or a duplicate id, makes `build` fail. -/
theorem refs_checked (cfg : Config) (b : Built) (h : build cfg = .ok b) :
    (∀ c, c ∈ cfg.certificates → CertRefsOk cfg c) ∧
    (∀ a, a ∈ cfg.accounts → ∀ hk, hk ∈ a.hooks → Resolves cfg hk) ∧
    (cfg.certificates.map (·.crtId)).Nodup := by
  obtain ⟨ha, hc⟩ := build_ok h
  obtain ⟨⟨hlen, hall⟩, hacc, hnd, _⟩ := buildCerts_ok _ _ _ hc
  refine ⟨?_, ?_, hnd⟩
  · intro c hcm
    obtain ⟨i, hi, rfl⟩ := List.getElem_of_mem hcm
    have hb := hall i hi
    obtain ⟨ep, hep, _, hrl⟩ := hb.ep
    exact ⟨⟨ep, hep, resolveRateLimits_ok _ _ hrl⟩, hacc _ hcm, hb.hooks.resolves⟩
  · intro a ham hk hkm
    obtain ⟨hs, hex, _⟩ := (buildAccounts_ok _ _ ha).2 a ham
    exact hex.resolves hk hkm

/-- Since 537f12e start-up also succeeds only if every hook or group a certificate or an account
names stays within the two limits of `get_hook_rec` (`WithinLimits`: no group entered under
MAX_HOOK_GROUP_DEPTH or more enclosing groups, at most MAX_HOOK_GROUP_MEMBERS members visited by the
expansion of one name). -/
theorem limits_checked (cfg : Config) (b : Built) (h : build cfg = .ok b) : WithinLimits cfg := by
  obtain ⟨ha, hc⟩ := build_ok h
  exact ⟨buildCerts_within _ _ _ hc, buildAccounts_within _ _ ha⟩

/-- Converse: the model rejects ONLY for those reasons — so `build` errs exactly when a reference
a certificate or an account depends on does not resolve, a certificate id is repeated, or (since
537f12e / a9033b3) a hook group is nested or visited beyond the limits.  (Before 537f12e the last conjunct
was absent; without it the equivalence is false of the repaired code: `Props.C19Depth`
`chain_rejected_above_limit` is a configuration in which everything resolves and `build` errs.) -/
theorem rejects_exactly (cfg : Config) :
    (∃ b, build cfg = .ok b) ↔
      ((∀ c, c ∈ cfg.certificates → CertRefsOk cfg c) ∧
       (∀ a, a ∈ cfg.accounts → ∀ hk, hk ∈ a.hooks → Resolves cfg hk) ∧
       (cfg.certificates.map (·.crtId)).Nodup ∧
       WithinLimits cfg) := by
  constructor
  · rintro ⟨b, h⟩
    obtain ⟨h₁, h₂, h₃⟩ := refs_checked cfg b h
    exact ⟨h₁, h₂, h₃, limits_checked cfg b h⟩
  · rintro ⟨hc, _, hnd, hwc, hwa⟩
    obtain ⟨accs, haccs⟩ := buildAccounts_complete cfg.accounts hwa
    obtain ⟨certs, hcerts⟩ := buildCerts_complete cfg.certificates [] hc hwc hnd (by simp)
    exact ⟨{ accounts := accs, certificates := certs }, by simp [build, haccs, hcerts]⟩

/-- The judge's `mustReject` is that condition. -/
theorem mustReject_iff (cfg : Config) :
    mustReject cfg = true ↔
      ¬ ((∀ c, c ∈ cfg.certificates → CertRefsOk cfg c) ∧
         (∀ a, a ∈ cfg.accounts → ∀ hk, hk ∈ a.hooks → Resolves cfg hk) ∧
         (cfg.certificates.map (·.crtId)).Nodup ∧
         WithinLimits cfg) := by
  rw [← rejects_exactly]
  unfold mustReject
  cases h : build cfg with
  | ok b => simp [Except.isOk, Except.toBool]
  | error e => simp [Except.isOk, Except.toBool]

/-- Rejections are start-up errors of the named classes only: `build` never runs out of fuel. -/
theorem expand_total (cfg : Config) (name : String) :
    getHook cfg name ≠ .error .outOfFuel := by
  intro h
  exact expandHook_fuel cfg _ [] _ name (PathInv.init cfg) (getHook_error h)

/-- General form: on any repetition-free path of group names, with fuel covering the groups not
yet on the path (a path without repetition is at most `#groups` long), whatever the budget. -/
theorem expand_total_path (cfg : Config) (fuel : Nat) (parents : List String) (budget : Nat) (name : String)
    (hnd : parents.Nodup) (hsub : ∀ p, p ∈ parents → p ∈ cfg.groups.map (·.name))
    (hfuel : cfg.groups.length + 1 ≤ fuel + parents.length) :
    expandHook cfg fuel parents budget name ≠ .error .outOfFuel :=
  expandHook_fuel cfg fuel parents budget name ⟨hnd, hsub, hfuel⟩

/-- A group met again on its own expansion path is an error ("hook group contains itself" — unless
the budget of visits is already used up, which is tested first and is an error too); a group that
reaches itself through memberships — and any name that reaches such a group — never expands, for
any fuel, any starting path and any budget; with the standard fuel the answer is an error other
than "out of fuel": rejection, never divergence. -/
theorem expand_rejects_cycles (cfg : Config) :
    (∀ fuel parents budget name g, findHook cfg name = none → findGroup cfg name = some g →
      name ∈ parents → expandHook cfg fuel parents (budget + 1) name = .error (.groupCycle name)) ∧
    (∀ g, Reach cfg g g → ∀ fuel parents budget res, expandHook cfg fuel parents budget g ≠ .ok res) ∧
    (∀ a g, Reach cfg a g → Reach cfg g g →
      ∀ fuel parents budget res, expandHook cfg fuel parents budget a ≠ .ok res) ∧
    (∀ g, Reach cfg g g → ∃ e, getHook cfg g = .error e ∧ e ≠ .outOfFuel) := by
  refine ⟨fun fuel parents budget name g hh hg hm => expandHook_on_path cfg fuel parents budget name g hh hg hm,
    fun g hc fuel parents budget => expandHook_cycle_not_ok hc fuel parents budget,
    fun a g ha hc fuel parents budget => expandHook_reaches_cycle_not_ok ha hc fuel parents budget, ?_⟩
  intro g hc
  cases h : getHook cfg g with
  | ok r =>
    obtain ⟨b, hb⟩ := getHook_ok h
    exact absurd hb (expandHook_cycle_not_ok hc _ _ _ (r, b))
  | error e =>
    refine ⟨e, rfl, ?_⟩
    intro he; subst he
    exact expand_total cfg g h

/-- What a successful expansion is: each name in declaration order, a hook name denotes that hook
(hooks shadow groups of the same name), a group name denotes the concatenation of what its members
denote; the denotation is unique, so it depends neither on the fuel, nor on the path, nor on the
budget (which only decides WHETHER the expansion succeeds). -/
theorem expand_order (cfg : Config) :
    (∀ names r, getHooks cfg names = .ok r → ExpandsList cfg names r) ∧
    (∀ fuel parents budget n r b, expandHook cfg fuel parents budget n = .ok (r, b) → ExpandsList cfg [n] r) ∧
    (∀ names r r', ExpandsList cfg names r → ExpandsList cfg names r' → r = r') ∧
    (∀ fuel parents budget n h, findHook cfg n = some h →
      expandHook cfg fuel parents (budget + 1) n = .ok ([h], budget)) ∧
    (∀ (rec : String → Except Err (List Hook)) ns r, expandNames rec ns = .ok r ↔
      ∃ rs : List (List Hook), ns.map rec = rs.map .ok ∧ r = rs.flatten) := by
  refine ⟨fun names r h => getHooks_denotes h, expandHook_denotes cfg,
    fun names r r' h h' => h.unique h', ?_, expandNames_ok⟩
  intro fuel parents budget n h hh
  rw [expandHook_eq]
  simp [hh]

/-! ## The judge accepts what the model predicts -/

/-- If the model starts, the dump it predicts passes the judge; if it rejects, "rejected" passes. -/
theorem model_satisfies_judge (d : Defaults) (cfg : Config) :
    (∀ b, build cfg = .ok b → holds d cfg (.started (b.certificates.map (CertObs.ofBuilt d))) = true) ∧
    (∀ e, build cfg = .error e → holds d cfg .rejected = true) := by
  refine ⟨?_, ?_⟩
  · intro b h
    have hnd := (refs_checked cfg b h).2.2
    simp only [holds, startsIff, mustReject, h, Except.isOk, Except.toBool, Bool.not_true,
      beq_self_eq_true, Bool.true_and]
    rw [build_obs d h]
    exact holdsSettings_expected d cfg hnd
  · intro e h
    simp [holds, startsIff, mustReject, h, Except.isOk, Except.toBool]

/-- The judge's first clause is exactly the model's getters on any configuration that starts. -/
theorem judge_expected_is_effective (d : Defaults) (cfg : Config) (b : Built)
    (h : build cfg = .ok b) :
    b.certificates.map (CertObs.ofBuilt d) = cfg.certificates.map (expectedCert d cfg) :=
  build_obs d h

/-! ## Non-vacuity: concrete trees -/

section Examples

private def ep : Endpoint := { name := "le", renewDelay := some "10d", rateLimits := ["r1"] }
private def c1 : Certificate :=
  { crtId := "a_rsa2048", account := "acc", endpoint := "le", hooks := ["g"], renewDelay := some "1d" }
private def c2 : Certificate := { crtId := "b_rsa2048", account := "acc", endpoint := "le", hooks := ["h1"] }

/-- main (0) includes 1 and 2, then 1 again; 1 includes 0 (cycle) and 2; `[global]` is split over
the three files. -/
private def tree : List (Nat × FileContent (List Nat)) := [
  (0, { global := some { renew_delay := some "20d", env := [("A", "0")] },
        includes := [[1, 2], [1]], certificates := [c1] }),
  (1, { global := some { renew_delay := some "21d", cert_file_ext := some "pem",
                         env := [("A", "1"), ("B", "1")] },
        endpoints := [ep], includes := [[0, 2]], hooks := [{ name := "h1" }] }),
  (2, { global := some { file_name_format := some "ff", env := [("B", "2")] },
        accounts := [{ name := "acc" }],
        rateLimits := [{ name := "r1", number := 1, period := "1s" }],
        groups := [{ name := "g", hooks := ["h1", "g2"] }, { name := "g2", hooks := ["h1"] }],
        certificates := [c2] })]

example : (loadTreeOrder tree 0).toOption.map (·.2) = some [0, 1, 2] := by decide
example : (loadTree tree 0).toOption.map (·.certificates.map (·.crtId)) =
    some ["a_rsa2048", "b_rsa2048"] := by decide
example : (loadTree tree 0).toOption.map (fun c => optGet .renew_delay c.global) =
    some (some "21d") := by decide
example : (loadTree tree 0).toOption.map (fun c => envLookup "B" (envOf c.global)) =
    some (some "2") := by decide
example : (startUp tree 0).toOption.map (·.certificates.map (·.renewDelay)) =
    some [.given "1d", .given "10d"] := by decide
example : (startUp tree 0).toOption.map (·.certificates.map (·.fileNameFormat)) =
    some [.given "ff", .given "ff"] := by decide
example : (startUp tree 0).toOption.map (·.certificates.map (·.directory)) =
    some [.builtin, .builtin] := by decide
example : (startUp tree 0).toOption.map (·.certificates.map (·.hooks.length)) = some [2, 1] := by
  decide

/-- A missing include is an error; an empty glob is not. -/
example : loadTree [(0, { includes := [[7]] })] 0 = .error (.fileNotFound 7) := by rfl
example : (loadTree [(0, { includes := [[]] })] 0).isOk = true := by decide

/-- Reference errors of each class, and a duplicate id. -/
private def base : Config :=
  { endpoints := [ep], rateLimits := [{ name := "r1", number := 1, period := "1s" }],
    hooks := [{ name := "h1" }], accounts := [{ name := "acc" }], certificates := [c2] }
example : (build base).isOk = true := by decide
example : build { base with endpoints := [] } = .error (.unknownEndpoint "le") := by rfl
example : build { base with rateLimits := [] } = .error (.rateLimitNotFound "r1") := by rfl
example : build { base with hooks := [] } = .error (.hookNotFound "h1") := by rfl
example : build { base with accounts := [] } = .error (.accountNotFound "acc") := by rfl
example : build { base with certificates := [c2, c2] } = .error (.duplicateCertId "b_rsa2048") := by
  rfl
example : build { base with accounts := [{ name := "acc", hooks := ["nope"] }] } =
    .error (.hookNotFound "nope") := by rfl

/-- Group cycles of length 1 and 2 are rejected; a hook shadows a group of the same name. -/
example : getHook { groups := [{ name := "g", hooks := ["g"] }] } "g" = .error (.groupCycle "g") := by
  rfl
example : getHook { groups := [{ name := "a", hooks := ["b"] }, { name := "b", hooks := ["a"] }] } "a" =
    .error (.groupCycle "a") := by rfl
example : getHook { hooks := [{ name := "x", cmd := "hook" }], groups := [{ name := "x", hooks := ["x"] }] }
    "x" = .ok [{ name := "x", cmd := "hook" }] := by rfl
example : Reach { groups := [{ name := "g", hooks := ["g"] }] } "g" "g" :=
  .step ⟨by decide, ⟨{ name := "g", hooks := ["g"] }, by decide, by decide⟩⟩

/-- The judge on the example tree. -/
private def dflt : Defaults :=
  { renewDelay := "30d", randomEarlyRenew := "0s", fileNameFormat := "fmt", directory := "/certs" }
example : holdsTree dflt tree 0 (.started [
    { crtId := "b_rsa2048", renewDelay := "10d", randomEarlyRenew := "0s", fileNameFormat := "ff",
      directory := "/certs" },
    { crtId := "a_rsa2048", renewDelay := "1d", randomEarlyRenew := "0s", fileNameFormat := "ff",
      directory := "/certs" }]) = true := by decide
example : holdsTree dflt tree 0 .rejected = false := by decide
example : holdsTree dflt tree 0 (.started [
    { crtId := "b_rsa2048", renewDelay := "21d", randomEarlyRenew := "0s", fileNameFormat := "ff",
      directory := "/certs" },
    { crtId := "a_rsa2048", renewDelay := "1d", randomEarlyRenew := "0s", fileNameFormat := "ff",
      directory := "/certs" }]) = false := by decide
example : globalMergeComplete = true ∧ globalMergeMissing = [] := by decide

end Examples

end AcmedVerif.Props.C14
