/-
C04 — every ACME POST is a valid, fresh, correctly bound JWS.  The theorems live where their models
are: header / flattened form / signing input / fixed-width R‖S in `Props/C15.lean` (Model/Jose), the
nonce discipline in `Props/C08.lean` (Model/Http, section Nonce), `jwk` only for account creation in
`Props/FlowMisc.lean` (Model/Flow).  This file ties the algorithm table to the COMPILED code
(`Gen/Tables.lean`, regenerated on every run by running `KeyType::get_default_signature_alg` and
`check_alg_compatibility` on their whole domains) and to the judge.
-/
import AcmedVerif.Props.C15
import AcmedVerif.Props.C08
import AcmedVerif.Props.FlowMisc
import AcmedVerif.Spec.C04
import AcmedVerif.Gen.Tables

namespace AcmedVerif.Props.C04
open AcmedVerif

/-- JWK key kind of each acmed key type. -/
def keyKindOf : String → String
  | "rsa2048" => "RSA" | "rsa4096" => "RSA"
  | "ecdsa-p256" => "P-256" | "ecdsa-p384" => "P-384" | "ecdsa-p521" => "P-521"
  | "ed25519" => "Ed25519" | "ed448" => "Ed448"
  | _ => "?"

/-- For all seven key types of the compiled code: the default algorithm is the only compatible one and
it is an algorithm the judge accepts for that kind of key (so `alg` in a header can only be right). -/
theorem alg_table_matches_keys :
    AcmedVerif.Gen.keyTypes.length = 7 ∧
    AcmedVerif.Gen.keyTypes.all (fun (kt, dflt, compat) =>
      compat == [dflt] && (Spec.C04.algFor (keyKindOf kt)).contains dflt) = true := by decide

/-- The judge's signature lengths for ECDSA are the fixed-width R‖S lengths of `sig_lengths`. -/
theorem judge_ecdsa_lengths :
    Spec.C04.sigLenOk "ES256" (2 * 32) = true ∧ Spec.C04.sigLenOk "ES384" (2 * 48) = true ∧
    Spec.C04.sigLenOk "ES512" (2 * 66) = true ∧ Spec.C04.sigLenOk "ES256" 63 = false ∧
    Spec.C04.sigLenOk "ES512" 131 = false := by decide

/-- The header shapes the judge demands are the ones `Jose.protectedHeader` produces
(`header_members`): alg, (jwk xor kid), nonce?, url in that order = sorted order. -/
theorem judge_member_sets :
    Spec.C04.membersFor .newAccount = ["alg", "jwk", "nonce", "url"] ∧
    Spec.C04.membersFor .other = ["alg", "kid", "nonce", "url"] ∧
    Spec.C04.membersFor .keyChangeInner = ["alg", "jwk", "url"] ∧
    Spec.C04.membersFor .eabInner = ["alg", "kid", "url"] := by decide

/-- Non-vacuity: a well-formed kid request passes, a reused nonce or a DER-length ECDSA signature fails. -/
def exReq (reused : Bool) (sigLen : Nat) : Spec.C04.ReqObs where
  kind := .other
  flat := true
  hdrMembers := ["alg", "kid", "nonce", "url"]
  alg := "ES256"
  keyKind := "P-256"
  urlOk := true
  nonceIssued := true
  nonceReused := reused
  kidOk := true
  sigOk := true
  sigLen := sigLen

example : Spec.C04.reqOk (exReq false 64) = true := by decide
example : Spec.C04.reqOk (exReq true 64) = false := by decide
example : Spec.C04.reqOk (exReq false 71) = false := by decide

end AcmedVerif.Props.C04
