/-
C10, argument clause: the model of `call_single`'s argument loop (`HookArgs.argv`, hooks.rs:132-140)
gives ONE argument per declared element of `args`, in declaration order, each the rendering of its
element — so it meets the judge `Spec.C10Args.holds`, also when the judge is evaluated by an observer
who knows fewer of the hook data's values than the daemon (`Refines`); and the judge rejects every
vector that lost an argument, in particular the one of the seeded variant that leaves out the
arguments rendered to the empty string.
-/
import AcmedVerif.Model.HookArgs
import AcmedVerif.Spec.C10Args

namespace AcmedVerif.Props.C10Args
open AcmedVerif.HookArgs AcmedVerif.Spec.C10Args

/-- The argument loop pushes exactly one argument per declared element, in order: the vector IS the
declared list mapped through the renderer. -/
theorem argv_one_per_declared_element (vars : Vars) (env : EnvTab) (declared : List Template) :
    argv vars env declared = declared.map (render vars env) ∧
    (argv vars env declared).length = declared.length := by
  induction declared with
  | nil => exact ⟨rfl, rfl⟩
  | cons t ts ih => exact ⟨by simp [argv, ih.1], by simp [argv, ih.2]⟩

/-- A vector the judge accepts has as many arguments as `args` has elements. -/
theorem argvHolds_length : ∀ (e : List (Option String)) (o : List String),
    argvHolds e o = true → o.length = e.length
  | [], [], _ => rfl
  | [], _ :: _, h => by simp [argvHolds] at h
  | _ :: _, [], h => by simp [argvHolds] at h
  | _ :: es, _ :: os, h => by
    simp only [argvHolds, Bool.and_eq_true] at h
    simp [argvHolds_length es os h.2]

theorem holds_length (vars : Vars) (env : EnvTab) (declared : List Template) (observed : List String)
    (h : holds vars env declared observed = true) : observed.length = declared.length := by
  have := argvHolds_length _ _ h
  simpa [expected] using this

/-- Where every element is predicted, the judge accepts exactly one vector. -/
theorem argvHolds_exact : ∀ (o o' : List String),
    argvHolds (o.map some) o' = true → o' = o
  | [], [], _ => rfl
  | [], _ :: _, h => by simp [argvHolds] at h
  | _ :: _, [], h => by simp [argvHolds] at h
  | a :: os, b :: os', h => by
    simp only [List.map, argvHolds, Bool.and_eq_true, decide_eq_true_eq] at h
    rw [h.1, argvHolds_exact os os' h.2]

theorem argvHolds_refl : ∀ (o : List String), argvHolds (o.map some) o = true
  | [] => rfl
  | _ :: os => by simp [argvHolds, argvHolds_refl os]

/-! ## An observer who knows less predicts less, never something else -/

theorem renderTok_refines {weak strong : Vars} (h : Refines weak strong) (env : EnvTab) (t : Tok) :
    renderTok weak env t = none ∨ renderTok weak env t = renderTok strong env t := by
  cases t with
  | lit s => exact .inr rfl
  | env k => exact .inr rfl
  | other => exact .inl rfl
  | var n => rcases h n with hn | hn <;> simp [renderTok, hn]
  | cond n neg thn els => rcases h n with hn | hn <;> simp [renderTok, hn]
  | join n sep => rcases h n with hn | hn <;> simp [renderTok, hn]
  | length n => rcases h n with hn | hn <;> simp [renderTok, hn]
  | each n pre post => rcases h n with hn | hn <;> simp [renderTok, hn]

theorem render_refines {weak strong : Vars} (h : Refines weak strong) (env : EnvTab) :
    ∀ t : Template, render weak env t = none ∨ render weak env t = render strong env t
  | [] => .inr rfl
  | tok :: ts => by
    rcases renderTok_refines h env tok with h1 | h1
    · left; simp [render, h1]
    · rcases render_refines h env ts with h2 | h2
      · left
        simp only [render, h2]
        cases renderTok weak env tok <;> rfl
      · right; simp [render, h1, h2]

/-- The model meets the judge: whatever the daemon's hook data hold (`full`), if every declared element
renders (no template error: `observed` is the vector the child receives), an observer whose bindings
`weak` tell nothing `full` does not accepts the vector. -/
theorem argv_meets_judge (full weak : Vars) (env : EnvTab) (h : Refines weak full) :
    ∀ (declared : List Template) (observed : List String),
      argv full env declared = observed.map some → holds weak env declared observed = true
  | [], [], _ => rfl
  | [], _ :: _, hv => by simp [argv] at hv
  | _ :: _, [], hv => by simp [argv] at hv
  | t :: ts, o :: os, hv => by
    simp only [argv, List.map, List.cons.injEq] at hv
    have ih := argv_meets_judge full weak env h ts os hv.2
    simp only [holds, expected, List.map, argvHolds, Bool.and_eq_true]
    refine ⟨?_, by simpa [holds, expected] using ih⟩
    rcases render_refines h env t with hw | hw
    · simp [hw]
    · simp [hw, hv.1]

/-- … and with the daemon's own knowledge the judge accepts that vector only. -/
theorem judge_pins_the_vector (full : Vars) (env : EnvTab) (declared : List Template)
    (observed observed' : List String) (hv : argv full env declared = observed.map some)
    (hj : holds full env declared observed' = true) : observed' = observed := by
  have h1 := (argv_one_per_declared_element full env declared).1
  simp only [holds, expected, ← h1, hv] at hj
  exact argvHolds_exact _ _ hj

/-! ## The seeded variant is rejected -/

theorem argvDropEmpty_length_le (vars : Vars) (env : EnvTab) :
    ∀ declared : List Template, (argvDropEmpty vars env declared).length ≤ declared.length
  | [] => Nat.le_refl _
  | t :: ts => by
    have ih := argvDropEmpty_length_le vars env ts
    simp only [argvDropEmpty]
    split <;> simp <;> omega

/-- As soon as one declared element renders to the empty string, the variant's vector is shorter than
the declared list … -/
theorem argvDropEmpty_shorter (vars : Vars) (env : EnvTab) :
    ∀ declared : List Template, (∃ t ∈ declared, render vars env t = some "") →
      (argvDropEmpty vars env declared).length < declared.length
  | [], h => by simp at h
  | t :: ts, h => by
    have hle := argvDropEmpty_length_le vars env ts
    by_cases ht : render vars env t = some ""
    · simp only [argvDropEmpty, ht, List.length_cons]; omega
    · have : ∃ t' ∈ ts, render vars env t' = some "" := by
        rcases h with ⟨t', hm, hr⟩
        rcases List.mem_cons.mp hm with rfl | hm
        · exact absurd hr ht
        · exact ⟨t', hm, hr⟩
      have ih := argvDropEmpty_shorter vars env ts this
      simp only [argvDropEmpty, List.length_cons]
      omega

/-- … and the judge refuses it: a hook whose `args` hold an element that renders to the empty string
(a variable of another type, an unset environment key, a literal "") does not receive its arguments
from the variant `C10-empty-rendered-argument-dropped`. -/
theorem dropping_empty_arguments_is_rejected (vars : Vars) (env : EnvTab) (declared : List Template)
    (observed : List String) (hv : argvDropEmpty vars env declared = observed.map some)
    (he : ∃ t ∈ declared, render vars env t = some "") :
    holds vars env declared observed = false := by
  cases hh : holds vars env declared observed with
  | false => rfl
  | true =>
    have h1 := holds_length vars env declared observed hh
    have h2 := argvDropEmpty_shorter vars env declared he
    rw [hv, List.length_map] at h2
    omega

/-! ## Non-vacuity -/

/-- A dns-01 event for a hook of types http-01 + dns-01 + post-operation declared with
`["{{ identifier }}", "{{ file_name }}", "{{ status }}", "{{ env.UNSET }}", "", "{% if is_success %}ok{% endif %}",
"proof={{ proof }}"]`: seven arguments, four of them empty. -/
def exVars : Vars :=
  [("identifier", .known (.str "example.org")), ("proof", .known (.str "tok.thumb")),
   ("challenge", .known (.str "dns-01")), ("is_clean_hook", .known (.bool false)),
   ("file_name", .unknown), ("raw_proof", .unknown), ("identifier_tls_alpn", .unknown)]

def exDeclared : List Template :=
  [[.var "identifier"], [.var "status"], [.env "UNSET"], [], [.cond "is_success" false "ok" ""],
   [.lit "proof=", .var "proof"], [.var "file_name"]]

example : expected exVars [] exDeclared =
    [some "example.org", some "", some "", some "", some "", some "proof=tok.thumb", none] := by decide

example : holds exVars [] exDeclared ["example.org", "", "", "", "", "proof=tok.thumb", "anything"] = true := by
  decide

/-- What the seeded variant hands to the child for the same hook (the last element rendered "x"). -/
example : holds exVars [] exDeclared ["example.org", "proof=tok.thumb", "x"] = false := by decide

example : argvDropEmpty exVars [] (exDeclared.take 6) = [some "example.org", some "proof=tok.thumb"] := by decide

end AcmedVerif.Props.C10Args
