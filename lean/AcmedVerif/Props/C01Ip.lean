/-
C01, clause "IP addresses in canonical text form" — theorems about `Model/IpText.lean`, the model of
`IpAddr::from_str(value)?.to_string()` (`acmed/src/identifier.rs:62`) with Rust's `core::net` parser and
`Display`.  All statements are for ALL addresses / ALL texts (no bound); the only finite enumeration
used is over the 256 zero / non-zero patterns of the eight groups of an IPv6 address.

* round trips: `parse_print_v4`, `parse_print_v6`, `parse_print_ip`; `print_injective`
* the canonical text: `canon_idempotent`, `canon_same_address`, `canon_unique`, `canon_eq_iff`
* its shape: `printV6_rfc5952` (text-level description `Spec.C01Ip.rfc5952`, written without the
  printer), `printV4_shape`, `print_lowercase_no_leading_zero`, `canon_shape`, `ipCanon_shape`
  (discharges the hypothesis `hip` of `Props.C01Ident.judge_accepts_model` for `ipCanon := canonChars`)
* the judges: `judge_iff_canon` (`Spec.C01Ip.holds configured sent ↔ canon configured = some sent`),
  `judge_refuses_other_spelling`; CSR side: `octets_injective`, `holdsOctets_iff`, `holds_and_holdsOctets`.
-/
import AcmedVerif.Lemmas.IpText
import AcmedVerif.Spec.C01Ident

namespace AcmedVerif.Props.C01Ip
open AcmedVerif.IpText AcmedVerif.Spec.C01Ip

/-! ## Round trips -/

/-- Rust's IPv4 parser reads back what `Display` printed. -/
theorem parse_print_v4 (a : Addr4) : parseV4 (printV4 a) = some a := by
  have := readV4_printV4 a (t := []) (Stops.nil _)
  simp only [List.append_nil] at this
  simp only [parseV4, this]

/-- Rust's IPv6 parser reads back what `Display` printed (compressed, uncompressed or mixed). -/
theorem parse_print_v6 (a : Addr6) : parseV6 (printV6 a) = some a := by
  simp only [parseV6, printV6, readV6_printGroups a.groups a.len, mkAddr6?, a.len, dite_true]

/-- `IpAddr::from_str(addr.to_string()) == Ok(addr)` for every address of either family (the IPv4
reader, which is tried first, does not accept any printed IPv6 text). -/
theorem parse_print_ip (x : IpAddr) : parseIp (printIp x) = some x := by
  cases x with
  | v4 a =>
    have := readV4_printV4 a (t := []) (Stops.nil _)
    simp only [List.append_nil] at this
    simp [parseIp, printIp, this]
  | v6 a =>
    simp [parseIp, printIp, printV6, readV4_printGroups a.groups a.len,
      readV6_printGroups a.groups a.len, mkAddr6?, a.len]

/-- Different addresses have different texts. -/
theorem print_injective {x y : IpAddr} (h : printIp x = printIp y) : x = y := by
  have hx := parse_print_ip x
  rw [h, parse_print_ip y] at hx
  exact (Option.some.inj hx).symm

/-! ## The canonical text -/

theorem canon_eq_some {s t : String} (h : canon s = some t) :
    ∃ x, parseIp s.toList = some x ∧ t = String.ofList (printIp x) := by
  simp only [canon, canonChars, Option.map_map] at h
  cases hp : parseIp s.toList with
  | none => simp [hp] at h
  | some x =>
    simp only [hp, Option.map_some, Option.some.injEq, Function.comp] at h
    exact ⟨x, rfl, h.symm⟩

theorem canon_of_parse {s : String} {x : IpAddr} (h : parseIp s.toList = some x) :
    canon s = some (String.ofList (printIp x)) := by
  simp [canon, canonChars, h]

/-- Normalising a normalised text changes nothing. -/
theorem canon_idempotent {s t : String} (h : canon s = some t) : canon t = some t := by
  obtain ⟨x, _, rfl⟩ := canon_eq_some h
  exact canon_of_parse (by rw [String.toList_ofList]; exact parse_print_ip x)

/-- The normalised text denotes the same address as the configured text. -/
theorem canon_same_address {s t : String} (h : canon s = some t) :
    parseIp t.toList = parseIp s.toList := by
  obtain ⟨x, hs, rfl⟩ := canon_eq_some h
  rw [String.toList_ofList, parse_print_ip, hs]

/-- One text per address: two spellings of the same address normalise to the same text. -/
theorem canon_unique {s t : String} (h : parseIp s.toList = parseIp t.toList)
    (_hs : parseIp s.toList ≠ none) : canon s = canon t := by
  simp only [canon, canonChars, h]

/-- Two accepted spellings have the same canonical text exactly when they denote the same address. -/
theorem canon_eq_iff {s t : String} {x y : IpAddr} (hs : parseIp s.toList = some x)
    (ht : parseIp t.toList = some y) : canon s = canon t ↔ x = y := by
  rw [canon_of_parse hs, canon_of_parse ht]
  constructor
  · intro h
    have h' := congrArg String.toList (Option.some.inj h)
    rw [String.toList_ofList, String.toList_ofList] at h'
    exact print_injective h'
  · intro h; rw [h]

/-- A text is refused exactly when it is no IP address for Rust's parser. -/
theorem canon_none_iff (s : String) : canon s = none ↔ parseIp s.toList = none := by
  cases h : parseIp s.toList <;> simp [canon, canonChars, h]

/-! ## Shape of the canonical text -/

/-- Every IPv6 address is printed in the RFC 5952 form (sections 4.1, 4.2.1, 4.2.2, 4.2.3, 4.3; section
5 mixed notation for IPv4-mapped addresses), as described on the text by `Spec.C01Ip.rfc5952`. -/
theorem printV6_rfc5952 (a : Addr6) : rfc5952 (printV6 a) = true :=
  rfc5952_printGroups a.groups a.len

/-- Every IPv4 address is printed as four decimal numbers 0..255 without leading zeros. -/
theorem printV4_shape (a : Addr4) : v4shape (printV4 a) = true :=
  v4shape_printV4 a

/-- Lower case, no leading zeros, longest zero run compressed: the printed text of every address has
the canonical shape. -/
theorem print_lowercase_no_leading_zero (x : IpAddr) : canonicalShape (printIp x) = true := by
  cases x with
  | v4 a => simp [canonicalShape, printIp, printV4_shape]
  | v6 a => simp [canonicalShape, printIp, printV6_rfc5952]

theorem canon_shape {s t : String} (h : canon s = some t) : canonicalShape t.toList = true := by
  obtain ⟨x, _, rfl⟩ := canon_eq_some h
  rw [String.toList_ofList]
  exact print_lowercase_no_leading_zero x

/-- The alphabet of the canonical text: the hypothesis `hip` of
`Props.C01Ident.judge_accepts_model`, for `ipCanon := IpText.canonChars`. -/
theorem ipCanon_shape (s o : List Char) (h : canonChars s = some o) :
    Spec.C01Ident.ipShapeOk o = true := by
  simp only [canonChars] at h
  cases hp : parseIp s with
  | none => simp [hp] at h
  | some x =>
    simp only [hp, Option.map_some, Option.some.injEq] at h
    subst h
    have hne : (printIp x).isEmpty = false := by
      cases x with
      | v4 a =>
        cases h : printIp (.v4 a) with
        | nil => exact absurd h (printV4_ne_nil a)
        | cons _ _ => rfl
      | v6 a =>
        cases h : printIp (.v6 a) with
        | nil => exact absurd h (printGroups_ne_nil a.groups a.len)
        | cons _ _ => rfl
    have hall : ∀ c ∈ printIp x, canonChar c = true := by
      cases x with
      | v4 a => exact canonChar_printV4 a
      | v6 a => exact canonChar_printGroups a.groups
    simp only [Spec.C01Ident.ipShapeOk, hne, Bool.not_false, Bool.true_and, List.all_eq_true]
    intro c hc
    have := hall c hc
    simpa [canonChar] using this

/-! ## The judge -/

/-- The judge accepts exactly the canonical text of the configured address (its shape conjunct
follows from the first one: it is there to state the shape independently of the printer). -/
theorem judge_iff_canon (configured sent : String) :
    holds configured sent = true ↔ canon configured = some sent := by
  simp only [holds, Bool.and_eq_true, beq_iff_eq]
  constructor
  · exact fun h => h.1
  · exact fun h => ⟨h, canon_shape h⟩

/-- What the model computes is accepted by the judge. -/
theorem judge_accepts_model {s t : String} (h : canon s = some t) : holds s t = true :=
  (judge_iff_canon s t).mpr h

/-- The judge refuses a text left as configured unless it was configured in canonical form, and
refuses every second spelling of the same address. -/
theorem judge_refuses_other_spelling {s t u : String} (h : canon s = some t) (hu : u ≠ t) :
    holds s u = false := by
  cases hh : holds s u with
  | false => rfl
  | true =>
    have := (judge_iff_canon s u).mp hh
    rw [h] at this
    exact absurd (Option.some.inj this).symm hu

/-! ## Octets (the iPAddress entry of the CSR) -/

/-- The 4 or 16 octets determine the address (and its family). -/
theorem octets_injective {x y : IpAddr} (h : octets x = octets y) : x = y := by
  cases x with
  | v4 a =>
    cases y with
    | v4 b =>
      cases a; cases b
      simp only [octets, List.cons.injEq, and_true] at h
      obtain ⟨h1, h2, h3, h4⟩ := h
      subst h1 h2 h3 h4; rfl
    | v6 b =>
      have := congrArg List.length h
      rw [octets_v6, flatMap_groupOctets_length, b.len] at this
      simp [octets] at this
  | v6 a =>
    cases y with
    | v4 b =>
      have := congrArg List.length h
      rw [octets_v6, flatMap_groupOctets_length, a.len] at this
      simp [octets] at this
    | v6 b =>
      rw [octets_v6, octets_v6] at h
      have hg := flatMap_groupOctets_inj _ _ h
      cases a; cases b
      simp only at hg
      subst hg; rfl

/-- The CSR judge accepts exactly the octets of the configured address … -/
theorem holdsOctets_iff (configured : String) (o : List UInt8) :
    holdsOctets configured o = true ↔ ∃ x, parseIp configured.toList = some x ∧ o = octets x := by
  simp only [holdsOctets, beq_iff_eq]
  cases h : parseIp configured.toList with
  | none => simp
  | some x => simp [eq_comm]

/-- … and octets accepted for the configured text are the octets of its canonical text: the order
(text) and the CSR (octets) name the same address exactly when both judges hold. -/
theorem holds_and_holdsOctets {configured sent : String} {o : List UInt8}
    (h1 : holds configured sent = true) (h2 : holdsOctets configured o = true) :
    holdsOctets sent o = true := by
  have hc := (judge_iff_canon configured sent).mp h1
  simp only [holdsOctets] at h2 ⊢
  rw [canon_same_address hc]
  exact h2

/-! ## Non-vacuity: concrete spellings -/

example : canon "2001:DB8::1" = some "2001:db8::1" := by decide
example : canon "2001:0db8:0:0:0:0:0:1" = some "2001:db8::1" := by decide
example : canon "0:0:0:0:0:0:0:1" = some "::1" := by decide
example : canon "::ffff:192.0.2.1" = some "::ffff:192.0.2.1" := by decide
example : canon "0:0:0:0:0:FFFF:C000:201" = some "::ffff:192.0.2.1" := by decide
example : canon "1:0:0:2:0:0:0:3" = some "1:0:0:2::3" := by decide
example : canon "1:0:0:0:2:0:0:0" = some "1::2:0:0:0" := by decide     -- first of two longest runs
example : canon "1:0:2:3:4:5:6:7" = some "1:0:2:3:4:5:6:7" := by decide -- one zero group: no "::"
example : canon "::1.2.3.4" = some "::102:304" := by decide             -- IPv4-compatible: all hex
example : canon "1:2:3:4:5:6:77.88.99.100" = some "1:2:3:4:5:6:4d58:6364" := by decide
example : canon "0::0" = some "::" := by decide
example : canon "192.0.2.1" = some "192.0.2.1" := by decide
example : canon "01.2.3.4" = none := by decide                          -- leading zero (octal look-alike)
example : canon "256.1.1.1" = none := by decide
example : canon "1.2.3" = none := by decide
example : canon "12345::" = none := by decide
example : canon "1::2::3" = none := by decide
example : canon "fe80::1%eth0" = none := by decide
example : canon "[::1]" = none := by decide
example : canon "" = none := by decide
example : canon "1:2:3:4:5:6:7:" = none := by decide
example : canon "1:2:3:4:5:6:7:8:9" = none := by decide
example : canon "1:2:3:4::5:6:7:8" = none := by decide                  -- "::" must stand for ≥ 1 group
example : canon " ::1" = none := by decide
example : canon "1.2.3.4::" = none := by decide
example : holds "2001:DB8::1" "2001:db8::1" = true := by decide
example : holds "2001:DB8::1" "2001:DB8::1" = false := by decide
example : holds "2001:db8:0:0:0:0:0:1" "2001:db8:0:0:0:0:0:1" = false := by decide
-- the text-level description alone refuses non-canonical spellings …
example : rfc5952 "2001:DB8::1".toList = false := by decide
example : rfc5952 "2001:db8:0:0:0:0:0:1".toList = false := by decide
example : rfc5952 "2001:db8::0:1".toList = false := by decide
example : rfc5952 "1::2:0:0:0:3".toList = false := by decide            -- not the longest run
example : rfc5952 "1:0:0:0:2::".toList = false := by decide             -- not the first longest run
example : rfc5952 "1:2:3:4:5:6:7::".toList = false := by decide         -- "::" for one group
example : rfc5952 "::ffff:192.0.02.1".toList = false := by decide
-- … and accepts the canonical ones
example : rfc5952 "2001:db8::1".toList = true := by decide
example : rfc5952 "1:0:0:2::3".toList = true := by decide
example : rfc5952 "::ffff:192.0.2.1".toList = true := by decide
example : rfc5952 "::".toList = true := by decide
example : holdsOctets "::FFFF:1.2.3.4" [0,0,0,0,0,0,0,0,0,0,255,255,1,2,3,4] = true := by decide
example : holdsOctets "1.2.3.4" [0,0,0,0,0,0,0,0,0,0,255,255,1,2,3,4] = false := by decide
example : holdsOctets "1.2.3.4" [1,2,3,4] = true := by decide

end AcmedVerif.Props.C01Ip
