/-
C01 / C16 — "DNS names as lowercase A-labels" with the lower-casing the code really uses.

`Model/Lower.lean: lowerFull` is a transliteration of Rust's `str::to_lowercase` over the tables of
`Gen/Lower.lean` (regenerated on every run from the COMPILED std by executing every Unicode scalar
value).  The theorems of `Props/C01Ident.lean` / `Props/C16.lean` are stated for EVERY `lowerStr`
under hypotheses (`LowerAscii`, `LowerNoUpper`, `LowerNoDot`, `LowerBounded`); here the hypotheses
are PROVED of `lowerFull` — for all strings, from two closed facts about the generated table
(`Lemmas/Lower.lean: asciiTable, tableOutputs`, by `decide`) — and the theorems are instantiated, so
that the function the driver evaluates (`Lower.toIdnaFull`, ops `idna` / `lower_str`) is the one the
theorems are about.

What is NOT proved: that `lowerFull` IS `str::to_lowercase` (std is not verified): the tables are
tied exhaustively, the string-level rule by correspondence on generated labels (`py/ext/idnagen.py`).
Reading of "A-label": `xn--` + RFC 3492 punycode of the label lower-cased by `str::to_lowercase`;
no NFC / UTS-46 mapping (the code does none).
-/
import AcmedVerif.Model.Lower
import AcmedVerif.Lemmas.Lower
import AcmedVerif.Props.C01Ident
import AcmedVerif.Props.C16

namespace AcmedVerif.Props.C01Lower
open AcmedVerif.Idna AcmedVerif.Lower AcmedVerif.Tacd

/-- **`lowerFull_ascii`.** On every all-ASCII string `str::to_lowercase` (the model of it) is ASCII
lower-casing: `A`–`Z` to `a`–`z`, every other character kept (this is what makes the ASCII fast
path of the std function semantically irrelevant). -/
theorem lowerFull_ascii (s : List Char) (h : allAscii s = true) : lowerFull s = s.map asciiLower :=
  lowerGo_ascii s [] h

/-- **`lowerFull_idempotent_on_ascii`.** -/
theorem lowerFull_idempotent_on_ascii (s : List Char) (h : allAscii s = true) :
    lowerFull (lowerFull s) = lowerFull s := by
  have h1 := lowerFull_ascii s h
  obtain ⟨ha, hu, _, hfix⟩ := map_asciiLower_ascii s h
  rw [h1, lowerFull_ascii _ ha]
  exact (map_asciiLower_ascii (s.map asciiLower) ha).2.2.2 hu

/-- The result has at least as many and at most three times as many characters as the input. -/
theorem lowerFull_length (s : List Char) :
    s.length ≤ (lowerFull s).length ∧ (lowerFull s).length ≤ 3 * s.length :=
  lowerGo_length s []

/-- **`lowerFull_positions`.** `to_lowercase` works position by position: in `pre ++ c :: post` the
character `c` contributes `lowerAt pre.reverse c post` — for `c ≠ Σ` its row of the table (or itself),
independent of the neighbours; for `c = Σ` the context-dependent `mapSigma`. -/
theorem lowerFull_positions (pre : List Char) (c : Char) (post : List Char) :
    lowerFull (pre ++ c :: post) =
      lowerSeg [] pre (c :: post) ++ lowerAt pre.reverse c post ++
        lowerSeg (c :: pre.reverse) post [] := by
  unfold lowerFull
  rw [lowerGo_eq_seg, lowerSeg_append]
  simp only [lowerSeg, List.append_nil, List.append_assoc]

/-- **`lowerChar_table`.** The per-character step IS the generated table (the binary search finds a
row exactly when the table has one): a character with a row is replaced by the row's output, a
character without a row is kept. -/
theorem lowerChar_table (c : Char) :
    (∀ v, (c.toNat, v) ∈ Gen.lowerMap.toList → lowerChar c = v.map Char.ofNat) ∧
    ((∀ v, (c.toNat, v) ∉ Gen.lowerMap.toList) → lowerChar c = [c]) := by
  constructor
  · intro v hv
    unfold lowerChar
    rw [(findKey_iff _ lowerMap_sorted table_sizes.1 _ _).2 hv]
  · intro h
    unfold lowerChar
    rw [findKey_none _ _ h]

/-- **`sets_are_tables`.** The two sets of the final-sigma rule ARE the generated range tables. -/
theorem sets_are_tables (c : Char) :
    (isIgnorable c = true ↔ ∃ r ∈ Gen.ignorableRanges.toList, r.1 ≤ c.toNat ∧ c.toNat ≤ r.2) ∧
    (isCased c = true ↔ ∃ r ∈ Gen.casedRanges.toList, r.1 ≤ c.toNat ∧ c.toNat ≤ r.2) :=
  ⟨inRanges_iff _ ignorable_sorted table_sizes.2.1 _, inRanges_iff _ cased_sorted table_sizes.2.2 _⟩

/-- Before Σ, going backwards: skipped characters only, then a cased one. -/
def PrecededByCased (pre : List Char) : Prop :=
  ∃ a c b, pre = a ++ c :: b ∧ (∀ x ∈ b, isIgnorable x = true) ∧ isIgnorable c = false ∧
    isCased c = true

/-- After Σ: skipped characters only, then a cased one. -/
def FollowedByCased (post : List Char) : Prop := ReachesCased post

theorem precededByCased_iff (pre : List Char) : PrecededByCased pre ↔ ReachesCased pre.reverse := by
  constructor
  · rintro ⟨a, c, b, h, hb, hc, hcc⟩
    refine ⟨b.reverse, c, a.reverse, by simp [h], ?_, hc, hcc⟩
    intro x hx
    exact hb x (List.mem_reverse.1 hx)
  · rintro ⟨a, c, b, h, ha, hc, hcc⟩
    refine ⟨b.reverse, c, a.reverse, ?_, ?_, hc, hcc⟩
    · have := congrArg List.reverse h
      simpa using this
    · intro x hx
      exact ha x (List.mem_reverse.1 hx)

/-- **`sigma_final_iff`.** In `pre ++ Σ :: post` the capital sigma becomes `ς` (U+03C2) exactly when,
in terms of the two generated sets, a cased character precedes it with only skipped characters in
between (searched over the ORIGINAL characters of `pre`) and no cased character follows it after
only skipped characters; in every other case it becomes `σ` (U+03C3). -/
theorem sigma_final_iff (pre post : List Char) :
    (lowerAt pre.reverse capitalSigma post = [finalSigma] ↔
      PrecededByCased pre ∧ ¬ FollowedByCased post) ∧
    (lowerAt pre.reverse capitalSigma post = [smallSigma] ↔
      ¬ (PrecededByCased pre ∧ ¬ FollowedByCased post)) := by
  have hne : finalSigma ≠ smallSigma := by decide
  rw [precededByCased_iff, FollowedByCased, ← ignorableThenCased_iff, ← ignorableThenCased_iff]
  simp only [lowerAt, if_true, mapSigma, List.cons.injEq, and_true]
  by_cases h1 : ignorableThenCased pre.reverse = true <;>
    by_cases h2 : ignorableThenCased post = true <;>
    simp [h1, h2, hne, hne.symm]

/-! ## The hypotheses of the general theorems hold of `lowerFull` -/

theorem lowerFull_lowerAscii : LowerAscii lowerFull := ⟨lowerFull_ascii⟩

theorem lowerFull_noUpper : LowerNoUpper lowerFull := ⟨fun s c hc => lowerGo_noUpper s [] c hc⟩

theorem lowerFull_noDot : LowerNoDot lowerFull := ⟨fun s hs => lowerGo_noDot s [] hs⟩

theorem lowerFull_bounded : LowerBounded lowerFull :=
  lowerBounded_of_factor 3 (by omega) (fun s => (lowerFull_length s).2)

/-! ## The general theorems at `lowerStr := lowerFull` -/

/-- `Props/C01Ident.idna_label_shape` for the driver's function: shape of every output label, the
whole result ASCII without upper-case letter. -/
theorem idna_label_shape_full (chk : Bool) (p : Profile) (domain out : List Char)
    (h : toIdnaStrG chk lowerFull p domain = .ok out) :
    ∃ ls, out = joinWith '.' ls ∧ ls.length = (splitOn '.' domain).length ∧
      (∀ x ∈ (splitOn '.' domain).zip ls, LabelShape lowerFull p x.1 x.2) ∧
      (∀ c ∈ out, isAscii c = true) ∧ (∀ c ∈ out, isAsciiUpper c = false) ∧
      (chk = true → ∀ name ∈ splitOn '.' domain, name.length ≤ 63) := by
  obtain ⟨ls, h1, h2, h3, h4, h5, h6⟩ :=
    C01Ident.idna_label_shape chk lowerFull lowerFull_lowerAscii p domain out h
  exact ⟨ls, h1, h2, h3, h4, h5 lowerFull_noUpper, h6⟩

/-- `idna_total`: with the real lower-casing, `to_idna` answers `ok` or `err` in both profiles. -/
theorem idna_total_full (p : Profile) (domain : List Char) :
    (∃ out, toIdnaStr lowerFull p domain = .ok out) ∨ toIdnaStr lowerFull p domain = .err :=
  C01Ident.idna_total lowerFull lowerFull_bounded p domain

theorem idna_ascii_idempotent_full (chk : Bool) (p : Profile) (domain : List Char)
    (h1 : allAscii domain = true) (h2 : ∀ c ∈ domain, isAsciiUpper c = false)
    (h3 : chk = true → ∀ name ∈ splitOn '.' domain, name.length ≤ 63) :
    toIdnaStrG chk lowerFull p domain = .ok domain :=
  C01Ident.idna_ascii_idempotent chk lowerFull lowerFull_lowerAscii p domain h1 h2 h3

theorem idna_idempotent_full (chk : Bool) (p : Profile) (domain out : List Char)
    (h : toIdnaStrG chk lowerFull p domain = .ok out)
    (h3 : chk = true → ∀ l ∈ splitOn '.' out, l.length ≤ 63) :
    toIdnaStrG chk lowerFull p out = .ok out :=
  C01Ident.idna_idempotent chk lowerFull lowerFull_lowerAscii lowerFull_noUpper p domain out h h3

theorem idna_label_count_full (chk : Bool) (p : Profile) (domain out : List Char)
    (h : toIdnaStrG chk lowerFull p domain = .ok out) :
    (splitOn '.' out).length = (splitOn '.' domain).length :=
  C01Ident.idna_label_count chk lowerFull lowerFull_lowerAscii lowerFull_noDot p domain out h

/-- The judge's shape definition accepts every result of the driver's `to_idna`. -/
theorem judge_accepts_idna_full (chk : Bool) (p : Profile) (domain out : List Char)
    (h : toIdnaStrG chk lowerFull p domain = .ok out) :
    Spec.C01Ident.dnsShapeOk domain out = true :=
  C01Ident.judge_accepts_idna chk lowerFull lowerFull_lowerAscii lowerFull_noUpper lowerFull_noDot
    p domain out h

/-- The driver op `idna` (`Lower.toIdnaFull`) is `toIdnaStr lowerFull .release`. -/
theorem toIdnaFull_eq (domain out : List Char) :
    toIdnaFull domain = some out ↔ toIdnaStr lowerFull .release domain = .ok out := by
  unfold toIdnaFull
  cases toIdnaStr lowerFull .release domain <;> simp

/-- **C16, `tacd_san_full`.** With the real lower-casing: the only subjectAltName tacd hands to the
certificate builder is `to_idna` of the domain value, which is ASCII, without upper-case letter,
label by label of the shape `LabelShape` (ASCII labels lower-cased, others `xn--` + punycode of the
label lower-cased by `lowerFull`). -/
theorem tacd_san_full (p : Profile) (domain ext : Source) (spec : CertSpec)
    (h : certSpec lowerFull p domain ext = .ok spec) :
    toIdnaStr lowerFull p (sourceValue domain) = .ok spec.sanDns ∧
    (∀ c ∈ spec.sanDns, isAscii c = true ∧ isAsciiUpper c = false) ∧
    ∃ ls, spec.sanDns = joinWith '.' ls ∧
      ls.length = (splitOn '.' (sourceValue domain)).length ∧
      ∀ x ∈ (splitOn '.' (sourceValue domain)).zip ls, LabelShape lowerFull p x.1 x.2 := by
  have h0 := (C16.san_is_alabel lowerFull p domain ext spec h).1
  obtain ⟨ls, h1, h2, h3, h4, h5, _⟩ :=
    idna_label_shape_full true p (sourceValue domain) spec.sanDns h0
  exact ⟨h0, fun c hc => ⟨h4 c hc, h5 c hc⟩, ls, h1, h2, h3⟩

/-! ## Fixed points against the compiled code (values observed on the real `to_idna`) -/

/-- `ΣΑΣ.example`: the last sigma is final (`xn--mxa8ab`, not `xn--mxa9ab`). -/
example : toIdnaFull [Char.ofNat 0x3A3, Char.ofNat 0x391, Char.ofNat 0x3A3, '.', 'e', 'x'] =
    some "xn--mxa8ab.ex".toList := by decide +kernel

/-- Lower-casing is per LABEL: in `α.Σ` the sigma stands alone in its label (not final), although
`.` is a skipped character and `α` is cased. -/
example : toIdnaFull [Char.ofNat 0x3B1, '.', Char.ofNat 0x3A3] = some "xn--mxa.xn--4xa".toList := by
  decide +kernel

/-- U+0130 becomes two characters. -/
example : lowerFull [Char.ofNat 0x130] = ['i', Char.ofNat 0x307] := by decide +kernel

/-- The hypotheses of `sigma_final_iff` are satisfiable both ways: after `α` + soft hyphen the sigma
is final; before `α` it is not. -/
example : lowerFull [Char.ofNat 0x3B1, Char.ofNat 0xAD, capitalSigma] =
      [Char.ofNat 0x3B1, Char.ofNat 0xAD, finalSigma] ∧
    lowerFull [Char.ofNat 0x3B1, capitalSigma, Char.ofNat 0x3B1] =
      [Char.ofNat 0x3B1, smallSigma, Char.ofNat 0x3B1] := by
  refine ⟨by decide +kernel, by decide +kernel⟩

/-- DESIGN §1 observation (i) with the real table: U+212A KELVIN SIGN. -/
example : toIdnaFull [Char.ofNat 0x212A, '.', 'e', 'x'] = some "xn--k-.ex".toList := by
  decide +kernel

end AcmedVerif.Props.C01Lower
