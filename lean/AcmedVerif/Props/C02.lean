/-
C02 — stored files hold exactly what was written, no residue (clause C02.3, and the storage half of
C02.1/C02.2: `write_certificate`/`set_keypair`/`set_account_data` store their argument verbatim), and
C10 clause 4 — file writes are bracketed by the file hooks (`bracket`).
Theorems about `Model/Storage.lean` (`write_file`, storage.rs:194-247); lemmas in `Lemmas/Storage.lean`.

`Trunc.yes` is the current code (`.truncate(true)`); `Trunc.no` the tree before the repair.
-/
import AcmedVerif.Model.Storage
import AcmedVerif.Spec.C02
import AcmedVerif.Lemmas.Storage

namespace AcmedVerif.Props.C02
open AcmedVerif.Fs AcmedVerif.Storage

/-! ### one write -/

/-- **C02.3, one write, full strength.** With truncation, for every previous state of the file
system (file absent, shorter, longer, any mode or owner), every file type, settings, hook outcome,
passwd database and `chown` outcome: a write that reached `write_all` — in particular every write
reported successful — leaves exactly `data` in the file. -/
theorem write_exact_wrote (env : Env) (proc : Proc) (s : Settings) (fs : Fs) (t : FileType)
    (p : Path) (data : List UInt8)
    (h : (writeFile .yes env proc s fs t p data).wrote = true) :
    contentAt (writeFile .yes env proc s fs t p data).fs p = some data := by
  rw [writeFile_contentAt]; simp [h]

theorem write_exact (env : Env) (proc : Proc) (s : Settings) (fs : Fs) (t : FileType)
    (p : Path) (data : List UInt8)
    (h : (writeFile .yes env proc s fs t p data).result = .ok) :
    contentAt (writeFile .yes env proc s fs t p data).fs p = some data :=
  write_exact_wrote env proc s fs t p data
    (writeFile_ok_wrote _ _ _ _ _ _ _ _ (by simp [Outcome.isOk, h]))

/-- A write never touches another path (either variant, whatever its result). -/
theorem write_frame (trunc : Trunc) (env : Env) (proc : Proc) (s : Settings) (fs : Fs)
    (t : FileType) (p q : Path) (data : List UInt8) (hq : p ≠ q) :
    get (writeFile trunc env proc s fs t p data).fs q = get fs q := by
  cases h : env.hookOk (preHook (get fs p).isNone) with
  | false => rw [writeFile_pre_failed _ _ _ _ _ _ _ _ h]
  | true => exact (writeFile_passed trunc env proc s fs t p data h _ rfl _ rfl _ rfl).2.1 q hq

/-- A hard failure of the pre hook: the file system is untouched (no file created, nothing
truncated), the call fails, and the only event is that hook. -/
theorem failed_pre_hook_no_write (trunc : Trunc) (env : Env) (proc : Proc) (s : Settings) (fs : Fs)
    (t : FileType) (p : Path) (data : List UInt8)
    (h : env.hookOk (preHook (get fs p).isNone) = false) :
    (writeFile trunc env proc s fs t p data).fs = fs ∧
    (writeFile trunc env proc s fs t p data).result = .err .preHook ∧
    (writeFile trunc env proc s fs t p data).events = [.hook (preHook (get fs p).isNone)] := by
  rw [writeFile_pre_failed _ _ _ _ _ _ _ _ h]; exact ⟨rfl, rfl, rfl⟩

/-- Storage half of C02.1 / C02.2 / account durability: the three public writers store their
argument byte for byte. -/
theorem certificate_verbatim (env : Env) (proc : Proc) (s : Settings) (fs : Fs) (p : Path)
    (chain : List UInt8) (h : (writeCertificate .yes env proc s fs p chain).result = .ok) :
    contentAt (writeCertificate .yes env proc s fs p chain).fs p = some chain :=
  write_exact env proc s fs .certificate p chain h

theorem keypair_verbatim (env : Env) (proc : Proc) (s : Settings) (fs : Fs) (p : Path)
    (pem : List UInt8) (h : (setKeypair .yes env proc s fs p pem).result = .ok) :
    contentAt (setKeypair .yes env proc s fs p pem).fs p = some pem :=
  write_exact env proc s fs .privateKey p pem h

theorem account_verbatim (env : Env) (proc : Proc) (s : Settings) (fs : Fs) (p : Path)
    (blob : List UInt8) (h : (setAccountData .yes env proc s fs p blob).result = .ok) :
    contentAt (setAccountData .yes env proc s fs p blob).fs p = some blob :=
  write_exact env proc s fs .account p blob h

/-! ### the tree before the repair (no `O_TRUNC`) -/

/-- The full statement is FALSE without truncation: `BBB` over 20×`A` leaves `BBBAAAA…`
(observation a). -/
theorem write_no_trunc_is_false :
    ¬ ∀ (env : Env) (proc : Proc) (s : Settings) (fs : Fs) (t : FileType) (p : Path)
        (data : List UInt8), (writeFile .no env proc s fs t p data).result = .ok →
        contentAt (writeFile .no env proc s fs t p data).fs p = some data := by
  intro h
  have := h Env.allOk { umask := 0o022, uid := 0, gid := 0 } {}
    [("c.pem".toList, { content := List.replicate 20 65, mode := 0o644, uid := 0, gid := 0 })]
    .certificate "c.pem".toList [66, 66, 66] (by decide)
  revert this
  decide

/-- What the unrepaired tree does guarantee: class K = "the file existed and was longer than the
new content"; outside K the content is exact. -/
theorem write_exact_unless_shrinking (env : Env) (proc : Proc) (s : Settings) (fs : Fs)
    (t : FileType) (p : Path) (data : List UInt8)
    (h : (writeFile .no env proc s fs t p data).wrote = true)
    (hK : ∀ f, get fs p = some f → f.content.length ≤ data.length) :
    contentAt (writeFile .no env proc s fs t p data).fs p = some data := by
  rw [writeFile_wrote] at h
  have hp := (writeFile_passed .no env proc s fs t p data h _ rfl _ rfl _ rfl).1
  simp only [contentAt, hp, Option.map_some, finalFile_content, preFile_content_no]
  cases hg : get fs p with
  | none => simp [overwrite_nil]
  | some f => simp [overwrite_of_le _ _ (hK f hg)]

/-- …and exactly what it leaves inside K: the new bytes followed by the old tail. -/
theorem write_no_trunc_residue (env : Env) (proc : Proc) (s : Settings) (fs : Fs)
    (t : FileType) (p : Path) (data : List UInt8) (f : File) (hf : get fs p = some f)
    (h : (writeFile .no env proc s fs t p data).wrote = true) :
    contentAt (writeFile .no env proc s fs t p data).fs p =
      some (data ++ f.content.drop data.length) := by
  rw [writeFile_wrote] at h
  have hp := (writeFile_passed .no env proc s fs t p data h _ rfl _ rfl _ rfl).1
  simp only [contentAt, hp, Option.map_some, finalFile_content, preFile_content_no, hf,
    Option.getD_some, overwrite]

/-! ### histories -/

/-- **C02.3 over histories, full strength (no bound on the history).** After any sequence of writes
(any mix of account, key and certificate files, paths, sizes, settings, hook and `chown` outcomes)
from any initial file system, every path holds exactly the bytes of the LAST write to it that
reached `write_all`; a path no such write touched still holds what it held at the start. -/
theorem histories_exact (proc : Proc) (fs0 : Fs) (h : List WriteOp) (p : Path) :
    contentAt (runHistory .yes proc fs0 h).1 p =
      match lastWrite (runHistory .yes proc fs0 h).2 p with
      | some d => some d
      | none => contentAt fs0 p := by
  rw [run_contentAt, replay_eq]
  cases lastWrite (runHistory .yes proc fs0 h).2 p <;> rfl

/-- The same in the words of the property: if the last write to `p` in the history was reported
successful, `p` holds exactly its bytes. -/
theorem histories_exact_ok (proc : Proc) (fs0 : Fs) (h : List WriteOp) (p : Path)
    (l : Spec.C02.Obs)
    (hl : Spec.C02.lastOn (observe (runHistory .yes proc fs0 h).2) p = some l)
    (hok : l.ok = true) :
    contentAt (runHistory .yes proc fs0 h).1 p = some l.data := by
  rw [histories_exact, run_lastOn_ok .yes proc fs0 h p l hl hok]

/-- The model with truncation satisfies the C02 judge on every history. -/
theorem model_meets_spec (proc : Proc) (fs0 : Fs) (h : List WriteOp) :
    Spec.C02.holds (observe (runHistory .yes proc fs0 h).2)
      (contents (runHistory .yes proc fs0 h).1) = true := by
  unfold Spec.C02.holds
  rw [List.all_eq_true]
  intro o _
  split
  · next l hl =>
    cases hok : l.ok with
    | false => rfl
    | true =>
      rw [lookup_contents, histories_exact_ok proc fs0 h o.path l hl hok]
      simp
  · rfl

/-- …and the judge rejects the unrepaired model on the witness history. -/
theorem spec_rejects_no_trunc :
    ∃ (proc : Proc) (fs0 : Fs) (h : List WriteOp),
      Spec.C02.holds (observe (runHistory .no proc fs0 h).2)
        (contents (runHistory .no proc fs0 h).1) = false :=
  ⟨{ umask := 0o022, uid := 0, gid := 0 }, [],
   [{ ftype := .certificate, path := "c.pem".toList, data := List.replicate 20 65, settings := {},
      env := Env.allOk },
    { ftype := .certificate, path := "c.pem".toList, data := [66, 66, 66], settings := {},
      env := Env.allOk }], by decide⟩

/-! ### C10 clause 4: bracketing -/

/-- Which pair of hooks: create iff the file was absent when `write_file` was entered. -/
theorem bracket_kind (fs : Fs) (p : Path) :
    (get fs p = none → preHook (get fs p).isNone = .filePreCreate ∧
                        postHook (get fs p).isNone = .filePostCreate) ∧
    (get fs p ≠ none → preHook (get fs p).isNone = .filePreEdit ∧
                        postHook (get fs p).isNone = .filePostEdit) := by
  cases get fs p <;> simp [preHook, postHook]

/-- **C10.4.** Every call starts with the pre hook of the right kind; on success the events are
`pre, …, post` with the matching post hook last, the write strictly between them and no other hook
in between; a hard failure of the pre hook means no write (and nothing else) happened; in every
case the only hook events are that pre hook, first, and possibly the matching post hook, last. -/
theorem bracket (trunc : Trunc) (env : Env) (proc : Proc) (s : Settings) (fs : Fs)
    (t : FileType) (p : Path) (data : List UInt8) :
    (writeFile trunc env proc s fs t p data).events.head? = some (.hook (preHook (get fs p).isNone)) ∧
    ((writeFile trunc env proc s fs t p data).result = .ok →
      ∃ mid, (writeFile trunc env proc s fs t p data).events =
          [.hook (preHook (get fs p).isNone)] ++ mid ++ [.hook (postHook (get fs p).isNone)] ∧
        Event.written ∈ mid ∧ ∀ e ∈ mid, Spec.C02.isHook e = false) ∧
    (env.hookOk (preHook (get fs p).isNone) = false →
      Event.written ∉ (writeFile trunc env proc s fs t p data).events ∧
      (writeFile trunc env proc s fs t p data).fs = fs) ∧
    Spec.C02.bracketHolds (get fs p).isSome (env.hookOk (preHook (get fs p).isNone))
      (writeFile trunc env proc s fs t p data).isOk
      (writeFile trunc env proc s fs t p data).events = true := by
  cases h : env.hookOk (preHook (get fs p).isNone) with
  | false =>
    rw [writeFile_pre_failed _ _ _ _ _ _ _ _ h]
    refine ⟨rfl, by simp, fun _ => ⟨by simp, rfl⟩, ?_⟩
    cases get fs p <;> simp [Spec.C02.bracketHolds, preHook, Outcome.isOk]
  | true =>
    obtain ⟨_, _, hres, ce, hce, _, hev⟩ :=
      writeFile_passed trunc env proc s fs t p data h _ rfl _ rfl _ rfl
    have hnh := chowned_not_hook ce hce
    rw [List.all_eq_true] at hnh
    rcases hev with ⟨hev, hsome⟩ | ⟨hev, hnone⟩
    · refine ⟨by rw [hev]; rfl, ?_, by simp, ?_⟩
      · intro _
        refine ⟨.opened :: .written :: ce, by rw [hev]; simp, by simp, ?_⟩
        intro e he
        simp only [List.mem_cons] at he
        rcases he with rfl | rfl | he
        · rfl
        · rfl
        · simpa using hnh e he
      · rw [hev]
        have hlast : (Event.opened :: Event.written :: (ce ++ [Event.hook (postHook (get fs p).isNone)])) =
            (Event.opened :: Event.written :: ce) ++ [Event.hook (postHook (get fs p).isNone)] := by simp
        have hall : (Event.opened :: Event.written :: ce).all (fun x => !Spec.C02.isHook x) = true := by
          rw [List.all_eq_true]
          intro e he
          simp only [List.mem_cons] at he
          rcases he with rfl | rfl | he
          · rfl
          · rfl
          · exact hnh e he
        simp only [Spec.C02.bracketHolds, hlast, List.getLast?_concat, List.dropLast_concat, hall]
        cases get fs p <;> cases (writeFile trunc env proc s fs t p data).isOk <;>
          simp [preHook, postHook, Spec.C02.isHook]
    · have hnok : (writeFile trunc env proc s fs t p data).result ≠ .ok := by
        intro hok
        have := (hres.mp hok).1
        rw [hnone] at this
        cases this
      refine ⟨by rw [hev]; rfl, fun hok => absurd hok hnok, by simp, ?_⟩
      have hisok : (writeFile trunc env proc s fs t p data).isOk = false := by
        simp [Outcome.isOk, hnok]
      rw [hev, hisok]
      cases get fs p <;> simp [Spec.C02.bracketHolds, preHook, Spec.C02.isHook]

/-! ### non-vacuity -/

/-- A successful write over a longer file, with a named owner, exists. -/
example :
    let env := Env.ofTables true true true true [("acme".toList, 1000)] [] true
    let fs : Fs := [("k.pem".toList, { content := List.replicate 20 65, mode := 0o600, uid := 0, gid := 0 })]
    (writeFile .yes env { umask := 0o022, uid := 0, gid := 0 }
      { pkUser := some "acme".toList } fs .privateKey "k.pem".toList [66, 66, 66]).result = .ok := by
  decide

/-- The shrinking class of `write_exact_unless_shrinking` is not everything: a growing rewrite. -/
example :
    (writeFile .no Env.allOk { umask := 0o022, uid := 0, gid := 0 } {}
      [("a.bin".toList, { content := [1, 2], mode := 0o600, uid := 0, gid := 0 })]
      .account "a.bin".toList [7, 8, 9]).wrote = true := by
  decide

end AcmedVerif.Props.C02
