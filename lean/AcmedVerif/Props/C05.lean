/-
C05 — each authorization is solved with the configured challenge and the right proof.  Lookup and
reverse names: `Props/C05Lookup.lean`; proof values: `Props/C15.lean` (`key_authorization_shape`,
`proof_http`, `proof_dns`, `proof_tls_alpn_shape`, `parseDerConf_proof`); ordering of hooks and the
"ready" POST, no hook for a valid authorization: `Props/FlowMisc.lean`.  Here: the supported
challenge table against the compiled code (Gen/Tables.lean) and non-vacuity of the judge.
-/
import AcmedVerif.Props.C05Lookup
import AcmedVerif.Props.C15
import AcmedVerif.Props.FlowMisc
import AcmedVerif.Spec.C05
import AcmedVerif.Gen.Tables

namespace AcmedVerif.Props.C05
open AcmedVerif AcmedVerif.Ident

/-- `IdentifierType::supported_challenges` of the compiled code is the model's table. -/
theorem supported_challenges_table :
    (supportedChallenges .dns).map (fun c => String.ofList c.name) = AcmedVerif.Gen.supportedChallengesDns ∧
    (supportedChallenges .ip).map (fun c => String.ofList c.name) = AcmedVerif.Gen.supportedChallengesIp := by
  decide

def exA (valid : Bool) (hooks : List String) (ready : Nat) : Spec.C05.AuthzObs where
  servedValid := valid
  configuredType := "dns-01"
  offered := ["http-01", "dns-01", "tls-alpn-01"]
  hookTypes := hooks
  hookIdentOk := true
  proofOk := true
  hookFailed := false
  readyPosts := ready
  readyAfterHooks := true

example : Spec.C05.authzOk (exA false ["challenge-dns-01"] 1) = true := by decide
example : Spec.C05.authzOk (exA false ["challenge-http-01"] 1) = false := by decide
example : Spec.C05.authzOk (exA true ["challenge-dns-01"] 0) = false := by decide
example : Spec.C05.authzOk (exA true [] 0) = true := by decide
example : Spec.C05.authzOk (exA false [] 0) = false := by decide

end AcmedVerif.Props.C05
