/-
Which key signs the key-change request of an attempt (`Model/Flow.lean`, current tree): lemmas for
`Props/C04Bind.lean` `rollover_outer_signed_by_recorded_key`.
-/
import AcmedVerif.Model.Flow
import AcmedVerif.Lemmas.Flow

namespace AcmedVerif.Flow

/-- Not a key-change request. -/
def NoKC : Ev → Prop
  | .exch .keyChange _ _ _ => False
  | _ => True

/-- If a key-change request, then `kid`-authenticated and signed by `rec`. -/
def KCBy (rec : KeyId) : Ev → Prop
  | .exch .keyChange a s _ => a = .kid ∧ s = rec
  | _ => True

theorem NoKC.kcBy {rec : KeyId} {e : Ev} (h : NoKC e) : KCBy rec e := by
  cases e with
  | exch k a s r => cases k <;> first | exact h.elim | trivial
  | _ => trivial

theorem NoExch.kcBy {rec : KeyId} {e : Ev} (h : NoExch e) : KCBy rec e := by
  cases e with
  | exch k a s r => exact h.elim
  | _ => trivial

/-- The events `m` adds from world `w` all satisfy `P`. -/
def Tr (P : Ev → Prop) (m : M α) (w : World) : Prop :=
  ∃ es, (m w).2.trace = w.trace ++ es ∧ ∀ e ∈ es, P e

theorem Tr.of_sat {P : Ev → Prop} {m : M α} (h : Sat (TR (AllEv P)) m) (w : World) : Tr P m w := by
  obtain ⟨es, he, hp⟩ := h.run w
  exact ⟨es, he, hp⟩

theorem Tr.bind {P : Ev → Prop} {m : M α} {f : α → M β} {w : World} (hm : Tr P m w)
    (hf : ∀ a w1, m w = (.val a, w1) → Tr P (f a) w1) : Tr P (m >>= f) w := by
  obtain ⟨es1, he1, hp1⟩ := hm
  rcases bind_cases m f w with ⟨a, w1, e1, e2⟩ | ⟨_, _, e3⟩
  · obtain ⟨es2, he2, hp2⟩ := hf a w1 e1
    rw [e1] at he1
    refine ⟨es1 ++ es2, ?_, ?_⟩
    · rw [e2, he2, he1, List.append_assoc]
    · intro e he
      rcases List.mem_append.mp he with h | h
      · exact hp1 e h
      · exact hp2 e h
  · exact ⟨es1, by rw [e3, he1], hp1⟩

theorem Tr.pure {P : Ev → Prop} (a : α) (w : World) : Tr P (pure a : M α) w :=
  ⟨[], by simp [pure_run], by simp⟩

section NoKCWalk
local macro "nk" "[" ts:term,* "]" : tactic =>
  `(tactic| (walk [$ts,*] [AllEv.exchange NoKC, AllEv.hookGroup NoKC, AllEv.emit NoKC,
                  AllEv.modAcc NoKC] (AllEv.tlaw NoKC).law
             all_goals simp [NoKC, authOf]))

theorem NoKC.saveAccount : Sat (TR (AllEv NoKC)) saveAccount := by
  unfold Flow.saveAccount writeFileHooks; nk []
theorem NoKC.register : Sat (TR (AllEv NoKC)) register := by
  unfold Flow.register; nk [NoKC.saveAccount]
theorem NoKC.updateContacts : Sat (TR (AllEv NoKC)) updateContacts := by
  unfold Flow.updateContacts; nk [NoKC.saveAccount, NoKC.register]
theorem NoKC.newOrder : Sat (TR (AllEv NoKC)) newOrder := by
  unfold Flow.newOrder decodeNewOrder; nk [NoKC.register]
theorem NoKC.refreshDirectory : Sat (TR (AllEv NoKC)) refreshDirectory := by
  unfold Flow.refreshDirectory; nk []
end NoKCWalk

theorem ARest.noKC {e : Ev} (h : ARest e) : NoKC e := by
  cases e with
  | exch k a s r =>
    cases k <;> first | trivial | (simp [ARest] at h)
  | _ => trivial

theorem NoKC.afterSync (v : Variant) (cfg : Cfg) : Sat (TR (AllEv NoKC)) (afterSync v cfg) :=
  afterSync_sat (AllEv.tlaw NoKC) v cfg NoKC.newOrder fun _ he => AllEv.single he.noKC

/-- The roll-over step: its key-change request (if one is sent) is `kid`-authenticated and signed
by the recorded key; whatever precedes (the check of the account, since 1fb1c1a) or follows (account
save, the re-registration after `accountDoesNotExist`, the check signed by the current key) contains
no other key change. -/
theorem updateKey_kcBy (v : Variant) (w : World) : Tr (KCBy w.acc.recKey) (updateKey v) w := by
  obtain ⟨es, he, hs, _⟩ := updateKey_shape v w
  refine ⟨es, he, ?_⟩
  have hu : ∀ {es t}, UpdShape .keyChange w.acc.recKey w.acc.curKey es t →
      ∀ e ∈ es, KCBy w.acc.recKey e := by
    intro es t hs
    rcases hs with ⟨rfl, _⟩ | ⟨r, rest, rfl, h⟩
    · simp
    · intro e hm
      rcases List.mem_cons.mp hm with rfl | hm
      · exact ⟨rfl, rfl⟩
      · rcases h with ⟨_, hreg⟩ | ⟨_, hsv, _⟩ | ⟨_, _, q, rest', rfl, hsv, _⟩
        · rcases hreg with ⟨rfl, _⟩ | ⟨r', rest', rfl, hsv, _⟩
          · cases hm
          · rcases List.mem_cons.mp hm with rfl | hm
            · trivial
            · exact (hsv.1 e hm).kcBy
        · exact (hsv.1 e hm).kcBy
        · rcases List.mem_cons.mp hm with rfl | hm
          · trivial
          · exact (hsv.1 e hm).kcBy
  rcases hs with hs | ⟨p, rest, rfl, ⟨_, ⟨rfl, _⟩ | ⟨q, rest', rfl, hsv, _⟩⟩ | ⟨_, hs, _⟩ | ⟨rfl, _⟩⟩
  · exact hu hs
  · intro e hm
    rcases List.mem_cons.mp hm with rfl | hm
    · trivial
    · cases hm
  · intro e hm
    rcases List.mem_cons.mp hm with rfl | hm
    · trivial
    · rcases List.mem_cons.mp hm with rfl | hm
      · trivial
      · exact (hsv.1 e hm).kcBy
  · intro e hm
    rcases List.mem_cons.mp hm with rfl | hm
    · trivial
    · exact hu hs e hm
  · intro e hm
    rcases List.mem_cons.mp hm with rfl | hm
    · trivial
    · cases hm

theorem synchronize_kcBy (w : World) : Tr (KCBy w.acc.recKey) (synchronize .current) w := by
  have hreg : ∀ w1, Tr (KCBy w.acc.recKey) register w1 :=
    Tr.of_sat (AllEv.mono (fun _ h => NoKC.kcBy h) NoKC.register)
  have hcon : ∀ w1, Tr (KCBy w.acc.recKey) updateContacts w1 :=
    Tr.of_sat (AllEv.mono (fun _ h => NoKC.kcBy h) NoKC.updateContacts)
  unfold Tr
  cases hu : w.acc.hasUrl with
  | false => rw [sync_eq_noUrl _ w hu]; exact hreg w
  | true =>
    cases hb : w.acc.bindingInSync with
    | false =>
      rw [sync_eq_binding _ w hu hb]
      refine Tr.bind (hreg w) fun _ w1 _ => ?_
      split
      · exact hcon w1
      · exact Tr.pure _ w1
    | true =>
      rw [sync_eq_keyFirst _ w hu hb rfl]
      refine Tr.bind ?_ fun _ w1 _ => ?_
      · split
        · exact updateKey_kcBy _ w
        · exact Tr.pure _ w
      · split
        · exact hcon w1
        · exact Tr.pure _ w1

theorem attemptM_kcBy (cfg : Cfg) (w : World) :
    Tr (KCBy w.acc.recKey) (attemptM .current cfg) w := by
  rw [attemptM_eq]
  refine Tr.bind (Tr.of_sat (AllEv.mono (fun _ h => NoKC.kcBy h) NoKC.refreshDirectory) w)
    fun _ w1 h1 => ?_
  have hacc : w1.acc = w.acc := by
    rw [refreshDirectory_run] at h1
    rcases hx : w.exs with _ | ⟨r, rest⟩
    · rw [hx] at h1; cases h1
    · rw [hx] at h1
      simp only [Prod.mk.injEq] at h1
      rw [← h1.2]; rfl
  rw [← hacc]
  exact Tr.bind (synchronize_kcBy w1) fun _ w2 _ =>
    Tr.of_sat (AllEv.mono (fun _ h => NoKC.kcBy h) (NoKC.afterSync .current cfg)) w2

end AcmedVerif.Flow
