/-
Lemmas about `Model/StorageFx.lean`: the open/write/`set_owner` part of `writeFileFx` is the
hook-free `Storage.writeFile` started on the file system the pre hooks left.
-/
import AcmedVerif.Model.StorageFx
import AcmedVerif.Lemmas.Storage

namespace AcmedVerif.StorageFx
open AcmedVerif.Fs AcmedVerif.Storage

/-- `env` with hooks that always succeed (same databases, same `chown` permission). -/
def okEnv (env : Env) : Env := { env with hookOk := fun _ => true }

theorem okEnv_hookOk (env : Env) (h : HookType) : (okEnv env).hookOk h = true := rfl

theorem setOwner_okEnv (env : Env) (proc : Proc) (s : Settings) (fs : Fs) (t : FileType) (p : Path) :
    setOwner (okEnv env) proc s fs t p = setOwner env proc s fs t p := rfl

theorem ownedF_okEnv (env : Env) (proc : Proc) (s : Settings) (t : FileType) (f : File) :
    ownedF (okEnv env) proc s t f = ownedF env proc s t f := rfl

theorem finalFile_okEnv (trunc : Trunc) (env : Env) (proc : Proc) (s : Settings) (old : Option File)
    (t : FileType) (data : List UInt8) :
    finalFile trunc (okEnv env) proc s old t data = finalFile trunc env proc s old t data := rfl

/-- The file system the pre hooks leave. -/
def afterPre (fx : HookType → List Effect) (fs : Fs) (p : Path) : FxState :=
  applyEffects p fs (fx (preHook (get fs p).isNone))

theorem applyEffects_nil (p : Path) (fs : Fs) : applyEffects p fs [] = { fs := fs, kept := true } :=
  rfl

/-- Pre hooks failed: the effects happened, nothing was written. -/
theorem writeFileFx_pre_failed (trunc : Trunc) (ma : ModeArg) (env : Env)
    (fx : HookType → List Effect) (proc : Proc) (s : Settings) (fs : Fs) (t : FileType) (p : Path)
    (data : List UInt8) (h : env.hookOk (preHook (get fs p).isNone) = false) :
    (writeFileFx trunc ma env fx proc s fs t p data).fs = (afterPre fx fs p).fs ∧
    (writeFileFx trunc ma env fx proc s fs t p data).result = .err .preHook ∧
    (writeFileFx trunc ma env fx proc s fs t p data).afterWrite = none := by
  simp [writeFileFx, afterPre, h]

theorem writeFileFx_atOpen (trunc : Trunc) (ma : ModeArg) (env : Env)
    (fx : HookType → List Effect) (proc : Proc) (s : Settings) (fs : Fs) (t : FileType) (p : Path)
    (data : List UInt8) :
    (writeFileFx trunc ma env fx proc s fs t p data).atOpen = get (afterPre fx fs p).fs p := by
  unfold writeFileFx afterPre
  simp only
  split
  · rfl
  · split <;> rfl

/-- **Bridge.** Pre hooks passed: what the post hooks see is the file the hook-free `writeFile`
leaves when it is started on the file system the pre hooks left. -/
theorem writeFileFx_afterWrite (trunc : Trunc) (env : Env) (fx : HookType → List Effect)
    (proc : Proc) (s : Settings) (fs : Fs) (t : FileType) (p : Path) (data : List UInt8)
    (h : env.hookOk (preHook (get fs p).isNone) = true) :
    (writeFileFx trunc .always env fx proc s fs t p data).afterWrite =
      get (writeFile trunc (okEnv env) proc s (afterPre fx fs p).fs t p data).fs p := by
  unfold writeFileFx writeFile afterPre
  simp only [h, okEnv_hookOk, openMode, Bool.not_true, Bool.false_eq_true, if_false]
  rw [setOwner_okEnv]
  generalize setOwner env proc s _ t p = r
  cases r with
  | error e => rfl
  | ok v => cases v; rfl

theorem writeFileFx_afterWrite_eq (trunc : Trunc) (env : Env) (fx : HookType → List Effect)
    (proc : Proc) (s : Settings) (fs : Fs) (t : FileType) (p : Path) (data : List UInt8)
    (h : env.hookOk (preHook (get fs p).isNone) = true) :
    (writeFileFx trunc .always env fx proc s fs t p data).afterWrite =
      some (finalFile trunc env proc s (writeFileFx trunc .always env fx proc s fs t p data).atOpen
        t data) := by
  rw [writeFileFx_afterWrite trunc env fx proc s fs t p data h, writeFileFx_atOpen]
  have := (writeFile_passed trunc (okEnv env) proc s (afterPre fx fs p).fs t p data rfl _ rfl _ rfl
    _ rfl).1
  rw [this, finalFile_okEnv]

/-- The post hooks do nothing: the file system `write_file` returns is the one they saw. -/
theorem writeFileFx_final_no_post (trunc : Trunc) (ma : ModeArg) (env : Env)
    (fx : HookType → List Effect) (proc : Proc) (s : Settings) (fs : Fs) (t : FileType) (p : Path)
    (data : List UInt8) (h : env.hookOk (preHook (get fs p).isNone) = true)
    (hpost : fx (postHook (get fs p).isNone) = []) :
    get (writeFileFx trunc ma env fx proc s fs t p data).fs p =
      (writeFileFx trunc ma env fx proc s fs t p data).afterWrite := by
  unfold writeFileFx
  simp only [h, hpost, applyEffects_nil, Bool.not_true, Bool.false_eq_true, if_false]
  split <;> rfl

/-- `open` on a present path does not look at the mode argument. -/
theorem openCreate_present (proc : Proc) (fs : Fs) (p : Path) (m m' : Nat) (trunc : Trunc)
    (h : (get fs p).isSome = true) : openCreate proc fs p m trunc = openCreate proc fs p m' trunc := by
  unfold openCreate
  cases hg : get fs p with
  | none => rw [hg] at h; cases h
  | some f => rfl

end AcmedVerif.StorageFx
