/-
Helper lemmas for `Props/C09Judge.lean`: the bracket judge `Spec.C09.bracketOk` against the
window-count statement `Limiter.inWindow` of the model.
-/
import AcmedVerif.Model.Limiter
import AcmedVerif.Lemmas.Limiter
import AcmedVerif.Spec.C09

namespace AcmedVerif.Judge09
open AcmedVerif.Limiter
open AcmedVerif.Spec.C09

/-- Admission instants in the order in which they happened never go backwards (admissions are
serialised: `RateLimit` is only reached through `&mut`). -/
def Sorted (as : List Nat) : Prop := as.Pairwise (fun a b => a ≤ b)

/-- `ev` brackets `as`: the `i`-th observed `(call, ret)` pair belongs to the `i`-th admission (admission
order) and the admission instant lies between the two.  Admissions whose request had not been
released when the observation stopped may be missing at the end (`≤`). -/
def Brackets (ev : List (Nat × Nat)) (as : List Nat) : Prop :=
  ev.length ≤ as.length ∧
  ∀ (i : Nat) (e : Nat × Nat) (a : Nat), ev[i]? = some e → as[i]? = some a → e.1 ≤ a ∧ a ≤ e.2

/-- Exact observation: `call i = as[i] = ret i`. -/
def Tight (ev : List (Nat × Nat)) (as : List Nat) : Prop :=
  ev.length = as.length ∧
  ∀ (i : Nat) (e : Nat × Nat) (a : Nat), ev[i]? = some e → as[i]? = some a → e.1 = a ∧ a = e.2

/-- `ev'` has wider brackets than `ev`: every call no later, every return no earlier (and possibly
fewer requests observed at the end). -/
def Wider (ev ev' : List (Nat × Nat)) : Prop :=
  ev'.length ≤ ev.length ∧
  ∀ (i : Nat) (e e' : Nat × Nat), ev[i]? = some e → ev'[i]? = some e' → e'.1 ≤ e.1 ∧ e.2 ≤ e'.2

/-- The judge fails at index `i`: request `i + n` was released less than `p` after request `i`
entered. -/
def FailsAt (lim : Limit) (ev : List (Nat × Nat)) (i : Nat) : Prop :=
  ∃ e f, ev[i]? = some e ∧ ev[i + lim.n]? = some f ∧ f.2 < e.1 + lim.period

/-- The exact observation of a list of admission instants. -/
def exact (as : List Nat) : List (Nat × Nat) := as.map fun a => (a, a)

/-! ### The judge, index by index -/

theorem bracketOk_iff (lim : Limit) (ev : List (Nat × Nat)) :
    bracketOk lim ev = true ↔
      ∀ i e f, ev[i]? = some e → ev[i + lim.n]? = some f → e.1 + lim.period ≤ f.2 := by
  unfold bracketOk
  simp only [List.all_eq_true]
  constructor
  · intro h i e f he hf
    have hm : (e, i) ∈ ev.zipIdx := by
      rw [List.mem_zipIdx_iff_getElem?]; exact he
    have := h (e, i) hm
    simp only [List.getElem?_map, hf, Option.map_some] at this
    simpa using this
  · intro h x hx
    obtain ⟨e, i⟩ := x
    rw [List.mem_zipIdx_iff_getElem?] at hx
    simp only [List.getElem?_map]
    cases hf : ev[i + lim.n]? with
    | none => simp
    | some f =>
      simp only [Option.map_some, decide_eq_true_eq]
      exact h i e f hx hf

theorem bracketOk_false_iff (lim : Limit) (ev : List (Nat × Nat)) :
    bracketOk lim ev = false ↔ ∃ i, FailsAt lim ev i := by
  rw [← Bool.not_eq_true, bracketOk_iff]
  constructor
  · intro h
    apply Classical.byContradiction
    intro hn
    apply h
    intro i e f he hf
    apply Classical.byContradiction
    intro hlt
    exact hn ⟨i, e, f, he, hf, by omega⟩
  · rintro ⟨i, e, f, he, hf, hlt⟩ h
    have := h i e f he hf
    omega

/-! ### Sorted lists and windows -/

theorem sorted_getElem_le {as : List Nat} (hs : Sorted as) {i j : Nat} (hij : i ≤ j)
    (hj : j < as.length) : as[i]'(by omega) ≤ as[j] := by
  by_cases h : i = j
  · subst h; exact Nat.le_refl _
  · exact (List.pairwise_iff_getElem.mp hs) i j (by omega) hj (by omega)

/-- **Pigeon-hole core.** In a sorted list, if entry `i + n` is less than `p` after entry `i`, the
`n + 1` entries `i … i + n` all lie in the window `(as[i+n] - p, as[i+n]]`. -/
theorem segment_in_window {as : List Nat} (hs : Sorted as) (p i n : Nat) (h : i + n < as.length)
    (hclose : as[i + n] < as[i]'(by omega) + p) :
    n + 1 ≤ inWindow as p as[i + n] := by
  have hsub : ((as.drop i).take (n + 1)).Sublist as :=
    (List.take_sublist _ _).trans (List.drop_sublist _ _)
  have hlen : ((as.drop i).take (n + 1)).length = n + 1 := by
    rw [List.length_take, List.length_drop]; omega
  have hall : ((as.drop i).take (n + 1)).filter
      (fun x => decide (as[i + n] < x + p) && decide (x ≤ as[i + n])) =
      (as.drop i).take (n + 1) := by
    rw [List.filter_eq_self]
    intro x hx
    obtain ⟨k, hk, rfl⟩ := List.getElem_of_mem hx
    rw [hlen] at hk
    rw [List.getElem_take, List.getElem_drop]
    have h1 : as[i]'(by omega) ≤ as[i + k]'(by omega) := sorted_getElem_le hs (by omega) (by omega)
    have h2 : as[i + k]'(by omega) ≤ as[i + n] := sorted_getElem_le hs (by omega) h
    simp only [Bool.and_eq_true, decide_eq_true_eq]
    omega
  have := (hsub.filter
    (fun x => decide (as[i + n] < x + p) && decide (x ≤ as[i + n]))).length_le
  rw [hall, hlen] at this
  exact this

/-! ### Tight observations -/

theorem exact_getElem? (as : List Nat) (i : Nat) :
    (exact as)[i]? = (as[i]?).map fun a => (a, a) := by
  simp [exact]

theorem tight_exact (as : List Nat) : Tight (exact as) as := by
  refine ⟨by simp [exact], ?_⟩
  intro i e a he ha
  rw [exact_getElem?, ha] at he
  simp only [Option.map_some, Option.some.injEq] at he
  subst he
  exact ⟨rfl, rfl⟩

theorem tight_eq_exact {ev : List (Nat × Nat)} {as : List Nat} (h : Tight ev as) :
    ev = exact as := by
  apply List.ext_getElem?
  intro i
  rw [exact_getElem?]
  by_cases hi : i < as.length
  · have hi' : i < ev.length := by rw [h.1]; exact hi
    have h1 : ev[i]? = some ev[i] := List.getElem?_eq_getElem hi'
    have h2 : as[i]? = some as[i] := List.getElem?_eq_getElem hi
    obtain ⟨ha, hb⟩ := h.2 i _ _ h1 h2
    rw [h1, h2]
    simp only [Option.map_some, Option.some.injEq]
    apply Prod.ext
    · exact ha
    · exact hb.symm
  · have hi' : ¬ i < ev.length := by rw [h.1]; exact hi
    rw [List.getElem?_eq_none (by omega), List.getElem?_eq_none (by omega)]
    rfl

theorem tight_brackets {ev : List (Nat × Nat)} {as : List Nat} (h : Tight ev as) :
    Brackets ev as :=
  ⟨Nat.le_of_eq h.1, fun i e a he ha => by
    obtain ⟨h1, h2⟩ := h.2 i e a he ha
    omega⟩

/-- Any bracketing observation is wider than the exact one. -/
theorem brackets_wider_exact {ev : List (Nat × Nat)} {as : List Nat} (h : Brackets ev as) :
    Wider (exact as) ev := by
  refine ⟨by simpa [exact] using h.1, ?_⟩
  intro i e e' he he'
  rw [exact_getElem?] at he
  cases ha : as[i]? with
  | none => rw [ha] at he; cases he
  | some a =>
    rw [ha] at he
    simp only [Option.map_some, Option.some.injEq] at he
    subst he
    exact h.2 i e' a he' ha

/-! ### Converse: an over-full window is seen by the exact judge -/

/-- In a sorted list the entries `≤ t` form a prefix. -/
theorem getElem_le_of_lt_count : ∀ {l : List Nat}, Sorted l → ∀ (t k : Nat),
    k < (l.filter (fun x => decide (x ≤ t))).length → ∃ x, l[k]? = some x ∧ x ≤ t
  | [], _, _, _, hk => by simp at hk
  | b :: l, hs, t, k, hk => by
    have ⟨hb, hs'⟩ := List.pairwise_cons.mp hs
    by_cases hbt : b ≤ t
    · have hf : (b :: l).filter (fun x => decide (x ≤ t)) =
          b :: l.filter (fun x => decide (x ≤ t)) := by
        simp [hbt]
      rw [hf] at hk
      cases k with
      | zero => exact ⟨b, by simp, hbt⟩
      | succ k =>
        obtain ⟨x, hx, hxt⟩ := getElem_le_of_lt_count hs' t k (by simpa using hk)
        exact ⟨x, by simpa using hx, hxt⟩
    · have hf : (b :: l).filter (fun x => decide (x ≤ t)) = [] := by
        rw [List.filter_eq_nil_iff]
        intro x hx
        rcases List.mem_cons.mp hx with rfl | hx
        · simpa using hbt
        · have := hb x hx
          simp only [decide_eq_true_eq]; omega
      rw [hf] at hk
      simp at hk

/-- In a sorted list, a window holding more than `n` entries contains two entries `n` places apart
that are less than `p` apart. -/
theorem overfull_close : ∀ {as : List Nat}, Sorted as → ∀ (n p t : Nat), n < inWindow as p t →
    ∃ i x y, as[i]? = some x ∧ as[i + n]? = some y ∧ y < x + p
  | [], _, n, p, t, h => by simp [inWindow] at h
  | a :: as, hs, n, p, t, h => by
    have ⟨_, hs'⟩ := List.pairwise_cons.mp hs
    by_cases hw : t < a + p ∧ a ≤ t
    · have hc : inWindow (a :: as) p t = inWindow as p t + 1 := by
        unfold inWindow
        simp [hw.1, hw.2]
      rw [hc] at h
      cases n with
      | zero => exact ⟨0, a, a, by simp, by simp, by omega⟩
      | succ m =>
        have hle : inWindow as p t ≤ (as.filter (fun x => decide (x ≤ t))).length := by
          unfold inWindow
          apply length_filter_le_of_imp
          intro x _ hx
          simp only [Bool.and_eq_true, decide_eq_true_eq] at hx
          simp only [decide_eq_true_eq]
          exact hx.2
        obtain ⟨y, hy, hyt⟩ := getElem_le_of_lt_count hs' t m (by omega)
        refine ⟨0, a, y, by simp, ?_, by omega⟩
        simpa using hy
    · have hc : inWindow (a :: as) p t = inWindow as p t := by
        unfold inWindow
        have : (decide (t < a + p) && decide (a ≤ t)) = false := by simpa using hw
        simp [this]
      rw [hc] at h
      obtain ⟨i, x, y, hx, hy, hlt⟩ := overfull_close hs' n p t h
      refine ⟨i + 1, x, y, by simpa using hx, ?_, hlt⟩
      rw [show i + 1 + n = (i + n) + 1 by omega]
      simpa using hy

theorem window_overfull_exact_fails {as : List Nat} (hs : Sorted as) {n p t : Nat}
    (h : n < inWindow as p t) : bracketOk ⟨n, p⟩ (exact as) = false := by
  rw [bracketOk_false_iff]
  obtain ⟨i, x, y, hx, hy, hlt⟩ := overfull_close hs n p t h
  exact ⟨i, (x, x), (y, y), by rw [exact_getElem?, hx]; rfl,
    by show (exact as)[i + n]? = _; rw [exact_getElem?, hy]; rfl, hlt⟩

/-! ### The ghost history of the model is sorted -/

theorem sorted_append_singleton {as : List Nat} {last a : Nat} (hs : Sorted as)
    (hle : ∀ x ∈ as, x ≤ last) (ha : last ≤ a) : Sorted (as ++ [a]) := by
  unfold Sorted
  rw [List.pairwise_append]
  refine ⟨hs, List.pairwise_singleton _ _, ?_⟩
  intro x hx y hy
  have : y = a := by simpa using hy
  have := hle x hx
  omega

theorem attempt_hist_sorted {s : State} {last : Nat} (hs : Sorted s.hist)
    (hle : ∀ x ∈ s.hist, x ≤ last) {r : Readings}
    (hmono : monoFrom last (r.tPrune :: (r.tTests ++ [r.tPush]))) :
    Sorted (attempt s r).1.hist ∧ ∀ x ∈ (attempt s r).1.hist, x ≤ r.tPush := by
  obtain ⟨h1, h2, _⟩ := pass_bounds hmono
  rw [attempt_eq]
  split
  · refine ⟨sorted_append_singleton hs hle (by omega), ?_⟩
    intro x hx
    rcases List.mem_append.mp hx with hx | hx
    · have := hle x hx; omega
    · have : x = r.tPush := by simpa using hx
      omega
  · refine ⟨hs, ?_⟩
    intro x hx
    have := hle x hx
    omega

theorem run_hist_sorted_aux (rs : List Readings) :
    ∀ (last : Nat) (s : State), Sorted s.hist → (∀ x ∈ s.hist, x ≤ last) →
      monoFrom last (flatReadings rs) → Sorted (run s rs).hist := by
  induction rs with
  | nil => intro _ s hs _ _; exact hs
  | cons r rs ih =>
    intro last s hs hle hmono
    rw [flatReadings_cons] at hmono
    obtain ⟨ha, hb⟩ := monoFrom_split _ _ _ _ hmono
    rw [run_cons]
    obtain ⟨h1, h2⟩ := attempt_hist_sorted hs hle ha
    exact ih r.tPush _ h1 h2 hb

theorem run_hist_sorted (limits : List Limit) (rs : List Readings)
    (hmono : monoFrom 0 (flatReadings rs)) : Sorted (run (init limits) rs).hist :=
  run_hist_sorted_aux rs 0 (init limits) List.Pairwise.nil (fun _ hx => nomatch hx) hmono

end AcmedVerif.Judge09
