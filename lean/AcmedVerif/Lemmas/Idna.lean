/-
Helper lemmas about `Model/Idna.lean`: character facts, `splitOn`/`joinWith`, the punycode
encoder's output alphabet and fuel, the shape of `to_idna`'s labels.
-/
import AcmedVerif.Model.Idna

namespace AcmedVerif.Idna

/-! ## ASCII character facts (by exhaustive evaluation over the 128 code points) -/

theorem ascii_forall {P : Char → Prop} (h : ∀ n, n < 128 → P (Char.ofNat n)) (c : Char)
    (hc : isAscii c = true) : P c := by
  have := h c.toNat (by simpa [isAscii] using hc)
  rwa [Char.ofNat_toNat] at this

theorem asciiLower_facts (c : Char) (hc : isAscii c = true) :
    isAscii (asciiLower c) = true ∧ isAsciiUpper (asciiLower c) = false ∧
    (asciiLower c = '.' → c = '.') ∧ (isAsciiUpper c = false → asciiLower c = c) ∧
    (c = '*' → asciiLower c = '*') := by
  revert c
  apply ascii_forall
  decide

theorem encodeDigit_ok :
    ∀ d, d < 36 → (isAsciiLower (encodeDigit d) || isAsciiDigit (encodeDigit d)) = true := by
  decide

theorem isAscii_of_lower {c : Char} (h : isAsciiLower c = true) : isAscii c = true := by
  simp only [isAsciiLower, isAscii, Bool.and_eq_true, decide_eq_true_eq] at *; omega

theorem isAscii_of_digit {c : Char} (h : isAsciiDigit c = true) : isAscii c = true := by
  simp only [isAsciiDigit, isAscii, Bool.and_eq_true, decide_eq_true_eq] at *; omega

theorem not_upper_of_lower {c : Char} (h : isAsciiLower c = true) : isAsciiUpper c = false := by
  simp only [isAsciiLower, isAsciiUpper, Bool.and_eq_true, decide_eq_true_eq,
    Bool.and_eq_false_iff, decide_eq_false_iff_not] at *; omega

theorem not_upper_of_digit {c : Char} (h : isAsciiDigit c = true) : isAsciiUpper c = false := by
  simp only [isAsciiDigit, isAsciiUpper, Bool.and_eq_true, decide_eq_true_eq,
    Bool.and_eq_false_iff, decide_eq_false_iff_not] at *; omega

/-! ## `splitOn` / `joinWith` -/

theorem splitOn_ne_nil (sep : Char) (s : List Char) : splitOn sep s ≠ [] := by
  induction s with
  | nil => simp [splitOn]
  | cons c cs ih =>
    unfold splitOn
    split
    · simp
    · split
      · simp
      · simp

theorem splitOn_cons_sep (sep : Char) (cs : List Char) :
    splitOn sep (sep :: cs) = [] :: splitOn sep cs := by
  simp [splitOn]

theorem splitOn_cons_ne (sep c : Char) (cs : List Char) (h : c ≠ sep) :
    ∃ p ps, splitOn sep cs = p :: ps ∧ splitOn sep (c :: cs) = (c :: p) :: ps := by
  cases hs : splitOn sep cs with
  | nil => exact absurd hs (splitOn_ne_nil sep cs)
  | cons p ps =>
    refine ⟨p, ps, rfl, ?_⟩
    simp [splitOn, h, hs]

theorem joinWith_cons_cons (sep : Char) (p q : List Char) (ps : List (List Char)) :
    joinWith sep (p :: q :: ps) = p ++ sep :: joinWith sep (q :: ps) := rfl

theorem joinWith_cons_of_ne_nil (sep : Char) (p : List Char) (ps : List (List Char))
    (h : ps ≠ []) : joinWith sep (p :: ps) = p ++ sep :: joinWith sep ps := by
  cases ps with
  | nil => exact absurd rfl h
  | cons q qs => rfl

/-- `parts.join(sep)` of `s.split(sep)` gives `s` back. -/
theorem join_split (sep : Char) (s : List Char) : joinWith sep (splitOn sep s) = s := by
  induction s with
  | nil => rfl
  | cons c cs ih =>
    by_cases h : c = sep
    · subst h
      rw [splitOn_cons_sep, joinWith_cons_of_ne_nil _ _ _ (splitOn_ne_nil _ _), ih]; rfl
    · obtain ⟨p, ps, h1, h2⟩ := splitOn_cons_ne sep c cs h
      rw [h2]
      rw [h1] at ih
      cases ps with
      | nil => simp only [joinWith] at ih ⊢; rw [ih]
      | cons q qs =>
        rw [joinWith_cons_cons] at ih ⊢
        rw [← ih]; rfl

theorem splitOn_no_sep (sep : Char) (s : List Char) : ∀ p ∈ splitOn sep s, sep ∉ p := by
  induction s with
  | nil => simp [splitOn]
  | cons c cs ih =>
    by_cases h : c = sep
    · subst h
      rw [splitOn_cons_sep]
      intro p hp
      rcases List.mem_cons.1 hp with rfl | hp
      · simp
      · exact ih p hp
    · obtain ⟨p, ps, h1, h2⟩ := splitOn_cons_ne sep c cs h
      rw [h2]
      rw [h1] at ih
      intro q hq
      rcases List.mem_cons.1 hq with rfl | hq
      · intro hm
        rcases List.mem_cons.1 hm with e | hm
        · exact h e.symm
        · exact ih p (List.mem_cons_self) hm
      · exact ih q (List.mem_cons_of_mem _ hq)

theorem splitOn_of_no_sep (sep : Char) (p : List Char) (h : sep ∉ p) : splitOn sep p = [p] := by
  induction p with
  | nil => rfl
  | cons c cs ih =>
    have hc : c ≠ sep := fun e => h (e ▸ List.mem_cons_self)
    have hcs : sep ∉ cs := fun m => h (List.mem_cons_of_mem _ m)
    obtain ⟨p, ps, h1, h2⟩ := splitOn_cons_ne sep c cs hc
    rw [h2]
    rw [ih hcs] at h1
    cases h1; rfl

theorem splitOn_append_sep (sep : Char) (p rest : List Char) (h : sep ∉ p) :
    splitOn sep (p ++ sep :: rest) = p :: splitOn sep rest := by
  induction p with
  | nil => exact splitOn_cons_sep sep rest
  | cons c cs ih =>
    have hc : c ≠ sep := fun e => h (e ▸ List.mem_cons_self)
    have hcs : sep ∉ cs := fun m => h (List.mem_cons_of_mem _ m)
    obtain ⟨q, qs, h1, h2⟩ := splitOn_cons_ne sep c (cs ++ sep :: rest) hc
    rw [List.cons_append, h2]
    rw [ih hcs] at h1
    cases h1; rfl

/-- Splitting a join gives the parts back when no part contains the separator. -/
theorem split_join (sep : Char) (ps : List (List Char)) (hne : ps ≠ [])
    (h : ∀ p ∈ ps, sep ∉ p) : splitOn sep (joinWith sep ps) = ps := by
  induction ps with
  | nil => exact absurd rfl hne
  | cons p ps ih =>
    cases ps with
    | nil => exact splitOn_of_no_sep sep p (h p List.mem_cons_self)
    | cons q qs =>
      rw [joinWith_cons_cons, splitOn_append_sep sep p _ (h p List.mem_cons_self)]
      rw [ih (by simp) (fun r hr => h r (List.mem_cons_of_mem _ hr))]

/-! ## The punycode encoder -/

theorem clampedSub_bounds (k b : Nat) : 1 ≤ clampedSub 1 k b 26 ∧ clampedSub 1 k b 26 ≤ 26 := by
  unfold clampedSub
  split
  · omega
  · split
    · omega
    · omega

/-- Every character pushed by the digit loop is in `a-z0-9` (so the `assert!` of `encode_digit`
cannot fire), provided the fuel is at least `q` (it is: the loop is started with fuel `delta = q`). -/
theorem emitDigits_shape (f k q bias : Nat) (hf : q ≤ f) :
    ∀ c ∈ emitDigits f k q bias, isAsciiLower c = true ∨ isAsciiDigit c = true := by
  induction f generalizing k q with
  | zero =>
    intro c hc
    have hq : q = 0 := by omega
    subst hq
    simp only [emitDigits, List.mem_singleton] at hc
    subst hc
    simpa using encodeDigit_ok 0 (by omega)
  | succ f ih =>
    intro c hc
    have hb := clampedSub_bounds k bias
    simp only [emitDigits] at hc
    split at hc
    · rename_i hlt
      simp only [List.mem_singleton] at hc
      subst hc
      simpa using encodeDigit_ok q (by omega)
    · rename_i hge
      rcases List.mem_cons.1 hc with rfl | hc
      · have hmod : (q - clampedSub 1 k bias 26) % (36 - clampedSub 1 k bias 26)
            < 36 - clampedSub 1 k bias 26 := Nat.mod_lt _ (by omega)
        simpa using encodeDigit_ok _ (by omega)
      · refine ih (k + 36) _ ?_ c hc
        have : (q - clampedSub 1 k bias 26) / (36 - clampedSub 1 k bias 26)
            ≤ q - clampedSub 1 k bias 26 := Nat.div_le_self _ _
        omega

/-- The inner `for` loop only appends digit characters, keeps `n`, never decreases `h`, and
increases `h` when the current code point `n` occurs in the scanned part. -/
theorem inner_spec (p : Profile) (b : Nat) (G : Char → Prop)
    (hG : ∀ c, isAsciiLower c = true ∨ isAsciiDigit c = true → G c) (cs : List Char) :
    ∀ st st', inner p b cs st = some st' →
      st'.n = st.n ∧ st.h ≤ st'.h ∧ ((∃ c ∈ cs, c.toNat = st.n) → st.h < st'.h) ∧
      ((∀ c ∈ st.out, G c) → ∀ c ∈ st'.out, G c) := by
  induction cs with
  | nil =>
    intro st st' h
    simp only [inner, Option.some.injEq] at h
    subst h
    simp
  | cons c cs ih =>
    intro st st' h
    simp only [inner] at h
    split at h
    · rename_i hlt
      split at h
      · exact absurd h (by simp)
      · rename_i d hd
        have := ih _ _ h
        simp only at this
        refine ⟨this.1, this.2.1, ?_, this.2.2.2⟩
        rintro ⟨x, hx, hxn⟩
        rcases List.mem_cons.1 hx with rfl | hx
        · omega
        · exact this.2.2.1 ⟨x, hx, hxn⟩
    · split at h
      · rename_i heq
        have := ih _ _ h
        simp only at this
        refine ⟨this.1, by omega, fun _ => by omega, ?_⟩
        intro hout
        apply this.2.2.2
        intro x hx
        rcases List.mem_append.1 hx with hx | hx
        · exact hout x hx
        · exact hG x (emitDigits_shape _ _ _ _ (Nat.le_refl _) x hx)
      · rename_i hlt hne
        have := ih _ _ h
        refine ⟨this.1, this.2.1, ?_, this.2.2.2⟩
        rintro ⟨x, hx, hxn⟩
        rcases List.mem_cons.1 hx with rfl | hx
        · exact absurd hxn hne
        · exact this.2.2.1 ⟨x, hx, hxn⟩

theorem minGe_spec (n : Nat) (cs : List Char) (m : Nat) (h : minGe n cs = some m) :
    n ≤ m ∧ ∃ c ∈ cs, c.toNat = m := by
  induction cs generalizing m with
  | nil => simp [minGe] at h
  | cons c cs ih =>
    simp only [minGe] at h
    split at h
    · rename_i hge
      split at h
      · simp only [Option.some.injEq] at h
        subst h
        exact ⟨hge, c, List.mem_cons_self, rfl⟩
      · rename_i m' hm'
        simp only [Option.some.injEq] at h
        obtain ⟨h1, x, hx, hxm⟩ := ih m' hm'
        by_cases hle : c.toNat ≤ m'
        · have : m = c.toNat := by rw [← h]; exact Nat.min_eq_left hle
          subst this
          exact ⟨hge, c, List.mem_cons_self, rfl⟩
        · have : m = m' := by rw [← h]; exact Nat.min_eq_right (by omega)
          subst this
          exact ⟨h1, x, List.mem_cons_of_mem _ hx, hxm⟩
    · obtain ⟨h1, x, hx, hxm⟩ := ih m h
      exact ⟨h1, x, List.mem_cons_of_mem _ hx, hxm⟩

theorem outer_out (p : Profile) (b : Nat) (input : List Char) (G : Char → Prop)
    (hG : ∀ c, isAsciiLower c = true ∨ isAsciiDigit c = true → G c) (f : Nat) :
    ∀ st out, outer p b input f st = .ok out → (∀ c ∈ st.out, G c) → ∀ c ∈ out, G c := by
  induction f with
  | zero =>
    intro st out h hst
    simp only [outer] at h
    split at h
    · exact absurd h (by simp)
    · simp only [Res.ok.injEq] at h; subst h; exact hst
  | succ f ih =>
    intro st out h hst
    simp only [outer] at h
    split at h
    · split at h
      · exact absurd h (by simp)
      · split at h
        · exact absurd h (by simp)
        · split at h
          · exact absurd h (by simp)
          · rename_i st2 hin
            split at h
            · exact absurd h (by simp)
            · refine ih _ out h ?_
              exact (inner_spec p b G hG input _ _ hin).2.2.2 hst
    · simp only [Res.ok.injEq] at h; subst h; exact hst

/-- The model's fuel for the outer loop is always enough. -/
theorem outer_fuel (p : Profile) (b : Nat) (input : List Char) (f : Nat) :
    ∀ st, input.length < f + st.h → outer p b input f st ≠ .fuel := by
  induction f with
  | zero =>
    intro st hlt
    simp only [outer]
    split
    · omega
    · simp
  | succ f ih =>
    intro st hlt
    simp only [outer]
    split
    · split
      · simp
      · rename_i m hm
        split
        · simp
        · split
          · simp
          · rename_i st2 hin
            split
            · simp
            · apply ih
              obtain ⟨_, x, hx, hxm⟩ := minGe_spec _ _ _ hm
              have := (inner_spec p b (fun _ => True) (fun _ _ => trivial) input _ _ hin).2.2.1
                ⟨x, hx, hxm⟩
              simp only at this ⊢
              omega
    · simp

theorem punycode_fuel_enough (p : Profile) (input : List Char) :
    punycodeEncodeP p input ≠ .fuel := by
  unfold punycodeEncodeP
  apply outer_fuel
  simp only
  omega

/-- Alphabet of the encoder's output. -/
def Good (input : List Char) (c : Char) : Prop :=
  (c ∈ input ∧ isAscii c = true) ∨ c = '-' ∨ isAsciiLower c = true ∨ isAsciiDigit c = true

theorem punycode_good (p : Profile) (input out : List Char)
    (h : punycodeEncodeP p input = .ok out) : ∀ c ∈ out, Good input c := by
  unfold punycodeEncodeP at h
  refine outer_out p _ input (Good input) (fun c hc => Or.inr (Or.inr hc)) _ _ out h ?_
  intro c hc
  simp only at hc
  have hbasic : ∀ c ∈ input.filter isAscii, Good input c := by
    intro c hc
    rw [List.mem_filter] at hc
    exact Or.inl hc
  split at hc
  · rcases List.mem_append.1 hc with hc | hc
    · exact hbasic c hc
    · simp only [List.mem_singleton] at hc
      exact Or.inr (Or.inl hc)
  · exact hbasic c hc

theorem Good.ascii {input : List Char} {c : Char} (h : Good input c) : isAscii c = true := by
  rcases h with h | h | h | h
  · exact h.2
  · subst h; decide
  · exact isAscii_of_lower h
  · exact isAscii_of_digit h

theorem Good.notUpper {input : List Char} {c : Char} (h : Good input c)
    (hin : ∀ d ∈ input, isAsciiUpper d = false) : isAsciiUpper c = false := by
  rcases h with h | h | h | h
  · exact hin c h.1
  · subst h; decide
  · exact not_upper_of_lower h
  · exact not_upper_of_digit h

theorem Good.notDot {input : List Char} {c : Char} (h : Good input c) (hin : '.' ∉ input) :
    c ≠ '.' := by
  rcases h with h | h | h | h
  · intro e; subst e; exact hin h.1
  · subst h; decide
  · intro e; subst e; exact absurd h (by decide)
  · intro e; subst e; exact absurd h (by decide)

/-! ## Hypotheses on the lower-casing parameter -/

/-- `str::to_lowercase` agrees with ASCII lower-casing on all-ASCII strings (upper-case ASCII
letters to lower-case, every other ASCII character fixed). Nothing is asked about strings that
contain a non-ASCII character. -/
structure LowerAscii (lowerStr : List Char → List Char) : Prop where
  ascii : ∀ s, allAscii s = true → lowerStr s = s.map asciiLower

/-- Lower-casing never PRODUCES an upper-case ASCII letter (true of Unicode: the only characters
whose lower-case mapping contains an ASCII character map to ASCII lower-case letters). -/
structure LowerNoUpper (lowerStr : List Char → List Char) : Prop where
  noUpper : ∀ s c, c ∈ lowerStr s → isAsciiUpper c = false

/-- Lower-casing never produces a full stop out of nothing. -/
structure LowerNoDot (lowerStr : List Char → List Char) : Prop where
  noDot : ∀ s, '.' ∉ s → '.' ∉ lowerStr s

/-- Per-character version: ASCII upper to ASCII lower, other ASCII fixed, non-ASCII anything. -/
structure LowerCharAscii (lower : Char → List Char) : Prop where
  ascii : ∀ c, isAscii c = true → lower c = [asciiLower c]

theorem liftLower_ascii {lower : Char → List Char} (h : LowerCharAscii lower) :
    LowerAscii (liftLower lower) := by
  constructor
  intro s hs
  induction s with
  | nil => rfl
  | cons c cs ih =>
    simp only [allAscii, List.all_cons, Bool.and_eq_true] at hs
    simp only [liftLower, List.flatMap_cons, List.map_cons]
    rw [h.ascii c hs.1]
    have := ih (by simpa [allAscii] using hs.2)
    simp only [liftLower] at this
    rw [this]; rfl

theorem liftLower_noUpper {lower : Char → List Char}
    (h : ∀ c d, d ∈ lower c → isAsciiUpper d = false) : LowerNoUpper (liftLower lower) := by
  constructor
  intro s c hc
  simp only [liftLower, List.mem_flatMap] at hc
  obtain ⟨a, _, ha⟩ := hc
  exact h a c ha

theorem liftLower_noDot {lower : Char → List Char}
    (h : ∀ c, c ≠ '.' → '.' ∉ lower c) : LowerNoDot (liftLower lower) := by
  constructor
  intro s hs hc
  simp only [liftLower, List.mem_flatMap] at hc
  obtain ⟨a, ha, hd⟩ := hc
  exact h a (fun e => hs (e ▸ ha)) hd

/-- The ASCII-only lower-casing (identity outside ASCII) meets every hypothesis: the hypotheses are
satisfiable. -/
def lowerAsciiOnly (c : Char) : List Char := [asciiLower c]

theorem asciiLower_not_upper (c : Char) : isAsciiUpper (asciiLower c) = false := by
  by_cases hc : isAscii c = true
  · exact (asciiLower_facts c hc).2.1
  · have : isAsciiUpper c = false := by
      simp only [isAscii, isAsciiUpper, decide_eq_true_eq, Bool.and_eq_false_iff,
        decide_eq_false_iff_not] at *
      omega
    simp only [asciiLower, this]
    simpa using this

theorem asciiLower_dot (c : Char) (h : asciiLower c = '.') : c = '.' := by
  by_cases hc : isAscii c = true
  · exact (asciiLower_facts c hc).2.2.1 h
  · have : isAsciiUpper c = false := by
      simp only [isAscii, isAsciiUpper, decide_eq_true_eq, Bool.and_eq_false_iff,
        decide_eq_false_iff_not] at *
      omega
    simpa [asciiLower, this] using h

theorem lowerAsciiOnly_ascii : LowerCharAscii lowerAsciiOnly := ⟨fun _ _ => rfl⟩

theorem lowerAsciiOnly_noUpper : LowerNoUpper (liftLower lowerAsciiOnly) :=
  liftLower_noUpper (by
    intro c d hd
    simp only [lowerAsciiOnly, List.mem_singleton] at hd
    subst hd
    exact asciiLower_not_upper c)

theorem lowerAsciiOnly_noDot : LowerNoDot (liftLower lowerAsciiOnly) :=
  liftLower_noDot (by
    intro c hc hd
    simp only [lowerAsciiOnly, List.mem_singleton] at hd
    exact hc (asciiLower_dot c hd.symm))

/-! ## Shape of one label -/

theorem map_asciiLower_ascii (s : List Char) (hs : allAscii s = true) :
    allAscii (s.map asciiLower) = true ∧ (∀ c ∈ s.map asciiLower, isAsciiUpper c = false) ∧
    ('.' ∉ s → '.' ∉ s.map asciiLower) ∧
    ((∀ c ∈ s, isAsciiUpper c = false) → s.map asciiLower = s) := by
  induction s with
  | nil => simp [allAscii]
  | cons c cs ih =>
    simp only [allAscii, List.all_cons, Bool.and_eq_true] at hs
    obtain ⟨i1, i2, i3, i4⟩ := ih (by simpa [allAscii] using hs.2)
    obtain ⟨f1, f2, f3, f4, _⟩ := asciiLower_facts c hs.1
    refine ⟨?_, ?_, ?_, ?_⟩
    · simp only [allAscii, List.map_cons, List.all_cons, Bool.and_eq_true]
      exact ⟨f1, by simpa [allAscii] using i1⟩
    · intro x hx
      simp only [List.map_cons] at hx
      rcases List.mem_cons.1 hx with rfl | hx
      · exact f2
      · exact i2 x hx
    · intro hd hm
      simp only [List.map_cons] at hm
      rcases List.mem_cons.1 hm with e | hm
      · exact hd (by rw [f3 e.symm]; exact List.mem_cons_self)
      · exact i3 (fun m => hd (List.mem_cons_of_mem _ m)) hm
    · intro hu
      simp only [List.map_cons]
      rw [f4 (hu c List.mem_cons_self), i4 (fun x hx => hu x (List.mem_cons_of_mem _ hx))]

/-- What `to_idna` does to one label. -/
structure LabelShape (lowerStr : List Char → List Char) (p : Profile) (name l : List Char) :
    Prop where
  /-- the output label is ASCII -/
  ascii : allAscii l = true
  /-- an all-ASCII label is only lower-cased -/
  asciiCase : allAscii name = true → l = name.map asciiLower
  /-- a label with a non-ASCII character becomes `xn--` + punycode of its lower-cased form -/
  idnCase : allAscii name = false →
    ∃ o, punycodeEncodeP p (lowerStr name) = .ok o ∧ l = xnPrefix ++ o
  /-- the wildcard label is kept -/
  star : name = ['*'] → l = ['*']

theorem idnaLabel_shape {lowerStr : List Char → List Char} (hA : LowerAscii lowerStr)
    (p : Profile) (name l : List Char) (h : idnaLabel lowerStr p name = .ok l) :
    LabelShape lowerStr p name l := by
  unfold idnaLabel at h
  by_cases hn : allAscii name = true
  · simp only [hn, if_true, Res.ok.injEq] at h
    subst h
    rw [hA.ascii name hn]
    refine ⟨(map_asciiLower_ascii name hn).1, fun _ => rfl, fun h' => ?_, fun hs => ?_⟩
    · rw [hn] at h'; exact absurd h' (by simp)
    · subst hs; decide
  · have hn' : allAscii name = false := by simpa using hn
    simp only [hn', Bool.false_eq_true, if_false] at h
    split at h
    · rename_i o ho
      simp only [Res.ok.injEq] at h
      subst h
      refine ⟨?_, fun h' => ?_, fun _ => ⟨o, ho, rfl⟩, fun hs => ?_⟩
      · simp only [allAscii, List.all_append, Bool.and_eq_true]
        refine ⟨by decide, ?_⟩
        rw [List.all_eq_true]
        intro c hc
        exact (punycode_good p _ o ho c hc).ascii
      · rw [hn'] at h'; exact absurd h' (by simp)
      · subst hs; exact absurd hn' (by decide)
    · rename_i r hr
      exact absurd h (hr l)

theorem idnaLabel_noUpper {lowerStr : List Char → List Char} (hA : LowerAscii lowerStr)
    (hU : LowerNoUpper lowerStr) (p : Profile) (name l : List Char)
    (h : idnaLabel lowerStr p name = .ok l) : ∀ c ∈ l, isAsciiUpper c = false := by
  have sh := idnaLabel_shape hA p name l h
  by_cases hn : allAscii name = true
  · rw [sh.asciiCase hn]
    exact (map_asciiLower_ascii name hn).2.1
  · obtain ⟨o, ho, rfl⟩ := sh.idnCase (by simpa using hn)
    intro c hc
    rcases List.mem_append.1 hc with hc' | hc'
    · clear hc
      revert c
      decide
    · exact (punycode_good p _ o ho c hc').notUpper (fun d hd => hU.noUpper name d hd)

theorem idnaLabel_noDot {lowerStr : List Char → List Char} (hA : LowerAscii lowerStr)
    (hD : LowerNoDot lowerStr) (p : Profile) (name l : List Char) (hname : '.' ∉ name)
    (h : idnaLabel lowerStr p name = .ok l) : '.' ∉ l := by
  have sh := idnaLabel_shape hA p name l h
  by_cases hn : allAscii name = true
  · rw [sh.asciiCase hn]
    exact (map_asciiLower_ascii name hn).2.2.1 hname
  · obtain ⟨o, ho, rfl⟩ := sh.idnCase (by simpa using hn)
    intro hc
    rcases List.mem_append.1 hc with hc | hc
    · revert hc; decide
    · exact (punycode_good p _ o ho '.' hc).notDot (hD.noDot name hname) rfl

/-! ## The label loop -/

theorem idnaLabels_spec (lowerStr : List Char → List Char) (p : Profile) (names : List (List Char)) :
    ∀ ls, idnaLabels lowerStr p names = .ok ls →
      ls.length = names.length ∧
      ∀ x ∈ names.zip ls, idnaLabel lowerStr p x.1 = .ok x.2 := by
  induction names with
  | nil =>
    intro ls h
    simp only [idnaLabels, Except.ok.injEq] at h
    subst h
    simp
  | cons name rest ih =>
    intro ls h
    simp only [idnaLabels] at h
    split at h
    · rename_i l hl
      split at h
      · rename_i ls' hls'
        simp only [Except.ok.injEq] at h
        subst h
        obtain ⟨i1, i2⟩ := ih ls' hls'
        refine ⟨by simp [i1], ?_⟩
        intro x hx
        simp only [List.zip_cons_cons] at hx
        rcases List.mem_cons.1 hx with rfl | hx
        · exact hl
        · exact i2 x hx
      · exact absurd h (by simp)
    · exact absurd h (by simp)

theorem toIdnaStr_ok (lowerStr : List Char → List Char) (p : Profile) (domain out : List Char)
    (h : toIdnaStr lowerStr p domain = .ok out) :
    ∃ ls, idnaLabels lowerStr p (splitOn '.' domain) = .ok ls ∧ out = joinWith '.' ls := by
  unfold toIdnaStr at h
  split at h
  · rename_i ls hls
    simp only [Res.ok.injEq] at h
    exact ⟨ls, hls, h.symm⟩
  · rename_i e he
    -- an error value is never `.ok` : `idnaLabels` only puts non-ok results in `.error`
    exfalso
    have : ∀ names e, idnaLabels lowerStr p names = .error e → ∀ o, e ≠ .ok o := by
      intro names
      induction names with
      | nil => intro e h; simp [idnaLabels] at h
      | cons name rest ih =>
        intro e h o
        simp only [idnaLabels] at h
        split at h
        · split at h
          · exact absurd h (by simp)
          · rename_i e' he'
            simp only [Except.error.injEq] at h
            subst h
            exact ih _ he' o
        · rename_i r hr
          simp only [Except.error.injEq] at h
          subst h
          intro e'
          exact hr o e'
    exact this _ e he out h

/-! ## Whole-name facts -/

theorem mem_joinWith (sep : Char) (ls : List (List Char)) (c : Char) :
    c ∈ joinWith sep ls → c = sep ∨ ∃ l ∈ ls, c ∈ l := by
  induction ls with
  | nil => intro h; simp [joinWith] at h
  | cons l ls ih =>
    cases ls with
    | nil => intro h; exact Or.inr ⟨l, List.mem_cons_self, h⟩
    | cons q qs =>
      intro h
      rw [joinWith_cons_cons] at h
      rcases List.mem_append.1 h with h | h
      · exact Or.inr ⟨l, List.mem_cons_self, h⟩
      · rcases List.mem_cons.1 h with h | h
        · exact Or.inl h
        · rcases ih h with h | ⟨l', hl', hc⟩
          · exact Or.inl h
          · exact Or.inr ⟨l', List.mem_cons_of_mem _ hl', hc⟩

theorem mem_joinWith_of_mem (sep : Char) (ls : List (List Char)) (l : List Char) (c : Char)
    (hl : l ∈ ls) (hc : c ∈ l) : c ∈ joinWith sep ls := by
  induction ls with
  | nil => simp at hl
  | cons a as ih =>
    cases as with
    | nil =>
      simp only [List.mem_singleton] at hl
      subst hl; exact hc
    | cons q qs =>
      rw [joinWith_cons_cons]
      rcases List.mem_cons.1 hl with rfl | hl
      · exact List.mem_append_left _ hc
      · exact List.mem_append_right _ (List.mem_cons_of_mem _ (ih hl))

theorem mem_of_mem_splitOn (sep : Char) (s p : List Char) (c : Char) (hp : p ∈ splitOn sep s)
    (hc : c ∈ p) : c ∈ s := by
  have := mem_joinWith_of_mem sep (splitOn sep s) p c hp hc
  rwa [join_split] at this

theorem exists_zip_of_mem_right {α β : Type} (as : List α) (bs : List β)
    (h : bs.length = as.length) (b : β) (hb : b ∈ bs) : ∃ a, (a, b) ∈ as.zip bs := by
  induction as generalizing bs with
  | nil =>
    have : bs = [] := List.eq_nil_of_length_eq_zero h
    subst this; simp at hb
  | cons a as ih =>
    cases bs with
    | nil => simp at hb
    | cons b' bs' =>
      rcases List.mem_cons.1 hb with rfl | hb
      · exact ⟨a, by simp⟩
      · obtain ⟨a', ha'⟩ := ih bs' (by simpa using h) hb
        exact ⟨a', by simp [ha']⟩

theorem idnaLabels_self {lowerStr : List Char → List Char} (hA : LowerAscii lowerStr)
    (p : Profile) (names : List (List Char))
    (h : ∀ n ∈ names, allAscii n = true ∧ ∀ c ∈ n, isAsciiUpper c = false) :
    idnaLabels lowerStr p names = .ok names := by
  induction names with
  | nil => rfl
  | cons n ns ih =>
    obtain ⟨h1, h2⟩ := h n List.mem_cons_self
    have hl : idnaLabel lowerStr p n = .ok n := by
      unfold idnaLabel
      simp only [h1, if_true]
      rw [hA.ascii n h1, (map_asciiLower_ascii n h1).2.2.2 h2]
    simp only [idnaLabels, hl, ih (fun m hm => h m (List.mem_cons_of_mem _ hm))]

end AcmedVerif.Idna
