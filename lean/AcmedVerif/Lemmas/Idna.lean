/-
Helper lemmas about `Model/Idna.lean`: character facts, `splitOn`/`joinWith`, the punycode
encoder's output alphabet and fuel, the shape of `to_idna`'s labels.
-/
import AcmedVerif.Model.Idna

namespace AcmedVerif.Idna

/-! ## ASCII character facts (by exhaustive evaluation over the 128 code points) -/

theorem ascii_forall {P : Char → Prop} (h : ∀ n, n < 128 → P (Char.ofNat n)) (c : Char)
    (hc : isAscii c = true) : P c := by
  have := h c.toNat (by simpa [isAscii] using hc)
  rwa [Char.ofNat_toNat] at this

theorem asciiLower_facts (c : Char) (hc : isAscii c = true) :
    isAscii (asciiLower c) = true ∧ isAsciiUpper (asciiLower c) = false ∧
    (asciiLower c = '.' → c = '.') ∧ (isAsciiUpper c = false → asciiLower c = c) ∧
    (c = '*' → asciiLower c = '*') := by
  revert c
  apply ascii_forall
  decide

theorem encodeDigit_ok :
    ∀ d, d < 36 → (isAsciiLower (encodeDigit d) || isAsciiDigit (encodeDigit d)) = true := by
  decide

theorem isAscii_of_lower {c : Char} (h : isAsciiLower c = true) : isAscii c = true := by
  simp only [isAsciiLower, isAscii, Bool.and_eq_true, decide_eq_true_eq] at *; omega

theorem isAscii_of_digit {c : Char} (h : isAsciiDigit c = true) : isAscii c = true := by
  simp only [isAsciiDigit, isAscii, Bool.and_eq_true, decide_eq_true_eq] at *; omega

theorem not_upper_of_lower {c : Char} (h : isAsciiLower c = true) : isAsciiUpper c = false := by
  simp only [isAsciiLower, isAsciiUpper, Bool.and_eq_true, decide_eq_true_eq,
    Bool.and_eq_false_iff, decide_eq_false_iff_not] at *; omega

theorem not_upper_of_digit {c : Char} (h : isAsciiDigit c = true) : isAsciiUpper c = false := by
  simp only [isAsciiDigit, isAsciiUpper, Bool.and_eq_true, decide_eq_true_eq,
    Bool.and_eq_false_iff, decide_eq_false_iff_not] at *; omega

/-! ## `splitOn` / `joinWith` -/

theorem splitOn_ne_nil (sep : Char) (s : List Char) : splitOn sep s ≠ [] := by
  induction s with
  | nil => simp [splitOn]
  | cons c cs ih =>
    unfold splitOn
    split
    · simp
    · split
      · simp
      · simp

theorem splitOn_cons_sep (sep : Char) (cs : List Char) :
    splitOn sep (sep :: cs) = [] :: splitOn sep cs := by
  simp [splitOn]

theorem splitOn_cons_ne (sep c : Char) (cs : List Char) (h : c ≠ sep) :
    ∃ p ps, splitOn sep cs = p :: ps ∧ splitOn sep (c :: cs) = (c :: p) :: ps := by
  cases hs : splitOn sep cs with
  | nil => exact absurd hs (splitOn_ne_nil sep cs)
  | cons p ps =>
    refine ⟨p, ps, rfl, ?_⟩
    simp [splitOn, h, hs]

theorem joinWith_cons_cons (sep : Char) (p q : List Char) (ps : List (List Char)) :
    joinWith sep (p :: q :: ps) = p ++ sep :: joinWith sep (q :: ps) := rfl

theorem joinWith_cons_of_ne_nil (sep : Char) (p : List Char) (ps : List (List Char))
    (h : ps ≠ []) : joinWith sep (p :: ps) = p ++ sep :: joinWith sep ps := by
  cases ps with
  | nil => exact absurd rfl h
  | cons q qs => rfl

/-- `parts.join(sep)` of `s.split(sep)` gives `s` back. -/
theorem join_split (sep : Char) (s : List Char) : joinWith sep (splitOn sep s) = s := by
  induction s with
  | nil => rfl
  | cons c cs ih =>
    by_cases h : c = sep
    · subst h
      rw [splitOn_cons_sep, joinWith_cons_of_ne_nil _ _ _ (splitOn_ne_nil _ _), ih]; rfl
    · obtain ⟨p, ps, h1, h2⟩ := splitOn_cons_ne sep c cs h
      rw [h2]
      rw [h1] at ih
      cases ps with
      | nil => simp only [joinWith] at ih ⊢; rw [ih]
      | cons q qs =>
        rw [joinWith_cons_cons] at ih ⊢
        rw [← ih]; rfl

theorem splitOn_no_sep (sep : Char) (s : List Char) : ∀ p ∈ splitOn sep s, sep ∉ p := by
  induction s with
  | nil => simp [splitOn]
  | cons c cs ih =>
    by_cases h : c = sep
    · subst h
      rw [splitOn_cons_sep]
      intro p hp
      rcases List.mem_cons.1 hp with rfl | hp
      · simp
      · exact ih p hp
    · obtain ⟨p, ps, h1, h2⟩ := splitOn_cons_ne sep c cs h
      rw [h2]
      rw [h1] at ih
      intro q hq
      rcases List.mem_cons.1 hq with rfl | hq
      · intro hm
        rcases List.mem_cons.1 hm with e | hm
        · exact h e.symm
        · exact ih p (List.mem_cons_self) hm
      · exact ih q (List.mem_cons_of_mem _ hq)

theorem splitOn_of_no_sep (sep : Char) (p : List Char) (h : sep ∉ p) : splitOn sep p = [p] := by
  induction p with
  | nil => rfl
  | cons c cs ih =>
    have hc : c ≠ sep := fun e => h (e ▸ List.mem_cons_self)
    have hcs : sep ∉ cs := fun m => h (List.mem_cons_of_mem _ m)
    obtain ⟨p, ps, h1, h2⟩ := splitOn_cons_ne sep c cs hc
    rw [h2]
    rw [ih hcs] at h1
    cases h1; rfl

theorem splitOn_append_sep (sep : Char) (p rest : List Char) (h : sep ∉ p) :
    splitOn sep (p ++ sep :: rest) = p :: splitOn sep rest := by
  induction p with
  | nil => exact splitOn_cons_sep sep rest
  | cons c cs ih =>
    have hc : c ≠ sep := fun e => h (e ▸ List.mem_cons_self)
    have hcs : sep ∉ cs := fun m => h (List.mem_cons_of_mem _ m)
    obtain ⟨q, qs, h1, h2⟩ := splitOn_cons_ne sep c (cs ++ sep :: rest) hc
    rw [List.cons_append, h2]
    rw [ih hcs] at h1
    cases h1; rfl

/-- Splitting a join gives the parts back when no part contains the separator. -/
theorem split_join (sep : Char) (ps : List (List Char)) (hne : ps ≠ [])
    (h : ∀ p ∈ ps, sep ∉ p) : splitOn sep (joinWith sep ps) = ps := by
  induction ps with
  | nil => exact absurd rfl hne
  | cons p ps ih =>
    cases ps with
    | nil => exact splitOn_of_no_sep sep p (h p List.mem_cons_self)
    | cons q qs =>
      rw [joinWith_cons_cons, splitOn_append_sep sep p _ (h p List.mem_cons_self)]
      rw [ih (by simp) (fun r hr => h r (List.mem_cons_of_mem _ hr))]

/-! ## The punycode encoder -/

theorem clampedSub_bounds (k b : Nat) : 1 ≤ clampedSub 1 k b 26 ∧ clampedSub 1 k b 26 ≤ 26 := by
  unfold clampedSub
  split
  · omega
  · split
    · omega
    · omega

/-- Every character pushed by the digit loop is in `a-z0-9` (so the `assert!` of `encode_digit`
cannot fire), provided the fuel is at least `q` (it is: the loop is started with fuel `delta = q`). -/
theorem emitDigits_shape (f k q bias : Nat) (hf : q ≤ f) :
    ∀ c ∈ emitDigits f k q bias, isAsciiLower c = true ∨ isAsciiDigit c = true := by
  induction f generalizing k q with
  | zero =>
    intro c hc
    have hq : q = 0 := by omega
    subst hq
    simp only [emitDigits, List.mem_singleton] at hc
    subst hc
    simpa using encodeDigit_ok 0 (by omega)
  | succ f ih =>
    intro c hc
    have hb := clampedSub_bounds k bias
    simp only [emitDigits] at hc
    split at hc
    · rename_i hlt
      simp only [List.mem_singleton] at hc
      subst hc
      simpa using encodeDigit_ok q (by omega)
    · rename_i hge
      rcases List.mem_cons.1 hc with rfl | hc
      · have hmod : (q - clampedSub 1 k bias 26) % (36 - clampedSub 1 k bias 26)
            < 36 - clampedSub 1 k bias 26 := Nat.mod_lt _ (by omega)
        simpa using encodeDigit_ok _ (by omega)
      · refine ih (k + 36) _ ?_ c hc
        have : (q - clampedSub 1 k bias 26) / (36 - clampedSub 1 k bias 26)
            ≤ q - clampedSub 1 k bias 26 := Nat.div_le_self _ _
        omega

/-- The inner `for` loop only appends digit characters, keeps `n`, never decreases `h`, and
increases `h` when the current code point `n` occurs in the scanned part. -/
theorem inner_spec (p : Profile) (b : Nat) (G : Char → Prop)
    (hG : ∀ c, isAsciiLower c = true ∨ isAsciiDigit c = true → G c) (cs : List Char) :
    ∀ st st', inner p b cs st = some st' →
      st'.n = st.n ∧ st.h ≤ st'.h ∧ ((∃ c ∈ cs, c.toNat = st.n) → st.h < st'.h) ∧
      ((∀ c ∈ st.out, G c) → ∀ c ∈ st'.out, G c) := by
  induction cs with
  | nil =>
    intro st st' h
    simp only [inner, Option.some.injEq] at h
    subst h
    simp
  | cons c cs ih =>
    intro st st' h
    simp only [inner] at h
    split at h
    · rename_i hlt
      split at h
      · exact absurd h (by simp)
      · rename_i d hd
        have := ih _ _ h
        simp only at this
        refine ⟨this.1, this.2.1, ?_, this.2.2.2⟩
        rintro ⟨x, hx, hxn⟩
        rcases List.mem_cons.1 hx with rfl | hx
        · omega
        · exact this.2.2.1 ⟨x, hx, hxn⟩
    · split at h
      · rename_i heq
        have := ih _ _ h
        simp only at this
        refine ⟨this.1, by omega, fun _ => by omega, ?_⟩
        intro hout
        apply this.2.2.2
        intro x hx
        rcases List.mem_append.1 hx with hx | hx
        · exact hout x hx
        · exact hG x (emitDigits_shape _ _ _ _ (Nat.le_refl _) x hx)
      · rename_i hlt hne
        have := ih _ _ h
        refine ⟨this.1, this.2.1, ?_, this.2.2.2⟩
        rintro ⟨x, hx, hxn⟩
        rcases List.mem_cons.1 hx with rfl | hx
        · exact absurd hxn hne
        · exact this.2.2.1 ⟨x, hx, hxn⟩

theorem minGe_spec (n : Nat) (cs : List Char) (m : Nat) (h : minGe n cs = some m) :
    n ≤ m ∧ ∃ c ∈ cs, c.toNat = m := by
  induction cs generalizing m with
  | nil => simp [minGe] at h
  | cons c cs ih =>
    simp only [minGe] at h
    split at h
    · rename_i hge
      split at h
      · simp only [Option.some.injEq] at h
        subst h
        exact ⟨hge, c, List.mem_cons_self, rfl⟩
      · rename_i m' hm'
        simp only [Option.some.injEq] at h
        obtain ⟨h1, x, hx, hxm⟩ := ih m' hm'
        by_cases hle : c.toNat ≤ m'
        · have : m = c.toNat := by rw [← h]; exact Nat.min_eq_left hle
          subst this
          exact ⟨hge, c, List.mem_cons_self, rfl⟩
        · have : m = m' := by rw [← h]; exact Nat.min_eq_right (by omega)
          subst this
          exact ⟨h1, x, List.mem_cons_of_mem _ hx, hxm⟩
    · obtain ⟨h1, x, hx, hxm⟩ := ih m h
      exact ⟨h1, x, List.mem_cons_of_mem _ hx, hxm⟩

theorem outer_out (p : Profile) (b : Nat) (input : List Char) (G : Char → Prop)
    (hG : ∀ c, isAsciiLower c = true ∨ isAsciiDigit c = true → G c) (f : Nat) :
    ∀ st out, outer p b input f st = .ok out → (∀ c ∈ st.out, G c) → ∀ c ∈ out, G c := by
  induction f with
  | zero =>
    intro st out h hst
    simp only [outer] at h
    split at h
    · exact absurd h (by simp)
    · simp only [Res.ok.injEq] at h; subst h; exact hst
  | succ f ih =>
    intro st out h hst
    simp only [outer] at h
    split at h
    · split at h
      · exact absurd h (by simp)
      · split at h
        · exact absurd h (by simp)
        · split at h
          · exact absurd h (by simp)
          · rename_i st2 hin
            split at h
            · exact absurd h (by simp)
            · refine ih _ out h ?_
              exact (inner_spec p b G hG input _ _ hin).2.2.2 hst
    · simp only [Res.ok.injEq] at h; subst h; exact hst

/-- The model's fuel for the outer loop is always enough. -/
theorem outer_fuel (p : Profile) (b : Nat) (input : List Char) (f : Nat) :
    ∀ st, input.length < f + st.h → outer p b input f st ≠ .fuel := by
  induction f with
  | zero =>
    intro st hlt
    simp only [outer]
    split
    · omega
    · simp
  | succ f ih =>
    intro st hlt
    simp only [outer]
    split
    · split
      · simp
      · rename_i m hm
        split
        · simp
        · split
          · simp
          · rename_i st2 hin
            split
            · simp
            · apply ih
              obtain ⟨_, x, hx, hxm⟩ := minGe_spec _ _ _ hm
              have := (inner_spec p b (fun _ => True) (fun _ _ => trivial) input _ _ hin).2.2.1
                ⟨x, hx, hxm⟩
              simp only at this ⊢
              omega
    · simp

theorem punycode_fuel_enough (p : Profile) (input : List Char) :
    punycodeEncodeP p input ≠ .fuel := by
  unfold punycodeEncodeP
  apply outer_fuel
  simp only
  omega

/-- Alphabet of the encoder's output. -/
def Good (input : List Char) (c : Char) : Prop :=
  (c ∈ input ∧ isAscii c = true) ∨ c = '-' ∨ isAsciiLower c = true ∨ isAsciiDigit c = true

theorem punycode_good (p : Profile) (input out : List Char)
    (h : punycodeEncodeP p input = .ok out) : ∀ c ∈ out, Good input c := by
  unfold punycodeEncodeP at h
  refine outer_out p _ input (Good input) (fun c hc => Or.inr (Or.inr hc)) _ _ out h ?_
  intro c hc
  simp only at hc
  have hbasic : ∀ c ∈ input.filter isAscii, Good input c := by
    intro c hc
    rw [List.mem_filter] at hc
    exact Or.inl hc
  split at hc
  · rcases List.mem_append.1 hc with hc | hc
    · exact hbasic c hc
    · simp only [List.mem_singleton] at hc
      exact Or.inr (Or.inl hc)
  · exact hbasic c hc

theorem Good.ascii {input : List Char} {c : Char} (h : Good input c) : isAscii c = true := by
  rcases h with h | h | h | h
  · exact h.2
  · subst h; decide
  · exact isAscii_of_lower h
  · exact isAscii_of_digit h

theorem Good.notUpper {input : List Char} {c : Char} (h : Good input c)
    (hin : ∀ d ∈ input, isAsciiUpper d = false) : isAsciiUpper c = false := by
  rcases h with h | h | h | h
  · exact hin c h.1
  · subst h; decide
  · exact not_upper_of_lower h
  · exact not_upper_of_digit h

theorem Good.notDot {input : List Char} {c : Char} (h : Good input c) (hin : '.' ∉ input) :
    c ≠ '.' := by
  rcases h with h | h | h | h
  · intro e; subst e; exact hin h.1
  · subst h; decide
  · intro e; subst e; exact absurd h (by decide)
  · intro e; subst e; exact absurd h (by decide)

/-! ## Hypotheses on the lower-casing parameter -/

/-- `str::to_lowercase` agrees with ASCII lower-casing on all-ASCII strings (upper-case ASCII
letters to lower-case, every other ASCII character fixed). Nothing is asked about strings that
contain a non-ASCII character. -/
structure LowerAscii (lowerStr : List Char → List Char) : Prop where
  ascii : ∀ s, allAscii s = true → lowerStr s = s.map asciiLower

/-- Lower-casing never PRODUCES an upper-case ASCII letter (true of Unicode: the only characters
whose lower-case mapping contains an ASCII character map to ASCII lower-case letters). -/
structure LowerNoUpper (lowerStr : List Char → List Char) : Prop where
  noUpper : ∀ s c, c ∈ lowerStr s → isAsciiUpper c = false

/-- Lower-casing never produces a full stop out of nothing. -/
structure LowerNoDot (lowerStr : List Char → List Char) : Prop where
  noDot : ∀ s, '.' ∉ s → '.' ∉ lowerStr s

/-- Per-character version: ASCII upper to ASCII lower, other ASCII fixed, non-ASCII anything. -/
structure LowerCharAscii (lower : Char → List Char) : Prop where
  ascii : ∀ c, isAscii c = true → lower c = [asciiLower c]

theorem liftLower_ascii {lower : Char → List Char} (h : LowerCharAscii lower) :
    LowerAscii (liftLower lower) := by
  constructor
  intro s hs
  induction s with
  | nil => rfl
  | cons c cs ih =>
    simp only [allAscii, List.all_cons, Bool.and_eq_true] at hs
    simp only [liftLower, List.flatMap_cons, List.map_cons]
    rw [h.ascii c hs.1]
    have := ih (by simpa [allAscii] using hs.2)
    simp only [liftLower] at this
    rw [this]; rfl

theorem liftLower_noUpper {lower : Char → List Char}
    (h : ∀ c d, d ∈ lower c → isAsciiUpper d = false) : LowerNoUpper (liftLower lower) := by
  constructor
  intro s c hc
  simp only [liftLower, List.mem_flatMap] at hc
  obtain ⟨a, _, ha⟩ := hc
  exact h a c ha

theorem liftLower_noDot {lower : Char → List Char}
    (h : ∀ c, c ≠ '.' → '.' ∉ lower c) : LowerNoDot (liftLower lower) := by
  constructor
  intro s hs hc
  simp only [liftLower, List.mem_flatMap] at hc
  obtain ⟨a, ha, hd⟩ := hc
  exact h a (fun e => hs (e ▸ ha)) hd

/-- The ASCII-only lower-casing (identity outside ASCII) meets every hypothesis: the hypotheses are
satisfiable. -/
def lowerAsciiOnly (c : Char) : List Char := [asciiLower c]

theorem asciiLower_not_upper (c : Char) : isAsciiUpper (asciiLower c) = false := by
  by_cases hc : isAscii c = true
  · exact (asciiLower_facts c hc).2.1
  · have : isAsciiUpper c = false := by
      simp only [isAscii, isAsciiUpper, decide_eq_true_eq, Bool.and_eq_false_iff,
        decide_eq_false_iff_not] at *
      omega
    simp only [asciiLower, this]
    simpa using this

theorem asciiLower_dot (c : Char) (h : asciiLower c = '.') : c = '.' := by
  by_cases hc : isAscii c = true
  · exact (asciiLower_facts c hc).2.2.1 h
  · have : isAsciiUpper c = false := by
      simp only [isAscii, isAsciiUpper, decide_eq_true_eq, Bool.and_eq_false_iff,
        decide_eq_false_iff_not] at *
      omega
    simpa [asciiLower, this] using h

theorem lowerAsciiOnly_ascii : LowerCharAscii lowerAsciiOnly := ⟨fun _ _ => rfl⟩

theorem lowerAsciiOnly_noUpper : LowerNoUpper (liftLower lowerAsciiOnly) :=
  liftLower_noUpper (by
    intro c d hd
    simp only [lowerAsciiOnly, List.mem_singleton] at hd
    subst hd
    exact asciiLower_not_upper c)

theorem lowerAsciiOnly_noDot : LowerNoDot (liftLower lowerAsciiOnly) :=
  liftLower_noDot (by
    intro c hc hd
    simp only [lowerAsciiOnly, List.mem_singleton] at hd
    exact hc (asciiLower_dot c hd.symm))

/-! ## Shape of one label -/

theorem map_asciiLower_ascii (s : List Char) (hs : allAscii s = true) :
    allAscii (s.map asciiLower) = true ∧ (∀ c ∈ s.map asciiLower, isAsciiUpper c = false) ∧
    ('.' ∉ s → '.' ∉ s.map asciiLower) ∧
    ((∀ c ∈ s, isAsciiUpper c = false) → s.map asciiLower = s) := by
  induction s with
  | nil => simp [allAscii]
  | cons c cs ih =>
    simp only [allAscii, List.all_cons, Bool.and_eq_true] at hs
    obtain ⟨i1, i2, i3, i4⟩ := ih (by simpa [allAscii] using hs.2)
    obtain ⟨f1, f2, f3, f4, _⟩ := asciiLower_facts c hs.1
    refine ⟨?_, ?_, ?_, ?_⟩
    · simp only [allAscii, List.map_cons, List.all_cons, Bool.and_eq_true]
      exact ⟨f1, by simpa [allAscii] using i1⟩
    · intro x hx
      simp only [List.map_cons] at hx
      rcases List.mem_cons.1 hx with rfl | hx
      · exact f2
      · exact i2 x hx
    · intro hd hm
      simp only [List.map_cons] at hm
      rcases List.mem_cons.1 hm with e | hm
      · exact hd (by rw [f3 e.symm]; exact List.mem_cons_self)
      · exact i3 (fun m => hd (List.mem_cons_of_mem _ m)) hm
    · intro hu
      simp only [List.map_cons]
      rw [f4 (hu c List.mem_cons_self), i4 (fun x hx => hu x (List.mem_cons_of_mem _ hx))]

/-- What `to_idna` does to one label. -/
structure LabelShape (lowerStr : List Char → List Char) (p : Profile) (name l : List Char) :
    Prop where
  /-- the output label is ASCII -/
  ascii : allAscii l = true
  /-- an all-ASCII label is only lower-cased -/
  asciiCase : allAscii name = true → l = name.map asciiLower
  /-- a label with a non-ASCII character becomes `xn--` + punycode of its lower-cased form -/
  idnCase : allAscii name = false →
    ∃ o, punycodeEncodeP p (lowerStr name) = .ok o ∧ l = xnPrefix ++ o
  /-- the wildcard label is kept -/
  star : name = ['*'] → l = ['*']

theorem idnaLabel_shape {lowerStr : List Char → List Char} (hA : LowerAscii lowerStr)
    (chk : Bool) (p : Profile) (name l : List Char) (h : idnaLabelG chk lowerStr p name = .ok l) :
    LabelShape lowerStr p name l := by
  unfold idnaLabelG at h
  split at h
  · exact absurd h (by simp)
  by_cases hn : allAscii name = true
  · simp only [hn, if_true, Res.ok.injEq] at h
    subst h
    rw [hA.ascii name hn]
    refine ⟨(map_asciiLower_ascii name hn).1, fun _ => rfl, fun h' => ?_, fun hs => ?_⟩
    · rw [hn] at h'; exact absurd h' (by simp)
    · subst hs; decide
  · have hn' : allAscii name = false := by simpa using hn
    simp only [hn', Bool.false_eq_true, if_false] at h
    split at h
    · rename_i o ho
      simp only [Res.ok.injEq] at h
      subst h
      refine ⟨?_, fun h' => ?_, fun _ => ⟨o, ho, rfl⟩, fun hs => ?_⟩
      · simp only [allAscii, List.all_append, Bool.and_eq_true]
        refine ⟨by decide, ?_⟩
        rw [List.all_eq_true]
        intro c hc
        exact (punycode_good p _ o ho c hc).ascii
      · rw [hn'] at h'; exact absurd h' (by simp)
      · subst hs; exact absurd hn' (by decide)
    · rename_i r hr
      exact absurd h (hr l)

theorem idnaLabel_noUpper {lowerStr : List Char → List Char} (hA : LowerAscii lowerStr)
    (hU : LowerNoUpper lowerStr) (chk : Bool) (p : Profile) (name l : List Char)
    (h : idnaLabelG chk lowerStr p name = .ok l) : ∀ c ∈ l, isAsciiUpper c = false := by
  have sh := idnaLabel_shape hA chk p name l h
  by_cases hn : allAscii name = true
  · rw [sh.asciiCase hn]
    exact (map_asciiLower_ascii name hn).2.1
  · obtain ⟨o, ho, rfl⟩ := sh.idnCase (by simpa using hn)
    intro c hc
    rcases List.mem_append.1 hc with hc' | hc'
    · clear hc
      revert c
      decide
    · exact (punycode_good p _ o ho c hc').notUpper (fun d hd => hU.noUpper name d hd)

theorem idnaLabel_noDot {lowerStr : List Char → List Char} (hA : LowerAscii lowerStr)
    (hD : LowerNoDot lowerStr) (chk : Bool) (p : Profile) (name l : List Char) (hname : '.' ∉ name)
    (h : idnaLabelG chk lowerStr p name = .ok l) : '.' ∉ l := by
  have sh := idnaLabel_shape hA chk p name l h
  by_cases hn : allAscii name = true
  · rw [sh.asciiCase hn]
    exact (map_asciiLower_ascii name hn).2.2.1 hname
  · obtain ⟨o, ho, rfl⟩ := sh.idnCase (by simpa using hn)
    intro hc
    rcases List.mem_append.1 hc with hc | hc
    · revert hc; decide
    · exact (punycode_good p _ o ho '.' hc).notDot (hD.noDot name hname) rfl

/-! ## The label loop -/

theorem idnaLabels_spec (chk : Bool) (lowerStr : List Char → List Char) (p : Profile) (names : List (List Char)) :
    ∀ ls, idnaLabelsG chk lowerStr p names = .ok ls →
      ls.length = names.length ∧
      ∀ x ∈ names.zip ls, idnaLabelG chk lowerStr p x.1 = .ok x.2 := by
  induction names with
  | nil =>
    intro ls h
    simp only [idnaLabelsG, Except.ok.injEq] at h
    subst h
    simp
  | cons name rest ih =>
    intro ls h
    simp only [idnaLabelsG] at h
    split at h
    · rename_i l hl
      split at h
      · rename_i ls' hls'
        simp only [Except.ok.injEq] at h
        subst h
        obtain ⟨i1, i2⟩ := ih ls' hls'
        refine ⟨by simp [i1], ?_⟩
        intro x hx
        simp only [List.zip_cons_cons] at hx
        rcases List.mem_cons.1 hx with rfl | hx
        · exact hl
        · exact i2 x hx
      · exact absurd h (by simp)
    · exact absurd h (by simp)

theorem toIdnaStr_ok (chk : Bool) (lowerStr : List Char → List Char) (p : Profile) (domain out : List Char)
    (h : toIdnaStrG chk lowerStr p domain = .ok out) :
    ∃ ls, idnaLabelsG chk lowerStr p (splitOn '.' domain) = .ok ls ∧ out = joinWith '.' ls := by
  unfold toIdnaStrG at h
  split at h
  · rename_i ls hls
    simp only [Res.ok.injEq] at h
    exact ⟨ls, hls, h.symm⟩
  · rename_i e he
    -- an error value is never `.ok` : `idnaLabels` only puts non-ok results in `.error`
    exfalso
    have : ∀ names e, idnaLabelsG chk lowerStr p names = .error e → ∀ o, e ≠ .ok o := by
      intro names
      induction names with
      | nil => intro e h; simp [idnaLabelsG] at h
      | cons name rest ih =>
        intro e h o
        simp only [idnaLabelsG] at h
        split at h
        · split at h
          · exact absurd h (by simp)
          · rename_i e' he'
            simp only [Except.error.injEq] at h
            subst h
            exact ih _ he' o
        · rename_i r hr
          simp only [Except.error.injEq] at h
          subst h
          intro e'
          exact hr o e'
    exact this _ e he out h

/-! ## Whole-name facts -/

theorem mem_joinWith (sep : Char) (ls : List (List Char)) (c : Char) :
    c ∈ joinWith sep ls → c = sep ∨ ∃ l ∈ ls, c ∈ l := by
  induction ls with
  | nil => intro h; simp [joinWith] at h
  | cons l ls ih =>
    cases ls with
    | nil => intro h; exact Or.inr ⟨l, List.mem_cons_self, h⟩
    | cons q qs =>
      intro h
      rw [joinWith_cons_cons] at h
      rcases List.mem_append.1 h with h | h
      · exact Or.inr ⟨l, List.mem_cons_self, h⟩
      · rcases List.mem_cons.1 h with h | h
        · exact Or.inl h
        · rcases ih h with h | ⟨l', hl', hc⟩
          · exact Or.inl h
          · exact Or.inr ⟨l', List.mem_cons_of_mem _ hl', hc⟩

theorem mem_joinWith_of_mem (sep : Char) (ls : List (List Char)) (l : List Char) (c : Char)
    (hl : l ∈ ls) (hc : c ∈ l) : c ∈ joinWith sep ls := by
  induction ls with
  | nil => simp at hl
  | cons a as ih =>
    cases as with
    | nil =>
      simp only [List.mem_singleton] at hl
      subst hl; exact hc
    | cons q qs =>
      rw [joinWith_cons_cons]
      rcases List.mem_cons.1 hl with rfl | hl
      · exact List.mem_append_left _ hc
      · exact List.mem_append_right _ (List.mem_cons_of_mem _ (ih hl))

theorem mem_of_mem_splitOn (sep : Char) (s p : List Char) (c : Char) (hp : p ∈ splitOn sep s)
    (hc : c ∈ p) : c ∈ s := by
  have := mem_joinWith_of_mem sep (splitOn sep s) p c hp hc
  rwa [join_split] at this

theorem exists_zip_of_mem_right {α β : Type} (as : List α) (bs : List β)
    (h : bs.length = as.length) (b : β) (hb : b ∈ bs) : ∃ a, (a, b) ∈ as.zip bs := by
  induction as generalizing bs with
  | nil =>
    have : bs = [] := List.eq_nil_of_length_eq_zero h
    subst this; simp at hb
  | cons a as ih =>
    cases bs with
    | nil => simp at hb
    | cons b' bs' =>
      rcases List.mem_cons.1 hb with rfl | hb
      · exact ⟨a, by simp⟩
      · obtain ⟨a', ha'⟩ := ih bs' (by simpa using h) hb
        exact ⟨a', by simp [ha']⟩

theorem exists_zip_of_mem_left {α β : Type} (as : List α) (bs : List β)
    (h : bs.length = as.length) (a : α) (ha : a ∈ as) : ∃ b, (a, b) ∈ as.zip bs := by
  induction as generalizing bs with
  | nil => simp at ha
  | cons a' as ih =>
    cases bs with
    | nil => simp at h
    | cons b bs' =>
      rcases List.mem_cons.1 ha with rfl | ha
      · exact ⟨b, by simp⟩
      · obtain ⟨b', hb'⟩ := ih bs' (by simpa using h) ha
        exact ⟨b', by simp [hb']⟩

theorem idnaLabels_self {lowerStr : List Char → List Char} (hA : LowerAscii lowerStr)
    (chk : Bool) (p : Profile) (names : List (List Char))
    (h : ∀ n ∈ names, allAscii n = true ∧ ∀ c ∈ n, isAsciiUpper c = false)
    (hlen : chk = true → ∀ n ∈ names, n.length ≤ maxLabelChars) :
    idnaLabelsG chk lowerStr p names = .ok names := by
  induction names with
  | nil => rfl
  | cons n ns ih =>
    obtain ⟨h1, h2⟩ := h n List.mem_cons_self
    have hl : idnaLabelG chk lowerStr p n = .ok n := by
      unfold idnaLabelG
      have hc : (chk && decide (n.length > maxLabelChars)) = false := by
        cases chk with
        | false => rfl
        | true =>
          have := hlen rfl n List.mem_cons_self
          simp only [Bool.true_and, decide_eq_false_iff_not]; omega
      simp only [hc, Bool.false_eq_true, if_false, h1, if_true]
      rw [hA.ascii n h1, (map_asciiLower_ascii n h1).2.2.2 h2]
    simp only [idnaLabelsG, hl, ih (fun m hm => h m (List.mem_cons_of_mem _ hm))
      (fun hc m hm => hlen hc m (List.mem_cons_of_mem _ hm))]

/-! ## No arithmetic surprise on inputs of at most 3855 characters

The unchecked `delta += 1` cannot overflow, the checked multiplication cannot fail and
`min().unwrap()` cannot panic when the input has at most 3855 characters: the two profiles agree
and the encoder succeeds. -/

theorem char_toNat_lt (c : Char) : c.toNat < 0x110000 := by
  have := c.valid
  simp only [Char.toNat]
  rcases this with h | h
  · have : c.val.toNat < 0xd800 := h
    omega
  · have : c.val.toNat < 0x110000 := h.2
    omega

theorem incr_ok (p : Profile) (d : Nat) (h : d + 1 ≤ u32Max) : incr p d = some (d + 1) := by
  simp [incr, h]

/-- Without overflow the inner loop does the same in both profiles; `h` counts the occurrences of
`n`; `delta` ends below the number of characters scanned after the last occurrence of `n`. -/
theorem inner_noovf (p : Profile) (b : Nat) (cs : List Char) :
    ∀ st, st.delta + cs.length ≤ u32Max →
      ∃ st', inner p b cs st = some st' ∧ inner .dev b cs st = some st' ∧
        st'.n = st.n ∧
        st'.h = st.h + cs.countP (fun c => c.toNat = st.n) ∧
        st'.delta ≤ st.delta + cs.length ∧
        ((∃ c ∈ cs, c.toNat = st.n) → st'.delta + 1 ≤ cs.length) := by
  induction cs with
  | nil => intro st _; exact ⟨st, rfl, rfl, rfl, by simp, by simp, by simp⟩
  | cons c cs ih =>
    intro st hb
    simp only [List.length_cons] at hb
    by_cases hlt : c.toNat < st.n
    · have hi : ∀ q, incr q st.delta = some (st.delta + 1) := fun q => incr_ok q _ (by omega)
      obtain ⟨st', h1, h2, h3, h4, h5, h6⟩ := ih { st with delta := st.delta + 1 }
        (by simp only; omega)
      refine ⟨st', ?_, ?_, h3, ?_, ?_, ?_⟩
      · simp only [inner, hlt, if_true, hi]; exact h1
      · simp only [inner, hlt, if_true, hi]; exact h2
      · rw [h4, List.countP_cons]
        have : ¬ c.toNat = st.n := by omega
        simp [this]
      · simp only [List.length_cons] at h5 ⊢; omega
      · rintro ⟨x, hx, hxn⟩
        rcases List.mem_cons.1 hx with rfl | hx
        · omega
        · have := h6 ⟨x, hx, hxn⟩
          simp only [List.length_cons]; omega
    · by_cases heq : c.toNat = st.n
      · obtain ⟨st', h1, h2, h3, h4, h5, _⟩ := ih
          { st with
            out := st.out ++ emitDigits st.delta 36 st.delta st.bias
            bias := adapt st.delta (st.h + 1) (st.h == b)
            delta := 0
            h := st.h + 1 } (by simp only; omega)
        refine ⟨st', ?_, ?_, h3, ?_, ?_, ?_⟩
        · simp only [inner, heq, Nat.lt_irrefl, if_false, if_true]; exact h1
        · simp only [inner, heq, Nat.lt_irrefl, if_false, if_true]; exact h2
        · rw [h4, List.countP_cons]
          simp only [heq, decide_true, if_true]
          omega
        · simp only [List.length_cons] at h5 ⊢; omega
        · intro _
          simp only [List.length_cons] at h5 ⊢; omega
      · obtain ⟨st', h1, h2, h3, h4, h5, h6⟩ := ih st (by omega)
        refine ⟨st', ?_, ?_, h3, ?_, ?_, ?_⟩
        · simp only [inner, hlt, if_false, heq]; exact h1
        · simp only [inner, hlt, if_false, heq]; exact h2
        · rw [h4, List.countP_cons]
          simp [heq]
        · simp only [List.length_cons]; omega
        · rintro ⟨x, hx, hxn⟩
          rcases List.mem_cons.1 hx with rfl | hx
          · exact absurd hxn heq
          · have := h6 ⟨x, hx, hxn⟩
            simp only [List.length_cons]; omega

theorem minGe_none (n : Nat) (cs : List Char) (h : minGe n cs = none) :
    ∀ c ∈ cs, c.toNat < n := by
  induction cs with
  | nil => simp
  | cons c cs ih =>
    simp only [minGe] at h
    split at h
    · split at h <;> exact absurd h (by simp)
    · rename_i hlt
      intro x hx
      rcases List.mem_cons.1 hx with rfl | hx
      · omega
      · exact ih h x hx

theorem minGe_min (n : Nat) (cs : List Char) (m : Nat) (h : minGe n cs = some m) :
    ∀ c ∈ cs, n ≤ c.toNat → m ≤ c.toNat := by
  induction cs generalizing m with
  | nil => simp
  | cons c cs ih =>
    simp only [minGe] at h
    split at h
    · rename_i hge
      split at h
      · rename_i hnone
        simp only [Option.some.injEq] at h
        intro x hx hxn
        rcases List.mem_cons.1 hx with rfl | hx
        · omega
        · have := minGe_none n cs hnone x hx; omega
      · rename_i m' hm'
        simp only [Option.some.injEq] at h
        have hle1 : m ≤ c.toNat := by rw [← h]; exact Nat.min_le_left _ _
        have hle2 : m ≤ m' := by rw [← h]; exact Nat.min_le_right _ _
        intro x hx hxn
        rcases List.mem_cons.1 hx with rfl | hx
        · exact hle1
        · exact Nat.le_trans hle2 (ih m' hm' x hx hxn)
    · rename_i hlt
      intro x hx hxn
      rcases List.mem_cons.1 hx with rfl | hx
      · omega
      · exact ih m h x hx hxn

theorem countP_lt_succ (n m : Nat) (cs : List Char) (hnm : n ≤ m)
    (hgap : ∀ c ∈ cs, n ≤ c.toNat → m ≤ c.toNat) :
    cs.countP (fun c => c.toNat < m + 1) =
      cs.countP (fun c => c.toNat < n) + cs.countP (fun c => c.toNat = m) := by
  induction cs with
  | nil => rfl
  | cons c cs ih =>
    have := ih (fun x hx => hgap x (List.mem_cons_of_mem _ hx))
    have hc := hgap c List.mem_cons_self
    simp only [List.countP_cons, this]
    by_cases h1 : c.toNat < n
    · have h2 : c.toNat < m + 1 := by omega
      have h3 : ¬ c.toNat = m := by omega
      simp only [h1, h2, h3, decide_true, decide_false, if_true, Bool.false_eq_true, if_false]
      omega
    · have hc' := hc (by omega)
      by_cases h3 : c.toNat = m
      · have h2 : m < m + 1 := by omega
        have h1' : ¬ m < n := by omega
        simp only [h3, h1', h2, decide_true, decide_false, if_true, Bool.false_eq_true, if_false]
        omega
      · have h2 : ¬ c.toNat < m + 1 := by omega
        simp only [h1, h2, h3, decide_false, Bool.false_eq_true, if_false]
        omega

theorem countP_le_length' (q : Char → Bool) (cs : List Char) : cs.countP q ≤ cs.length :=
  List.countP_le_length

/-- Loop invariant of the outer loop. -/
structure OuterInv (input : List Char) (st : St) : Prop where
  hcount : st.h = input.countP (fun c => c.toNat < st.n)
  hdelta : st.delta ≤ input.length
  hn : 128 ≤ st.n

theorem outer_short (p : Profile) (b : Nat) (input : List Char) (hL : input.length ≤ 3855)
    (f : Nat) : ∀ st, OuterInv input st →
      outer p b input f st = outer .dev b input f st ∧
      outer .dev b input f st ≠ .panic ∧ outer .dev b input f st ≠ .err := by
  induction f with
  | zero =>
    intro st _
    simp only [outer]
    split <;> simp
  | succ f ih =>
    intro st inv
    simp only [outer]
    by_cases hlt : st.h < input.length
    · simp only [hlt, if_true]
      cases hm : minGe st.n input with
      | none =>
        exfalso
        have hall := minGe_none _ _ hm
        have : input.countP (fun c => c.toNat < st.n) = input.length := by
          rw [List.countP_eq_length]
          intro c hc
          simpa using hall c hc
        rw [← inv.hcount] at this
        omega
      | some m =>
        obtain ⟨hnm, x, hx, hxm⟩ := minGe_spec _ _ _ hm
        have hmlt : m < 0x110000 := by rw [← hxm]; exact char_toNat_lt x
        have hd := inv.hdelta
        have hn := inv.hn
        have hprod : (m - st.n) * (st.h + 1) ≤ 1113983 * 3855 :=
          Nat.mul_le_mul (by omega) (by omega)
        have hcheck : ¬ (m - st.n > (u32Max - st.delta) / (st.h + 1)) := by
          have : m - st.n ≤ (u32Max - st.delta) / (st.h + 1) := by
            rw [Nat.le_div_iff_mul_le (by omega)]
            simp only [u32Max]; omega
          omega
        simp only [hcheck, if_false]
        obtain ⟨st2, h1, h2, h3, h4, h5, h6⟩ := inner_noovf p b input
          { st with delta := st.delta + (m - st.n) * (st.h + 1), n := m }
          (by simp only [u32Max]; omega)
        simp only at h3 h4 h5 h6
        have h6' := h6 ⟨x, hx, hxm⟩
        rw [h1, h2]
        simp only
        have hi : ∀ q, incr q st2.delta = some (st2.delta + 1) :=
          fun q => incr_ok q _ (by simp only [u32Max]; omega)
        rw [hi p, hi .dev]
        simp only
        apply ih
        constructor
        · simp only
          rw [h4, h3, inv.hcount]
          exact (countP_lt_succ st.n m input hnm (minGe_min _ _ _ hm)).symm
        · simp only; omega
        · simp only; omega
    · simp [hlt]

theorem punycode_short (p : Profile) (input : List Char) (hL : input.length ≤ 3855) :
    ∃ out, punycodeEncodeP p input = .ok out ∧ punycodeEncodeP .dev input = .ok out := by
  have hinv : OuterInv input
      { n := 128, delta := 0, bias := 72, h := (input.filter isAscii).length,
        out := if (input.filter isAscii).length > 0 then input.filter isAscii ++ ['-']
               else input.filter isAscii } := by
    constructor
    · simp only
      rw [← List.countP_eq_length_filter]
      congr 1
    · simp
    · simp
  obtain ⟨h1, h2, h3⟩ := outer_short p (input.filter isAscii).length input hL
    (input.length + 1) _ hinv
  have h4 := punycode_fuel_enough .dev input
  unfold punycodeEncodeP at h4 ⊢
  simp only at h4 ⊢
  rw [h1]
  cases hr : outer .dev (input.filter isAscii).length input (input.length + 1) _ with
  | ok out => exact ⟨out, rfl, rfl⟩
  | err => exact absurd hr h3
  | panic => exact absurd hr h2
  | fuel => exact absurd hr h4

/-! ## The unchecked overflow is reachable (4001 characters) -/

theorem inner_replicate_eq (p : Profile) (b : Nat) (a : Char) (rest : List Char) (k : Nat) :
    ∀ st, a.toNat = st.n →
      ∃ bias out, inner p b (List.replicate k a ++ rest) st =
        inner p b rest
          { n := st.n, delta := if k = 0 then st.delta else 0, bias := bias, h := st.h + k,
            out := out } := by
  induction k with
  | zero => intro st _; exact ⟨st.bias, st.out, by simp⟩
  | succ k ih =>
    intro st ha
    obtain ⟨bias, out, h⟩ := ih
      { st with
        out := st.out ++ emitDigits st.delta 36 st.delta st.bias
        bias := adapt st.delta (st.h + 1) (st.h == b)
        delta := 0
        h := st.h + 1 } ha
    refine ⟨bias, out, ?_⟩
    simp only [List.replicate_succ, List.cons_append, inner, ha, Nat.lt_irrefl, if_false, if_true]
    rw [h]
    simp only [Nat.succ_ne_zero, if_false]
    congr 2
    · split <;> rfl
    · omega

theorem inner_replicate_panic (b : Nat) (a : Char) (rest : List Char) (k : Nat) :
    ∀ st, a.toNat < st.n → st.delta ≤ u32Max → st.delta + k > u32Max →
      inner .dev b (List.replicate k a ++ rest) st = none := by
  induction k with
  | zero => intro st _ h1 h2; omega
  | succ k ih =>
    intro st ha h1 h2
    simp only [List.replicate_succ, List.cons_append, inner, ha, if_true]
    by_cases hd : st.delta + 1 ≤ u32Max
    · simp only [incr, hd, if_true]
      exact ih { st with delta := st.delta + 1 } ha hd (by simp only; omega)
    · simp only [incr, hd, if_false]

theorem minGe_eq_of (n : Nat) (cs : List Char) (x : Char) (hx : x ∈ cs) (hxn : n ≤ x.toNat)
    (hmin : ∀ c ∈ cs, n ≤ c.toNat → x.toNat ≤ c.toNat) : minGe n cs = some x.toNat := by
  cases h : minGe n cs with
  | none => have := minGe_none n cs h x hx; omega
  | some m =>
    obtain ⟨h1, c, hc, hcm⟩ := minGe_spec n cs m h
    have h2 := minGe_min n cs m h x hx hxn
    have h3 := hmin c hc (by omega)
    congr 1; omega

/-- `k` × U+0080 followed by U+1061C2 (kept generic in `k` so that no tactic unfolds the list). -/
def witnessK (k : Nat) : List Char := List.replicate k (Char.ofNat 0x80) ++ [Char.ofNat 0x1061C2]

theorem witnessK_panics (k : Nat) (hk : 0 < k)
    (hcheck : ¬ (1073602 - (128 + 1) > (u32Max - (0 + 1)) / (k + 1)))
    (hle : 0 + 1 + (1073602 - (128 + 1)) * (k + 1) ≤ u32Max)
    (hov : 0 + 1 + (1073602 - (128 + 1)) * (k + 1) + k > u32Max) :
    punycodeEncodeP .dev (witnessK k) = .panic := by
  have ha : (Char.ofNat 0x80).toNat = 128 := by decide
  have hx : (Char.ofNat 0x1061C2).toNat = 1073602 := by decide
  have hfilter : (witnessK k).filter isAscii = [] := by
    have h1 : isAscii (Char.ofNat 0x80) = false := by decide
    have h2 : isAscii (Char.ofNat 0x1061C2) = false := by decide
    simp only [witnessK, List.filter_append, List.filter_replicate, h1, Bool.false_eq_true,
      if_false, List.filter_cons, h2, List.filter_nil, List.append_nil]
  have hlen : (witnessK k).length = k + 1 := by
    simp only [witnessK, List.length_append, List.length_replicate, List.length_cons,
      List.length_nil]
  have hmem : ∀ c ∈ witnessK k, c = Char.ofNat 0x80 ∨ c = Char.ofNat 0x1061C2 := by
    intro c hc
    simp only [witnessK, List.mem_append, List.mem_replicate, List.mem_singleton] at hc
    rcases hc with ⟨_, h⟩ | h
    · exact Or.inl h
    · exact Or.inr h
  have hmemA : Char.ofNat 0x80 ∈ witnessK k := by
    simp only [witnessK, List.mem_append, List.mem_replicate]
    exact Or.inl ⟨by omega, trivial⟩
  have hmemX : Char.ofNat 0x1061C2 ∈ witnessK k := by
    simp only [witnessK, List.mem_append, List.mem_singleton]
    exact Or.inr trivial
  have hmin1 : minGe 128 (witnessK k) = some 128 := by
    rw [← ha]
    apply minGe_eq_of _ _ _ hmemA
    · omega
    · intro c hc _
      rcases hmem c hc with rfl | rfl <;> omega
  have hmin2 : minGe (128 + 1) (witnessK k) = some 1073602 := by
    rw [← hx]
    apply minGe_eq_of _ _ _ hmemX
    · omega
    · intro c hc hge
      rcases hmem c hc with rfl | rfl <;> omega
  unfold punycodeEncodeP
  simp only [hfilter, List.length_nil, Nat.lt_irrefl, if_false, hlen]
  -- first turn of the outer loop: n = 128, the `k` copies of U+0080 are handled
  rw [outer]
  simp only [hlen, show (0 : Nat) < k + 1 from by omega, if_true, hmin1, Nat.sub_self, Nat.zero_mul,
    Nat.add_zero]
  rw [if_neg (by simp)]
  obtain ⟨bias, out, hin⟩ := inner_replicate_eq .dev 0 (Char.ofNat 0x80) [Char.ofNat 0x1061C2] k
    { n := 128, delta := 0, bias := 72, h := 0, out := [] } ha
  have hin' : inner .dev 0 (witnessK k) { n := 128, delta := 0, bias := 72, h := 0, out := [] } =
      some { n := 128, delta := 0, bias := bias, h := k, out := out } := by
    unfold witnessK
    rw [hin]
    have h1 : ¬ (1073602 < 128) := by omega
    have h2 : ¬ (1073602 = 128) := by omega
    simp only [inner, hx, h1, h2, if_false, Nat.zero_add]
    split <;> rfl
  rw [hin']
  simp only [incr, u32Max, show (0 + 1 : Nat) ≤ 4294967295 from by omega, if_true]
  -- second turn: n = 129, m = U+1061C2, the checked multiplication passes, then the unchecked
  -- increments overflow
  rw [outer]
  simp only [hlen, show k < k + 1 from by omega, if_true, hmin2]
  rw [if_neg hcheck]
  have hpanic := inner_replicate_panic 0 (Char.ofNat 0x80) [Char.ofNat 0x1061C2] k
    { n := 1073602, delta := 0 + 1 + (1073602 - (128 + 1)) * (k + 1), bias := bias, h := k,
      out := out }
    (by simp only [ha]; omega) hle hov
  unfold witnessK
  rw [hpanic]

/-- 4000 × U+0080 followed by U+1061C2. -/
def overflowWitness : List Char := witnessK 4000

theorem overflowWitness_panics : punycodeEncodeP .dev overflowWitness = .panic :=
  witnessK_panics 4000 (by decide) (by decide) (by decide) (by decide)

theorem overflowWitness_length : overflowWitness.length = 4001 := by
  simp only [overflowWitness, witnessK, List.length_append, List.length_replicate,
    List.length_cons, List.length_nil]

/-! ## The label length check (commit 300bbf4) -/

theorem idnaLabelG_len (lowerStr : List Char → List Char) (p : Profile) (name l : List Char)
    (h : idnaLabelG true lowerStr p name = .ok l) : name.length ≤ maxLabelChars := by
  unfold idnaLabelG at h
  split at h
  · exact absurd h (by simp)
  · rename_i hc
    simp only [Bool.true_and, decide_eq_true_eq] at hc
    omega

theorem idnaLabelG_too_long (lowerStr : List Char → List Char) (p : Profile) (name : List Char)
    (h : name.length > maxLabelChars) : idnaLabelG true lowerStr p name = .err := by
  simp [idnaLabelG, h]

/-- Lower-casing a label of at most 63 characters gives at most 3855 characters. True of Unicode
with a wide margin: `char::to_lowercase` yields at most 3 characters per character (189). -/
structure LowerBounded (lowerStr : List Char → List Char) : Prop where
  bound : ∀ s, s.length ≤ maxLabelChars → (lowerStr s).length ≤ 3855

theorem lowerBounded_of_factor {lowerStr : List Char → List Char} (k : Nat) (hk : k ≤ 61)
    (h : ∀ s, (lowerStr s).length ≤ k * s.length) : LowerBounded lowerStr := by
  constructor
  intro s hs
  have h1 := h s
  have h2 : k * s.length ≤ 61 * 63 := Nat.mul_le_mul hk hs
  omega

theorem liftLower_length {lower : Char → List Char} (k : Nat) (h : ∀ c, (lower c).length ≤ k)
    (s : List Char) : (liftLower lower s).length ≤ k * s.length := by
  induction s with
  | nil => simp [liftLower]
  | cons c cs ih =>
    simp only [liftLower, List.flatMap_cons, List.length_append, List.length_cons] at ih ⊢
    have := h c
    rw [Nat.mul_add]
    omega

theorem liftLower_bounded {lower : Char → List Char} (k : Nat) (hk : k ≤ 61)
    (h : ∀ c, (lower c).length ≤ k) : LowerBounded (liftLower lower) :=
  lowerBounded_of_factor k hk (liftLower_length k h)

theorem lowerAsciiOnly_bounded : LowerBounded (liftLower lowerAsciiOnly) :=
  liftLower_bounded 1 (by omega) (fun _ => by simp [lowerAsciiOnly])

/-- With the check, one label gives `ok` or `err` in both profiles. -/
theorem idnaLabelG_total {lowerStr : List Char → List Char} (hB : LowerBounded lowerStr)
    (p : Profile) (name : List Char) :
    (∃ l, idnaLabelG true lowerStr p name = .ok l) ∨ idnaLabelG true lowerStr p name = .err := by
  by_cases hlen : name.length > maxLabelChars
  · exact Or.inr (idnaLabelG_too_long lowerStr p name hlen)
  · left
    have hc : (true && decide (name.length > maxLabelChars)) = false := by simp [hlen]
    unfold idnaLabelG
    simp only [hc, Bool.false_eq_true, if_false]
    by_cases hn : allAscii name = true
    · exact ⟨lowerStr name, by simp only [hn, if_true]⟩
    · obtain ⟨o, ho, _⟩ := punycode_short p (lowerStr name) (hB.bound name (by omega))
      refine ⟨xnPrefix ++ o, ?_⟩
      simp only [hn, Bool.false_eq_true, if_false, ho]

theorem idnaLabelsG_error (chk : Bool) (lowerStr : List Char → List Char) (p : Profile)
    (names : List (List Char)) (e : Res) (h : idnaLabelsG chk lowerStr p names = .error e) :
    ∃ name ∈ names, idnaLabelG chk lowerStr p name = e := by
  induction names with
  | nil => simp [idnaLabelsG] at h
  | cons n ns ih =>
    simp only [idnaLabelsG] at h
    split at h
    · split at h
      · exact absurd h (by simp)
      · rename_i e' he'
        simp only [Except.error.injEq] at h
        subst h
        obtain ⟨name, hn, hname⟩ := ih he'
        exact ⟨name, List.mem_cons_of_mem _ hn, hname⟩
    · rename_i r hr
      simp only [Except.error.injEq] at h
      exact ⟨n, List.mem_cons_self, h⟩

theorem toIdnaStrG_total {lowerStr : List Char → List Char} (hB : LowerBounded lowerStr)
    (p : Profile) (domain : List Char) :
    (∃ out, toIdnaStrG true lowerStr p domain = .ok out) ∨
      toIdnaStrG true lowerStr p domain = .err := by
  unfold toIdnaStrG
  cases h : idnaLabelsG true lowerStr p (splitOn '.' domain) with
  | ok ls => exact Or.inl ⟨_, rfl⟩
  | error e =>
    right
    obtain ⟨name, _, hname⟩ := idnaLabelsG_error true lowerStr p _ e h
    rcases idnaLabelG_total hB p name with ⟨l, hl⟩ | herr
    · -- an `.ok` never sits in the error slot
      exfalso
      obtain ⟨ls, hls, _⟩ : ∃ ls, idnaLabelsG true lowerStr p (splitOn '.' domain) = .ok ls ∧ True := by
        have := toIdnaStr_ok true lowerStr p domain l (by
          unfold toIdnaStrG
          rw [h, ← hname, hl])
        obtain ⟨ls, hls, _⟩ := this
        exact ⟨ls, hls, trivial⟩
      rw [h] at hls
      exact absurd hls (by simp)
    · simp only
      rw [← hname, herr]

/-! ### The old `to_idna` on the overflow witness -/

theorem liftLower_asciiOnly_fix (s : List Char) (h : ∀ c ∈ s, isAscii c = false) :
    liftLower lowerAsciiOnly s = s := by
  induction s with
  | nil => rfl
  | cons c cs ih =>
    have hc := h c List.mem_cons_self
    have hu : isAsciiUpper c = false := by
      simp only [isAscii, isAsciiUpper, decide_eq_false_iff_not, Bool.and_eq_false_iff] at *
      omega
    have := ih (fun x hx => h x (List.mem_cons_of_mem _ hx))
    simp only [liftLower, List.flatMap_cons, lowerAsciiOnly, asciiLower, hu, Bool.false_eq_true,
      if_false, List.cons_append, List.nil_append] at this ⊢
    rw [this]

theorem witnessK_mem (k : Nat) : ∀ c ∈ witnessK k, c = Char.ofNat 0x80 ∨ c = Char.ofNat 0x1061C2 := by
  intro c hc
  simp only [witnessK, List.mem_append, List.mem_replicate, List.mem_singleton] at hc
  rcases hc with ⟨_, h⟩ | h
  · exact Or.inl h
  · exact Or.inr h

theorem overflowWitness_lower_fix : liftLower lowerAsciiOnly overflowWitness = overflowWitness := by
  apply liftLower_asciiOnly_fix
  intro c hc
  rcases witnessK_mem 4000 c hc with rfl | rfl <;> decide

/-- Before the repair a single label (no '.') with a non-ASCII character went to the encoder whole. -/
theorem toIdnaStrOld_single (lowerStr : List Char → List Char) (p : Profile) (name : List Char)
    (hdot : '.' ∉ name) (hna : allAscii name = false) (r : Res)
    (hr : punycodeEncodeP p (lowerStr name) = r) (hnok : ∀ o, r ≠ .ok o) :
    toIdnaStrOld lowerStr p name = r := by
  unfold toIdnaStrOld toIdnaStrG
  rw [splitOn_of_no_sep '.' name hdot]
  have hl : idnaLabelG false lowerStr p name = r := by
    subst hr
    simp only [idnaLabelG, Bool.false_and, Bool.false_eq_true, if_false, hna]
  simp only [idnaLabelsG]
  rw [hl]
  cases r with
  | ok o => exact absurd rfl (hnok o)
  | err => rfl
  | panic => rfl
  | fuel => rfl

theorem overflowWitness_old_panics (lowerStr : List Char → List Char)
    (hfix : lowerStr overflowWitness = overflowWitness) :
    toIdnaStrOld lowerStr .dev overflowWitness = .panic := by
  apply toIdnaStrOld_single
  · intro hm
    rcases witnessK_mem 4000 _ hm with h | h <;> revert h <;> decide
  · cases hall : allAscii overflowWitness with
    | false => rfl
    | true =>
      exfalso
      simp only [allAscii, List.all_eq_true] at hall
      have : Char.ofNat 0x80 ∈ overflowWitness := by
        simp only [overflowWitness, witnessK, List.mem_append, List.mem_replicate]
        exact Or.inl ⟨by omega, trivial⟩
      have := hall _ this
      revert this; decide
  · rw [hfix]; exact overflowWitness_panics
  · intro o; simp

theorem overflowWitness_now_err (lowerStr : List Char → List Char) (p : Profile) :
    toIdnaStr lowerStr p overflowWitness = .err := by
  unfold toIdnaStr toIdnaStrG
  have hdot : '.' ∉ overflowWitness := by
    intro hm
    rcases witnessK_mem 4000 _ hm with h | h <;> revert h <;> decide
  rw [splitOn_of_no_sep '.' _ hdot]
  have := idnaLabelG_too_long lowerStr p overflowWitness (by rw [overflowWitness_length]; decide)
  simp only [idnaLabelsG, this]

end AcmedVerif.Idna
