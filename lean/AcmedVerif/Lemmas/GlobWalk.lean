/- Lemmas about Model/Glob.lean, walk level: paths as text, and the invariant of the `todo` machine that keeps
every result of a relative include inside the including file's directory. -/
import AcmedVerif.Lemmas.Glob
import AcmedVerif.Spec.C14Glob

namespace AcmedVerif.Glob
open AcmedVerif.Spec.C14Glob (withSep inDir)

theorem take_succ_getElem {α} (l : List α) (k : Nat) (h : k < l.length) : l.take (k + 1) = l.take k ++ [l[k]] := by
  induction l generalizing k with
  | nil => simp at h
  | cons a t ih =>
    cases k with
    | zero => simp
    | succ k => simp at h ⊢

/-! ## Names and paths as text -/

theorem validName_ne_nil {n : Str} (h : validName n = true) : n ≠ [] := by
  intro h0; subst h0; simp [validName] at h

theorem validName_noSep {n : Str} (h : validName n = true) : '/' ∉ n := by
  simp [validName] at h; exact h.1.1.2

theorem validName_ne_dot {n : Str} (h : validName n = true) : n ≠ ['.'] := by
  simp [validName] at h; exact h.1.2

theorem validName_ne_dotdot {n : Str} (h : validName n = true) : n ≠ ['.', '.'] := by
  simp [validName] at h; exact h.2

theorem head_ne_sep_of_noSep {n : Str} (h : '/' ∉ n) : n.head? ≠ some '/' := by
  cases n with
  | nil => simp
  | cons c t => simp at h ⊢; exact fun hc => h.1 hc.symm

/-- `/c1/c2/…` (empty for no component). -/
def chain (cs : List Str) : Str := cs.flatMap ('/' :: ·)

/-- The absolute path with components `cs`; the root for none. -/
def absDir (cs : List Str) : Str := if cs.isEmpty then ['/'] else chain cs

theorem chain_append_singleton (cs : List Str) (c : Str) : chain (cs ++ [c]) = chain cs ++ '/' :: c := by
  simp [chain]

theorem absDir_append_singleton (cs : List Str) (c : Str) : absDir (cs ++ [c]) = chain cs ++ '/' :: c := by
  simp [absDir, chain_append_singleton]

theorem absDir_ne_nil (cs : List Str) : absDir cs ≠ [] := by
  unfold absDir
  cases cs with
  | nil => simp
  | cons c t => simp [chain]

/-- A component: not empty, no separator inside. -/
def Proper (c : Str) : Prop := c ≠ [] ∧ '/' ∉ c

theorem Proper.of_valid {c : Str} (h : validName c = true) : Proper c := ⟨validName_ne_nil h, validName_noSep h⟩

theorem chain_getLast' (cs : List Str) (hne : cs ≠ []) (hv : ∀ c ∈ cs, Proper c) :
    (chain cs).getLast? ≠ some '/' := by
  obtain ⟨xs, c, rfl⟩ : ∃ xs c, cs = xs ++ [c] := ⟨cs.dropLast, cs.getLast hne, (List.dropLast_concat_getLast hne).symm⟩
  have hc := hv c (by simp)
  rw [chain_append_singleton]
  have hne' : c ≠ [] := hc.1
  have : (chain xs ++ '/' :: c).getLast? = c.getLast? := by
    rw [List.getLast?_append]
    cases hcl : c.getLast? with
    | none => simp [List.getLast?_eq_none_iff] at hcl; exact absurd hcl hne'
    | some x => simp [List.getLast?_cons, hcl]
  rw [this]
  intro h
  have : '/' ∈ c := List.mem_of_getLast? h
  exact hc.2 this

/-- Joining a component to the path of the first components. -/
theorem joinPath_absDir' (cs : List Str) (hv : ∀ c ∈ cs, Proper c) (s : Str) (hs : s.head? ≠ some '/') :
    joinPath (absDir cs) s = chain cs ++ '/' :: s := by
  unfold joinPath
  have h1 : (s.head? == some '/') = false := by simpa using hs
  simp only [h1, Bool.false_eq_true, if_false]
  cases cs with
  | nil => simp [absDir, chain]
  | cons c t =>
    have hl := chain_getLast' (c :: t) (by simp) hv
    have : absDir (c :: t) = chain (c :: t) := by simp [absDir]
    rw [this]
    have h2 : (chain (c :: t)).isEmpty = false := by simp [chain]
    have h3 : ((chain (c :: t)).getLast? == some '/') = false := by simpa using hl
    simp [h2, h3]

theorem joinPath_absDir (cs : List Str) (hv : ∀ c ∈ cs, validName c = true) (s : Str) (hs : s.head? ≠ some '/') :
    joinPath (absDir cs) s = chain cs ++ '/' :: s :=
  joinPath_absDir' cs (fun c hc => .of_valid (hv c hc)) s hs

theorem joinPath_absDir_comp (cs : List Str) (hv : ∀ c ∈ cs, validName c = true) (c : Str) (hc : validName c = true) :
    joinPath (absDir cs) c = absDir (cs ++ [c]) := by
  rw [joinPath_absDir cs hv c (head_ne_sep_of_noSep (validName_noSep hc)), absDir_append_singleton]

theorem splitSep_ne_nil (l : List Char) : splitSep l ≠ [] := by
  cases l with
  | nil => simp [splitSep]
  | cons c t =>
    simp only [splitSep]
    split
    · simp
    · split <;> simp

theorem splitSep_append_sep (q r : List Char) : splitSep (q ++ '/' :: r) = splitSep q ++ splitSep r := by
  induction q with
  | nil => simp [splitSep, isSep]
  | cons c q ih =>
    simp only [List.cons_append, splitSep]
    split
    · simp [ih]
    · rw [ih]
      cases hq : splitSep q with
      | nil => exact absurd hq (splitSep_ne_nil q)
      | cons h t => simp

theorem splitSep_noSep {n : Str} (h : '/' ∉ n) : splitSep n = [n] := by
  induction n with
  | nil => rfl
  | cons c t ih =>
    simp at h
    have hc : isSep c = false := by simp [isSep]; exact fun hc => h.1 hc.symm
    simp [splitSep, hc, ih h.2]

theorem fileName_join (q name : Str) (h : validName name = true) : fileName (q ++ '/' :: name) = some name := by
  unfold fileName
  rw [splitSep_append_sep, splitSep_noSep (validName_noSep h), List.filter_append]
  have hk : (fun c : Str => !c.isEmpty && c != ['.']) name = true := by
    have h1 := validName_ne_nil h
    have h2 := validName_ne_dot h
    simp [h2]
    cases name with
    | nil => exact absurd rfl h1
    | cons a b => simp
  simp only [List.filter_cons, hk, if_true, List.filter_nil]
  have h3 := validName_ne_dotdot h
  simp [h3]

/-! ## "Inside the directory", literally -/

/-- `p` is `dir` or continues `dir` after a separator. -/
def InDir (dir p : Str) : Prop := p = dir ∨ withSep dir <+: p

theorem inDir_iff (dir p : Str) : inDir dir p = true ↔ InDir dir p := by
  simp [inDir, InDir, List.isPrefixOf_iff_prefix]

theorem InDir.join {dir p s : Str} (hd : dir ≠ []) (h : InDir dir p) (hs : s.head? ≠ some '/') :
    InDir dir (joinPath p s) := by
  have h1 : (s.head? == some '/') = false := by simpa using hs
  unfold joinPath
  simp only [h1, Bool.false_eq_true, if_false]
  rcases h with rfl | h
  · right
    unfold withSep
    by_cases hl : p.getLast? = some '/'
    · simp [hl]
    · have he : p.isEmpty = false := by cases p with | nil => exact absurd rfl hd | cons _ _ => rfl
      have hl' : (p.getLast? == some '/') = false := by simpa using hl
      simp only [he, hl', Bool.or_self, Bool.false_eq_true, if_false]
      exact ⟨s, by simp⟩
  · right
    split
    · exact h.trans (List.prefix_append _ _)
    · exact h.trans (List.prefix_append _ _)

theorem InDir.refl (dir : Str) : InDir dir dir := .inl rfl

/-! ## What the file system may answer -/

/-- Directory entries have proper, distinct names (what `read_dir` gives on a real file system). -/
structure FsView.WF (fs : FsView) : Prop where
  names : ∀ p es, fs.readDir p = some es → ∀ e ∈ es, validName e.1 = true
  nodup : ∀ p es, fs.readDir p = some es → (es.map (·.1)).Nodup

theorem mem_insertAsc (x a : Str × EntryType) (l : List (Str × EntryType)) :
    a ∈ insertAsc x l ↔ a = x ∨ a ∈ l := by
  induction l with
  | nil => simp [insertAsc]
  | cons y ys ih =>
    simp only [insertAsc]
    split
    · simp only [List.mem_cons, ih]
      constructor
      · rintro (h | h | h) <;> simp [h]
      · rintro (h | h | h) <;> simp [h]
    · simp only [List.mem_cons]

theorem mem_sortAsc (a : Str × EntryType) (l : List (Str × EntryType)) : a ∈ sortAsc l ↔ a ∈ l := by
  induction l with
  | nil => simp [sortAsc]
  | cons x xs ih =>
    have : sortAsc (x :: xs) = insertAsc x (sortAsc xs) := rfl
    rw [this, mem_insertAsc, ih]; simp

theorem fromDirEntry_path (fs : FsView) (p : Str) (t : EntryType) : (fromDirEntry fs p t).path = p := by
  cases t <;> rfl

/-! ## The invariant -/

/-- No literal component starts with a separator (components are cut AT the separators). -/
def Lit (pats : List Pattern) : Prop := ∀ p ∈ pats, ∀ s, patternAsStr p = some s → s.head? ≠ some '/'

theorem Lit.tail {p : Pattern} {rest : List Pattern} (h : Lit (p :: rest)) : Lit rest :=
  fun q hq => h q (List.mem_cons_of_mem _ hq)

theorem collapseRec_mem : ∀ (rest : List Pattern) (p q : Pattern), q ∈ collapseRec p rest → q = p ∨ q ∈ rest := by
  intro rest
  induction rest with
  | nil => intro p q h; simp [collapseRec] at h; exact .inl h
  | cons r rest ih =>
    intro p q h
    simp only [collapseRec] at h
    split at h
    · rcases ih r q h with h | h
      · exact .inr (by simp [h])
      · exact .inr (List.mem_cons_of_mem _ h)
    · simpa using h

theorem Lit.collapse {p : Pattern} {rest : List Pattern} (h : Lit (p :: rest)) : Lit (collapseRec p rest) := by
  intro q hq
  rcases collapseRec_mem rest p q hq with rfl | hq
  · exact h _ (by simp)
  · exact h _ (List.mem_cons_of_mem _ hq)

theorem patternAsStr_escPattern {c s : Str} (h : patternAsStr (escPattern c) = some s) : s = c :=
  (charsOf_escTok c s h).1

theorem Lit_dpats (cs : List Str) (hv : ∀ c ∈ cs, validName c = true) (fpats : List Pattern) (hf : Lit fpats) :
    Lit (cs.map escPattern ++ fpats) := by
  intro p hp s hs
  rcases List.mem_append.1 hp with hp | hp
  · obtain ⟨c, hc, rfl⟩ := List.mem_map.1 hp
    rw [patternAsStr_escPattern hs]
    exact head_ne_sep_of_noSep (validName_noSep (hv c hc))
  · exact hf p hp s hs

section Invariant
variable (fs : FsView) (cs : List Str) (fpats : List Pattern)

/-- A `todo` element is fine: its path is inside `dir`, or it is an entry of one of the directories on the
way to `dir`, waiting to be matched against that step's escaped component. -/
def ItemOk : Item → Prop
  | .err => True
  | .ok p none => InDir (absDir cs) p.path
  | .ok p (some pats) => Lit pats ∧
      (InDir (absDir cs) p.path ∨
       ∃ k name, k < cs.length ∧ validName name = true ∧ p.path = joinPath (absDir (cs.take k)) name ∧
         pats = (cs.drop k).map escPattern ++ fpats)

/-- `fill_todo` from a path inside `dir` only pushes paths inside `dir`. -/
theorem fillTodo_inside (hwf : fs.WF) : ∀ (pats : List Pattern) (path : PathW), Lit pats →
    InDir (absDir cs) path.path → ∀ it ∈ fillTodo fs pats path, ItemOk cs fpats it := by
  intro pats
  induction pats with
  | nil => intro path _ _ it h; simp [fillTodo] at h
  | cons pat rest ih =>
    intro path hl hin it hit
    have hd := absDir_ne_nil cs
    have hadd : ∀ (s : Str), s.head? ≠ some '/' → ∀ it ∈ addNext rest (fillTodo fs rest) (fromPath fs (joinPath path.path s)),
        ItemOk cs fpats it := by
      intro s hs it hit
      unfold addNext at hit
      split at hit
      · simp at hit; subst hit
        exact InDir.join hd hin hs
      · exact ih _ hl.tail (InDir.join hd hin hs) it hit
    simp only [fillTodo] at hit
    split at hit
    · rename_i s hs
      split at hit
      · exact hadd s (hl pat (by simp) s hs) it hit
      · simp at hit
    · split at hit
      · split at hit
        · rename_i entries he
          rcases List.mem_append.1 hit with hit | hit
          · split at hit
            · rcases List.mem_append.1 hit with hit | hit
              · split at hit
                · exact hadd _ (by simp) it hit
                · simp at hit
              · split at hit
                · exact hadd _ (by simp) it hit
                · simp at hit
            · simp at hit
          · obtain ⟨e, hemem, rfl⟩ := List.mem_map.1 hit
            have hv := hwf.names _ _ he e ((mem_sortAsc e entries).1 hemem)
            refine ⟨hl, .inl ?_⟩
            rw [fromDirEntry_path]
            exact InDir.join hd hin (head_ne_sep_of_noSep (validName_noSep hv))
        · simp at hit; subst hit; trivial
      · simp at hit

/-- `fill_todo` on the way to `dir`: with the escaped components still to go. -/
theorem fillTodo_onTheWay (hwf : fs.WF) (hv : ∀ c ∈ cs, validName c = true) (hf : Lit fpats) :
    ∀ (j k : Nat) (path : PathW), j + k = cs.length → path.path = absDir (cs.take k) →
      ∀ it ∈ fillTodo fs ((cs.drop k).map escPattern ++ fpats) path, ItemOk cs fpats it := by
  intro j
  induction j with
  | zero =>
    intro k path hk hp it hit
    have hk' : k = cs.length := by omega
    subst hk'
    have hin : InDir (absDir cs) path.path := by rw [hp]; simp; exact InDir.refl _
    simp at hit
    exact fillTodo_inside fs cs fpats hwf fpats path hf hin it hit
  | succ j ih =>
    intro k path hk hp it hit
    have hklt : k < cs.length := by omega
    have hdrop : cs.drop k = cs[k] :: cs.drop (k + 1) := (List.drop_eq_getElem_cons hklt)
    have hvk : validName cs[k] = true := hv _ (List.getElem_mem hklt)
    have hvt : ∀ c ∈ cs.take k, validName c = true := fun c hc => hv c (List.mem_of_mem_take hc)
    have htake : cs.take (k + 1) = cs.take k ++ [cs[k]] := take_succ_getElem cs k hklt
    have hlit : Lit ((cs.drop k).map escPattern ++ fpats) := by
      intro p hp' s hs
      exact Lit_dpats cs hv fpats hf p (by
        rcases List.mem_append.1 hp' with h | h
        · obtain ⟨c, hc, rfl⟩ := List.mem_map.1 h
          exact List.mem_append_left _ (List.mem_map.2 ⟨c, List.mem_of_mem_drop hc, rfl⟩)
        · exact List.mem_append_right _ h) s hs
    rw [hdrop] at hit hlit
    simp only [List.map_cons, List.cons_append, fillTodo] at hit
    have hnext : joinPath path.path cs[k] = absDir (cs.take (k + 1)) := by
      rw [hp, htake]; exact joinPath_absDir_comp _ hvt _ hvk
    split at hit
    · rename_i s hs
      have hsk : s = cs[k] := patternAsStr_escPattern hs
      subst hsk
      have hnd : (cs[k] == ['.']) = false := by simpa using validName_ne_dot hvk
      have hndd : (cs[k] == ['.', '.']) = false := by simpa using validName_ne_dotdot hvk
      simp only [hnd, hndd, Bool.or_self, Bool.false_and, Bool.not_false, Bool.true_and, Bool.false_or] at hit
      split at hit
      · unfold addNext at hit
        split at hit
        · -- last pattern: `dir` itself
          rename_i hemp
          simp at hit; subst hit
          have : cs.drop (k + 1) = [] := by
            cases hdr : cs.drop (k + 1) with
            | nil => rfl
            | cons a b => simp [hdr] at hemp
          have hkn : k + 1 = cs.length := by
            have hld : (cs.drop (k + 1)).length = cs.length - (k + 1) := List.length_drop
            rw [this] at hld; simp at hld; omega
          show InDir (absDir cs) (fromPath fs _).path
          simp only [fromPath, hnext, hkn, List.take_length]
          exact InDir.refl _
        · exact ih (k + 1) _ (by omega) (by simp [fromPath, hnext]) it hit
      · simp at hit
    · split at hit
      · split at hit
        · rename_i entries he
          rcases List.mem_append.1 hit with hit | hit
          · -- `.` and `..` are not matched by an escaped proper name
            exfalso
            split at hit
            · rcases List.mem_append.1 hit with hit | hit
              · split at hit
                · rename_i hm
                  exact validName_ne_dotdot hvk ((escPattern_matches _ _).1 hm).symm
                · simp at hit
              · split at hit
                · rename_i hm
                  exact validName_ne_dot hvk ((escPattern_matches _ _).1 hm).symm
                · simp at hit
            · simp at hit
          · obtain ⟨e, hemem, rfl⟩ := List.mem_map.1 hit
            have hvn := hwf.names _ _ he e ((mem_sortAsc e entries).1 hemem)
            refine ⟨hlit, .inr ⟨k, e.1, hklt, hvn, ?_, ?_⟩⟩
            · rw [fromDirEntry_path, hp]
            · simp only [hdrop, List.map_cons, List.cons_append]
        · simp at hit; subst hit; trivial
      · simp at hit

theorem matchNormally_inside (hwf : fs.WF) (rd : Bool) (path : PathW) (pats : List Pattern) (hl : Lit pats)
    (hin : InDir (absDir cs) path.path) :
    (∀ p ∈ (matchNormally fs rd path pats).1, InDir (absDir cs) p) ∧
    (∀ it ∈ (matchNormally fs rd path pats).2, ItemOk cs fpats it) := by
  unfold matchNormally
  split
  · simp
  · rename_i pat rest
    split
    · simp
    · split
      · split
        · split <;> simp [hin]
        · exact ⟨by simp, fun it hit => fillTodo_inside fs cs fpats hwf rest path hl.tail hin it hit⟩
      · simp

/-- One turn of the loop keeps the invariant and only returns paths inside `dir`. -/
theorem step_ok (hwf : fs.WF) (hv : ∀ c ∈ cs, validName c = true) (hf : Lit fpats) (rd : Bool) (it : Item)
    (hit : ItemOk cs fpats it) :
    (∀ p ∈ (step fs rd it).1, InDir (absDir cs) p) ∧ (∀ it' ∈ (step fs rd it).2, ItemOk cs fpats it') := by
  cases it with
  | err => simp [step]
  | ok path opats =>
    cases opats with
    | none =>
      simp only [step]
      split <;> simp
      exact hit
    | some pats =>
      obtain ⟨hl, hcase⟩ := hit
      cases pats with
      | nil => simp [step]
      | cons pat rest =>
        rcases hcase with hin | ⟨k, name, hklt, hvn, hp, hpats⟩
        · -- inside `dir`: everything stays inside
          simp only [step]
          split
          · split
            · simp
            · rename_i nextPat after hcol
              have hlc : Lit (nextPat :: after) := by rw [← hcol]; exact hl.collapse
              split
              · split
                · exact ⟨by simp [hin], fun it' h => fillTodo_inside fs cs fpats hwf _ path hlc hin it' h⟩
                · have hm := matchNormally_inside fs cs fpats hwf rd path after hlc.tail hin
                  refine ⟨hm.1, fun it' h => ?_⟩
                  rcases List.mem_append.1 h with h | h
                  · exact hm.2 it' h
                  · exact fillTodo_inside fs cs fpats hwf _ path hlc hin it' h
              · split
                · simp
                · exact matchNormally_inside fs cs fpats hwf rd path after hlc.tail hin
          · exact matchNormally_inside fs cs fpats hwf rd path (pat :: rest) hl hin
        · -- an entry of a directory on the way: kept only if it is THE next component of `dir`
          have hdrop : cs.drop k = cs[k] :: cs.drop (k + 1) := List.drop_eq_getElem_cons hklt
          have hvk : validName cs[k] = true := hv _ (List.getElem_mem hklt)
          have hvt : ∀ c ∈ cs.take k, validName c = true := fun c hc => hv c (List.mem_of_mem_take hc)
          have htake : cs.take (k + 1) = cs.take k ++ [cs[k]] := take_succ_getElem cs k hklt
          rw [hdrop] at hpats
          simp only [List.map_cons, List.cons_append, List.cons.injEq] at hpats
          obtain ⟨rfl, rfl⟩ := hpats
          have hfn : fileName path.path = some name := by
            rw [hp, joinPath_absDir _ hvt _ (head_ne_sep_of_noSep (validName_noSep hvn))]
            exact fileName_join _ _ hvn
          have hnr : (escPattern cs[k]).isRecursive = false := rfl
          simp only [step, hnr, Bool.false_eq_true, if_false, matchNormally, hfn]
          split
          · rename_i hm
            have hname : name = cs[k] := (escPattern_matches _ _).1 hm
            subst hname
            have hpath : path.path = absDir (cs.take (k + 1)) := by
              rw [hp, htake]; exact joinPath_absDir_comp _ hvt _ hvk
            split
            · rename_i hemp
              have hnil : cs.drop (k + 1) = [] ∧ fpats = [] := by
                cases hdr : cs.drop (k + 1) with
                | nil => simpa [hdr] using hemp
                | cons a b => simp [hdr] at hemp
              have hkn : k + 1 = cs.length := by
                have hld : (cs.drop (k + 1)).length = cs.length - (k + 1) := List.length_drop
                rw [hnil.1] at hld; simp at hld; omega
              have : InDir (absDir cs) path.path := by
                rw [hpath, hkn, List.take_length]; exact InDir.refl _
              split <;> simp [this]
            · exact ⟨by simp, fun it' h =>
                fillTodo_onTheWay fs cs fpats hwf hv hf (cs.length - (k + 1)) (k + 1) path (by omega) hpath it' h⟩
          · simp

/-- The iterator run to its end from a `todo` that satisfies the invariant. -/
theorem run_inside (hwf : fs.WF) (hv : ∀ c ∈ cs, validName c = true) (hf : Lit fpats) (rd : Bool) :
    ∀ (fuel : Nat) (todo : List Item) (acc ps : List Str), (∀ it ∈ todo, ItemOk cs fpats it) →
      (∀ p ∈ acc, InDir (absDir cs) p) → run fs rd fuel todo acc = some ps → ∀ p ∈ ps, InDir (absDir cs) p := by
  intro fuel
  induction fuel with
  | zero =>
    intro todo acc ps ht ha h
    cases todo with
    | nil => simp [run] at h; subst h; exact ha
    | cons _ _ => simp [run] at h
  | succ f ih =>
    intro todo acc ps ht ha h
    cases todo with
    | nil => simp [run] at h; subst h; exact ha
    | cons it todo =>
      simp only [run] at h
      have hs := step_ok fs cs fpats hwf hv hf rd it (ht it (by simp))
      refine ih _ _ _ ?_ ?_ h
      · intro it' h'
        rcases List.mem_append.1 h' with h' | h'
        · exact hs.2 it' h'
        · exact ht it' (List.mem_cons_of_mem _ h')
      · intro p hp
        rcases List.mem_append.1 hp with hp | hp
        · exact ha p hp
        · exact hs.1 p hp

end Invariant

end AcmedVerif.Glob
