/-
Helper lemmas for `Model/Fs.lean` and `Model/Storage.lean` (C02, C13, C10.4).
-/
import AcmedVerif.Model.Storage
import AcmedVerif.Spec.C02
import AcmedVerif.Spec.C13

namespace AcmedVerif.Fs

/-! ### association list -/

theorem get_set_same (fs : Fs) (p : Path) (f : File) : get (set fs p f) p = some f := by
  induction fs with
  | nil => simp [set, get]
  | cons e rest ih =>
    obtain ⟨q, g⟩ := e
    simp only [set]
    split
    · simp [get]
    · simp [get, *]

theorem get_set_other (fs : Fs) (p q : Path) (f : File) (h : p ≠ q) :
    get (set fs p f) q = get fs q := by
  induction fs with
  | nil => simp [set, get, h]
  | cons e rest ih =>
    obtain ⟨r, g⟩ := e
    simp only [set]
    split
    · next hr => subst hr; simp [get, h]
    · simp [get, ih]

/-! ### mode bits -/

theorem clearBits_and_self (m a : Nat) : clearBits m a &&& a = 0 := by
  unfold clearBits
  rw [Nat.and_xor_distrib_right, Nat.and_assoc, Nat.and_self, Nat.xor_self]

theorem clearBits_and_disjoint (m a b : Nat) (h : a &&& b = 0) : clearBits m a &&& b = m &&& b := by
  unfold clearBits
  rw [Nat.and_xor_distrib_right, Nat.and_assoc, h, Nat.and_zero, Nat.xor_zero]

theorem clearBits_of_not_set (m a : Nat) (h : m &&& a = 0) : clearBits m a = m := by
  unfold clearBits
  rw [h, Nat.xor_zero]

theorem clearBits_idem (m a : Nat) : clearBits (clearBits m a) a = clearBits m a :=
  clearBits_of_not_set _ _ (clearBits_and_self m a)

theorem hasBit_clearBits_disjoint (m a b : Nat) (h : a &&& b = 0) :
    hasBit (clearBits m a) b = hasBit m b := by
  unfold hasBit
  rw [clearBits_and_disjoint m a b h]

theorem hasBit_clearBits_self (m a : Nat) : hasBit (clearBits m a) a = false := by
  unfold hasBit
  rw [clearBits_and_self]
  rfl

/-- Sub-mask: if `m` has none of the bits of `c`, neither has `m &&& x`. -/
theorem and_and_eq_zero (m x c : Nat) (h : m &&& c = 0) : (m &&& x) &&& c = 0 := by
  rw [Nat.and_assoc, Nat.and_comm x c, ← Nat.and_assoc, h, Nat.zero_and]

/-- `chown`/unprivileged write leave every bit outside set-user-id/set-group-id alone. -/
theorem killChown_and (proc : Proc) (f : File) (c : Nat)
    (hu : S_ISUID &&& c = 0) (hg : S_ISGID &&& c = 0) : killChown proc f &&& c = f.mode &&& c := by
  unfold killChown
  simp only
  split
  · rw [clearBits_and_disjoint _ _ _ hg, clearBits_and_disjoint _ _ _ hu]
  · rw [clearBits_and_disjoint _ _ _ hu]

theorem killWrite_and (proc : Proc) (f : File) (c : Nat)
    (hu : S_ISUID &&& c = 0) (hg : S_ISGID &&& c = 0) : killWrite proc f &&& c = f.mode &&& c := by
  unfold killWrite
  split
  · rfl
  · exact killChown_and proc f c hu hg

/-- No special bit set: nothing is removed. -/
theorem killChown_plain (proc : Proc) (f : File) (h : f.mode &&& 0o6000 = 0) :
    killChown proc f = f.mode := by
  have hu : f.mode &&& S_ISUID = 0 := by
    have := and_and_eq_zero f.mode S_ISUID 0o6000 h
    rw [Nat.and_assoc] at this
    simpa [S_ISUID] using this
  have hg : f.mode &&& S_ISGID = 0 := by
    have := and_and_eq_zero f.mode S_ISGID 0o6000 h
    rw [Nat.and_assoc] at this
    simpa [S_ISGID] using this
  unfold killChown
  simp only
  rw [clearBits_of_not_set _ _ hu]
  split
  · exact clearBits_of_not_set _ _ hg
  · rfl

theorem killWrite_plain (proc : Proc) (f : File) (h : f.mode &&& 0o6000 = 0) :
    killWrite proc f = f.mode := by
  unfold killWrite
  split
  · rfl
  · exact killChown_plain proc f h

/-! ### the three system calls, seen from the file at `p` -/

/-- The file at `p` after `openCreate`, as a function of what was there. -/
def openedF (trunc : Trunc) (proc : Proc) (mode : Nat) : Option File → File
  | none => { content := [], mode := maskMode mode proc.umask, uid := proc.uid, gid := proc.gid }
  | some f =>
    match trunc with
    | .yes => { f with content := [], mode := killWrite proc f }
    | .no => f

def writtenF (proc : Proc) (data : List UInt8) (f : File) : File :=
  if data.isEmpty then f
  else { f with content := overwrite f.content data, mode := killWrite proc f }

def chownedF (proc : Proc) (uid gid : Option Nat) (f : File) : File :=
  { f with mode := killChown proc f, uid := applyId uid f.uid, gid := applyId gid f.gid }

theorem get_openCreate_same (proc : Proc) (fs : Fs) (p : Path) (mode : Nat) (trunc : Trunc) :
    get (openCreate proc fs p mode trunc) p = some (openedF trunc proc mode (get fs p)) := by
  unfold openCreate
  cases h : get fs p with
  | none => simp [openedF, get_set_same]
  | some f => cases trunc <;> simp [openedF, get_set_same, h]

theorem get_openCreate_other (proc : Proc) (fs : Fs) (p q : Path) (mode : Nat) (trunc : Trunc)
    (h : p ≠ q) : get (openCreate proc fs p mode trunc) q = get fs q := by
  unfold openCreate
  cases get fs p with
  | none => simp [get_set_other _ _ _ _ h]
  | some f => cases trunc <;> simp [get_set_other _ _ _ _ h]

theorem get_writeAt0_same (proc : Proc) (fs : Fs) (p : Path) (data : List UInt8) :
    get (writeAt0 proc fs p data) p = (get fs p).map (writtenF proc data) := by
  unfold writeAt0
  cases h : get fs p with
  | none => simp [h]
  | some f =>
    simp only [Option.map_some, writtenF]
    split
    · exact h
    · exact get_set_same _ _ _

theorem get_writeAt0_other (proc : Proc) (fs : Fs) (p q : Path) (data : List UInt8) (h : p ≠ q) :
    get (writeAt0 proc fs p data) q = get fs q := by
  unfold writeAt0
  cases get fs p with
  | none => rfl
  | some f =>
    simp only
    split
    · rfl
    · exact get_set_other _ _ _ _ h

theorem get_chown_same (proc : Proc) (fs : Fs) (p : Path) (uid gid : Option Nat) :
    get (chown proc fs p uid gid) p = (get fs p).map (chownedF proc uid gid) := by
  unfold chown
  cases h : get fs p with
  | none => simp [h]
  | some f => simp [chownedF, get_set_same]

theorem get_chown_other (proc : Proc) (fs : Fs) (p q : Path) (uid gid : Option Nat) (h : p ≠ q) :
    get (chown proc fs p uid gid) q = get fs q := by
  unfold chown
  cases get fs p with
  | none => rfl
  | some f => exact get_set_other _ _ _ _ h

theorem overwrite_nil (data : List UInt8) : overwrite [] data = data := by
  simp [overwrite]

theorem overwrite_of_le (old data : List UInt8) (h : old.length ≤ data.length) :
    overwrite old data = data := by
  simp [overwrite, List.drop_eq_nil_of_le h]

end AcmedVerif.Fs

namespace AcmedVerif.Storage
open AcmedVerif.Fs

/-! ### `set_owner` -/

/-- What `set_owner` does to the file at `p`: `none` = it returns an error (nothing changed). -/
def ownedF (env : Env) (proc : Proc) (s : Settings) (t : FileType) (f : File) : Option File :=
  match ownerCfg s t with
  | none => some f
  | some (u, g) =>
    match resolve env.lookupUser u, resolve env.lookupGroup g with
    | some uid, some gid => if env.chownOk then some (chownedF proc uid gid f) else none
    | _, _ => none

theorem setOwner_spec (env : Env) (proc : Proc) (s : Settings) (fs : Fs) (t : FileType) (p : Path)
    (f : File) (hf : get fs p = some f) :
    match setOwner env proc s fs t p with
    | .ok (fs', _) => (∀ q, p ≠ q → get fs' q = get fs q) ∧
        ∃ f', ownedF env proc s t f = some f' ∧ get fs' p = some f'
    | .error _ => ownedF env proc s t f = none := by
  unfold setOwner ownedF
  cases ownerCfg s t with
  | none => simp [hf]
  | some ug =>
    obtain ⟨u, g⟩ := ug
    simp only
    generalize resolve env.lookupUser u = ru
    generalize resolve env.lookupGroup g = rg
    cases ru with
    | none => simp
    | some uid =>
      cases rg with
      | none => simp
      | some gid =>
        cases hc : env.chownOk with
        | false => simp
        | true =>
          simp only [if_true]
          refine ⟨fun q hq => get_chown_other _ _ _ _ _ _ hq, _, rfl, ?_⟩
          rw [get_chown_same, hf]; rfl

/-! ### `write_file` -/

/-- The file at `p` after the `open` and the `write_all`, before `set_owner`. -/
def preFile (trunc : Trunc) (proc : Proc) (s : Settings) (old : Option File)
    (t : FileType) (data : List UInt8) : File :=
  writtenF proc data (openedF trunc proc (modeFor s t) old)

/-- The file at `p` after a `writeFile` that got past its pre hooks. -/
def finalFile (trunc : Trunc) (env : Env) (proc : Proc) (s : Settings) (old : Option File)
    (t : FileType) (data : List UInt8) : File :=
  (ownedF env proc s t (preFile trunc proc s old t data)).getD (preFile trunc proc s old t data)

theorem get_written (trunc : Trunc) (proc : Proc) (s : Settings) (t : FileType) (fs : Fs) (p : Path)
    (data : List UInt8) :
    get (writeAt0 proc (openCreate proc fs p (modeFor s t) trunc) p data) p =
      some (preFile trunc proc s (get fs p) t data) := by
  rw [get_writeAt0_same, get_openCreate_same]; rfl

/-- Pre hook failed: nothing happened. -/
theorem writeFile_pre_failed (trunc : Trunc) (env : Env) (proc : Proc) (s : Settings) (fs : Fs)
    (t : FileType) (p : Path) (data : List UInt8)
    (h : env.hookOk (preHook (get fs p).isNone) = false) :
    writeFile trunc env proc s fs t p data =
      { fs := fs, result := .err .preHook, events := [.hook (preHook (get fs p).isNone)] } := by
  simp [writeFile, h]

/-- Pre hook passed: the file at `p`, every other file, the result and the events. -/
theorem writeFile_passed (trunc : Trunc) (env : Env) (proc : Proc) (s : Settings) (fs : Fs)
    (t : FileType) (p : Path) (data : List UInt8)
    (h : env.hookOk (preHook (get fs p).isNone) = true)
    (out : Outcome) (hout : out = writeFile trunc env proc s fs t p data)
    (isNew : Bool) (hnew : isNew = (get fs p).isNone)
    (f2 : File) (hf2 : f2 = preFile trunc proc s (get fs p) t data) :
    get out.fs p = some (finalFile trunc env proc s (get fs p) t data) ∧
    (∀ q, p ≠ q → get out.fs q = get fs q) ∧
    (out.result = .ok ↔ (ownedF env proc s t f2).isSome ∧ env.hookOk (postHook isNew) = true) ∧
    (∃ ce, (∀ e ∈ ce, ∃ u g, e = Event.chowned u g) ∧ (t = .account → ce = []) ∧
       ((out.events = .hook (preHook isNew) :: .opened :: .written :: (ce ++ [.hook (postHook isNew)]) ∧
          (ownedF env proc s t f2).isSome) ∨
        (out.events = [.hook (preHook isNew), .opened, .written] ∧
          ownedF env proc s t f2 = none))) := by
  subst hnew hf2
  have hw := get_written trunc proc s t fs p data
  have hother : ∀ q, p ≠ q →
      get (writeAt0 proc (openCreate proc fs p (modeFor s t) trunc) p data) q = get fs q := by
    intro q hq
    rw [get_writeAt0_other _ _ _ _ _ hq, get_openCreate_other _ _ _ _ _ _ hq]
  have hso := setOwner_spec env proc s _ t p _ hw
  unfold writeFile at hout
  simp only [h, Bool.not_true, Bool.false_eq_true, if_false] at hout
  unfold finalFile
  cases hs : setOwner env proc s
      (writeAt0 proc (openCreate proc fs p (modeFor s t) trunc) p data) t p with
  | error e =>
    rw [hs] at hso hout
    simp only at hso hout
    have hso' := hso
    subst hout
    refine ⟨?_, hother, ?_, [], ?_, ?_, Or.inr ⟨rfl, hso'⟩⟩
    · simp only [hso', Option.getD_none]; exact hw
    · simp [hso']
    · simp
    · simp
  | ok r =>
    obtain ⟨fs3, ce⟩ := r
    rw [hs] at hso hout
    simp only at hso hout
    obtain ⟨hfr, f', hf', hg'⟩ := hso
    have hf'' := hf'
    have hce : (∀ e ∈ ce, ∃ u g, e = Event.chowned u g) ∧
        (t = .account → ce = []) := by
      unfold setOwner at hs
      cases hcfg : ownerCfg s t with
      | none =>
        rw [hcfg] at hs
        simp only [Except.ok.injEq, Prod.mk.injEq] at hs
        simp [← hs.2]
      | some ug =>
        obtain ⟨u, g⟩ := ug
        have hna : t ≠ .account := by
          intro ht; subst ht; simp [ownerCfg] at hcfg
        rw [hcfg] at hs
        simp only at hs
        split at hs
        · cases hs
        · split at hs
          · cases hs
          · split at hs
            · simp only [Except.ok.injEq, Prod.mk.injEq] at hs
              refine ⟨?_, fun ht => absurd ht hna⟩
              intro e he
              rw [← hs.2] at he
              simp only [List.mem_singleton] at he
              exact ⟨_, _, he⟩
            · cases hs
    cases hp : env.hookOk (postHook (get fs p).isNone) with
    | false =>
      simp only [hp, Bool.not_false, if_true] at hout
      subst hout
      refine ⟨?_, ?_, ?_, ce, hce.1, hce.2, Or.inl ⟨rfl, ?_⟩⟩
      · simp only [hf'', Option.getD_some]; exact hg'
      · intro q hq; rw [hfr q hq]; exact hother q hq
      · simp
      · simp [hf'']
    | true =>
      simp only [hp, Bool.not_true, Bool.false_eq_true, if_false] at hout
      subst hout
      refine ⟨?_, ?_, ?_, ce, hce.1, hce.2, Or.inl ⟨rfl, ?_⟩⟩
      · simp only [hf'', Option.getD_some]; exact hg'
      · intro q hq; rw [hfr q hq]; exact hother q hq
      · simp [hf'']
      · simp [hf'']

/-! ### content -/

theorem ownedF_content (env : Env) (proc : Proc) (s : Settings) (t : FileType) (f f' : File)
    (h : ownedF env proc s t f = some f') : f'.content = f.content := by
  unfold ownedF at h
  split at h
  · cases h; rfl
  · split at h
    · split at h
      · cases h; rfl
      · cases h
    · cases h

theorem finalFile_content (trunc : Trunc) (env : Env) (proc : Proc) (s : Settings)
    (old : Option File) (t : FileType) (data : List UInt8) :
    (finalFile trunc env proc s old t data).content = (preFile trunc proc s old t data).content := by
  unfold finalFile
  cases h : ownedF env proc s t (preFile trunc proc s old t data) with
  | none => rfl
  | some f' => exact ownedF_content _ _ _ _ _ _ h

theorem preFile_content_yes (proc : Proc) (s : Settings) (old : Option File) (t : FileType)
    (data : List UInt8) : (preFile .yes proc s old t data).content = data := by
  unfold preFile writtenF
  cases old with
  | none =>
    simp only [openedF]
    split
    · next h => simp only [List.isEmpty_iff] at h; simp [h]
    · exact overwrite_nil data
  | some f =>
    simp only [openedF]
    split
    · next h => simp only [List.isEmpty_iff] at h; simp [h]
    · exact overwrite_nil data

theorem preFile_content_no (proc : Proc) (s : Settings) (old : Option File) (t : FileType)
    (data : List UInt8) :
    (preFile .no proc s old t data).content = overwrite ((old.map (·.content)).getD []) data := by
  unfold preFile writtenF
  cases old with
  | none =>
    simp only [openedF, Option.map_none, Option.getD_none]
    split
    · next h => simp only [List.isEmpty_iff] at h; simp [h, overwrite]
    · rfl
  | some f =>
    simp only [openedF, Option.map_some, Option.getD_some]
    split
    · next h => simp only [List.isEmpty_iff] at h; simp [h, overwrite]
    · rfl

/-! ### `wrote`, `isOk` -/

theorem writeFile_wrote (trunc : Trunc) (env : Env) (proc : Proc) (s : Settings) (fs : Fs)
    (t : FileType) (p : Path) (data : List UInt8) :
    (writeFile trunc env proc s fs t p data).wrote = env.hookOk (preHook (get fs p).isNone) := by
  cases h : env.hookOk (preHook (get fs p).isNone) with
  | false => rw [writeFile_pre_failed _ _ _ _ _ _ _ _ h]; simp [Outcome.wrote]
  | true =>
    obtain ⟨_, _, _, ce, _, _, hev⟩ := writeFile_passed trunc env proc s fs t p data h _ rfl _ rfl _ rfl
    rcases hev with ⟨hev, _⟩ | ⟨hev, _⟩ <;> simp [Outcome.wrote, hev]

theorem writeFile_ok_wrote (trunc : Trunc) (env : Env) (proc : Proc) (s : Settings) (fs : Fs)
    (t : FileType) (p : Path) (data : List UInt8)
    (h : (writeFile trunc env proc s fs t p data).isOk = true) :
    (writeFile trunc env proc s fs t p data).wrote = true := by
  rw [writeFile_wrote]
  cases hp : env.hookOk (preHook (get fs p).isNone) with
  | true => rfl
  | false => rw [writeFile_pre_failed _ _ _ _ _ _ _ _ hp] at h; simp [Outcome.isOk] at h

/-- One write with truncation, seen from any path `q`. -/
theorem writeFile_contentAt (env : Env) (proc : Proc) (s : Settings) (fs : Fs)
    (t : FileType) (p q : Path) (data : List UInt8) :
    contentAt (writeFile .yes env proc s fs t p data).fs q =
      if p = q ∧ (writeFile .yes env proc s fs t p data).wrote = true then some data
      else contentAt fs q := by
  rw [writeFile_wrote]
  cases h : env.hookOk (preHook (get fs p).isNone) with
  | false => rw [writeFile_pre_failed _ _ _ _ _ _ _ _ h]; simp
  | true =>
    obtain ⟨hp, hq, _⟩ := writeFile_passed .yes env proc s fs t p data h _ rfl _ rfl _ rfl
    by_cases hpq : p = q
    · subst hpq
      simp only [contentAt, hp, Option.map_some, finalFile_content, preFile_content_yes]
      simp
    · simp only [contentAt, hq q hpq, hpq, false_and, if_false]

/-! ### histories -/

/-- The bytes of the last write in the trace that reached `write_all` on path `p`. -/
def lastWrite (tr : List (WriteOp × Outcome)) (p : Path) : Option (List UInt8) :=
  match tr with
  | [] => none
  | e :: r =>
    match lastWrite r p with
    | some d => some d
    | none => if e.1.path = p ∧ e.2.wrote = true then some e.1.data else none

def replay (p : Path) (c : Option (List UInt8)) : List (WriteOp × Outcome) → Option (List UInt8)
  | [] => c
  | e :: r => replay p (if e.1.path = p ∧ e.2.wrote = true then some e.1.data else c) r

theorem replay_eq (p : Path) (c : Option (List UInt8)) (tr : List (WriteOp × Outcome)) :
    replay p c tr = (lastWrite tr p).or c := by
  induction tr generalizing c with
  | nil => simp [replay, lastWrite]
  | cons e r ih =>
    simp only [replay, lastWrite, ih]
    cases lastWrite r p with
    | some d => simp
    | none => split <;> simp

theorem run_contentAt (proc : Proc) (fs : Fs) (h : List WriteOp) (p : Path) :
    contentAt (runHistory .yes proc fs h).1 p =
      replay p (contentAt fs p) (runHistory .yes proc fs h).2 := by
  induction h generalizing fs with
  | nil => rfl
  | cons op rest ih =>
    simp only [runHistory, replay]
    rw [ih]
    congr 1
    exact writeFile_contentAt _ _ _ _ _ _ _ _

/-! ### the C02 judge on model runs -/

/-- What a harness observes of a trace. -/
def observe (tr : List (WriteOp × Outcome)) : List Spec.C02.Obs :=
  tr.map fun e => { path := e.1.path, data := e.1.data, ok := e.2.isOk }

theorem lookup_contents (fs : Fs) (p : Path) : Spec.C02.lookup (contents fs) p = contentAt fs p := by
  induction fs with
  | nil => rfl
  | cons e rest ih =>
    obtain ⟨q, f⟩ := e
    show Spec.C02.lookup ((q, f.content) :: contents rest) p =
      (AcmedVerif.Fs.get ((q, f) :: rest) p).map (·.content)
    simp only [Spec.C02.lookup, AcmedVerif.Fs.get]
    split
    · rfl
    · exact ih

theorem lastOn_none_lastWrite (tr : List (WriteOp × Outcome)) (p : Path)
    (h : Spec.C02.lastOn (observe tr) p = none) : lastWrite tr p = none := by
  induction tr with
  | nil => rfl
  | cons e r ih =>
    simp only [observe, List.map_cons, Spec.C02.lastOn] at h
    cases hr : Spec.C02.lastOn (observe r) p with
    | some l => simp only [observe] at hr; rw [hr] at h; cases h
    | none =>
      simp only [observe] at hr
      rw [hr] at h
      simp only at h
      split at h
      · cases h
      · next hne => simp only [lastWrite, ih hr, hne, false_and, if_false]

theorem run_lastOn_ok (trunc : Trunc) (proc : Proc) (fs : Fs) (h : List WriteOp) (p : Path)
    (l : Spec.C02.Obs) (hl : Spec.C02.lastOn (observe (runHistory trunc proc fs h).2) p = some l)
    (hok : l.ok = true) : lastWrite (runHistory trunc proc fs h).2 p = some l.data := by
  induction h generalizing fs with
  | nil => cases hl
  | cons op rest ih =>
    simp only [runHistory, observe, List.map_cons, Spec.C02.lastOn] at hl
    simp only [runHistory, lastWrite]
    cases hr : Spec.C02.lastOn (observe (runHistory trunc proc (step trunc proc fs op).fs rest).2) p with
    | some l' =>
      simp only [observe] at hr
      rw [hr] at hl
      cases hl
      rw [ih _ hr]
    | none =>
      have hn := lastOn_none_lastWrite _ _ hr
      simp only [observe] at hr
      rw [hr] at hl
      simp only at hl
      split at hl
      · next hp =>
        cases hl
        subst hp
        simp only at hok
        rw [hn]
        have hw := writeFile_ok_wrote trunc op.env proc op.settings fs op.ftype op.path op.data hok
        simp only [step, hw, and_self, if_true]
      · cases hl

theorem chowned_not_hook (ce : List Event) (h : ∀ e ∈ ce, ∃ u g, e = Event.chowned u g) :
    ce.all (fun x => !Spec.C02.isHook x) = true := by
  rw [List.all_eq_true]
  intro e he
  obtain ⟨u, g, rfl⟩ := h e he
  rfl

/-! ### the C13 judge on model runs -/

theorem killChown_eq_strip (proc : Proc) (f : File) :
    killChown proc f = Spec.C13.stripSpecial (proc.fsetid || proc.gid == f.gid) f.mode := rfl

theorem strip_true (ig : Bool) (m : Nat)
    (h : (hasBit m 0o2000 && (hasBit m 0o010 || !ig)) = true) :
    Spec.C13.stripSpecial ig m = clearBits (clearBits m 0o4000) 0o2000 := by
  show (if (hasBit m 0o2000 && (hasBit m 0o010 || !ig)) = true
        then clearBits (clearBits m 0o4000) 0o2000 else clearBits m 0o4000) = _
  rw [if_pos h]

theorem strip_false (ig : Bool) (m : Nat)
    (h : ¬ (hasBit m 0o2000 && (hasBit m 0o010 || !ig)) = true) :
    Spec.C13.stripSpecial ig m = clearBits m 0o4000 := by
  show (if (hasBit m 0o2000 && (hasBit m 0o010 || !ig)) = true
        then clearBits (clearBits m 0o4000) 0o2000 else clearBits m 0o4000) = _
  rw [if_neg h]

theorem strip_idem (ig : Bool) (m : Nat) :
    Spec.C13.stripSpecial ig (Spec.C13.stripSpecial ig m) = Spec.C13.stripSpecial ig m := by
  by_cases hcond : (hasBit m 0o2000 && (hasBit m 0o010 || !ig)) = true
  · rw [strip_true ig m hcond]
    have h1 : hasBit (clearBits (clearBits m 0o4000) 0o2000) 0o2000 = false :=
      hasBit_clearBits_self _ _
    rw [strip_false ig _ (by rw [h1]; simp)]
    apply clearBits_of_not_set
    rw [clearBits_and_disjoint _ _ _ (by decide)]
    exact clearBits_and_self _ _
  · rw [strip_false ig m hcond]
    have h1 : hasBit (clearBits m 0o4000) 0o2000 = hasBit m 0o2000 :=
      hasBit_clearBits_disjoint _ _ _ (by decide)
    have h2 : hasBit (clearBits m 0o4000) 0o010 = hasBit m 0o010 :=
      hasBit_clearBits_disjoint _ _ _ (by decide)
    rw [strip_false ig _ (by rw [h1, h2]; exact hcond)]
    exact clearBits_idem _ _

theorem applyId_eq_newId (w : Option Nat) (old : Nat) : applyId w old = Spec.C13.newId w old := by
  cases w with
  | none => rfl
  | some n =>
    show (if n = 4294967295 then (none : Option Nat) else some n).getD old =
      if n = 4294967295 then old else n
    split <;> rfl

def statOf (f : File) : Spec.C13.Stat := { mode := f.mode, uid := f.uid, gid := f.gid }

/-- The judge's input for one model write (`observed` left to the caller). -/
def caseOf (proc : Proc) (s : Settings) (old : Option File) (t : FileType) (data : List UInt8)
    (wu wg : Option Nat) (observed : Spec.C13.Stat) : Spec.C13.Case :=
  { ftype := t, certMode := s.certMode, pkMode := s.pkMode, umask := proc.umask,
    procUid := proc.uid, procGid := proc.gid, fsetid := proc.fsetid, prev := old.map statOf,
    wantUid := wu, wantGid := wg, dataEmpty := data.isEmpty, observed := observed }

theorem ownedF_account (env : Env) (proc : Proc) (s : Settings) (f : File) :
    ownedF env proc s .account f = some f := rfl

theorem ownedF_resolved (env : Env) (proc : Proc) (s : Settings) (t : FileType) (f : File)
    (u g : Option (List Char)) (wu wg : Option Nat) (hc : ownerCfg s t = some (u, g))
    (hu : resolve env.lookupUser u = some wu) (hg : resolve env.lookupGroup g = some wg)
    (hok : env.chownOk = true) : ownedF env proc s t f = some (chownedF proc wu wg f) := by
  unfold ownedF
  rw [hc]
  simp only [hu, hg, hok, if_true]

theorem preFile_stat (proc : Proc) (s : Settings) (old : Option File) (t : FileType)
    (data : List UInt8) :
    let base : Spec.C13.Stat := match old with
      | none => { mode := maskMode (modeFor s t) proc.umask, uid := proc.uid, gid := proc.gid }
      | some f => statOf f
    let K := Spec.C13.stripSpecial (proc.fsetid || proc.gid == base.gid)
    statOf (preFile .yes proc s old t data) =
      { base with mode := if !proc.fsetid && (old.isSome || !data.isEmpty) then K base.mode
                          else base.mode } := by
  intro base K
  cases old with
  | none =>
    cases hf : proc.fsetid <;> cases hd : data.isEmpty <;>
      simp [preFile, writtenF, openedF, statOf, killWrite, killChown_eq_strip, hf, hd, base, K]
  | some f =>
    cases hf : proc.fsetid <;> cases hd : data.isEmpty <;>
      simp [preFile, writtenF, openedF, statOf, killWrite, killChown_eq_strip, strip_idem, hf, hd,
        base, K]

theorem spec_c13_final (env : Env) (proc : Proc) (s : Settings) (old : Option File) (t : FileType)
    (data : List UInt8) (wu wg : Option Nat) (o : Spec.C13.Stat)
    (hown : ∀ u g, ownerCfg s t = some (u, g) →
      resolve env.lookupUser u = some wu ∧ resolve env.lookupGroup g = some wg ∧
      env.chownOk = true) :
    statOf (finalFile .yes env proc s old t data) =
      Spec.C13.expected (caseOf proc s old t data wu wg o) := by
  have hpre := preFile_stat proc s old t data
  simp only at hpre
  unfold finalFile
  cases t with
  | account =>
    rw [ownedF_account, Option.getD_some, hpre]
    cases old <;> simp [Spec.C13.expected, caseOf, Spec.C13.cfgMode, modeFor, maskMode, statOf]
  | privateKey =>
    obtain ⟨hu, hg, hok⟩ := hown _ _ rfl
    rw [ownedF_resolved env proc s .privateKey _ _ _ wu wg rfl hu hg hok, Option.getD_some]
    simp only [statOf, Spec.C13.Stat.mk.injEq] at hpre
    obtain ⟨hm, hui, hgi⟩ := hpre
    simp only [statOf, chownedF, killChown_eq_strip, hm, hui, hgi, applyId_eq_newId]
    cases old <;> cases hf : proc.fsetid <;> cases hd : data.isEmpty <;>
      simp [Spec.C13.expected, caseOf, Spec.C13.cfgMode, modeFor, maskMode, statOf, strip_idem, hf]
  | certificate =>
    obtain ⟨hu, hg, hok⟩ := hown _ _ rfl
    rw [ownedF_resolved env proc s .certificate _ _ _ wu wg rfl hu hg hok, Option.getD_some]
    simp only [statOf, Spec.C13.Stat.mk.injEq] at hpre
    obtain ⟨hm, hui, hgi⟩ := hpre
    simp only [statOf, chownedF, killChown_eq_strip, hm, hui, hgi, applyId_eq_newId]
    cases old <;> cases hf : proc.fsetid <;> cases hd : data.isEmpty <;>
      simp [Spec.C13.expected, caseOf, Spec.C13.cfgMode, modeFor, maskMode, statOf, strip_idem, hf]

/-! ### mode and owner of the final file, either variant -/

/-- Mode / owner / group the file has when `write_all` starts, ignoring special-bit removal. -/
def baseMode (proc : Proc) (s : Settings) (t : FileType) : Option File → Nat
  | none => maskMode (modeFor s t) proc.umask
  | some f => f.mode
def baseUid (proc : Proc) : Option File → Nat
  | none => proc.uid
  | some f => f.uid
def baseGid (proc : Proc) : Option File → Nat
  | none => proc.gid
  | some f => f.gid

theorem preFile_ids (trunc : Trunc) (proc : Proc) (s : Settings) (old : Option File) (t : FileType)
    (data : List UInt8) :
    (preFile trunc proc s old t data).uid = baseUid proc old ∧
    (preFile trunc proc s old t data).gid = baseGid proc old := by
  unfold preFile writtenF
  cases old with
  | none => simp only [openedF, baseUid, baseGid]; split <;> exact ⟨rfl, rfl⟩
  | some f => cases trunc <;> simp only [openedF, baseUid, baseGid] <;> split <;> exact ⟨rfl, rfl⟩

theorem preFile_mode_and (trunc : Trunc) (proc : Proc) (s : Settings) (old : Option File)
    (t : FileType) (data : List UInt8) (c : Nat)
    (hu : S_ISUID &&& c = 0) (hg : S_ISGID &&& c = 0) :
    (preFile trunc proc s old t data).mode &&& c = baseMode proc s t old &&& c := by
  unfold preFile writtenF
  cases old with
  | none =>
    simp only [openedF, baseMode]
    split
    · rfl
    · exact killWrite_and _ _ _ hu hg
  | some f =>
    cases trunc <;> simp only [openedF, baseMode] <;> split
    · exact killWrite_and _ _ _ hu hg
    · simp only [killWrite_and _ _ _ hu hg]
    · rfl
    · exact killWrite_and _ _ _ hu hg

theorem preFile_mode_plain (trunc : Trunc) (proc : Proc) (s : Settings) (old : Option File)
    (t : FileType) (data : List UInt8) (h : baseMode proc s t old &&& 0o6000 = 0) :
    (preFile trunc proc s old t data).mode = baseMode proc s t old := by
  unfold preFile writtenF
  cases old with
  | none =>
    simp only [openedF, baseMode] at h ⊢
    split
    · rfl
    · exact killWrite_plain _ _ h
  | some f =>
    simp only [baseMode] at h
    cases trunc <;> simp only [openedF, baseMode] <;> split
    · exact killWrite_plain _ _ h
    · rw [killWrite_plain _ _ (by simpa [killWrite_plain _ _ h] using h)]
      exact killWrite_plain _ _ h
    · rfl
    · exact killWrite_plain _ _ h

theorem ownedF_some_inv (env : Env) (proc : Proc) (s : Settings) (t : FileType) (f f' : File)
    (h : ownedF env proc s t f = some f') :
    (ownerCfg s t = none ∧ f' = f) ∨
    (∃ u g wu wg, ownerCfg s t = some (u, g) ∧ resolve env.lookupUser u = some wu ∧
      resolve env.lookupGroup g = some wg ∧ env.chownOk = true ∧ f' = chownedF proc wu wg f) := by
  unfold ownedF at h
  cases hc : ownerCfg s t with
  | none => rw [hc] at h; simp only [Option.some.injEq] at h; exact Or.inl ⟨rfl, h.symm⟩
  | some ug =>
    obtain ⟨u, g⟩ := ug
    rw [hc] at h
    simp only at h
    cases hu : resolve env.lookupUser u with
    | none => simp [hu] at h
    | some wu =>
      cases hg : resolve env.lookupGroup g with
      | none => simp [hu, hg] at h
      | some wg =>
        cases hk : env.chownOk with
        | false => simp [hu, hg, hk] at h
        | true =>
          simp only [hu, hg, hk, if_true, Option.some.injEq] at h
          exact Or.inr ⟨u, g, wu, wg, rfl, hu, hg, rfl, h.symm⟩

theorem finalFile_cases (trunc : Trunc) (env : Env) (proc : Proc) (s : Settings)
    (old : Option File) (t : FileType) (data : List UInt8) :
    finalFile trunc env proc s old t data = preFile trunc proc s old t data ∨
    ∃ wu wg, finalFile trunc env proc s old t data =
      chownedF proc wu wg (preFile trunc proc s old t data) := by
  unfold finalFile
  cases h : ownedF env proc s t (preFile trunc proc s old t data) with
  | none => exact Or.inl rfl
  | some f' =>
    rcases ownedF_some_inv _ _ _ _ _ _ h with ⟨_, rfl⟩ | ⟨_, _, wu, wg, _, _, _, _, rfl⟩
    · exact Or.inl rfl
    · exact Or.inr ⟨wu, wg, rfl⟩

theorem finalFile_mode_and (trunc : Trunc) (env : Env) (proc : Proc) (s : Settings)
    (old : Option File) (t : FileType) (data : List UInt8) (c : Nat)
    (hu : S_ISUID &&& c = 0) (hg : S_ISGID &&& c = 0) :
    (finalFile trunc env proc s old t data).mode &&& c = baseMode proc s t old &&& c := by
  rcases finalFile_cases trunc env proc s old t data with h | ⟨wu, wg, h⟩
  · rw [h]; exact preFile_mode_and _ _ _ _ _ _ _ hu hg
  · rw [h]
    show killChown proc _ &&& c = _
    rw [killChown_and _ _ _ hu hg]
    exact preFile_mode_and _ _ _ _ _ _ _ hu hg

theorem finalFile_mode_plain (trunc : Trunc) (env : Env) (proc : Proc) (s : Settings)
    (old : Option File) (t : FileType) (data : List UInt8)
    (hm : baseMode proc s t old &&& 0o6000 = 0) :
    (finalFile trunc env proc s old t data).mode = baseMode proc s t old := by
  have hp := preFile_mode_plain trunc proc s old t data hm
  rcases finalFile_cases trunc env proc s old t data with h | ⟨wu, wg, h⟩
  · rw [h]; exact hp
  · rw [h]
    show killChown proc _ = _
    rw [killChown_plain _ _ (by rw [hp]; exact hm)]
    exact hp

end AcmedVerif.Storage
