/-
Helper lemmas for `Model/Bincode.lean` (C11 persistence clauses, DESIGN Appendix E3).

Two predicates per (decoder, encoded bytes, value): `Exact` (the decoder reads exactly the image
and returns the value and whatever followed) and `PrefixFail` (every strict prefix of the image
fails to decode).  Both are proved for each primitive codec and are closed under sequencing
(`Good.bind`), hence under pairs, counted lists, options and records.
-/
import AcmedVerif.Model.Bincode
import AcmedVerif.Spec.C11Store

namespace AcmedVerif.Bincode

def Exact (d : Dec α) (e : Bytes) (v : α) : Prop := ∀ rest, d (e ++ rest) = some (v, rest)

def PrefixFail (d : Dec α) (e : Bytes) : Prop := ∀ p, p <+: e → p ≠ e → d p = none

structure Good (d : Dec α) (e : Bytes) (v : α) : Prop where
  exact : Exact d e v
  pfail : PrefixFail d e

/-! ## Closure -/

theorem Good.pure (v : α) : Good (Dec.pure v) [] v :=
  ⟨fun _ => rfl, fun _ hp hne => absurd (List.prefix_nil.mp hp) hne⟩

/-- The key sequencing lemma: a strict prefix of `e1 ++ e2` is a strict prefix of `e1`, or `e1`
followed by a strict prefix of `e2`. -/
theorem Good.bind {d : Dec α} {f : α → Dec β} {e1 e2 : Bytes} {a : α} {b : β}
    (h1 : Good d e1 a) (h2 : Good (f a) e2 b) : Good (d.bind f) (e1 ++ e2) b := by
  constructor
  · intro rest
    have := h1.exact (e2 ++ rest)
    simp only [Dec.bind, List.append_assoc, this]
    exact h2.exact rest
  · intro p hp hne
    by_cases hq : e1 <+: p
    · obtain ⟨q, rfl⟩ := hq
      have hq2 : q <+: e2 := (List.prefix_append_right_inj e1).mp hp
      have hne2 : q ≠ e2 := fun h => hne (by rw [h])
      have := h1.exact q
      simp only [Dec.bind, this]
      exact h2.pfail q hq2 hne2
    · have hp1 : p <+: e1 :=
        (List.prefix_or_prefix_of_prefix hp (List.prefix_append e1 e2)).resolve_right hq
      have hne1 : p ≠ e1 := fun h => hq (h ▸ List.prefix_refl _)
      simp only [Dec.bind, h1.pfail p hp1 hne1]

theorem Good.map {d : Dec α} {e : Bytes} {a : α} (g : α → β) (h : Good d e a) :
    Good (d.map g) e (g a) := by
  have := h.bind (f := fun a => Dec.pure (g a)) (Good.pure (g a))
  simpa [Dec.map] using this

/-- Sequencing when the second image is empty (a check that consumes nothing). -/
theorem Good.bind_nil {d : Dec α} {f : α → Dec β} {e : Bytes} {a : α} {b : β}
    (h1 : Good d e a) (h2 : Good (f a) [] b) : Good (d.bind f) e b := by
  simpa using h1.bind h2

/-! ## Fixed-width integers -/

theorem encLE_length (k n : Nat) : (encLE k n).length = k := by
  induction k generalizing n with
  | zero => rfl
  | succ k ih => simp [encLE, ih]

theorem decLE_short (k : Nat) (p : Bytes) (h : p.length < k) : decLE k p = none := by
  induction k generalizing p with
  | zero => omega
  | succ k ih =>
    cases p with
    | nil => rfl
    | cons b r =>
      have : r.length < k := by simp at h; omega
      simp [decLE, Dec.map, Dec.bind, ih r this]

theorem decLE_exact (k n : Nat) (h : n < 256 ^ k) (rest : Bytes) :
    decLE k (encLE k n ++ rest) = some (n, rest) := by
  induction k generalizing n with
  | zero =>
    have : n = 0 := by simpa using h
    subst this; rfl
  | succ k ih =>
    have h' : n / 256 < 256 ^ k := by
      apply Nat.div_lt_of_lt_mul
      rw [Nat.pow_succ, Nat.mul_comm] at h; exact h
    simp [encLE, decLE, Dec.map, Dec.bind, Dec.pure, ih (n / 256) h', UInt8.toNat_ofNat']
    omega

theorem good_LE (k n : Nat) (h : n < 256 ^ k) : Good (decLE k) (encLE k n) n := by
  constructor
  · exact decLE_exact k n h
  · intro p hp hne
    apply decLE_short
    have hle := hp.length_le
    have : p.length ≠ (encLE k n).length := fun he => hne (hp.eq_of_length he)
    rw [encLE_length] at hle this
    omega

theorem good_u8 (n : Nat) (h : n < 256) : Good decU8 (encU8 n) n := good_LE 1 n (by simpa using h)
theorem good_u32 (n : Nat) (h : n < 4294967296) : Good decU32 (encU32 n) n :=
  good_LE 4 n (by simpa using h)
theorem good_u64 (n : Nat) (h : n < 18446744073709551616) : Good decU64 (encU64 n) n :=
  good_LE 8 n (by simpa using h)

/-! ## Bytes, strings, dates -/

theorem good_takeN (b : Bytes) : Good (takeN b.length) b b := by
  constructor
  · intro rest; simp [takeN]
  · intro p hp hne
    have hle := hp.length_le
    have : p.length ≠ b.length := fun he => hne (hp.eq_of_length he)
    have : ¬ b.length ≤ p.length := by omega
    simp [takeN, this]

theorem good_bytes (b : Bytes) (h : wfBytes b = true) : Good decBytes (encBytes b) b := by
  have h' : b.length < 18446744073709551616 := by simpa [wfBytes] using h
  exact (good_u64 _ h').bind (good_takeN b)

theorem good_str (u : Bytes → Bool) (s : Bytes) (h : wfStr u s = true) :
    Good (decStr u) (encStr s) s := by
  have h' : wfBytes s = true ∧ u s = true := by simpa [wfStr] using h
  refine (good_bytes s h'.1).bind_nil ?_
  simp only [h'.2, if_true]
  exact Good.pure s

theorem good_time (t : Time) (h : wfTime t = true) : Good decTime (encTime t) t := by
  have h' : t.secs < 9223372036854775808 ∧ t.nanos < 1000000000 := by simpa [wfTime] using h
  have hm : mkTime t.secs t.nanos = some t := by
    have h1 : t.nanos / 1000000000 = 0 := by omega
    have h2 : t.nanos % 1000000000 = t.nanos := by omega
    simp [mkTime, h1, h2, h'.1]
  refine (good_u64 t.secs (by omega)).bind ((good_u32 t.nanos (by omega)).bind_nil ?_)
  rw [hm]
  exact Good.pure t

/-! ## Counted lists, options, pairs -/

theorem good_decN {enc : α → Bytes} {d : Dec α} (l : List α)
    (h : ∀ a ∈ l, Good d (enc a) a) : Good (decN d l.length) (encMany enc l) l := by
  induction l with
  | nil => exact Good.pure []
  | cons a as ih =>
    have ha := h a (by simp)
    have has := ih (fun x hx => h x (by simp [hx]))
    exact ha.bind (has.map (fun as => a :: as))

theorem good_list {enc : α → Bytes} {d : Dec α} (l : List α) (hc : wfCount l = true)
    (h : ∀ a ∈ l, Good d (enc a) a) : Good (decList d) (encList enc l) l := by
  have hc' : l.length < 18446744073709551616 := by simpa [wfCount] using hc
  exact (good_u64 _ hc').bind (good_decN l h)

theorem good_option_none {enc : α → Bytes} {d : Dec α} :
    Good (decOption d) (encOption enc none) none := by
  refine (good_u8 0 (by omega)).bind_nil ?_
  simp only [if_true]
  exact Good.pure none

theorem good_option_some {enc : α → Bytes} {d : Dec α} {a : α} (h : Good d (enc a) a) :
    Good (decOption d) (encOption enc (some a)) (some a) := by
  refine (good_u8 1 (by omega)).bind ?_
  have : ¬ (1 : Nat) = 0 := by omega
  simp only [this, if_false, if_true]
  exact h.map some

theorem good_pair {e1 : α → Bytes} {e2 : β → Bytes} {d1 : Dec α} {d2 : Dec β} {a : α} {b : β}
    (h1 : Good d1 (e1 a) a) (h2 : Good d2 (e2 b) b) :
    Good (decPair d1 d2) (encPair e1 e2 (a, b)) (a, b) :=
  h1.bind (h2.map fun b => (a, b))

/-! ## Records -/

theorem good_key (u : Bytes → Bool) (k : KeyRec) (h : wfKey u k = true) :
    Good (decKey u) (encKey k) k := by
  have h' : (wfTime k.creation = true ∧ wfBytes k.key = true) ∧ wfStr u k.alg = true := by
    simpa [wfKey] using h
  exact (good_time _ h'.1.1).bind ((good_bytes _ h'.1.2).bind
    ((good_str u _ h'.2).map fun s => ({ creation := k.creation, key := k.key, alg := s } : KeyRec)))

theorem good_endpoint (u : Bytes → Bool) (e : EndpointRec) (h : wfEndpoint u e = true) :
    Good (decEndpoint u) (encEndpoint e) e := by
  have h' : ((((wfTime e.creation = true ∧ wfStr u e.accountUrl = true) ∧
      wfStr u e.ordersUrl = true) ∧ wfBytes e.keyHash = true) ∧ wfBytes e.contactsHash = true) ∧
      wfBytes e.eabHash = true := by
    simpa [wfEndpoint] using h
  exact (good_time _ h'.1.1.1.1.1).bind ((good_str u _ h'.1.1.1.1.2).bind
    ((good_str u _ h'.1.1.1.2).bind ((good_bytes _ h'.1.1.2).bind ((good_bytes _ h'.1.2).bind
      ((good_bytes _ h'.2).map fun eh =>
        ({ creation := e.creation, accountUrl := e.accountUrl, ordersUrl := e.ordersUrl,
           keyHash := e.keyHash, contactsHash := e.contactsHash, eabHash := eh } : EndpointRec))))))

theorem good_eab (u : Bytes → Bool) (e : EabRec) (h : wfEab u e = true) :
    Good (decEab u) (encEab e) e := by
  have h' : (wfStr u e.identifier = true ∧ wfBytes e.key = true) ∧ wfStr u e.alg = true := by
    simpa [wfEab] using h
  exact (good_str u _ h'.1.1).bind ((good_bytes _ h'.1.2).bind
    ((good_str u _ h'.2).map fun s => ({ identifier := e.identifier, key := e.key, alg := s } : EabRec)))

theorem good_eab_option (u : Bytes → Bool) (o : Option EabRec)
    (h : (match o with | none => true | some e => wfEab u e) = true) :
    Good (decOption (decEab u)) (encOption encEab o) o := by
  cases o with
  | none => exact good_option_none
  | some e => exact good_option_some (good_eab u e h)

/-- The whole record.  The endpoints come back as the map built by inserting them in file order. -/
theorem good_account (u : Bytes → Bool) (a : Account) (h : wfAccount u a = true) :
    Good (decodeAccount u) (encodeAccount a) { a with endpoints := normMap a.endpoints } := by
  simp only [wfAccount, Bool.and_eq_true, List.all_eq_true] at h
  obtain ⟨⟨⟨⟨⟨⟨⟨⟨hname, hce⟩, hes⟩, hcc⟩, hcs⟩, hck⟩, hcp⟩, hps⟩, heab⟩ := h
  have g_eps : Good (decList (decPair (decStr u) (decEndpoint u)))
      (encList (encPair encStr encEndpoint) a.endpoints) a.endpoints :=
    good_list _ hce fun kv hkv =>
      good_pair (e1 := encStr) (e2 := encEndpoint) (good_str u kv.1 (hes kv hkv).1)
        (good_endpoint u kv.2 (hes kv hkv).2)
  have g_cts : Good (decList (decPair (decStr u) (decStr u)))
      (encList (encPair encStr encStr) a.contacts) a.contacts :=
    good_list _ hcc fun c hc =>
      good_pair (e1 := encStr) (e2 := encStr) (good_str u c.1 (hcs c hc).1)
        (good_str u c.2 (hcs c hc).2)
  have g_pks : Good (decList (decKey u)) (encList encKey a.pastKeys) a.pastKeys :=
    good_list _ hcp fun k hk => good_key u k (hps k hk)
  exact (good_str u _ hname).bind ((g_eps.map normMap).bind (g_cts.bind
    ((good_key u _ hck).bind (g_pks.bind ((good_eab_option u a.eab heab).map fun eab =>
      ({ name := a.name, endpoints := normMap a.endpoints, contacts := a.contacts,
         currentKey := a.currentKey, pastKeys := a.pastKeys, eab := eab } : Account))))))

/-! ## Map normalisation -/

theorem mapInsert_of_not_mem (k : Bytes) (v : β) (m : List (Bytes × β))
    (h : ∀ kv ∈ m, kv.1 ≠ k) : mapInsert k v m = m ++ [(k, v)] := by
  induction m with
  | nil => rfl
  | cons x m ih =>
    have hx : x.1 ≠ k := h x (by simp)
    have := ih (fun kv hkv => h kv (by simp [hkv]))
    simp [mapInsert, hx, this]

theorem foldl_insert_of_pairwise (l acc : List (Bytes × β))
    (h : List.Pairwise (fun x y : Bytes × β => x.1 ≠ y.1) (acc ++ l)) :
    l.foldl (fun m kv => mapInsert kv.1 kv.2 m) acc = acc ++ l := by
  induction l generalizing acc with
  | nil => simp
  | cons kv l ih =>
    have h' := List.pairwise_append.mp h
    have hins : mapInsert kv.1 kv.2 acc = acc ++ [kv] :=
      mapInsert_of_not_mem kv.1 kv.2 acc (fun x hx => h'.2.2 x hx kv (by simp))
    have h2 : List.Pairwise (fun x y : Bytes × β => x.1 ≠ y.1) ((acc ++ [kv]) ++ l) := by
      simpa using h
    simp only [List.foldl_cons, hins]
    rw [ih _ h2]; simp

theorem distinctKeys_pairwise (l : List (Bytes × β)) (h : distinctKeys l = true) :
    List.Pairwise (fun x y : Bytes × β => x.1 ≠ y.1) l := by
  induction l with
  | nil => exact List.Pairwise.nil
  | cons x l ih =>
    obtain ⟨k, v⟩ := x
    simp only [distinctKeys, Bool.and_eq_true, Bool.not_eq_true', List.any_eq_false] at h
    refine List.Pairwise.cons ?_ (ih h.2)
    intro y hy heq
    have := h.1 y hy
    simp [← heq] at this

/-- On a list with pairwise distinct keys, building the map changes nothing. -/
theorem normMap_of_distinct (l : List (Bytes × β)) (h : distinctKeys l = true) :
    normMap l = l := by
  have := foldl_insert_of_pairwise l [] (by simpa using distinctKeys_pairwise l h)
  simpa [normMap] using this

/-! ## Sizes -/

def sizeStr (s : Bytes) : Nat := 8 + s.length
def sizeKey (k : KeyRec) : Nat := 12 + (sizeStr k.key + sizeStr k.alg)
def sizeEndpoint (e : EndpointRec) : Nat :=
  12 + (sizeStr e.accountUrl + (sizeStr e.ordersUrl + (sizeStr e.keyHash +
    (sizeStr e.contactsHash + sizeStr e.eabHash))))
def sizeEab (e : EabRec) : Nat := sizeStr e.identifier + (sizeStr e.key + sizeStr e.alg)
def sizeMany (sz : α → Nat) : List α → Nat
  | [] => 0
  | a :: as => sz a + sizeMany sz as
/-- Number of bytes of the account file. -/
def sizeAccount (a : Account) : Nat :=
  sizeStr a.name + (8 + sizeMany (fun kv => sizeStr kv.1 + sizeEndpoint kv.2) a.endpoints +
    (8 + sizeMany (fun c => sizeStr c.1 + sizeStr c.2) a.contacts + (sizeKey a.currentKey +
      (8 + sizeMany sizeKey a.pastKeys + (match a.eab with | none => 1 | some e => 1 + sizeEab e)))))

theorem encBytes_length (b : Bytes) : (encBytes b).length = sizeStr b := by
  simp [encBytes, encU64, encLE_length, sizeStr]

theorem encStr_length (b : Bytes) : (encStr b).length = sizeStr b := encBytes_length b

theorem encTime_length (t : Time) : (encTime t).length = 12 := by
  simp [encTime, encU64, encU32, encLE_length]

theorem encKey_length (k : KeyRec) : (encKey k).length = sizeKey k := by
  simp [encKey, sizeKey, encTime_length, encBytes_length, encStr_length]

theorem encEndpoint_length (e : EndpointRec) : (encEndpoint e).length = sizeEndpoint e := by
  simp [encEndpoint, sizeEndpoint, encTime_length, encBytes_length, encStr_length]

theorem encEab_length (e : EabRec) : (encEab e).length = sizeEab e := by
  simp [encEab, sizeEab, encBytes_length, encStr_length]

theorem encMany_length {enc : α → Bytes} {sz : α → Nat} (h : ∀ a, (enc a).length = sz a)
    (l : List α) : (encMany enc l).length = sizeMany sz l := by
  induction l with
  | nil => rfl
  | cons a as ih => simp [encMany, sizeMany, h a, ih]

theorem encList_length {enc : α → Bytes} {sz : α → Nat} (h : ∀ a, (enc a).length = sz a)
    (l : List α) : (encList enc l).length = 8 + sizeMany sz l := by
  simp [encList, encU64, encLE_length, encMany_length h l]

theorem encodeAccount_length (a : Account) : (encodeAccount a).length = sizeAccount a := by
  have h1 : ∀ kv : Bytes × EndpointRec,
      (encPair encStr encEndpoint kv).length = sizeStr kv.1 + sizeEndpoint kv.2 := by
    intro kv; simp [encPair, encStr_length, encEndpoint_length]
  have h2 : ∀ c : Bytes × Bytes, (encPair encStr encStr c).length = sizeStr c.1 + sizeStr c.2 := by
    intro c; simp [encPair, encStr_length]
  have h3 : (encOption encEab a.eab).length =
      (match a.eab with | none => 1 | some e => 1 + sizeEab e) := by
    cases a.eab <;> simp [encOption, encU8, encLE_length, encEab_length]
  simp only [encodeAccount, sizeAccount, List.length_append, encStr_length, encList_length h1,
    encList_length h2, encList_length encKey_length, encKey_length, h3]

/-! ## What the harness observes of a `load` -/

def outcomeOf : LoadResult → Spec.C11Store.Outcome
  | .refuse => .refused
  | .loaded _ => .started

def dumpOf : LoadResult → Option Account
  | .refuse => none
  | .loaded a => some a

/-! ## The judge's comparison is reflexive on maps with distinct keys -/

open AcmedVerif.Spec.C11Store in
theorem lookup_of_mem {β : Type} (m : List (Bytes × β)) (hd : distinctKeys m = true)
    (kv : Bytes × β) (h : kv ∈ m) : lookup kv.1 m = some kv.2 := by
  induction m with
  | nil => cases h
  | cons x m ih =>
    obtain ⟨k, v⟩ := x
    simp only [distinctKeys, Bool.and_eq_true, Bool.not_eq_true', List.any_eq_false] at hd
    rcases List.mem_cons.mp h with rfl | hm
    · simp [lookup]
    · have hne : ¬ k = kv.1 := by
        intro heq
        have := hd.1 kv hm
        simp [heq] at this
      simp [lookup, hne, ih hd.2 hm]

open AcmedVerif.Spec.C11Store in
theorem sameMap_refl {β : Type} [DecidableEq β] (m : List (Bytes × β))
    (hd : distinctKeys m = true) : sameMap m m = true := by
  have : m.all (fun kv => lookup kv.1 m == some kv.2) = true := by
    rw [List.all_eq_true]
    intro kv hkv
    simp [lookup_of_mem m hd kv hkv]
  simp [sameMap, hd, this]

open AcmedVerif.Spec.C11Store in
theorem sameAccount_refl (a : Account) (hd : distinctKeys a.endpoints = true) :
    sameAccount a a = true := by
  simp [sameAccount, sameMap_refl a.endpoints hd]

open AcmedVerif.Spec.C11Store in
theorem isStrictPrefix_iff (p l : Bytes) : isStrictPrefix p l = true ↔ p <+: l ∧ p ≠ l := by
  simp only [isStrictPrefix, Bool.and_eq_true, decide_eq_true_eq, beq_iff_eq]
  constructor
  · rintro ⟨hlt, htake⟩
    refine ⟨List.prefix_iff_eq_take.mpr htake.symm, ?_⟩
    intro h; subst h; omega
  · rintro ⟨hp, hne⟩
    have hle := hp.length_le
    have : p.length ≠ l.length := fun he => hne (hp.eq_of_length he)
    exact ⟨by omega, (List.prefix_iff_eq_take.mp hp).symm⟩

end AcmedVerif.Bincode
