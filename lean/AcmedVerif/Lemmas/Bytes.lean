/-
Lemmas about `Model/Bytes.lean`: big-endian conversions and hexadecimal text.
-/
import AcmedVerif.Model.Bytes

namespace AcmedVerif.Bytes

/-- Little-endian value. -/
def leVal (l : List UInt8) : Nat := l.foldr (fun b a => a * 256 + b.toNat) 0

theorem toNat_reverse (l : List UInt8) : toNat l.reverse = leVal l := by
  simp only [toNat, leVal, List.foldl_reverse]

theorem ofNatLE_zero : ofNatLE 0 = [] := by
  rw [ofNatLE]; simp

theorem ofNatLE_pos {n : Nat} (h : n ≠ 0) :
    ofNatLE n = UInt8.ofNat (n % 256) :: ofNatLE (n / 256) := by
  rw [ofNatLE]; simp [h]

theorem leVal_ofNatLE (n : Nat) : leVal (ofNatLE n) = n := by
  induction n using Nat.strongRecOn with
  | _ n ih =>
    by_cases h : n = 0
    · subst h; rw [ofNatLE_zero]; rfl
    · rw [ofNatLE_pos h]
      have := ih (n / 256) (by omega)
      simp only [leVal, List.foldr_cons] at this ⊢
      rw [this, UInt8.toNat_ofNat']
      omega

theorem toNat_ofNatMin (n : Nat) : toNat (ofNatMin n) = n := by
  rw [ofNatMin, toNat_reverse, leVal_ofNatLE]

theorem getLast?_ofNatLE (n : Nat) : (ofNatLE n).getLast? ≠ some 0 := by
  induction n using Nat.strongRecOn with
  | _ n ih =>
    by_cases h : n = 0
    · subst h; rw [ofNatLE_zero]; simp
    · rw [ofNatLE_pos h]
      by_cases h2 : n / 256 = 0
      · rw [h2, ofNatLE_zero]
        simp only [List.getLast?_singleton, ne_eq, Option.some.injEq]
        intro hz
        have := congrArg UInt8.toNat hz
        rw [UInt8.toNat_ofNat'] at this
        have : n % 256 % 2 ^ 8 = 0 := this
        omega
      · have := ih (n / 256) (by omega)
        rw [ofNatLE_pos h2] at this ⊢
        rw [List.getLast?_cons_cons]
        exact this

theorem head?_ofNatMin (n : Nat) : (ofNatMin n).head? ≠ some 0 := by
  rw [ofNatMin, List.head?_reverse]
  exact getLast?_ofNatLE n

theorem length_ofNatLE_le (w : Nat) : ∀ n, n < 256 ^ w → (ofNatLE n).length ≤ w := by
  induction w with
  | zero =>
    intro n h
    have : n = 0 := by simpa using h
    subst this; rw [ofNatLE_zero]; simp
  | succ w ih =>
    intro n h
    by_cases h0 : n = 0
    · subst h0; rw [ofNatLE_zero]; simp
    · rw [ofNatLE_pos h0]
      have : n / 256 < 256 ^ w := by
        rw [Nat.pow_succ] at h
        exact Nat.div_lt_of_lt_mul (by rw [Nat.mul_comm]; exact h)
      have := ih _ this
      simp only [List.length_cons]
      omega

/-- The converse: a number whose minimal form has at most `w` bytes is below `256 ^ w`. -/
theorem lt_of_length_ofNatLE_le (w : Nat) : ∀ n, (ofNatLE n).length ≤ w → n < 256 ^ w := by
  induction w with
  | zero =>
    intro n h
    by_cases h0 : n = 0
    · subst h0; simp
    · rw [ofNatLE_pos h0] at h; simp at h
  | succ w ih =>
    intro n h
    by_cases h0 : n = 0
    · subst h0; exact Nat.pow_pos (by decide)
    · rw [ofNatLE_pos h0] at h
      simp only [List.length_cons, Nat.add_le_add_iff_right] at h
      have := ih _ h
      rw [Nat.pow_succ]
      omega

theorem length_ofNatMin_le {w n : Nat} (h : n < 256 ^ w) : (ofNatMin n).length ≤ w := by
  rw [ofNatMin, List.length_reverse]; exact length_ofNatLE_le w n h

theorem foldl_acc (b : List UInt8) : ∀ acc : Nat,
    b.foldl (fun a x => a * 256 + x.toNat) acc
      = acc * 256 ^ b.length + b.foldl (fun a x => a * 256 + x.toNat) 0 := by
  induction b with
  | nil => intro acc; simp
  | cons x b ih =>
    intro acc
    simp only [List.foldl_cons, List.length_cons]
    rw [ih (acc * 256 + x.toNat), ih (0 * 256 + x.toNat), Nat.pow_succ, Nat.add_mul,
      Nat.zero_mul, Nat.zero_add, Nat.mul_assoc, Nat.mul_comm 256, Nat.add_assoc]

theorem toNat_append (a b : List UInt8) : toNat (a ++ b) = toNat a * 256 ^ b.length + toNat b := by
  simp only [toNat, List.foldl_append]
  exact foldl_acc b _

theorem toNat_replicate_zero (k : Nat) : toNat (List.replicate k 0) = 0 := by
  induction k with
  | zero => rfl
  | succ k ih =>
    rw [List.replicate_succ']
    rw [toNat_append, ih]; rfl

theorem ofNatFixed_spec {w n : Nat} (h : n < 256 ^ w) :
    ∃ bs, ofNatFixed w n = some bs ∧ bs.length = w ∧ toNat bs = n := by
  have hl := length_ofNatMin_le h
  refine ⟨List.replicate (w - (ofNatMin n).length) 0 ++ ofNatMin n, ?_, ?_, ?_⟩
  · simp only [ofNatFixed, hl, if_true]
  · rw [List.length_append, List.length_replicate]; omega
  · rw [toNat_append, toNat_replicate_zero, toNat_ofNatMin]; omega

theorem ofNatFixed_none_iff (w n : Nat) : ofNatFixed w n = none ↔ 256 ^ w ≤ n := by
  constructor
  · intro h
    apply Nat.le_of_not_lt
    intro hlt
    obtain ⟨bs, hb, _⟩ := ofNatFixed_spec hlt
    rw [hb] at h; cases h
  · intro h
    have : ¬ (ofNatMin n).length ≤ w := by
      intro hl
      rw [ofNatMin, List.length_reverse] at hl
      have := lt_of_length_ofNatLE_le w n hl
      omega
    simp only [ofNatFixed, this, if_false]

/-! hexadecimal text -/

theorem hexVal_hexDigit : ∀ n, n < 16 → hexVal (hexDigit n) = some n := by decide

theorem hexDigit_ne_colon : ∀ n, n < 16 → hexDigit n ≠ ':' := by decide

theorem length_hexColon (bs : List UInt8) : (hexColon bs).length = 3 * bs.length - 1 := by
  fun_induction hexColon bs with
  | case1 => rfl
  | case2 b => rfl
  | case3 b b' bs ih =>
    simp only [hex2, List.length_append, List.length_cons, List.length_nil] at ih ⊢
    omega

end AcmedVerif.Bytes
