/-
Vocabulary and helper lemmas for `Props/C07Compose.lean` (non-interference between certificates):
C07's words — certificate, attempt, failing, healthy — on top of the lock model of C12.
-/
import AcmedVerif.Model.Locks
import AcmedVerif.Spec.C12
import AcmedVerif.Lemmas.Locks

namespace AcmedVerif.Compose07
open AcmedVerif.Locks
open AcmedVerif.Spec.C12

/-- The attempt fails: `request_certificate` returns `Err` after `k` statement-level segments. -/
def Fails (sh : AttemptShape) : Prop := ∃ k, sh.failAfter = some k

/-- The attempt runs to the end (certificate written, hooks called). -/
def Healthy (sh : AttemptShape) : Prop := sh.failAfter = none

/-- A certificate seen over time: the consecutive attempts of its renewal loop
(`main_event_loop.rs:158-223`: attempt, post-operation hooks, re-queue). -/
def KeepsFailing (rounds : List AttemptShape) : Prop := ∀ sh ∈ rounds, Fails sh

/-- Lock program of a certificate making the attempts `rounds` one after the other. -/
def certLocks (rounds : List AttemptShape) : List Op := (rounds.map attemptLocks).flatten

/-- Certificate `c` of the family `certs` fails where `failing c` says (`none`: it does not). -/
def withFailures (certs : List AttemptShape) (failing : Nat → Option Nat) : List AttemptShape :=
  certs.mapIdx fun c sh => { sh with failAfter := failing c }

theorem withFailures_getElem? (certs : List AttemptShape) (failing : Nat → Option Nat) (c : Nat) :
    (withFailures certs failing)[c]? =
      (certs[c]?).map fun sh => { sh with failAfter := failing c } := by
  simp [withFailures, List.getElem?_mapIdx]

theorem every_shape_fails_or_healthy (sh : AttemptShape) : Fails sh ∨ Healthy sh := by
  unfold Fails Healthy
  cases sh.failAfter with
  | none => exact .inr rfl
  | some k => exact .inl ⟨k, rfl⟩

/-- The path of a healthy attempt is the whole of `request_certificate`, and its last segment is
`write_certificate` + hooks. -/
theorem healthy_program (sh : AttemptShape) (h : Healthy sh) :
    attemptLocks sh = (segments sh).flatten ∧
    ∃ pre, attemptLocks sh = pre ++ ios sh.storeIos := by
  unfold Healthy at h
  have h1 : attemptLocks sh = (segments sh).flatten := by
    simp [attemptLocks, h, cut]
  refine ⟨h1, ?_⟩
  rw [h1]
  refine ⟨(([ [.acq (endpointLock sh.endpoint) .r, .rel (endpointLock sh.endpoint)]
      , [.acq (endpointLock sh.endpoint) .w] ++ ios sh.dirIos ++ [.rel (endpointLock sh.endpoint)]
      , accountOp (accountLock sh.account) (endpointLock sh.endpoint) sh.syncIos ] : List (List Op))
      ++ orderSegs (accountLock sh.account) (endpointLock sh.endpoint) sh.order1Ios sh.reReg
      ++ (sh.authz.map (authzSegs (accountLock sh.account) (endpointLock sh.endpoint))).flatten
      ++ [ post (accountLock sh.account) (endpointLock sh.endpoint) sh.readyIos
         , ios sh.keyIos
         , post (accountLock sh.account) (endpointLock sh.endpoint) sh.finalizeIos
         , post (accountLock sh.account) (endpointLock sh.endpoint) sh.validIos
         , post (accountLock sh.account) (endpointLock sh.endpoint) sh.downloadIos ]).flatten, ?_⟩
  simp only [segments, segmentsWith, List.flatten_append, List.flatten_cons, List.flatten_nil,
    List.append_assoc, List.append_nil]

/-- A task that has nothing left and obeys the discipline holds nothing. -/
theorem held_nil_of_done {rank : Nat → Nat} {s : Sys} (hi : Inv rank s) {c : Nat}
    (h : (s c).rest = []) : (s c).held = [] := by
  have := hi c
  rw [h] at this
  exact this

theorem wo_getD {rank : Nat → Nat} {ps : List (List Op)} (hwo : ∀ p ∈ ps, WellOrdered rank p)
    (t : Nat) : WellOrdered rank (ps.getD t []) := by
  by_cases h : t < ps.length
  · have : ps.getD t [] = ps[t] := by simp [List.getD_eq_getElem?_getD, h]
    rw [this]; exact hwo _ (List.getElem_mem h)
  · have : ps.length ≤ t := by omega
    have : ps.getD t [] = [] := by simp [List.getD_eq_getElem?_getD, this]
    rw [this]; rfl

end AcmedVerif.Compose07
