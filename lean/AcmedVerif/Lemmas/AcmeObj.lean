/-
Helper lemmas for `Props/C08Obj.lean`: the readers of `Model/AcmeObj.lean` succeed exactly on the values
`Spec/C08Obj.lean` calls well-formed.
-/
import AcmedVerif.Model.AcmeObj
import AcmedVerif.Spec.C08Obj

namespace AcmedVerif.AcmeObj
open AcmedVerif.Spec.C08Obj

/-! ### Leaves -/

@[simp] theorem isOk_ok (a : α) : isOk (Except.ok a : R α) = true := rfl
@[simp] theorem isOk_error (e : ParseErr) : isOk (Except.error e : R α) = false := rfl

@[simp] theorem isOk_unit (r : R α) : isOk (unit r) = isOk r := by
  cases r <;> rfl

@[simp] theorem isOk_mapR (f : α → β) (r : R α) : isOk (mapR f r) = isOk r := by
  cases r <;> rfl

theorem isOk_rOpt (p : J → R α) (j : J) : isOk (rOpt p j) = (j.isNull || isOk (p j)) := by
  cases j <;> simp [rOpt, J.isNull] <;> split <;> simp_all

theorem isOk_rString (j : J) : isOk (rString j) = isStr j := by
  cases j <;> simp [rString, isStr]
  split <;> simp_all

theorem isOk_rBool (j : J) : isOk (rBool j) = isBool j := by
  cases j <;> simp [rBool, isBool]

theorem isOk_rUsize (j : J) : isOk (rUsize j) = isUsize j := by
  cases j <;> simp [rUsize, isUsize]
  split <;> simp_all

theorem isOk_rList_go (p : J → R α) (q : J → Bool) (h : ∀ x, isOk (p x) = q x) (xs : List J) :
    isOk (rList.go p xs) = xs.all q := by
  induction xs with
  | nil => simp [rList.go]
  | cons x xs ih =>
    simp only [rList.go, List.all_cons]
    rw [← h x, ← ih]
    cases p x <;> simp
    cases rList.go p xs <;> simp

theorem isOk_rList (p : J → R α) (q : J → Bool) (h : ∀ x, isOk (p x) = q x) (j : J) :
    isOk (rList p j) = isList q j := by
  cases j <;> simp [rList, isList]
  exact isOk_rList_go p q h _

theorem indexOf_isSome (names : List String) (s : String) :
    (indexOf? names s).isSome = names.contains s := by
  induction names with
  | nil => simp [indexOf?]
  | cons n ns ih =>
    simp only [indexOf?, List.contains_cons]
    by_cases h : n = s
    · simp [h]
    · have : (s == n) = false := by simp; exact fun e => h e.symm
      simp [h, this, ih]

theorem isOk_variantOf (names : List String) (raw : List Char) :
    isOk (variantOf names raw) = decodesTo raw names := by
  unfold variantOf decodesTo
  cases decodeStr raw with
  | none => rfl
  | some cs =>
    simp only [← indexOf_isSome]
    cases indexOf? names (String.ofList cs) <;> rfl

theorem isOk_rEnum (c : Bool) (names : List String) (j : J) :
    isOk (rEnum c names j) = isWord c names j := by
  match j with
  | .null => cases c <;> simp [rEnum, isWord]
  | .bool _ => cases c <;> simp [rEnum, isWord]
  | .num _ => cases c <;> simp [rEnum, isWord]
  | .arr _ => cases c <;> simp [rEnum, isWord]
  | .str raw => simp [rEnum, isWord, isOk_variantOf]
  | .obj [] => cases c <;> simp [rEnum, isWord]
  | .obj [(k, v)] =>
    simp only [rEnum, isWord]
    rw [← isOk_variantOf]
    cases variantOf names k with
    | error e => rfl
    | ok i => by_cases h : (v.isNull || (c && v.isEmptyObj)) = true <;> simp [h]
  | .obj ((k, v) :: kv2 :: rest) =>
    cases c
    · simp only [rEnum, isWord, Bool.false_eq_true, if_false]
      cases variantOf names k with
      | error e => rfl
      | ok i => by_cases h : v.isNull = true <;> simp [h]
    · simp [rEnum, isWord]

/-! ### `scanFields` -/

/-- No known member occurs twice, and none of `seen` occurs. -/
def nodupFrom (known : List String) : List String → List (List Char × J) → Bool
  | _, [] => true
  | seen, kv :: ms =>
    match keyOf kv with
    | some key =>
      if known.contains key then !seen.contains key && nodupFrom known (key :: seen) ms
      else nodupFrom known seen ms
    | none => nodupFrom known seen ms

theorem scan_isOk (known : List String) (check : String → J → R Unit) (seen : List String)
    (ms : List (List Char × J)) :
    isOk (scanFields known check seen ms) =
      (ms.all (memberOk known fun k v => isOk (check k v)) && nodupFrom known seen ms) := by
  induction ms generalizing seen with
  | nil => simp [scanFields, nodupFrom]
  | cons kv ms ih =>
    obtain ⟨k, v⟩ := kv
    simp only [scanFields, List.all_cons, memberOk, nodupFrom, keyOf]
    cases hk : decodeStr k with
    | none => simp
    | some kc =>
      simp only [Option.map_some]
      by_cases hkn : known.contains (String.ofList kc) = true
      · simp only [hkn, if_true, Bool.not_true, Bool.false_or]
        by_cases hs : String.ofList kc ∈ seen
        · simp [hs]
        · have hs' : seen.contains (String.ofList kc) = false := by simpa using hs
          simp only [hs', Bool.false_eq_true, if_false, Bool.not_false, Bool.true_and]
          cases hc : check (String.ofList kc) v with
          | error e => simp
          | ok u =>
            have := ih (String.ofList kc :: seen)
            cases hr : scanFields known check (String.ofList kc :: seen) ms with
            | error e => rw [hr] at this; simp at this ⊢; simpa using this
            | ok fs => rw [hr] at this; simp at this ⊢; simpa using this
      · simp only [hkn, Bool.false_eq_true, if_false, Bool.not_false, Bool.true_or, Bool.true_and]
        exact ih seen

theorem occurrences_cons (n : String) (kv : List Char × J) (ms : List (List Char × J)) :
    occurrences n (kv :: ms) = (if keyOf kv == some n then 1 else 0) + occurrences n ms := by
  unfold occurrences
  simp only [List.filter_cons]
  split <;> simp <;> omega

theorem nodupFrom_iff (known seen : List String) (ms : List (List Char × J)) :
    nodupFrom known seen ms = true ↔
      (∀ n, known.contains n = true → occurrences n ms ≤ 1) ∧
      (∀ n, seen.contains n = true → known.contains n = true → occurrences n ms = 0) := by
  induction ms generalizing seen with
  | nil => simp [nodupFrom, occurrences]
  | cons kv ms ih =>
    simp only [nodupFrom, occurrences_cons]
    cases hk : keyOf kv with
    | none => simp [ih]
    | some key =>
      by_cases hkn : known.contains key = true
      · simp only [hkn, if_true, Bool.and_eq_true, Bool.not_eq_true', ih]
        constructor
        · rintro ⟨hns, h1, h0⟩
          refine ⟨fun n hn => ?_, fun n hsn hn => ?_⟩
          · by_cases e : key = n
            · subst e
              have := h0 key (by simp) hkn
              simp [this]
            · have : (some key == some n) = false := by simp [e]
              simp only [this, Bool.false_eq_true, if_false]
              have := h1 n hn
              omega
          · have e : key ≠ n := by
              intro e; subst e; simp at hns; exact hns (by simpa using hsn)
            have : (some key == some n) = false := by simp [e]
            simp only [this, Bool.false_eq_true, if_false]
            have := h0 n (by simp; exact Or.inr (by simpa using hsn)) hn
            omega
        · rintro ⟨h1, h0⟩
          refine ⟨?_, fun n hn => ?_, fun n hsn hn => ?_⟩
          · cases hs : seen.contains key with
            | false => rfl
            | true =>
              have := h0 key hs hkn
              simp at this
          · have := h1 n hn
            omega
          · simp only [List.contains_cons, Bool.or_eq_true, beq_iff_eq] at hsn
            rcases hsn with e | hsn
            · subst e
              have := h1 n hn
              simp at this
              omega
            · have := h0 n hsn hn
              omega
      · simp only [hkn, Bool.false_eq_true, if_false, ih]
        have hne : ∀ n, known.contains n = true → (some key == some n) = false := by
          intro n hn
          have : key ≠ n := by intro e; subst e; exact hkn hn
          simp [this]
        constructor
        · rintro ⟨h1, h0⟩
          exact ⟨fun n hn => by simp [hne n hn, h1 n hn], fun n hsn hn => by simp [hne n hn, h0 n hsn hn]⟩
        · rintro ⟨h1, h0⟩
          exact ⟨fun n hn => by have := h1 n hn; simp [hne n hn] at this; exact this,
                 fun n hsn hn => by have := h0 n hsn hn; simp [hne n hn] at this; exact this⟩

theorem nodupFrom_nil (known : List String) (ms : List (List Char × J)) :
    nodupFrom known [] ms = known.all fun n => decide (occurrences n ms ≤ 1) := by
  rw [Bool.eq_iff_iff, nodupFrom_iff]
  simp

theorem memberOk_all_keys (known : List String) (ok : String → J → Bool) (ms : List (List Char × J)) :
    ms.all (memberOk known ok) = true → keysDecodable ms = true := by
  unfold keysDecodable
  simp only [List.all_eq_true]
  intro h kv hkv
  have := h kv hkv
  unfold memberOk at this
  cases hk : keyOf kv <;> simp_all

/-- The scan succeeds exactly on `membersOk`. -/
theorem scan_isOk_membersOk (known : List String) (check : String → J → R Unit) (ok : String → J → Bool)
    (h : ∀ k v, isOk (check k v) = ok k v) (ms : List (List Char × J)) :
    isOk (scanFields known check [] ms) = membersOk known ok ms := by
  rw [scan_isOk, nodupFrom_nil]
  have e : (fun k v => isOk (check k v)) = ok := by funext k v; exact h k v
  rw [e]
  unfold membersOk
  cases hall : ms.all (memberOk known ok) with
  | false => simp
  | true => simp [memberOk_all_keys known ok ms hall]

theorem present_cons (name : String) (kv : List Char × J) (ms : List (List Char × J)) :
    present name (kv :: ms) = (keyOf kv == some name || present name ms) := by
  simp [present]

/-- After a successful scan: every member kept passed its check, and a known name is kept iff present. -/
theorem scan_lookup (known : List String) (check : String → J → R Unit) (seen : List String)
    (ms : List (List Char × J)) (fs : List (String × J))
    (h : scanFields known check seen ms = .ok fs) :
    (∀ name v, fs.lookup name = some v → isOk (check name v) = true) ∧
    (∀ name, known.contains name = true → (fs.lookup name).isSome = present name ms) := by
  induction ms generalizing seen fs with
  | nil =>
    simp only [scanFields, Except.ok.injEq] at h
    subst h
    simp [present]
  | cons kv ms ih =>
    obtain ⟨k, v⟩ := kv
    simp only [scanFields] at h
    cases hk : decodeStr k with
    | none => simp [hk] at h
    | some kc =>
      simp only [hk] at h
      have hkey : keyOf (k, v) = some (String.ofList kc) := by simp [keyOf, hk]
      by_cases hkn : known.contains (String.ofList kc) = true
      · simp only [hkn, if_true] at h
        by_cases hs : String.ofList kc ∈ seen
        · simp [hs] at h
        · have hs' : seen.contains (String.ofList kc) = false := by simpa using hs
          simp only [hs', Bool.false_eq_true, if_false] at h
          cases hc : check (String.ofList kc) v with
          | error e => simp [hc] at h
          | ok u =>
            simp only [hc] at h
            cases hr : scanFields known check (String.ofList kc :: seen) ms with
            | error e => simp [hr] at h
            | ok fs' =>
              simp only [hr, Except.ok.injEq] at h
              subst h
              obtain ⟨i1, i2⟩ := ih _ _ hr
              refine ⟨fun name w hl => ?_, fun name hn => ?_⟩
              · simp only [List.lookup_cons] at hl
                by_cases e : name = String.ofList kc
                · subst e
                  simp at hl
                  subst hl
                  simp [hc]
                · have : (name == String.ofList kc) = false := by simp [e]
                  simp only [this] at hl
                  exact i1 name w hl
              · simp only [List.lookup_cons, present_cons, hkey]
                by_cases e : name = String.ofList kc
                · subst e; simp
                · have h1 : (name == String.ofList kc) = false := by simp [e]
                  have h2 : (some (String.ofList kc) == some name) = false := by
                    simp; exact fun x => e x.symm
                  simp only [h1, h2, Bool.false_or]
                  exact i2 name hn
      · simp only [hkn, Bool.false_eq_true, if_false] at h
        obtain ⟨i1, i2⟩ := ih _ _ h
        refine ⟨i1, fun name hn => ?_⟩
        have e : String.ofList kc ≠ name := by
          intro e; subst e; exact hkn hn
        have h2 : (some (String.ofList kc) == some name) = false := by simp [e]
        simp only [present_cons, hkey, h2, Bool.false_or]
        exact i2 name hn

theorem isOk_req (fs : List (String × J)) (name : String) (p : J → R α) (check : String → J → R Unit)
    (h1 : ∀ name v, fs.lookup name = some v → isOk (check name v) = true)
    (h2 : ∀ v, isOk (check name v) = isOk (p v)) :
    isOk (req fs name p) = (fs.lookup name).isSome := by
  unfold req
  cases hl : fs.lookup name with
  | none => rfl
  | some v =>
    have := h1 name v hl
    rw [h2] at this
    simp [this]

theorem isOk_opt (fs : List (String × J)) (name : String) (p : J → R α) (check : String → J → R Unit)
    (h1 : ∀ name v, fs.lookup name = some v → isOk (check name v) = true)
    (h2 : ∀ v, isOk (check name v) = isOk (rOpt p v)) :
    isOk (opt fs name p) = true := by
  unfold opt
  cases hl : fs.lookup name with
  | none => rfl
  | some v =>
    have := h1 name v hl
    rw [h2] at this
    simp [this]

/-! ### `seqCheck` -/

/-- `elementsOk` with the checks' own verdicts. -/
theorem isOk_seqCheck (c : Bool) (ps : List (J → R Unit)) (xs : List J) :
    isOk (seqCheck c ps xs) = elementsOk (ps.map fun p x => isOk (p x)) xs := by
  induction ps generalizing xs with
  | nil => cases xs <;> simp [seqCheck, elementsOk]
  | cons p ps ih =>
    cases xs with
    | nil => simp [seqCheck, elementsOk]
    | cons x xs =>
      simp only [seqCheck, List.map_cons, elementsOk]
      cases p x with
      | error e => simp
      | ok u => simp [ih]

theorem elementsOk_length (ps : List (J → Bool)) (xs : List J) (h : elementsOk ps xs = true) :
    xs.length = ps.length := by
  induction ps generalizing xs with
  | nil => cases xs <;> simp_all [elementsOk]
  | cons p ps ih =>
    cases xs with
    | nil => simp [elementsOk] at h
    | cons x xs =>
      simp only [elementsOk, Bool.and_eq_true] at h
      simp [ih xs h.2]

/-! ### Problem documents and identifiers -/

theorem isOk_problemBuild (t : R (Option String)) (s : R (Option Nat)) (d : R (Option String)) :
    isOk (problemBuild t s d) = (isOk t && isOk s && isOk d) := by
  unfold problemBuild
  repeat' split
  all_goals simp_all

theorem isOk_problemCheck (k : String) (v : J) : isOk (problemCheck k v) = problemMemberOk k v := by
  unfold problemCheck problemMemberOk
  split <;> simp [isOk_rOpt, isOk_rUsize, isOk_rString, orNull]

theorem isOk_problemMap (ms : List (List Char × J)) :
    isOk (problemMap ms) = membersOk problemFields problemMemberOk ms := by
  unfold problemMap
  rw [← scan_isOk_membersOk problemFields problemCheck problemMemberOk isOk_problemCheck]
  cases hs : scanFields problemFields problemCheck [] ms with
  | error e => rfl
  | ok fs =>
    obtain ⟨h1, _⟩ := scan_lookup _ _ _ _ _ hs
    rw [isOk_problemBuild,
      isOk_opt fs "type" rString problemCheck h1 (by intro v; simp [problemCheck]),
      isOk_opt fs "status" rUsize problemCheck h1 (by intro v; simp [problemCheck]),
      isOk_opt fs "detail" rString problemCheck h1 (by intro v; simp [problemCheck])]
    rfl

theorem fun_optStr : (fun j => isOk (unit (rOpt rString j))) = orNull isStr := by
  funext j; simp [isOk_rOpt, isOk_rString, orNull]

theorem fun_optUsize : (fun j => isOk (unit (rOpt rUsize j))) = orNull isUsize := by
  funext j; simp [isOk_rOpt, isOk_rUsize, orNull]

theorem fun_optBool : (fun j => isOk (unit (rOpt rBool j))) = orNull isBool := by
  funext j; simp [isOk_rOpt, isOk_rBool, orNull]

theorem fun_str : (fun j => isOk (unit (rString j))) = isStr := by
  funext j; simp [isOk_rString]

theorem isOk_problemSeq (c : Bool) (xs : List J) :
    isOk (problemSeq c xs) = elementsOk [orNull isStr, orNull isUsize, orNull isStr] xs := by
  unfold problemSeq
  have hq := isOk_seqCheck c [fun j => unit (rOpt rString j), fun j => unit (rOpt rUsize j),
    fun j => unit (rOpt rString j)] xs
  simp only [List.map_cons, List.map_nil, fun_optStr, fun_optUsize] at hq
  rw [← hq]
  cases hs : seqCheck c [fun j => unit (rOpt rString j), fun j => unit (rOpt rUsize j),
    fun j => unit (rOpt rString j)] xs with
  | error e => rfl
  | ok u =>
    rw [hs] at hq
    have hl := elementsOk_length _ _ hq.symm
    match xs, hl with
    | [a, b, d], _ =>
      simp_all [elementsOk, orNull, isOk_problemBuild, isOk_rOpt, isOk_rString, isOk_rUsize]

theorem isOk_rProblem (j : J) : isOk (rProblem j) = validProblem j := by
  match j with
  | .obj ms => exact isOk_problemMap ms
  | .arr xs => exact isOk_problemSeq false xs
  | .null | .bool _ | .num _ | .str _ => simp [rProblem, validProblem]

theorem isOk_rProblemC (j : J) : isOk (rProblemC j) = validProblemC j := by
  match j with
  | .obj ms => exact isOk_problemMap ms
  | .arr xs => exact isOk_problemSeq true xs
  | .null | .bool _ | .num _ | .str _ => simp [rProblemC, validProblemC]

theorem isOk_rIdType (j : J) : isOk (rIdType j) = isWord false idTypeNames j := by
  simp [rIdType, isOk_rEnum]

theorem isOk_rOrderStatus (j : J) : isOk (rOrderStatus j) = isWord false orderStatusNames j := by
  simp [rOrderStatus, isOk_rEnum]

theorem isOk_rAuthzStatus (j : J) : isOk (rAuthzStatus j) = isWord false authzStatusNames j := by
  simp [rAuthzStatus, isOk_rEnum]

theorem isOk_rChalStatus (j : J) : isOk (rChalStatus j) = isWord true chalStatusNames j := by
  simp [rChalStatus, isOk_rEnum]

theorem isOk_identifierBuild (t : R IdType) (v : R String) :
    isOk (identifierBuild t v) = (isOk t && isOk v) := by
  unfold identifierBuild
  repeat' split
  all_goals simp_all

theorem isOk_identifierCheck (k : String) (v : J) :
    isOk (identifierCheck k v) = identifierMemberOk k v := by
  unfold identifierCheck identifierMemberOk
  split <;> simp [isOk_rIdType, isOk_rString]

theorem isOk_rIdentifier (j : J) : isOk (rIdentifier j) = validIdentifier j := by
  match j with
  | .null | .bool _ | .num _ | .str _ => simp [rIdentifier, validIdentifier]
  | .obj ms =>
    simp only [rIdentifier, validIdentifier]
    rw [← scan_isOk_membersOk identifierFields identifierCheck identifierMemberOk isOk_identifierCheck]
    cases hs : scanFields identifierFields identifierCheck [] ms with
    | error e => rfl
    | ok fs =>
      obtain ⟨h1, h2⟩ := scan_lookup _ _ _ _ _ hs
      rw [isOk_identifierBuild,
        isOk_req fs "type" rIdType identifierCheck h1 (by intro v; simp [identifierCheck]),
        isOk_req fs "value" rString identifierCheck h1 (by intro v; simp [identifierCheck]),
        h2 "type" (by decide), h2 "value" (by decide)]
      simp
  | .arr xs =>
    simp only [rIdentifier, validIdentifier]
    have hq := isOk_seqCheck false [fun j => unit (rIdType j), fun j => unit (rString j)] xs
    have f1 : (fun j => isOk (unit (rIdType j))) = isWord false idTypeNames := by
      funext j; simp [isOk_rIdType]
    simp only [List.map_cons, List.map_nil, f1, fun_str] at hq
    rw [← hq]
    cases hs : seqCheck false [fun j => unit (rIdType j), fun j => unit (rString j)] xs with
    | error e => rfl
    | ok u =>
      rw [hs] at hq
      have hl := elementsOk_length _ _ hq.symm
      match xs, hl with
      | [a, b], _ => simp_all [elementsOk, isOk_identifierBuild, isOk_rIdType, isOk_rString]

/-! ### Orders -/

theorem isOk_orderBuild (st : R OrderStatus) (ex : R (Option String)) (ids : R (List Identifier))
    (nb na : R (Option String)) (er : R (Option Problem)) (au : R (List String)) (fi : R String)
    (ce : R (Option String)) :
    isOk (orderBuild st ex ids nb na er au fi ce) =
      (isOk st && isOk ex && isOk ids && isOk nb && isOk na && isOk er && isOk au && isOk fi && isOk ce) := by
  unfold orderBuild
  repeat' split
  all_goals simp_all

theorem isOk_orderCheck (k : String) (v : J) : isOk (orderCheck k v) = orderMemberOk k v := by
  unfold orderCheck orderMemberOk
  repeat' split
  all_goals simp [isOk_rOrderStatus, isOk_rOpt, isOk_rString, isOk_rProblem, orNull,
    isOk_rList _ _ isOk_rIdentifier, isOk_rList _ _ isOk_rString]

theorem fun_optProblem : (fun j => isOk (unit (rOpt rProblem j))) = orNull validProblem := by
  funext j; simp [isOk_rOpt, isOk_rProblem, orNull]

theorem fun_listStr : (fun j => isOk (unit (rList rString j))) = isList isStr := by
  funext j; simp [isOk_rList _ _ isOk_rString]

theorem fun_listIdentifier : (fun j => isOk (unit (rList rIdentifier j))) = isList validIdentifier := by
  funext j; simp [isOk_rList _ _ isOk_rIdentifier]

theorem fun_orderStatus : (fun j => isOk (unit (rOrderStatus j))) = isWord false orderStatusNames := by
  funext j; simp [isOk_rOrderStatus]

theorem isOk_rOrder (j : J) : isOk (rOrder j) = validOrder j := by
  match j with
  | .null | .bool _ | .num _ | .str _ => simp [rOrder, validOrder]
  | .obj ms =>
    simp only [rOrder, validOrder]
    rw [← scan_isOk_membersOk orderFields orderCheck orderMemberOk isOk_orderCheck]
    cases hs : scanFields orderFields orderCheck [] ms with
    | error e => rfl
    | ok fs =>
      obtain ⟨h1, h2⟩ := scan_lookup _ _ _ _ _ hs
      rw [isOk_orderBuild,
        isOk_req fs "status" rOrderStatus orderCheck h1 (by intro v; simp [orderCheck]),
        isOk_opt fs "expires" rString orderCheck h1 (by intro v; simp [orderCheck]),
        isOk_req fs "identifiers" (rList rIdentifier) orderCheck h1 (by intro v; simp [orderCheck]),
        isOk_opt fs "notBefore" rString orderCheck h1 (by intro v; simp [orderCheck]),
        isOk_opt fs "notAfter" rString orderCheck h1 (by intro v; simp [orderCheck]),
        isOk_opt fs "error" rProblem orderCheck h1 (by intro v; simp [orderCheck]),
        isOk_req fs "authorizations" (rList rString) orderCheck h1 (by intro v; simp [orderCheck]),
        isOk_req fs "finalize" rString orderCheck h1 (by intro v; simp [orderCheck]),
        isOk_opt fs "certificate" rString orderCheck h1 (by intro v; simp [orderCheck]),
        h2 "status" (by decide), h2 "identifiers" (by decide), h2 "authorizations" (by decide),
        h2 "finalize" (by decide)]
      simp [orderRequired, Bool.and_assoc]
  | .arr xs =>
    simp only [rOrder, validOrder]
    have hq := isOk_seqCheck false [fun j => unit (rOrderStatus j), fun j => unit (rOpt rString j),
        fun j => unit (rList rIdentifier j), fun j => unit (rOpt rString j), fun j => unit (rOpt rString j),
        fun j => unit (rOpt rProblem j), fun j => unit (rList rString j), fun j => unit (rString j),
        fun j => unit (rOpt rString j)] xs
    simp only [List.map_cons, List.map_nil, fun_orderStatus, fun_optStr, fun_listIdentifier, fun_optProblem,
      fun_listStr, fun_str] at hq
    rw [← hq]
    cases hs : seqCheck false [fun j => unit (rOrderStatus j), fun j => unit (rOpt rString j),
        fun j => unit (rList rIdentifier j), fun j => unit (rOpt rString j), fun j => unit (rOpt rString j),
        fun j => unit (rOpt rProblem j), fun j => unit (rList rString j), fun j => unit (rString j),
        fun j => unit (rOpt rString j)] xs with
    | error e => rfl
    | ok u =>
      rw [hs] at hq
      have hl := elementsOk_length _ _ hq.symm
      match xs, hl with
      | [a, b, c, d, e, f, g, h, i], _ =>
        simp_all [elementsOk, orNull, isOk_orderBuild, isOk_rOrderStatus, isOk_rOpt, isOk_rString,
          isOk_rProblem, isOk_rList _ _ isOk_rIdentifier, isOk_rList _ _ isOk_rString]

/-! ### Directory -/

theorem isOk_metaBuild (t w : R (Option String)) (c : R (Option (List String))) (x : R (Option Bool)) :
    isOk (metaBuild t w c x) = (isOk t && isOk w && isOk c && isOk x) := by
  unfold metaBuild
  repeat' split
  all_goals simp_all

theorem isOk_metaCheck (k : String) (v : J) : isOk (metaCheck k v) = metaMemberOk k v := by
  unfold metaCheck metaMemberOk
  repeat' split
  all_goals simp [isOk_rOpt, isOk_rString, isOk_rBool, orNull, isOk_rList _ _ isOk_rString]

theorem fun_optListStr : (fun j => isOk (unit (rOpt (rList rString) j))) = orNull (isList isStr) := by
  funext j; simp [isOk_rOpt, orNull, isOk_rList _ _ isOk_rString]

theorem isOk_rMeta (j : J) : isOk (rMeta j) = validMeta j := by
  match j with
  | .null | .bool _ | .num _ | .str _ => simp [rMeta, validMeta]
  | .obj ms =>
    simp only [rMeta, validMeta]
    rw [← scan_isOk_membersOk metaFields metaCheck metaMemberOk isOk_metaCheck]
    cases hs : scanFields metaFields metaCheck [] ms with
    | error e => rfl
    | ok fs =>
      obtain ⟨h1, _⟩ := scan_lookup _ _ _ _ _ hs
      rw [isOk_metaBuild,
        isOk_opt fs "termsOfService" rString metaCheck h1 (by intro v; simp [metaCheck]),
        isOk_opt fs "website" rString metaCheck h1 (by intro v; simp [metaCheck]),
        isOk_opt fs "caaIdentities" (rList rString) metaCheck h1 (by intro v; simp [metaCheck]),
        isOk_opt fs "externalAccountRequired" rBool metaCheck h1 (by intro v; simp [metaCheck])]
      rfl
  | .arr xs =>
    simp only [rMeta, validMeta]
    have hq := isOk_seqCheck false [fun j => unit (rOpt rString j), fun j => unit (rOpt rString j),
        fun j => unit (rOpt (rList rString) j), fun j => unit (rOpt rBool j)] xs
    simp only [List.map_cons, List.map_nil, fun_optStr, fun_optListStr, fun_optBool] at hq
    rw [← hq]
    cases hs : seqCheck false [fun j => unit (rOpt rString j), fun j => unit (rOpt rString j),
        fun j => unit (rOpt (rList rString) j), fun j => unit (rOpt rBool j)] xs with
    | error e => rfl
    | ok u =>
      rw [hs] at hq
      have hl := elementsOk_length _ _ hq.symm
      match xs, hl with
      | [a, b, c, d], _ =>
        simp_all [elementsOk, orNull, isOk_metaBuild, isOk_rOpt, isOk_rString, isOk_rBool,
          isOk_rList _ _ isOk_rString]

theorem isOk_directoryBuild (m : R (Option DirectoryMeta)) (nn na no : R String) (nz : R (Option String))
    (rc kc : R String) :
    isOk (directoryBuild m nn na no nz rc kc) =
      (isOk m && isOk nn && isOk na && isOk no && isOk nz && isOk rc && isOk kc) := by
  unfold directoryBuild
  repeat' split
  all_goals simp_all

theorem isOk_directoryCheck (k : String) (v : J) : isOk (directoryCheck k v) = directoryMemberOk k v := by
  unfold directoryCheck directoryMemberOk
  repeat' split
  all_goals simp [isOk_rOpt, isOk_rString, isOk_rMeta, orNull]

theorem fun_optMeta : (fun j => isOk (unit (rOpt rMeta j))) = orNull validMeta := by
  funext j; simp [isOk_rOpt, isOk_rMeta, orNull]

theorem isOk_rDirectory (j : J) : isOk (rDirectory j) = validDirectory j := by
  match j with
  | .null | .bool _ | .num _ | .str _ => simp [rDirectory, validDirectory]
  | .obj ms =>
    simp only [rDirectory, validDirectory]
    rw [← scan_isOk_membersOk directoryFields directoryCheck directoryMemberOk isOk_directoryCheck]
    cases hs : scanFields directoryFields directoryCheck [] ms with
    | error e => rfl
    | ok fs =>
      obtain ⟨h1, h2⟩ := scan_lookup _ _ _ _ _ hs
      rw [isOk_directoryBuild,
        isOk_opt fs "meta" rMeta directoryCheck h1 (by intro v; simp [directoryCheck]),
        isOk_req fs "newNonce" rString directoryCheck h1 (by intro v; simp [directoryCheck]),
        isOk_req fs "newAccount" rString directoryCheck h1 (by intro v; simp [directoryCheck]),
        isOk_req fs "newOrder" rString directoryCheck h1 (by intro v; simp [directoryCheck]),
        isOk_opt fs "newAuthz" rString directoryCheck h1 (by intro v; simp [directoryCheck]),
        isOk_req fs "revokeCert" rString directoryCheck h1 (by intro v; simp [directoryCheck]),
        isOk_req fs "keyChange" rString directoryCheck h1 (by intro v; simp [directoryCheck]),
        h2 "newNonce" (by decide), h2 "newAccount" (by decide), h2 "newOrder" (by decide),
        h2 "revokeCert" (by decide), h2 "keyChange" (by decide)]
      simp [directoryRequired, Bool.and_assoc]
  | .arr xs =>
    simp only [rDirectory, validDirectory]
    have hq := isOk_seqCheck false [fun j => unit (rOpt rMeta j), fun j => unit (rString j),
        fun j => unit (rString j), fun j => unit (rString j), fun j => unit (rOpt rString j),
        fun j => unit (rString j), fun j => unit (rString j)] xs
    simp only [List.map_cons, List.map_nil, fun_optStr, fun_optMeta, fun_str] at hq
    rw [← hq]
    cases hs : seqCheck false [fun j => unit (rOpt rMeta j), fun j => unit (rString j),
        fun j => unit (rString j), fun j => unit (rString j), fun j => unit (rOpt rString j),
        fun j => unit (rString j), fun j => unit (rString j)] xs with
    | error e => rfl
    | ok u =>
      rw [hs] at hq
      have hl := elementsOk_length _ _ hq.symm
      match xs, hl with
      | [a, b, c, d, e, f, g], _ =>
        simp_all [elementsOk, orNull, isOk_directoryBuild, isOk_rOpt, isOk_rString, isOk_rMeta]

/-! ### Account -/

theorem isOk_rValue (rem : Nat) (j : J) : isOk (rValue rem j) = strictOk rem j := by
  unfold rValue strictOk
  cases strictErr rem j <;> rfl

theorem isOk_accountBuild (s : R String) (c : R (Option (List String))) (t : R (Option Bool))
    (x : R (Option J)) (o : R (Option String)) :
    isOk (accountBuild s c t x o) = (isOk s && isOk c && isOk t && isOk x && isOk o) := by
  unfold accountBuild
  repeat' split
  all_goals simp_all

theorem isOk_accountCheck (rem : Nat) (k : String) (v : J) :
    isOk (accountCheck rem k v) = accountMemberOk rem k v := by
  unfold accountCheck accountMemberOk
  repeat' split
  all_goals simp [isOk_rOpt, isOk_rString, isOk_rBool, isOk_rValue, orNull, isOk_rList _ _ isOk_rString]

theorem fun_optValue (rem : Nat) :
    (fun j => isOk (unit (rOpt (rValue rem) j))) = orNull (strictOk rem) := by
  funext j; simp [isOk_rOpt, isOk_rValue, orNull]

theorem isOk_rAccount (rem : Nat) (j : J) : isOk (rAccount rem j) = validAccount rem j := by
  match j with
  | .null | .bool _ | .num _ | .str _ => simp [rAccount, validAccount]
  | .obj ms =>
    simp only [rAccount, validAccount]
    rw [← scan_isOk_membersOk accountFields (accountCheck rem) (accountMemberOk rem) (isOk_accountCheck rem)]
    cases hs : scanFields accountFields (accountCheck rem) [] ms with
    | error e => rfl
    | ok fs =>
      obtain ⟨h1, h2⟩ := scan_lookup _ _ _ _ _ hs
      rw [isOk_accountBuild,
        isOk_req fs "status" rString (accountCheck rem) h1 (by intro v; simp [accountCheck]),
        isOk_opt fs "contact" (rList rString) (accountCheck rem) h1 (by intro v; simp [accountCheck]),
        isOk_opt fs "termsOfServiceAgreed" rBool (accountCheck rem) h1 (by intro v; simp [accountCheck]),
        isOk_opt fs "externalAccountBinding" (rValue (rem - 1)) (accountCheck rem) h1
          (by intro v; simp [accountCheck]),
        isOk_opt fs "orders" rString (accountCheck rem) h1 (by intro v; simp [accountCheck]),
        h2 "status" (by decide)]
      simp
  | .arr xs =>
    simp only [rAccount, validAccount]
    have hq := isOk_seqCheck false [fun j => unit (rString j), fun j => unit (rOpt (rList rString) j),
        fun j => unit (rOpt rBool j), fun j => unit (rOpt (rValue (rem - 1)) j),
        fun j => unit (rOpt rString j)] xs
    simp only [List.map_cons, List.map_nil, fun_optStr, fun_optListStr, fun_optBool, fun_str,
      fun_optValue] at hq
    rw [← hq]
    cases hs : seqCheck false [fun j => unit (rString j), fun j => unit (rOpt (rList rString) j),
        fun j => unit (rOpt rBool j), fun j => unit (rOpt (rValue (rem - 1)) j),
        fun j => unit (rOpt rString j)] xs with
    | error e => rfl
    | ok u =>
      rw [hs] at hq
      have hl := elementsOk_length _ _ hq.symm
      match xs, hl with
      | [a, b, c, d, e], _ =>
        simp_all [elementsOk, orNull, isOk_accountBuild, isOk_rOpt, isOk_rString, isOk_rBool, isOk_rValue,
          isOk_rList _ _ isOk_rString]

/-! ### Challenges -/

theorem isOk_tokenBuild (u : R String) (s : R (Option ChalStatus)) (va : R (Option String))
    (er : R (Option Problem)) (t : R String) :
    isOk (tokenBuild u s va er t) = (isOk u && isOk s && isOk va && isOk er && isOk t) := by
  unfold tokenBuild
  repeat' split
  all_goals simp_all

theorem isOk_tokenCheck (k : String) (v : J) : isOk (tokenCheck k v) = tokenMemberOk k v := by
  unfold tokenCheck tokenMemberOk
  repeat' split
  all_goals simp [isOk_rOpt, isOk_rString, isOk_rChalStatus, isOk_rProblemC, orNull]

theorem isOk_rTokenMap (ms : List (List Char × J)) :
    isOk (rTokenMap ms) =
      (membersOk tokenFields tokenMemberOk ms && present "url" ms && present "token" ms) := by
  unfold rTokenMap
  rw [← scan_isOk_membersOk tokenFields tokenCheck tokenMemberOk isOk_tokenCheck]
  cases hs : scanFields tokenFields tokenCheck [] ms with
  | error e => rfl
  | ok fs =>
    obtain ⟨h1, h2⟩ := scan_lookup _ _ _ _ _ hs
    rw [isOk_tokenBuild,
      isOk_req fs "url" rString tokenCheck h1 (by intro v; simp [tokenCheck]),
      isOk_opt fs "status" rChalStatus tokenCheck h1 (by intro v; simp [tokenCheck]),
      isOk_opt fs "validated" rString tokenCheck h1 (by intro v; simp [tokenCheck]),
      isOk_opt fs "error" rProblemC tokenCheck h1 (by intro v; simp [tokenCheck]),
      isOk_req fs "token" rString tokenCheck h1 (by intro v; simp [tokenCheck]),
      h2 "url" (by decide), h2 "token" (by decide)]
    simp

theorem fun_optChalStatus :
    (fun j => isOk (unit (rOpt rChalStatus j))) = orNull (isWord true chalStatusNames) := by
  funext j; simp [isOk_rOpt, isOk_rChalStatus, orNull]

theorem fun_optProblemC : (fun j => isOk (unit (rOpt rProblemC j))) = orNull validProblemC := by
  funext j; simp [isOk_rOpt, isOk_rProblemC, orNull]

theorem isOk_rTokenSeq (xs : List J) :
    isOk (rTokenSeq xs) =
      elementsOk [isStr, orNull (isWord true chalStatusNames), orNull isStr, orNull validProblemC, isStr] xs := by
  unfold rTokenSeq
  have hq := isOk_seqCheck true [fun j => unit (rString j), fun j => unit (rOpt rChalStatus j),
      fun j => unit (rOpt rString j), fun j => unit (rOpt rProblemC j), fun j => unit (rString j)] xs
  simp only [List.map_cons, List.map_nil, fun_optStr, fun_optChalStatus, fun_optProblemC, fun_str] at hq
  rw [← hq]
  cases hs : seqCheck true [fun j => unit (rString j), fun j => unit (rOpt rChalStatus j),
      fun j => unit (rOpt rString j), fun j => unit (rOpt rProblemC j), fun j => unit (rString j)] xs with
  | error e => rfl
  | ok u =>
    rw [hs] at hq
    have hl := elementsOk_length _ _ hq.symm
    match xs, hl with
    | [a, b, c, d, e], _ =>
      simp_all [elementsOk, orNull, isOk_tokenBuild, isOk_rOpt, isOk_rString, isOk_rChalStatus,
        isOk_rProblemC]

theorem tagOfName_isSome (s : String) :
    (tagOfName s).isSome = ["http-01", "dns-01", "tls-alpn-01"].contains s := by
  unfold tagOfName
  by_cases h1 : s = "http-01"
  · simp [h1]
  · by_cases h2 : s = "dns-01"
    · simp [h2]
    · by_cases h3 : s = "tls-alpn-01"
      · simp [h3]
      · simp [h1, h2, h3]

theorem isOk_rTag (v : J) : isOk (rTag v) = isStr v := by
  cases v <;> simp [rTag, isStr]
  split <;> simp_all

theorem rTag_str_none (raw : List Char) (h : decodeStr raw = none) :
    rTag (.str raw) = .error .badString := by
  simp [rTag, h]

theorem rTag_str_some (raw cs : List Char) (h : decodeStr raw = some cs) :
    rTag (.str raw) = .ok (tagOfName (String.ofList cs)) := by
  simp [rTag, h]

theorem isTokenType_some (raw cs : List Char) (h : decodeStr raw = some cs) :
    isTokenType raw = (tagOfName (String.ofList cs)).isSome := by
  simp [isTokenType, decodesTo, h, tagOfName_isSome]

/-- What `challengeOfTag` accepts. -/
theorem isOk_challengeOfTag (v : J) (token : R TokenChallenge) (unknownOk : Bool) :
    isOk (challengeOfTag v token unknownOk) =
      match v with
      | .str raw => (decodeStr raw).isSome && (if isTokenType raw then isOk token else unknownOk)
      | _ => false := by
  unfold challengeOfTag
  cases v with
  | str raw =>
    simp only
    cases hd : decodeStr raw with
    | none => simp [rTag_str_none raw hd]
    | some cs =>
      rw [rTag_str_some raw cs hd, isTokenType_some raw cs hd]
      cases tagOfName (String.ofList cs) with
      | none => cases unknownOk <;> simp
      | some mk => simp
  | null => simp [rTag]
  | bool b => simp [rTag]
  | num n => simp [rTag]
  | arr xs => simp [rTag]
  | obj ms => simp [rTag]

theorem isTypeKey_eq (kv : List Char × J) : isTypeKey kv = (keyOf kv == some "type") := rfl

/-- What the buffering of a challenge object demands of one member. -/
def bufferedOk (r : Nat) (kv : List Char × J) : Bool :=
  if isTypeKey kv then isStr kv.2 else strictOk r kv.2

theorem bufferCheck_isNone (r : Nat) (seen : Bool) (ms : List (List Char × J)) :
    (bufferCheck r seen ms).isNone =
      (keysDecodable ms && ms.all (bufferedOk r) &&
        decide (occurrences "type" ms + (if seen then 1 else 0) ≤ 1)) := by
  induction ms generalizing seen with
  | nil => cases seen <;> simp [bufferCheck, keysDecodable, occurrences]
  | cons kv ms ih =>
    obtain ⟨k, v⟩ := kv
    simp only [bufferCheck, keysDecodable, List.all_cons, occurrences_cons, bufferedOk]
    cases hk : decodeStr k with
    | none => simp [keyOf, hk]
    | some kc =>
      have hko : (keyOf (k, v)).isSome = true := by simp [keyOf, hk]
      simp only [hko, Bool.true_and]
      by_cases ht : isTypeKey (k, v) = true
      · have ht' : (keyOf (k, v) == some "type") = true := ht
        simp only [ht, ht', if_true]
        cases seen with
        | true =>
          simp only [if_true, Option.isNone_some]
          have : ¬ (1 + occurrences "type" ms + 1 ≤ 1) := by omega
          simp [this]
        | false =>
          simp only [Bool.false_eq_true, if_false]
          rw [← isOk_rTag]
          cases hr : rTag v with
          | error e => simp
          | ok t =>
            have := ih true
            simp only [keysDecodable, if_true] at this
            simp only [this, isOk_ok, Bool.true_and, Nat.add_zero]
            have e : (1 + occurrences "type" ms ≤ 1) = (occurrences "type" ms + 1 ≤ 1) := by
              rw [Nat.add_comm]
            simp [e]
      · have ht0 : isTypeKey (k, v) = false := by simpa using ht
        have ht' : (keyOf (k, v) == some "type") = false := ht0
        simp only [ht0, ht', Bool.false_eq_true, if_false, Nat.zero_add, strictOk]
        cases hs : strictErr r v with
        | some e => simp
        | none =>
          have := ih seen
          simp only [keysDecodable] at this
          simp [this]

theorem find_typeKey_none (ms : List (List Char × J)) (h : ms.find? isTypeKey = none) :
    occurrences "type" ms = 0 := by
  induction ms with
  | nil => rfl
  | cons kv ms ih =>
    simp only [List.find?_cons] at h
    cases ht : isTypeKey kv with
    | true => simp [ht] at h
    | false =>
      simp only [ht] at h
      have ht' : (keyOf kv == some "type") = false := ht
      simp [occurrences_cons, ht', ih h]

theorem find_typeKey_some (ms : List (List Char × J)) (kv : List Char × J)
    (h : ms.find? isTypeKey = some kv) :
    kv ∈ ms ∧ isTypeKey kv = true ∧ 1 ≤ occurrences "type" ms := by
  induction ms with
  | nil => simp at h
  | cons kv' ms ih =>
    simp only [List.find?_cons] at h
    cases ht : isTypeKey kv' with
    | true =>
      simp only [ht, Option.some.injEq] at h
      subst h
      have ht' : (keyOf kv' == some "type") = true := ht
      refine ⟨by simp, ht, ?_⟩
      simp [occurrences_cons, ht']
    | false =>
      simp only [ht] at h
      obtain ⟨a, b, c⟩ := ih h
      refine ⟨by simp [a], b, ?_⟩
      rw [occurrences_cons]
      omega

theorem isOk_rChallenge (rem : Nat) (j : J) : isOk (rChallenge rem j) = validChallenge rem j := by
  match j with
  | .null | .bool _ | .num _ | .str _ => simp [rChallenge, validChallenge]
  | .obj ms =>
    simp only [rChallenge, validChallenge]
    by_cases hrem : rem ≤ 1
    · have : ¬ (2 ≤ rem) := by omega
      simp [hrem, this]
    · have h2 : 2 ≤ rem := by omega
      simp only [hrem, if_false, h2, decide_true, Bool.true_and]
      have hb := bufferCheck_isNone (rem - 1) false ms
      simp only [Bool.false_eq_true, if_false, Nat.add_zero] at hb
      have hall : ms.all (bufferedOk (rem - 1)) =
          ms.all fun kv => if isTypeKey kv then isStr kv.2 else strictOk (rem - 1) kv.2 := rfl
      cases hc : bufferCheck (rem - 1) false ms with
      | some e =>
        rw [hc] at hb
        simp only [Option.isNone_some] at hb
        rw [← hall]
        clear hall
        cases hk : keysDecodable ms
        · simp
        · cases ha : ms.all (bufferedOk (rem - 1))
          · simp
          · simp only [hk, ha, Bool.true_and] at hb
            have hne : occurrences "type" ms ≠ 1 := by
              intro e
              rw [e] at hb
              simp at hb
            simp [hne]
      | none =>
        rw [hc] at hb
        simp only [Option.isNone_none] at hb
        have hb := hb.symm
        simp only [Bool.and_eq_true, decide_eq_true_eq] at hb
        obtain ⟨⟨hk, ha⟩, ho⟩ := hb
        rw [← hall, hk, ha]
        simp only [Bool.true_and, Bool.and_true]
        cases hf : ms.find? isTypeKey with
        | none =>
          have := find_typeKey_none ms hf
          simp [this]
        | some kv =>
          obtain ⟨k, v⟩ := kv
          obtain ⟨hm, ht, h1⟩ := find_typeKey_some ms (k, v) hf
          have ho1 : occurrences "type" ms = 1 := by omega
          have hv := (List.all_eq_true.mp ha) (k, v) hm
          simp only [bufferedOk, ht, if_true] at hv
          simp only [ho1, decide_true, Bool.true_and, isOk_challengeOfTag, isOk_rTokenMap]
          cases v with
          | str raw =>
            simp only [isStr] at hv
            simp only [hv, Bool.true_and]
            cases isTokenType raw <;> simp
          | null => simp [isStr] at hv
          | bool b => simp [isStr] at hv
          | num n => simp [isStr] at hv
          | arr xs => simp [isStr] at hv
          | obj ms' => simp [isStr] at hv
  | .arr xs =>
    match xs with
    | [] => by_cases hrem : rem ≤ 1 <;> simp [rChallenge, validChallenge, hrem]
    | t :: rest =>
      simp only [rChallenge]
      by_cases hrem : rem ≤ 1
      · have : ¬ (2 ≤ rem) := by omega
        cases t <;> simp [validChallenge, hrem, this]
      · have h2 : 2 ≤ rem := by omega
        simp only [hrem, if_false]
        have hfs : ∀ (l : List J), (firstStrictErr (rem - 1) l).isNone = l.all (strictOk (rem - 1)) := by
          intro l
          induction l with
          | nil => rfl
          | cons x l ih =>
            simp only [firstStrictErr, List.all_cons, strictOk]
            cases strictErr (rem - 1) x with
            | some e => simp
            | none => simpa [strictOk] using ih
        cases t with
        | str raw =>
          simp only [validChallenge, h2, decide_true, Bool.true_and]
          cases hd : decodeStr raw with
          | none => simp [rTag_str_none raw hd]
          | some cs =>
            rw [rTag_str_some raw cs hd]
            simp only [Option.isSome_some, Bool.true_and]
            rw [← hfs rest]
            cases hf : firstStrictErr (rem - 1) rest with
            | some e => simp
            | none =>
              simp only [Option.isNone_none, Bool.true_and, isOk_challengeOfTag, hd, Option.isSome_some,
                isOk_rTokenSeq]
        | null => simp [rTag, validChallenge]
        | bool b => simp [rTag, validChallenge]
        | num n => simp [rTag, validChallenge]
        | arr xs => simp [rTag, validChallenge]
        | obj ms => simp [rTag, validChallenge]

/-! ### Authorizations -/

theorem isOk_authzBuild (i : R Identifier) (s : R AuthzStatus) (ex : R (Option String))
    (ch : R (List Challenge)) (w : R (Option Bool)) :
    isOk (authzBuild i s ex ch w) = (isOk i && isOk s && isOk ex && isOk ch && isOk w) := by
  unfold authzBuild
  repeat' split
  all_goals simp_all

theorem isOk_authzCheck (rem : Nat) (k : String) (v : J) :
    isOk (authzCheck rem k v) = authzMemberOk rem k v := by
  unfold authzCheck authzMemberOk
  repeat' split
  all_goals simp [isOk_rOpt, isOk_rString, isOk_rBool, isOk_rIdentifier, isOk_rAuthzStatus, orNull,
    isOk_rList _ _ (isOk_rChallenge (rem - 2))]

theorem fun_identifier : (fun j => isOk (unit (rIdentifier j))) = validIdentifier := by
  funext j; simp [isOk_rIdentifier]

theorem fun_authzStatus : (fun j => isOk (unit (rAuthzStatus j))) = isWord false authzStatusNames := by
  funext j; simp [isOk_rAuthzStatus]

theorem fun_listChallenge (rem : Nat) :
    (fun j => isOk (unit (rList (rChallenge rem) j))) = isList (validChallenge rem) := by
  funext j; simp [isOk_rList _ _ (isOk_rChallenge rem)]

theorem isOk_rAuthorization (rem : Nat) (j : J) :
    isOk (rAuthorization rem j) = validAuthorization rem j := by
  match j with
  | .null | .bool _ | .num _ | .str _ => simp [rAuthorization, validAuthorization]
  | .obj ms =>
    simp only [rAuthorization, validAuthorization]
    rw [← scan_isOk_membersOk authzFields (authzCheck rem) (authzMemberOk rem) (isOk_authzCheck rem)]
    cases hs : scanFields authzFields (authzCheck rem) [] ms with
    | error e => rfl
    | ok fs =>
      obtain ⟨h1, h2⟩ := scan_lookup _ _ _ _ _ hs
      rw [isOk_authzBuild,
        isOk_req fs "identifier" rIdentifier (authzCheck rem) h1 (by intro v; simp [authzCheck]),
        isOk_req fs "status" rAuthzStatus (authzCheck rem) h1 (by intro v; simp [authzCheck]),
        isOk_opt fs "expires" rString (authzCheck rem) h1 (by intro v; simp [authzCheck]),
        isOk_req fs "challenges" (rList (rChallenge (rem - 2))) (authzCheck rem) h1
          (by intro v; simp [authzCheck]),
        isOk_opt fs "wildcard" rBool (authzCheck rem) h1 (by intro v; simp [authzCheck]),
        h2 "identifier" (by decide), h2 "status" (by decide), h2 "challenges" (by decide)]
      simp [authzRequired, Bool.and_assoc]
  | .arr xs =>
    simp only [rAuthorization, validAuthorization]
    have hq := isOk_seqCheck false [fun j => unit (rIdentifier j), fun j => unit (rAuthzStatus j),
        fun j => unit (rOpt rString j), fun j => unit (rList (rChallenge (rem - 2)) j),
        fun j => unit (rOpt rBool j)] xs
    simp only [List.map_cons, List.map_nil, fun_optStr, fun_identifier, fun_authzStatus, fun_listChallenge,
      fun_optBool] at hq
    rw [← hq]
    cases hs : seqCheck false [fun j => unit (rIdentifier j), fun j => unit (rAuthzStatus j),
        fun j => unit (rOpt rString j), fun j => unit (rList (rChallenge (rem - 2)) j),
        fun j => unit (rOpt rBool j)] xs with
    | error e => rfl
    | ok u =>
      rw [hs] at hq
      have hl := elementsOk_length _ _ hq.symm
      match xs, hl with
      | [a, b, c, d, e], _ =>
        simp_all [elementsOk, orNull, isOk_authzBuild, isOk_rOpt, isOk_rString, isOk_rBool,
          isOk_rIdentifier, isOk_rAuthzStatus, isOk_rList _ _ (isOk_rChallenge (rem - 2))]

/-! ### From the text -/

theorem isOk_fromText (p : J → R α) (q : J → Bool) (h : ∀ j, isOk (p j) = q j) (s : String) :
    isOk (fromText p s) = match lex s with
      | some j => q j
      | none => false := by
  unfold fromText fromChars lex
  cases lexChars s.toList with
  | none => rfl
  | some j => exact h j

/-- The step's reading of the body succeeds exactly on the bodies the specification calls well-formed. -/
theorem bodyParses_eq_validBody (aw : Awaited) (body : String) : bodyParses aw body = validBody aw body := by
  cases aw with
  | raw => rfl
  | directory =>
    simp only [bodyParses, validBody, parseDirectory, isOk_fromText _ _ isOk_rDirectory]
    cases lex body <;> rfl
  | account =>
    simp only [bodyParses, validBody, parseAccountResponse, isOk_fromText _ _ (isOk_rAccount 128)]
    cases lex body <;> rfl
  | order =>
    simp only [bodyParses, validBody, parseOrder, isOk_fromText _ _ isOk_rOrder]
    cases lex body <;> rfl
  | authorization =>
    simp only [bodyParses, validBody, parseAuthorization, isOk_fromText _ _ (isOk_rAuthorization 128)]
    cases lex body <;> rfl

/-! ### Unknown members -/

/-- A member whose (decodable) name the struct does not know changes nothing in the scan. -/
theorem scan_unknown_member (known : List String) (check : String → J → R Unit) (seen : List String)
    (ms1 ms2 : List (List Char × J)) (k kc : List Char) (v : J)
    (hk : decodeStr k = some kc) (hu : known.contains (String.ofList kc) = false) :
    scanFields known check seen (ms1 ++ (k, v) :: ms2) = scanFields known check seen (ms1 ++ ms2) := by
  induction ms1 generalizing seen with
  | nil =>
    have hu' : ¬ String.ofList kc ∈ known := by simpa using hu
    simp [scanFields, hk, hu']
  | cons kv ms1 ih =>
    obtain ⟨k', v'⟩ := kv
    simp only [List.cons_append, scanFields]
    cases decodeStr k' with
    | none => rfl
    | some kc' =>
      simp only
      split
      · split
        · rfl
        · cases check (String.ofList kc') v' with
          | error e => rfl
          | ok u => simp only; rw [ih]
      · exact ih seen

end AcmedVerif.AcmeObj
