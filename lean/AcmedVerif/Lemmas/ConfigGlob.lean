/-
Lemmas for Props/C14Compose.lean: the loader of Model/Config instantiated with the resolver of Model/Glob
(Model/ConfigGlob.lean).
-/
import AcmedVerif.Model.ConfigGlob
import AcmedVerif.Lemmas.Config
import AcmedVerif.Lemmas.GlobCnf
import AcmedVerif.Lemmas.GlobTree
import AcmedVerif.Spec.C14
import AcmedVerif.Spec.C14Glob

namespace AcmedVerif.ConfigGlob
open AcmedVerif.Config AcmedVerif.Spec.C14
open AcmedVerif.Glob (Str Listing)

/-! ## `files`: entry `i` of the contents is the file with id `i` -/

theorem lookupFile_filesFrom (cs : Contents) : ∀ (n p : Nat),
    lookupFile (filesFrom n cs) p = if p < n then none else (cs[p - n]?).map (·.2) := by
  induction cs with
  | nil => intro n p; simp [filesFrom, lookupFile]
  | cons e es ih =>
    intro n p
    have ih' := ih (n + 1) p
    simp only [lookupFile] at ih'
    simp only [filesFrom, lookupFile, List.find?_cons]
    by_cases h : n = p
    · subst h; simp
    · have hb : (n == p) = false := by simpa using h
      simp only [hb]
      rw [ih']
      by_cases h1 : p < n
      · have h2 : p < n + 1 := by omega
        simp [h1, h2]
      · have h2 : ¬ p < n + 1 := by omega
        have h3 : p - n = (p - (n + 1)) + 1 := by omega
        simp [h1, h2, h3]

theorem lookupFile_files (cs : Contents) (p : Nat) : lookupFile (files cs) p = (cs[p]?).map (·.2) := by
  simpa [files] using lookupFile_filesFrom cs 0 p

theorem filesFrom_length (cs : Contents) : ∀ n, (filesFrom n cs).length = cs.length := by
  induction cs with
  | nil => intro n; rfl
  | cons e es ih => intro n; simp [filesFrom, ih]

theorem files_length (cs : Contents) : (files cs).length = cs.length := filesFrom_length cs 0

/-- A file the loader finds is an entry of the contents. -/
theorem lookupFile_files_some {cs : Contents} {p : Nat} {fc : FileContent Str}
    (h : lookupFile (files cs) p = some fc) : ∃ e, cs[p]? = some e ∧ e.2 = fc ∧ e ∈ cs ∧ p < cs.length := by
  rw [lookupFile_files] at h
  cases he : cs[p]? with
  | none => simp [he] at h
  | some e =>
    simp only [he, Option.map_some, Option.some.injEq] at h
    obtain ⟨hlt, hget⟩ := List.getElem?_eq_some_iff.mp he
    exact ⟨e, rfl, h, hget ▸ List.getElem_mem hlt, hlt⟩

/-- The ids at and above `cs.length` are no files. -/
theorem lookupFile_files_ge (cs : Contents) (p : Nat) (h : cs.length ≤ p) : lookupFile (files cs) p = none := by
  rw [lookupFile_files, List.getElem?_eq_none h]; rfl

/-! ## Ids -/

theorem idOf_le (cs : Contents) (loc : Loc) : idOf cs loc ≤ cs.length := List.findIdx_le_length

/-- The entry an id found by `idOf` points to has that canonical path. -/
theorem idOf_getElem {cs : Contents} {loc : Loc} {e : Loc × FileContent Str} (h : cs[idOf cs loc]? = some e) :
    e.1 = loc := by
  obtain ⟨hlt, hget⟩ := List.getElem?_eq_some_iff.mp h
  have := List.findIdx_getElem (p := fun e : Loc × FileContent Str => e.1 == loc) (xs := cs) (w := hlt)
  unfold idOf at hget
  rw [hget] at this
  simpa using this

theorem idOfPath_le (L : Listing) (cs : Contents) (p : Str) : idOfPath L cs p ≤ cs.length := by
  unfold idOfPath
  split
  · exact idOf_le cs _
  · exact Nat.le_refl _

/-- The entry `idOfPath` points to is the file the path canonicalises to. -/
theorem idOfPath_getElem {L : Listing} {cs : Contents} {p : Str} {e : Loc × FileContent Str}
    (h : cs[idOfPath L cs p]? = some e) : canon L p = some e.1 := by
  unfold idOfPath at h
  split at h
  · rename_i loc hc
    rw [hc, idOf_getElem h]
  · simp [missingId] at h

/-- Every id `get_cnf_path` can produce is an id of a path it returned, or one of the two markers. -/
theorem mem_idsOfResult {L : Listing} {cs : Contents} {r : Glob.GlobResult} {q : Path} (h : q ∈ idsOfResult L cs r) :
    (∃ ps t, r = .paths ps ∧ t ∈ ps ∧ q = idOfPath L cs t) ∨ q = badPatternId cs ∨ (q = fuelId cs ∧ r = .outOfFuel) := by
  cases r with
  | paths ps =>
    simp only [idsOfResult, List.mem_map] at h
    obtain ⟨t, ht, rfl⟩ := h
    exact .inl ⟨ps, t, rfl, ht, rfl⟩
  | patternError e => simp only [idsOfResult, List.mem_singleton] at h; exact .inr (.inl h)
  | notAbsolute => simp only [idsOfResult, List.mem_singleton] at h; exact .inr (.inl h)
  | outOfFuel => simp only [idsOfResult, List.mem_singleton] at h; exact .inr (.inr ⟨h, rfl⟩)

/-! ## `readCnf` depends on its resolver only through the includes of the files it finds -/

theorem flatMap_congr' {α β : Type} {f g : α → List β} : ∀ (l : List α), (∀ x ∈ l, f x = g x) →
    l.flatMap f = l.flatMap g := by
  intro l
  induction l with
  | nil => intro _; rfl
  | cons a t ih =>
    intro h
    simp only [List.flatMap_cons]
    rw [h a (by simp), ih (fun x hx => h x (List.mem_cons_of_mem _ hx))]

theorem readCnf_congr {π : Type} (files : Files π) (r1 r2 : Path → π → List Path)
    (h : ∀ p fc pat, lookupFile files p = some fc → pat ∈ fc.includes → r1 p pat = r2 p pat) :
    ∀ fuel depth path loaded, readCnf files r1 fuel depth path loaded = readCnf files r2 fuel depth path loaded := by
  intro fuel
  induction fuel with
  | zero =>
    intro depth path loaded
    rw [readCnf_eq, readCnf_eq files r2]
  | succ fuel ih =>
    intro depth path loaded
    rw [readCnf_eq, readCnf_eq files r2]
    cases hf : lookupFile files path with
    | none => rfl
    | some fc =>
      have hinc : includePaths r1 path fc = includePaths r2 path fc :=
        flatMap_congr' _ (fun pat hp => h path fc pat hf hp)
      have hrec : readCnf files r1 fuel (depth + 1) = readCnf files r2 fuel (depth + 1) :=
        funext fun p => funext fun l => ih (depth + 1) p l
      simp only [hinc, hrec]

/-! ## Where a "file not found" comes from -/

theorem includeLoop_error_origin {rec : Path → List Path → Except Err (Config × List Path)} :
    ∀ ps cfg l e, includeLoop rec ps cfg l = .error e → ∃ p ∈ ps, ∃ l', rec p l' = .error e := by
  intro ps
  induction ps with
  | nil => intro cfg l e h; simp [includeLoop] at h
  | cons q ps ih =>
    intro cfg l e h
    simp only [includeLoop] at h
    cases hq : rec q l with
    | error e' =>
      simp only [hq, Except.error.injEq] at h
      subst h; exact ⟨q, by simp, l, hq⟩
    | ok res =>
      simp only [hq] at h
      obtain ⟨p, hp, l', hl'⟩ := ih _ _ _ h
      exact ⟨p, List.mem_cons_of_mem _ hp, l', hl'⟩

/-- The id `q` is one the resolver returned for an include of a file the loader found. -/
def Resolved {π : Type} (files : Files π) (resolve : Path → π → List Path) (q : Path) : Prop :=
  ∃ p fc pat, lookupFile files p = some fc ∧ pat ∈ fc.includes ∧ q ∈ resolve p pat

theorem readCnf_notFound_origin {π : Type} (files : Files π) (resolve : Path → π → List Path) (q : Path) :
    ∀ fuel depth path loaded, readCnf files resolve fuel depth path loaded = .error (.fileNotFound q) →
      q = path ∨ Resolved files resolve q := by
  intro fuel
  induction fuel with
  | zero =>
    intro depth path loaded he
    rw [readCnf_eq] at he
    cases hf : lookupFile files path with
    | none => simp only [hf, Except.error.injEq, Err.fileNotFound.injEq] at he; exact .inl he.symm
    | some fc =>
      by_cases hd : depth > maxIncludeDepth
      · simp [hf, hd] at he
      · by_cases hm : path ∈ loaded
        · simp [hf, hd, hm] at he
        · simp [hf, hd, hm] at he
  | succ fuel ih =>
    intro depth path loaded he
    rw [readCnf_eq] at he
    cases hf : lookupFile files path with
    | none => simp only [hf, Except.error.injEq, Err.fileNotFound.injEq] at he; exact .inl he.symm
    | some fc =>
      by_cases hd : depth > maxIncludeDepth
      · simp [hf, hd] at he
      · by_cases hm : path ∈ loaded
        · simp [hf, hd, hm] at he
        · simp only [hf, hd, hm, if_false] at he
          obtain ⟨p, hp, l', hl'⟩ := includeLoop_error_origin _ _ _ _ he
          rcases ih (depth + 1) p l' hl' with rfl | hr
          · right
            simp only [includePaths, List.mem_flatMap] at hp
            obtain ⟨pat, hpat, hq⟩ := hp
            exact ⟨path, fc, pat, hf, hpat, hq⟩
          · exact .inr hr

/-! ## Loading the tree with its includes resolved beforehand -/

theorem lookupFile_resolvedFrom (L : Listing) (cs : Contents) (gfuel : Nat) (es : Contents) : ∀ (n p : Nat),
    lookupFile (resolvedFrom L cs gfuel n es) p =
      if p < n then none
      else (es[p - n]?).map fun e => reInclude e.2 (e.2.includes.map (resolveIds L cs gfuel p)) := by
  induction es with
  | nil => intro n p; simp [resolvedFrom, lookupFile]
  | cons e es ih =>
    intro n p
    have ih' := ih (n + 1) p
    simp only [lookupFile] at ih'
    simp only [resolvedFrom, lookupFile, List.find?_cons]
    by_cases h : n = p
    · subst h; simp
    · have hb : (n == p) = false := by simpa using h
      simp only [hb]
      rw [ih']
      by_cases h1 : p < n
      · have h2 : p < n + 1 := by omega
        simp [h1, h2]
      · have h2 : ¬ p < n + 1 := by omega
        have h3 : p - n = (p - (n + 1)) + 1 := by omega
        simp [h1, h2, h3]

theorem lookupFile_resolvedTree (L : Listing) (cs : Contents) (gfuel : Nat) (p : Nat) :
    lookupFile (resolvedTree L cs gfuel) p =
      (lookupFile (files cs) p).map fun fc => reInclude fc (fc.includes.map (resolveIds L cs gfuel p)) := by
  rw [lookupFile_files]
  have := lookupFile_resolvedFrom L cs gfuel cs 0 p
  simp only [Nat.not_lt_zero, if_false, Nat.sub_zero] at this
  rw [resolvedTree, this]
  cases cs[p]? <;> rfl

/-- Resolving every include first and then loading with the identity resolver is loading with the resolver. -/
theorem readCnf_preresolved {π : Type} (files : Files π) (resolve : Path → π → List Path)
    (files' : Files (List Path))
    (h : ∀ p, lookupFile files' p =
      (lookupFile files p).map fun fc => reInclude fc (fc.includes.map (resolve p))) :
    ∀ fuel depth path loaded,
      readCnf files' (fun _ ps => ps) fuel depth path loaded = readCnf files resolve fuel depth path loaded := by
  intro fuel
  induction fuel with
  | zero =>
    intro depth path loaded
    rw [readCnf_eq, readCnf_eq files resolve, h path]
    cases lookupFile files path <;> rfl
  | succ fuel ih =>
    intro depth path loaded
    rw [readCnf_eq, readCnf_eq files resolve, h path]
    cases hf : lookupFile files path with
    | none => rfl
    | some fc =>
      have hinc : includePaths (fun _ ps => ps) path (reInclude fc (fc.includes.map (resolve path))) =
          includePaths resolve path fc := by
        simp [includePaths, reInclude, List.flatMap_map]
      have hrec : readCnf files' (fun _ ps => ps) fuel (depth + 1) = readCnf files resolve fuel (depth + 1) :=
        funext fun p => funext fun l => ih (depth + 1) p l
      simp only [Option.map_some, hinc, hrec]
      rfl

/-! ## Reading the files in `order` one include at a time -/

/-- `q` is included by `p`: the resolver returns `q` for one of the includes of the file `p`. -/
def Includes {π : Type} (files : Files π) (resolve : Path → π → List Path) (p q : Path) : Prop :=
  ∃ fc, lookupFile files p = some fc ∧ q ∈ includePaths resolve p fc

/-- A property that holds of the work list and is passed on along includes holds of every file read. -/
theorem DfsList.induct {π : Type} {files : Files π} {resolve : Path → π → List Path} (P : Path → Prop)
    (hstep : ∀ p q, P p → Includes files resolve p q → P q) :
    ∀ {todo visited new : List Path}, DfsList files resolve todo visited new → (∀ t ∈ todo, P t) →
      ∀ x ∈ new, P x := by
  intro todo visited new hd
  induction hd with
  | nil visited => intro _ x hx; simp at hx
  | skip _ _ ih => intro ht x hx; exact ih (fun t h => ht t (List.mem_cons_of_mem _ h)) x hx
  | @visit p ps visited n₁ n₂ fc hnv hf _ _ ih₁ ih₂ =>
    intro ht x hx
    have hp : P p := ht p (by simp)
    simp only [List.mem_cons, List.mem_append] at hx
    rcases hx with (rfl | hx) | hx
    · exact hp
    · exact ih₁ (fun t h => hstep p t hp ⟨fc, hf, h⟩) x hx
    · exact ih₂ (fun t h => ht t (List.mem_cons_of_mem _ h)) x hx

/-! ## The fuel of the walk -/

open AcmedVerif.Glob in
/-- Two fuels give the same answer of `glob` unless one of them is exhausted. -/
theorem glob_fuel_cases (fs : FsView) (f1 f2 : Nat) (p : Str) :
    glob fs f1 p = glob fs f2 p ∨ glob fs f1 p = .outOfFuel ∨ glob fs f2 p = .outOfFuel := by
  unfold glob
  cases Pattern.new p with
  | error e => left; rfl
  | ok _ =>
    simp only
    by_cases ha : (p.head? != some '/') = true
    · left; simp [ha]
    · simp only [ha]
      cases hd : dirPatterns p with
      | error e => left; rfl
      | ok pats =>
        simp only
        cases h1 : run fs (p.getLast? == some '/') f1 (fillTodo fs pats (fromPath fs ['/'])) [] with
        | none => right; left; rfl
        | some p1 =>
          cases h2 : run fs (p.getLast? == some '/') f2 (fillTodo fs pats (fromPath fs ['/'])) [] with
          | none => right; right; rfl
          | some p2 => left; rw [run_fuel_irrelevant fs _ f1 f2 _ p1 p2 h1 h2]

theorem globEnds_iff (L : Listing) (cs : Contents) (gfuel : Nat) :
    globEnds L cs gfuel = true ↔
      ∀ e ∈ cs, ∀ pat ∈ e.2.includes, Glob.resolve L.view gfuel (dirText e.1.dropLast) pat ≠ .outOfFuel := by
  simp [globEnds, List.all_eq_true]

/-- With fuel enough for every pattern of the contents the resolver does not depend on the fuel. -/
theorem resolveIds_fuel (L : Listing) (cs : Contents) (f1 f2 : Nat) (h1 : globEnds L cs f1 = true)
    (h2 : globEnds L cs f2 = true) (p : Path) (fc : FileContent Str) (pat : Str)
    (hf : lookupFile (files cs) p = some fc) (hp : pat ∈ fc.includes) :
    resolveIds L cs f1 p pat = resolveIds L cs f2 p pat := by
  obtain ⟨e, he, hfc, hmem, _⟩ := lookupFile_files_some hf
  subst hfc
  have n1 := (globEnds_iff L cs f1).mp h1 e hmem pat hp
  have n2 := (globEnds_iff L cs f2).mp h2 e hmem pat hp
  unfold resolveIds
  simp only [he]
  unfold Glob.resolve at n1 n2 ⊢
  rcases glob_fuel_cases L.view f1 f2 (Glob.cnfPattern (dirText e.1.dropLast) pat) with h | h | h
  · rw [h]
  · exact absurd h n1
  · exact absurd h n2

/-! ## Path resolution in a listing without symbolic links -/

section Walk
open AcmedVerif.Glob
open AcmedVerif.Spec.C14Glob (withSep inDir)

/-- No entry of the listing is a symbolic link. -/
def noLinks (L : Listing) : Bool :=
  L.all fun d => d.2.entries.all fun e => match e.2 with | .link _ => false | _ => true

theorem walkComps_nil (L : Listing) (cur : Node) : walkComps L true cur [] = some cur := by
  simp [walkComps]

theorem walkComps_cons (L : Listing) (cur : Node) (c : Str) (cs : List Str) :
    walkComps L true cur (c :: cs) = (walkComp L true cur c).bind fun n => walkComps L true n cs := by
  cases cs with
  | nil => simp only [walkComps]; cases walkComp L true cur c <;> simp
  | cons d ds => simp only [walkComps]; cases walkComp L true cur c <;> rfl

theorem walkComps_append (L : Listing) : ∀ (a b : List Str) (cur : Node),
    walkComps L true cur (a ++ b) = (walkComps L true cur a).bind fun n => walkComps L true n b := by
  intro a
  induction a with
  | nil => intro b cur; simp [walkComps_nil]
  | cons c cs ih =>
    intro b cur
    rw [List.cons_append, walkComps_cons, walkComps_cons]
    cases walkComp L true cur c with
    | none => rfl
    | some n => simp [ih]

/-- One component, no links: the walk stays (an empty component or `.`), goes up (`..`), or appends the name. -/
theorem walkComp_nolinks (L : Listing) (hnl : noLinks L = true) (cur n : Node) (c : Str)
    (h : walkComp L true cur c = some n) :
    (n = cur ∧ (c = [] ∨ c = ['.'])) ∨ c = ['.', '.'] ∨ n.loc = cur.loc ++ [c] := by
  unfold walkComp at h
  split at h
  · simp at h
  · split at h
    · rename_i hc
      simp only [Option.some.injEq] at h
      exact .inl ⟨h.symm, .inl (by simpa using hc)⟩
    · split at h
      · simp at h
      · rename_i info hinfo
        split at h
        · simp at h
        · split at h
          · rename_i hc
            simp only [Option.some.injEq] at h
            exact .inl ⟨h.symm, .inr (by simpa using hc)⟩
          · split at h
            · rename_i hc
              exact .inr (.inl (by simpa using hc))
            · split at h
              · simp at h
              · simp only [Option.some.injEq] at h; subst h; exact .inr (.inr rfl)
              · simp only [Option.some.injEq] at h; subst h; exact .inr (.inr rfl)
              · rename_i t ht
                exfalso
                have hm := lookup_mem _ _ _ hinfo
                have he := lookup_mem _ _ _ ht
                simp only [noLinks, List.all_eq_true] at hnl
                have := hnl _ hm _ he
                simp at this

theorem walkComps_prefix (L : Listing) (hnl : noLinks L = true) : ∀ (cs : List Str) (cur n : Node),
    (∀ c ∈ cs, c ≠ ['.', '.']) → walkComps L true cur cs = some n → cur.loc <+: n.loc := by
  intro cs
  induction cs with
  | nil =>
    intro cur n _ h
    rw [walkComps_nil] at h
    simp only [Option.some.injEq] at h; subst h; exact List.prefix_refl _
  | cons c cs ih =>
    intro cur n hdd h
    rw [walkComps_cons] at h
    cases h1 : walkComp L true cur c with
    | none => simp [h1] at h
    | some n1 =>
      simp only [h1, Option.bind_some] at h
      have h2 := ih n1 n (fun x hx => hdd x (List.mem_cons_of_mem _ hx)) h
      rcases walkComp_nolinks L hnl cur n1 c h1 with ⟨rfl, _⟩ | hc | hl
      · exact h2
      · exact absurd hc (hdd c (by simp))
      · exact (hl ▸ List.prefix_append cur.loc [c]).trans h2

theorem walkComps_valid (L : Listing) (hnl : noLinks L = true) : ∀ (ds : List Str) (cur n : Node),
    (∀ c ∈ ds, validName c = true) → walkComps L true cur ds = some n → n.loc = cur.loc ++ ds := by
  intro ds
  induction ds with
  | nil =>
    intro cur n _ h
    rw [walkComps_nil] at h
    simp only [Option.some.injEq] at h; subst h; simp
  | cons c cs ih =>
    intro cur n hv h
    rw [walkComps_cons] at h
    cases h1 : walkComp L true cur c with
    | none => simp [h1] at h
    | some n1 =>
      simp only [h1, Option.bind_some] at h
      have h2 := ih n1 n (fun x hx => hv x (List.mem_cons_of_mem _ hx)) h
      have hc := hv c (by simp)
      rcases walkComp_nolinks L hnl cur n1 c h1 with ⟨_, h0 | h0⟩ | h0 | hl
      · exact absurd h0 (validName_ne_nil hc)
      · exact absurd h0 (validName_ne_dot hc)
      · exact absurd h0 (validName_ne_dotdot hc)
      · rw [h2, hl]; simp

/-- Without links and without a `..` component, a path written inside the directory `d` canonicalises below `d`. -/
theorem canon_below_nolinks (L : Listing) (hnl : noLinks L = true) (d : Loc) (hv : ∀ c ∈ d, validName c = true)
    (t : Str) (hin : inDir (dirText d) t = true) (hdd : ∀ c ∈ splitSep t, c ≠ ['.', '.']) (q : Loc)
    (hc : canon L t = some q) : d <+: q := by
  rcases List.eq_nil_or_concat d with rfl | ⟨d', c, hd⟩
  · exact List.nil_prefix
  · rw [List.concat_eq_append] at hd
    subst hd
    have hp : ∀ e ∈ d' ++ [c], Proper e := fun e he => Proper.of_valid (hv e he)
    have hp' : ∀ e ∈ d', Proper e := fun e he => hp e (by simp [he])
    have hdt : dirText (d' ++ [c]) = chain (d' ++ [c]) := by simp [dirText, chain]
    -- the text is `/` followed by something whose pieces are the components of `d` and then more
    have hsplit : ∃ X more, t = '/' :: X ∧ splitSep X = (d' ++ [c]) ++ more ∧ ∀ x ∈ more, x ∈ splitSep X := by
      rw [inDir_iff, hdt] at hin
      rcases hin with rfl | hpre
      · refine ⟨tailOf d' c, [], ?_, ?_, by simp⟩
        · rw [chain_append_singleton, chain_sep_eq]
        · rw [splitSep_tailOf d' hp', splitSep_noSep (hp c (by simp)).2]; simp
      · have hl : (chain (d' ++ [c])).getLast? ≠ some '/' := chain_getLast' _ (by simp) hp
        have hw : withSep (chain (d' ++ [c])) = chain (d' ++ [c]) ++ ['/'] := by
          unfold withSep
          have : ((chain (d' ++ [c])).getLast? == some '/') = false := by simpa using hl
          simp [this]
        rw [hw] at hpre
        obtain ⟨r, rfl⟩ := hpre
        refine ⟨tailOf (d' ++ [c]) r, splitSep r, ?_, ?_, ?_⟩
        · rw [List.append_assoc, List.singleton_append, chain_sep_eq]
        · rw [splitSep_tailOf _ hp]
        · intro x hx; rw [splitSep_tailOf _ hp]; exact List.mem_append_right _ hx
    obtain ⟨X, more, rfl, hX, hmore⟩ := hsplit
    unfold canon statPath at hc
    simp only at hc
    rw [hX, walkComps_append] at hc
    cases h1 : walkComps L true ⟨[], true⟩ (d' ++ [c]) with
    | none => simp [h1] at hc
    | some n1 =>
      simp only [h1, Option.bind_some, Option.map_eq_some_iff] at hc
      obtain ⟨n, hn, rfl⟩ := hc
      have hl1 : n1.loc = d' ++ [c] := by
        simpa using walkComps_valid L hnl (d' ++ [c]) ⟨[], true⟩ n1 hv h1
      have hddm : ∀ x ∈ more, x ≠ ['.', '.'] := by
        intro x hx
        apply hdd
        have : splitSep ('/' :: X) = [] :: splitSep X := by simp [splitSep, isSep]
        rw [this]
        exact List.mem_cons_of_mem _ (hmore x hx)
      exact hl1 ▸ walkComps_prefix L hnl more n1 n hddm hn

end Walk

/-! ## Decidable conditions on a concrete input (what the harness's listing and contents satisfy) -/

/-- Every include of every file is a relative path or pattern. -/
def relativeOnly (cs : Contents) : Bool := cs.all fun e => e.2.includes.all fun pat => pat.head? != some '/'

/-- The canonical paths of the contents are made of proper names (not empty, no separator, not `.` or `..`). -/
def properKeys (cs : Contents) : Bool := cs.all fun e => e.1.all Glob.validName

/-- No decodable file is a directory of the listing. -/
def filesNotDirs (L : Listing) (cs : Contents) : Bool := cs.all fun e => (L.lookup e.1).isNone

/-- No path `get_cnf_path` returns for an include of the contents has a `..` component. -/
def dotdotFree (L : Listing) (cs : Contents) (gfuel : Nat) : Bool :=
  cs.all fun e => e.2.includes.all fun pat =>
    match Glob.resolve L.view gfuel (dirText e.1.dropLast) pat with
    | .paths ps => ps.all fun t => (Glob.splitSep t).all (· != ['.', '.'])
    | _ => true

theorem relativeOnly_iff (cs : Contents) :
    relativeOnly cs = true ↔ ∀ e ∈ cs, ∀ pat ∈ e.2.includes, pat.head? ≠ some '/' := by
  simp [relativeOnly, List.all_eq_true]

theorem properKeys_iff (cs : Contents) :
    properKeys cs = true ↔ ∀ e ∈ cs, ∀ c ∈ e.1, Glob.validName c = true := by
  simp [properKeys, List.all_eq_true]

theorem filesNotDirs_iff (L : Listing) (cs : Contents) :
    filesNotDirs L cs = true ↔ ∀ e ∈ cs, L.lookup e.1 = none := by
  simp [filesNotDirs, List.all_eq_true]

theorem dotdotFree_spec (L : Listing) (cs : Contents) (gfuel : Nat) (h : dotdotFree L cs gfuel = true) :
    ∀ e ∈ cs, ∀ pat ∈ e.2.includes, ∀ ps, Glob.resolve L.view gfuel (dirText e.1.dropLast) pat = .paths ps →
      ∀ t ∈ ps, ∀ c ∈ Glob.splitSep t, c ≠ ['.', '.'] := by
  intro e he pat hp ps hres t ht c hc
  simp only [dotdotFree, List.all_eq_true] at h
  have := h e he pat hp
  rw [hres] at this
  simp only [List.all_eq_true] at this
  simpa using this t ht c hc

end AcmedVerif.ConfigGlob
