/- Lemmas about Model/Glob.lean: what a relative include resolves to depends on the file system only through
what lies inside the including file's directory (and on whether that directory is reached at all). -/
import AcmedVerif.Lemmas.GlobTree

namespace AcmedVerif.Glob
open AcmedVerif.Spec.C14Glob (withSep inDir)

/-! ## Two file systems that agree inside a directory -/

/-- The two views answer alike for every path inside `q`. -/
structure AgreeIn (fs1 fs2 : FsView) (q : Str) : Prop where
  isDir : ∀ p, InDir q p → fs1.isDir p = fs2.isDir p
  pathExists : ∀ p, InDir q p → fs1.pathExists p = fs2.pathExists p
  readDir : ∀ p, InDir q p → fs1.readDir p = fs2.readDir p

section Agree
variable (fs1 fs2 : FsView) (hwf : fs1.WF) (q : Str) (hq : q ≠ []) (hag : AgreeIn fs1 fs2 q)

include hwf hq hag in
theorem fillTodo_agree : ∀ (pats : List Pattern) (path : PathW), Lit pats → InDir q path.path →
    fillTodo fs1 pats path = fillTodo fs2 pats path := by
  intro pats
  induction pats with
  | nil => intro path _ _; rfl
  | cons pat rest ih =>
    intro path hl hin
    have hj : ∀ s : Str, s.head? ≠ some '/' → InDir q (joinPath path.path s) := fun s hs => InDir.join hq hin hs
    have hfp : ∀ s : Str, s.head? ≠ some '/' → fromPath fs1 (joinPath path.path s) = fromPath fs2 (joinPath path.path s) := by
      intro s hs; simp [fromPath, hag.isDir _ (hj s hs)]
    have hadd : ∀ s : Str, s.head? ≠ some '/' →
        addNext rest (fillTodo fs1 rest) (fromPath fs1 (joinPath path.path s)) =
        addNext rest (fillTodo fs2 rest) (fromPath fs2 (joinPath path.path s)) := by
      intro s hs
      rw [hfp s hs]
      unfold addNext
      split
      · rfl
      · exact ih _ hl.tail (by simpa [fromPath] using hj s hs)
    simp only [fillTodo]
    split
    · rename_i s hs
      have hs' := hl pat (by simp) s hs
      rw [hag.pathExists _ (hj s hs'), hadd s hs']
    · rw [hag.readDir _ hin]
      split
      · split
        · rename_i entries he
          have he1 : fs1.readDir path.path = some entries := by rw [hag.readDir _ hin]; exact he
          have hch : (sortAsc entries).map (fun e => Item.ok (fromDirEntry fs1 (joinPath path.path e.1) e.2) (some (pat :: rest)))
              = (sortAsc entries).map (fun e => Item.ok (fromDirEntry fs2 (joinPath path.path e.1) e.2) (some (pat :: rest))) := by
            apply List.map_congr_left
            intro e hemem
            have hv := hwf.names _ _ he1 e ((mem_sortAsc e entries).1 hemem)
            have := hag.isDir _ (hj e.1 (head_ne_sep_of_noSep (validName_noSep hv)))
            cases e.2 <;> simp [fromDirEntry, this]
          rw [hch, hadd ['.', '.'] (by simp), hadd ['.'] (by simp)]
        · rfl
      · rfl

include hwf hq hag in
theorem matchNormally_agree (rd : Bool) (path : PathW) (pats : List Pattern) (hl : Lit pats) (hin : InDir q path.path) :
    matchNormally fs1 rd path pats = matchNormally fs2 rd path pats := by
  unfold matchNormally
  split
  · rfl
  · rename_i pat rest
    rw [fillTodo_agree fs1 fs2 hwf q hq hag rest path hl.tail hin]

include hwf hq hag in
theorem step_agree (rd : Bool) (it : Item) (hit : ItemIn q it) : step fs1 rd it = step fs2 rd it := by
  cases it with
  | err => rfl
  | ok path opats =>
    cases opats with
    | none => rfl
    | some pats =>
      obtain ⟨hl, hin⟩ := hit
      cases pats with
      | nil => rfl
      | cons pat rest =>
        simp only [step]
        split
        · split
          · rfl
          · rename_i nextPat after hcol
            have hlc : Lit (nextPat :: after) := by rw [← hcol]; exact hl.collapse
            rw [fillTodo_agree fs1 fs2 hwf q hq hag _ path hlc hin,
              matchNormally_agree fs1 fs2 hwf q hq hag rd path after hlc.tail hin]
        · exact matchNormally_agree fs1 fs2 hwf q hq hag rd path _ hl hin

include hwf hq hag in
/-- A traversal that stays inside `q` is the same traversal in both views. -/
theorem outs_agree (rd : Bool) {todo : List Item} {o : List Str} (h : Outs fs1 rd todo o) :
    (∀ it ∈ todo, ItemIn q it) → Outs fs2 rd todo o := by
  induction h with
  | nil => intro _; exact .nil
  | cons _ _ ih2 ih3 =>
    rename_i it todo o2 o3 _ _
    intro hall
    have hit := hall it (by simp)
    have hs := step_in fs1 hwf q hq rd it hit
    have he := step_agree fs1 fs2 hwf q hq hag rd it hit
    have h2 := ih2 hs.2
    have h3 := ih3 (fun it' h' => hall it' (List.mem_cons_of_mem _ h'))
    rw [he] at h2 ⊢
    exact .cons h2 h3

end Agree

/-! ## The way to the directory: nothing, or what the walk from the directory returns -/

section Chain
variable (fs : FsView) (hwf : fs.WF) (rd : Bool) (cs : List Str) (hv : ∀ c ∈ cs, validName c = true)
  (fpats : List Pattern) (hf : Lit fpats)

/-- What is on the stack when the walk has arrived at the directory itself. -/
def finalItems : List Item :=
  if fpats.isEmpty then [Item.ok ⟨absDir cs, fs.isDir (absDir cs)⟩ none]
  else fillTodo fs fpats ⟨absDir cs, fs.isDir (absDir cs)⟩

/-- Nothing, or what the walk from the directory returns. -/
def ViaDir (o : List Str) : Prop := o = [] ∨ Outs fs rd (finalItems fs cs fpats) o

/-- The entry of the parent directory that IS the directory says "directory" exactly when `metadata` does
(true of a real file system; needed only for the last step, where the flag is handed to the include's walk). -/
def LastTypeOk : Prop :=
  ∀ (k : Nat) (hk : k + 1 = cs.length) (es : List (Str × EntryType)) (t : EntryType),
    fs.readDir (absDir (cs.take k)) = some es → (cs[k]'(by omega), t) ∈ es →
    (fromDirEntry fs (absDir cs) t).isDirectory = fs.isDir (absDir cs)

theorem outs_all_nil {fs : FsView} {rd : Bool} : ∀ (todo : List Item) (o : List Str), Outs fs rd todo o →
    (∀ it ∈ todo, step fs rd it = ([], [])) → o = [] := by
  intro todo o h
  induction h with
  | nil => intro _; rfl
  | @cons it todo o2 o3 h2 _ _ ih3 =>
    intro hall
    have hs := hall it (by simp)
    rw [hs] at h2 ⊢
    rw [h2.nil_inv, ih3 (fun it' h' => hall it' (List.mem_cons_of_mem _ h'))]
    rfl

theorem step_none_snd (fs : FsView) (rd : Bool) (p : PathW) : (step fs rd (Item.ok p none)).2 = [] := by
  simp only [step]; split <;> rfl

/-- The directory itself, when it is what the include names (`dir/`). -/
theorem outs_final_emit (fs : FsView) (rd : Bool) (cs : List Str) (fpats : List Pattern) (hfe : fpats = []) :
    ViaDir fs rd cs fpats (if (!rd || fs.isDir (absDir cs)) = true then [absDir cs] else []) := by
  by_cases hc : (!rd || fs.isDir (absDir cs)) = true
  · rw [if_pos hc]
    right
    unfold finalItems
    simp only [hfe, List.isEmpty_nil, if_true]
    have := Outs.cons (fs := fs) (rd := rd) (it := Item.ok ⟨absDir cs, fs.isDir (absDir cs)⟩ none)
      (todo := []) (o2 := []) (o3 := []) (by rw [step_none_snd]; exact .nil) .nil
    have h1 : (step fs rd (Item.ok ⟨absDir cs, fs.isDir (absDir cs)⟩ none)).1 = [absDir cs] := by
      simp only [step]
      cases hrd : rd <;> cases hd : fs.isDir (absDir cs) <;> simp_all
    rw [h1] at this
    simpa using this
  · rw [if_neg hc]; left; rfl

include hwf hv in
theorem chain_outs (hlt : LastTypeOk fs cs) : ∀ (j k : Nat) (path : PathW), j + k = cs.length →
    path.path = absDir (cs.take k) → (k = cs.length → path.isDirectory = fs.isDir (absDir cs)) →
    ∀ o, Outs fs rd (fillTodo fs ((cs.drop k).map escPattern ++ fpats) path) o → ViaDir fs rd cs fpats o := by
  intro j
  induction j with
  | zero =>
    intro k path hk hp hflag o h
    have hk' : k = cs.length := by omega
    subst hk'
    simp only [List.drop_length, List.map_nil, List.nil_append] at h
    have hpe : path = ⟨absDir cs, fs.isDir (absDir cs)⟩ := by
      cases path with
      | mk pp pd =>
        have h1 : pp = absDir cs := by simpa using hp
        have h2 : pd = fs.isDir (absDir cs) := hflag rfl
        rw [h1, h2]
    unfold ViaDir finalItems
    cases hfe : fpats with
    | nil => left; rw [hfe] at h; simp [fillTodo] at h; exact h.nil_inv
    | cons a b => right; rw [hfe] at h; simp [← hpe]; exact h
  | succ j ih =>
    intro k path hk hp _ o h
    have hklt : k < cs.length := by omega
    have hdrop : cs.drop k = cs[k] :: cs.drop (k + 1) := List.drop_eq_getElem_cons hklt
    have hvk : validName cs[k] = true := hv _ (List.getElem_mem hklt)
    have hvt : ∀ c ∈ cs.take k, validName c = true := fun c hc => hv c (List.mem_of_mem_take hc)
    have htake : cs.take (k + 1) = cs.take k ++ [cs[k]] := take_succ_getElem cs k hklt
    have hnext : joinPath path.path cs[k] = absDir (cs.take (k + 1)) := by
      rw [hp, htake]; exact joinPath_absDir_comp _ hvt _ hvk
    have hlast : cs.drop (k + 1) = [] → k + 1 = cs.length := by
      intro h0
      have hld : (cs.drop (k + 1)).length = cs.length - (k + 1) := List.length_drop
      rw [h0] at hld; simp at hld; omega
    have hfull : k + 1 = cs.length → absDir (cs.take (k + 1)) = absDir cs := by
      intro h0; rw [h0, List.take_length]
    rw [hdrop] at h
    simp only [List.map_cons, List.cons_append, fillTodo] at h
    -- what happens once the next component is found
    have hfound : ∀ (pw : PathW), pw.path = absDir (cs.take (k + 1)) →
        (k + 1 = cs.length → pw.isDirectory = fs.isDir (absDir cs)) →
        ((cs.drop (k + 1)).map escPattern ++ fpats).isEmpty = false →
        ∀ o, Outs fs rd (fillTodo fs ((cs.drop (k + 1)).map escPattern ++ fpats) pw) o → ViaDir fs rd cs fpats o :=
      fun pw hpw hfl _ o h' => ih (k + 1) pw (by omega) hpw hfl o h'
    have hemit : ((cs.drop (k + 1)).map escPattern ++ fpats).isEmpty = true →
        k + 1 = cs.length ∧ fpats = [] := by
      intro hemp
      cases hdr : cs.drop (k + 1) with
      | nil => simp [hdr] at hemp; exact ⟨hlast hdr, hemp⟩
      | cons a b => simp [hdr] at hemp
    split at h
    · rename_i s hs
      have hsk : s = cs[k] := patternAsStr_escPattern hs
      subst hsk
      have hnd : (cs[k] == ['.']) = false := by simpa using validName_ne_dot hvk
      have hndd : (cs[k] == ['.', '.']) = false := by simpa using validName_ne_dotdot hvk
      simp only [hnd, hndd, Bool.or_self, Bool.false_and, Bool.not_false, Bool.true_and, Bool.false_or] at h
      split at h
      · unfold addNext at h
        split at h
        · rename_i hemp
          obtain ⟨hkn, hfe⟩ := hemit hemp
          right
          unfold finalItems
          simp only [hfe, List.isEmpty_nil, if_true]
          simp only [fromPath, hnext, hfull hkn] at h
          exact h
        · rename_i hemp
          exact hfound _ (by simp [fromPath, hnext]) (fun hkn => by simp [fromPath, hnext, hfull hkn])
            (by simpa using hemp) o h
      · left; exact h.nil_inv
    · split at h
      · split at h
        · rename_i entries he
          -- no special entry is matched by an escaped proper name
          have hsp : ∀ a b : List Item, (if ((escPattern cs[k]).tokens.head? == some (Token.char '.')) = true then
              (if (escPattern cs[k]).matches ['.', '.'] = true then a else []) ++
              (if (escPattern cs[k]).matches ['.'] = true then b else []) else []) = [] := by
            intro a b
            have h1 : (escPattern cs[k]).matches ['.', '.'] = false := by
              cases hm : (escPattern cs[k]).matches ['.', '.'] with
              | false => rfl
              | true => exact absurd ((escPattern_matches _ _).1 hm).symm (validName_ne_dotdot hvk)
            have h2 : (escPattern cs[k]).matches ['.'] = false := by
              cases hm : (escPattern cs[k]).matches ['.'] with
              | false => rfl
              | true => exact absurd ((escPattern_matches _ _).1 hm).symm (validName_ne_dot hvk)
            simp [h1, h2]
          rw [hsp, List.nil_append] at h
          -- the entries, one after the other
          have hstep : ∀ e : Str × EntryType, validName e.1 = true →
              step fs rd (Item.ok (fromDirEntry fs (joinPath path.path e.1) e.2)
                (some (escPattern cs[k] :: ((cs.drop (k + 1)).map escPattern ++ fpats)))) =
              if e.1 = cs[k] then
                (if ((cs.drop (k + 1)).map escPattern ++ fpats).isEmpty then
                  (if !rd || (fromDirEntry fs (joinPath path.path e.1) e.2).isDirectory then ([joinPath path.path e.1], []) else ([], []))
                 else ([], fillTodo fs ((cs.drop (k + 1)).map escPattern ++ fpats) (fromDirEntry fs (joinPath path.path e.1) e.2)))
              else ([], []) := by
            intro e hve
            have hfn : fileName (fromDirEntry fs (joinPath path.path e.1) e.2).path = some e.1 := by
              rw [fromDirEntry_path, hp, joinPath_absDir _ hvt _ (head_ne_sep_of_noSep (validName_noSep hve))]
              exact fileName_join _ _ hve
            have hnr : (escPattern cs[k]).isRecursive = false := rfl
            simp only [step, hnr, Bool.false_eq_true, if_false, matchNormally, hfn]
            by_cases hm : e.1 = cs[k]
            · have hmt : (escPattern cs[k]).matches e.1 = true := (escPattern_matches _ _).2 hm
              rw [if_pos hmt, if_pos hm, fromDirEntry_path]
            · have hmf : ¬ (escPattern cs[k]).matches e.1 = true := fun hmm => hm ((escPattern_matches _ _).1 hmm)
              rw [if_neg hmf, if_neg hm]
          have hchildren : ∀ (es : List (Str × EntryType)), (∀ e ∈ es, e ∈ sortAsc entries) → (es.map (·.1)).Nodup → ∀ o,
              Outs fs rd (es.map fun e => Item.ok (fromDirEntry fs (joinPath path.path e.1) e.2)
                (some (escPattern cs[k] :: ((cs.drop (k + 1)).map escPattern ++ fpats)))) o →
              ViaDir fs rd cs fpats o := by
            intro es
            induction es with
            | nil => intro _ _ o h'; left; simpa using h'.nil_inv
            | cons e es ihes =>
              intro hsub hnd o h'
              simp only [List.map_cons] at h' hnd
              have hve : validName e.1 = true := hwf.names _ _ he e ((mem_sortAsc e entries).1 (hsub e (by simp)))
              obtain ⟨oa, ob, ha, hb, rfl⟩ := Outs.append_inv [_] _ _ h'
              obtain ⟨o2, h2, rfl⟩ := ha.single_inv
              rw [hstep e hve] at h2 ⊢
              by_cases hm : e.1 = cs[k]
              · -- this is the one; no later entry has the same name
                have hrest : ob = [] := by
                  apply outs_all_nil _ _ hb
                  intro it hit
                  obtain ⟨e', he', rfl⟩ := List.mem_map.1 hit
                  have hve' : validName e'.1 = true :=
                    hwf.names _ _ he e' ((mem_sortAsc e' entries).1 (hsub e' (List.mem_cons_of_mem _ he')))
                  rw [hstep e' hve']
                  have : e'.1 ≠ cs[k] := by
                    intro h0
                    exact (List.nodup_cons.1 hnd).1 (by rw [hm, ← h0]; exact List.mem_map.2 ⟨e', he', rfl⟩)
                  simp [this]
                subst hrest
                rw [if_pos hm] at h2 ⊢
                simp only [List.append_nil]
                have hpw : (fromDirEntry fs (joinPath path.path e.1) e.2).path = absDir (cs.take (k + 1)) := by
                  rw [fromDirEntry_path, hm, hnext]
                have hfl : k + 1 = cs.length →
                    (fromDirEntry fs (joinPath path.path e.1) e.2).isDirectory = fs.isDir (absDir cs) := by
                  intro hkn
                  have := hlt k hkn entries e.2 (by rw [← hp]; exact he)
                    (by rw [← hm]; exact (mem_sortAsc e entries).1 (hsub e (by simp)))
                  have hje : joinPath path.path e.1 = absDir cs := by rw [hm, hnext, hfull hkn]
                  rw [hje]; exact this
                by_cases hemp : ((cs.drop (k + 1)).map escPattern ++ fpats).isEmpty = true
                · rw [if_pos hemp] at h2 ⊢
                  obtain ⟨hkn, hfe⟩ := hemit hemp
                  have hje : joinPath path.path e.1 = absDir cs := by rw [hm, hnext, hfull hkn]
                  have hfin := outs_final_emit fs rd cs fpats hfe
                  by_cases hc : (!rd || (fromDirEntry fs (joinPath path.path e.1) e.2).isDirectory) = true
                  · rw [if_pos hc] at h2 ⊢
                    have h0 : o2 = [] := Outs.nil_inv h2
                    subst h0
                    rw [hfl hkn] at hc
                    rw [if_pos hc] at hfin
                    simpa [hje] using hfin
                  · rw [if_neg hc] at h2 ⊢
                    have h0 : o2 = [] := Outs.nil_inv h2
                    subst h0
                    left; rfl
                · rw [if_neg hemp] at h2 ⊢
                  simp only [List.nil_append]
                  exact hfound _ hpw hfl (by simpa using hemp) o2 h2
              · rw [if_neg hm] at h2 ⊢
                rw [Outs.nil_inv h2]
                simp only [List.nil_append]
                exact ihes (fun x hx => hsub x (List.mem_cons_of_mem _ hx)) (List.nodup_cons.1 hnd).2 ob hb
          exact hchildren (sortAsc entries) (fun e he' => he') (nodup_map_fst_sortAsc _ (hwf.nodup _ _ he)) o h
        · left
          cases h with
          | cons h2 h3 =>
            have e2 := Outs.nil_inv (show Outs fs rd [] _ from h2)
            rw [e2, h3.nil_inv]; simp [step]
      · left; exact h.nil_inv

end Chain

/-- The component patterns of a relative include's pattern: the escaped directory components, then the include's. -/
theorem dirPatterns_cnf (cs : List Str) (hv : ∀ c ∈ cs, validName c = true) (file : Str) (hrel : file.head? ≠ some '/')
    (pats : List Pattern) (h : dirPatterns (cnfPattern (absDir cs) file) = .ok pats) :
    ∃ fpats, Lit fpats ∧ pats = cs.map escPattern ++ fpats := by
  have hproper : ∀ e ∈ cs.map escape, Proper e := by
    intro c hc
    obtain ⟨d, hd, rfl⟩ := List.mem_map.1 hc
    exact (Proper.of_valid (hv d hd)).escape
  rw [cnfPattern_rel cs hv file hrel] at h
  unfold dirPatterns at h
  simp only [List.drop_succ_cons, List.drop_zero] at h
  rw [splitTerminator_tailOf _ hproper, newAll_escape_append] at h
  cases hfc : newAll (splitTerminator file) with
  | error e => simp [hfc] at h
  | ok fp =>
    simp only [hfc] at h
    have hlit : Lit fp := Lit_of_newAll _ (splitTerminator_pieces_noSep file) fp hfc
    simp at h
    split at h
    · exact ⟨fp ++ [Pattern.empty], hlit.append Lit_empty, by rw [← h]⟩
    · exact ⟨fp, hlit, h.symm⟩

/-- Two file systems that answer alike inside the including file's directory `dir` (they may differ in
everything else: the siblings of `dir`, of its ancestors, …) resolve a relative include to the same paths -
unless one of them does not get to `dir` at all, or finds nothing. -/
theorem resolve_agree (fs1 fs2 : FsView) (hwf1 : fs1.WF) (hwf2 : fs2.WF) (cs : List Str)
    (hv : ∀ c ∈ cs, validName c = true) (file : Str) (hrel : file.head? ≠ some '/')
    (hag : AgreeIn fs1 fs2 (absDir cs)) (ht1 : LastTypeOk fs1 cs) (ht2 : LastTypeOk fs2 cs)
    (f1 f2 : Nat) (p1 p2 : List Str)
    (h1 : resolve fs1 f1 (absDir cs) file = .paths p1) (h2 : resolve fs2 f2 (absDir cs) file = .paths p2) :
    p1 = [] ∨ p2 = [] ∨ p1 = p2 := by
  obtain ⟨pats1, hp1, hr1⟩ := glob_paths_run fs1 f1 _ p1 h1
  obtain ⟨pats2, hp2, hr2⟩ := glob_paths_run fs2 f2 _ p2 h2
  rw [hp1] at hp2
  simp at hp2; subst hp2
  obtain ⟨fpats, hlit, rfl⟩ := dirPatterns_cnf cs hv file hrel pats1 hp1
  obtain ⟨o1, ho1, he1⟩ := run_outs _ _ _ _ _ _ hr1
  obtain ⟨o2, ho2, he2⟩ := run_outs _ _ _ _ _ _ hr2
  have e1 : p1 = o1 := by simpa using he1
  have e2 : p2 = o2 := by simpa using he2
  subst e1; subst e2
  have hscope : ∀ fs : FsView, (fromPath fs ['/']).path = absDir (cs.take 0) ∧
      (0 = cs.length → (fromPath fs ['/']).isDirectory = fs.isDir (absDir cs)) := by
    intro fs
    refine ⟨by simp [fromPath, absDir], fun h0 => ?_⟩
    have : cs = [] := List.eq_nil_of_length_eq_zero h0.symm
    subst this; simp [fromPath, absDir]
  have v1 := chain_outs fs1 hwf1 _ cs hv fpats ht1 cs.length 0 _ (by omega) (hscope fs1).1 (hscope fs1).2 p1
    (by simpa using ho1)
  have v2 := chain_outs fs2 hwf2 _ cs hv fpats ht2 cs.length 0 _ (by omega) (hscope fs2).1 (hscope fs2).2 p2
    (by simpa using ho2)
  rcases v1 with v1 | v1
  · exact .inl v1
  rcases v2 with v2 | v2
  · exact .inr (.inl v2)
  right; right
  have hd := absDir_ne_nil cs
  have hflag : fs1.isDir (absDir cs) = fs2.isDir (absDir cs) := hag.isDir _ (InDir.refl _)
  have hitems : ∀ it ∈ finalItems fs1 cs fpats, ItemIn (absDir cs) it := by
    intro it hit
    unfold finalItems at hit
    split at hit
    · simp at hit; subst hit; exact InDir.refl _
    · exact fillTodo_in fs1 hwf1 _ hd fpats _ hlit (InDir.refl _) it hit
  have hsame : finalItems fs1 cs fpats = finalItems fs2 cs fpats := by
    unfold finalItems
    rw [hflag]
    split
    · rfl
    · exact fillTodo_agree fs1 fs2 hwf1 _ hd hag fpats _ hlit (InDir.refl _)
  have v1' := outs_agree fs1 fs2 hwf1 _ hd hag _ v1 hitems
  rw [hsame] at v1'
  exact v1'.det v2

/-- What a relative include resolves to: nothing, or what the walk started AT the directory, with the include's
own component patterns, returns. -/
theorem resolve_viaDir (fs : FsView) (hwf : fs.WF) (cs : List Str) (hv : ∀ c ∈ cs, validName c = true) (file : Str)
    (hrel : file.head? ≠ some '/') (ht : LastTypeOk fs cs) (fuel : Nat) (ps : List Str)
    (h : resolve fs fuel (absDir cs) file = .paths ps) :
    ∃ fpats rd, Lit fpats ∧ ViaDir fs rd cs fpats ps := by
  obtain ⟨pats, hp, hr⟩ := glob_paths_run fs fuel _ ps h
  obtain ⟨fpats, hlit, rfl⟩ := dirPatterns_cnf cs hv file hrel pats hp
  obtain ⟨o, ho, he⟩ := run_outs _ _ _ _ _ _ hr
  have e1 : ps = o := by simpa using he
  subst e1
  refine ⟨fpats, _, hlit, chain_outs fs hwf _ cs hv fpats ht cs.length 0 (fromPath fs ['/']) (by omega) (by simp [fromPath, absDir]) ?_ ps
    (by simpa using ho)⟩
  intro h0
  have : cs = [] := List.eq_nil_of_length_eq_zero h0.symm
  subst this; simp [fromPath, absDir]

/-! ## Forgetting everything that is not on the way -/

/-- The same file system with every directory OUTSIDE `dir` stripped of all entries that are not a component of
`dir`: no siblings of `dir`, none of its ancestors'. -/
def pruneOutside (fs : FsView) (cs : List Str) : FsView where
  isDir := fs.isDir
  pathExists := fs.pathExists
  readDir p := if inDir (absDir cs) p then fs.readDir p else (fs.readDir p).map (·.filter fun e => cs.contains e.1)

theorem pruneOutside_agree (fs : FsView) (cs : List Str) : AgreeIn fs (pruneOutside fs cs) (absDir cs) := by
  refine ⟨fun _ _ => rfl, fun _ _ => rfl, fun p hp => ?_⟩
  simp only [pruneOutside, (inDir_iff _ _).2 hp, if_true]

theorem pruneOutside_readDir (fs : FsView) (cs : List Str) (p : Str) (es : List (Str × EntryType))
    (h : (pruneOutside fs cs).readDir p = some es) : ∃ es0, fs.readDir p = some es0 ∧ es.Sublist es0 := by
  simp only [pruneOutside] at h
  split at h
  · exact ⟨es, h, List.Sublist.refl _⟩
  · cases h0 : fs.readDir p with
    | none => simp [h0] at h
    | some es0 =>
      simp [h0] at h; subst h
      exact ⟨es0, rfl, List.filter_sublist⟩

theorem pruneOutside_wf (fs : FsView) (hwf : fs.WF) (cs : List Str) : (pruneOutside fs cs).WF := by
  constructor
  · intro p es h e he
    obtain ⟨es0, h0, hsub⟩ := pruneOutside_readDir fs cs p es h
    exact hwf.names p es0 h0 e (hsub.mem he)
  · intro p es h
    obtain ⟨es0, h0, hsub⟩ := pruneOutside_readDir fs cs p es h
    exact (hwf.nodup p es0 h0).sublist (hsub.map _)

theorem pruneOutside_lastTypeOk (fs : FsView) (cs : List Str) (ht : LastTypeOk fs cs) : LastTypeOk (pruneOutside fs cs) cs := by
  intro k hk es t h hm
  obtain ⟨es0, h0, hsub⟩ := pruneOutside_readDir fs cs _ es h
  have := ht k hk es0 t h0 (hsub.mem hm)
  have he : fromDirEntry (pruneOutside fs cs) (absDir cs) t = fromDirEntry fs (absDir cs) t := by cases t <;> rfl
  rw [he]; exact this

end AcmedVerif.Glob
