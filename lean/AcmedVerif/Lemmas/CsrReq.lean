/-
Lemmas about `Model/CsrReq.lean`: the name loop, `to_generic`, the digest table.
-/
import AcmedVerif.Model.CsrReq

namespace AcmedVerif.CsrReq

/-- The name loop either refuses or returns exactly what it was given. -/
theorem buildName_eq (o : Ossl) : ∀ (l n : List (Attr × List Char)), buildName o l = some n → n = l
  | [], n, h => by simp [buildName] at h; exact h
  | (a, v) :: rest, n, h => by
    unfold buildName at h
    by_cases he : o.entryOk a v = true
    · simp only [he, if_true] at h
      cases hr : buildName o rest with
      | none => rw [hr] at h; cases h
      | some m =>
        rw [hr] at h
        cases h
        rw [buildName_eq o rest m hr]
    · simp only [he] at h; cases h

/-- It returns iff OpenSSL accepts every entry. -/
theorem buildName_isSome (o : Ossl) : ∀ l : List (Attr × List Char),
    (buildName o l).isSome = l.all fun p => o.entryOk p.1 p.2
  | [] => rfl
  | (a, v) :: rest => by
    unfold buildName
    by_cases he : o.entryOk a v = true
    · simp only [he, if_true, List.all_cons, Bool.true_and]
      rw [← buildName_isSome o rest]
      cases buildName o rest <;> rfl
    · simp only [he, List.all_cons]
      simp

/-- Inversion of `Csr.new`. -/
theorem Csr.new_some {o : Ossl} {kp : KeyPair} {d : Hash} {dom ips : List (List Char)}
    {sa : List (Attr × List Char)} {c : Csr} (h : Csr.new o kp d dom ips sa = some c) :
    c.pubkey = kp.id ∧ c.signedBy = kp.id ∧ c.sanDns = dom ∧ c.sanIp = ips ∧
    c.md = getDigest d kp.keyType ∧
    c.subject = (if sa.isEmpty then [] else o.iter sa) ∧
    o.sanOk dom ips = true ∧ o.signOk kp.id (getDigest d kp.keyType) = true := by
  unfold Csr.new at h
  have key : ∀ name, (if !sa.isEmpty then buildName o (o.iter sa) else some []) = some name →
      name = (if sa.isEmpty then [] else o.iter sa) := by
    intro name hn
    cases hs : sa.isEmpty
    · rw [hs] at hn
      simp only [Bool.not_false, if_true] at hn
      simpa using buildName_eq o _ _ hn
    · rw [hs] at hn
      simp at hn
      simp [hn]
  cases hn : (if !sa.isEmpty then buildName o (o.iter sa) else some []) with
  | none => rw [hn] at h; cases h
  | some name =>
    rw [hn] at h
    simp only at h
    by_cases h1 : o.sanOk dom ips = true
    · by_cases h2 : o.signOk kp.id (getDigest d kp.keyType) = true
      · simp only [h1, h2, if_true] at h
        cases h
        exact ⟨rfl, rfl, rfl, rfl, rfl, key name hn, h1, h2⟩
      · simp only [h1, h2, if_true] at h
        cases h
    · simp only [h1] at h
      cases h

/-- `to_generic` lists every attribute at most once … -/
theorem toGeneric_keys_nodup (s : SubjectCfg) : ((toGeneric s).map (·.1)).Nodup := by
  have hall : Attr.all.Nodup := by decide
  have hsub : ((toGeneric s).map (·.1)).Sublist Attr.all := by
    unfold toGeneric
    generalize Attr.all = l
    induction l with
    | nil => exact List.Sublist.slnil
    | cons a tl ih =>
      rw [List.filterMap_cons]
      cases s a with
      | none => exact List.Sublist.cons _ ih
      | some v => exact List.Sublist.cons_cons _ ih
  exact hsub.nodup hall

theorem mem_attr_all (a : Attr) : a ∈ Attr.all := by cases a <;> decide

/-- … and holds exactly the configured pairs. -/
theorem mem_toGeneric (s : SubjectCfg) (a : Attr) (v : List Char) :
    (a, v) ∈ toGeneric s ↔ s a = some v := by
  unfold toGeneric
  rw [List.mem_filterMap]
  constructor
  · rintro ⟨b, _, hb⟩
    cases hsb : s b with
    | none => rw [hsb] at hb; cases hb
    | some w =>
      rw [hsb] at hb
      simp only [Option.map_some, Option.some.injEq, Prod.mk.injEq] at hb
      rw [← hb.1, ← hb.2, hsb]
  · intro h
    exact ⟨a, mem_attr_all a, by rw [h]; rfl⟩

end AcmedVerif.CsrReq
