/-
Lemmas about `Model/KeyChange.lean` (inversion of the JWS builders, `get_past_key`, `prepare`) and
`Model/PostBind.lean` (what each call site's builder writes, the transmissions of a call).
-/
import AcmedVerif.Model.KeyChange
import AcmedVerif.Model.PostBind
import AcmedVerif.Lemmas.Http

namespace AcmedVerif.KeyChange
open AcmedVerif.Bytes AcmedVerif.Jose

/-- What `j` being signed by `(keyId, alg)` under `sg` means: the signature bytes are `sg`'s answer
for the signing input of `j`'s own header and payload. -/
def SignedBy (sg : Signer) (keyId : Nat) (alg : List Char) (j : Jws) : Prop :=
  j.signer = keyId ∧ sg keyId alg (Jws.signedBytes j.hdr j.payload) = some j.signature

theorem getJwsData_some {sg : Signer} {keyId : Nat} {alg : List Char} {hdr : Hdr}
    {payload : List UInt8} {j : Jws} (h : getJwsData sg keyId alg hdr payload = some j) :
    j.hdr = hdr ∧ j.payload = payload ∧ SignedBy sg keyId alg j := by
  unfold getJwsData at h
  cases hs : sg keyId alg (Jws.signedBytes hdr payload) with
  | none => rw [hs] at h; cases h
  | some s =>
    rw [hs] at h
    cases h
    exact ⟨rfl, rfl, rfl, hs⟩

theorem encodeJwk_some {sg : Signer} {k : Key} {payload : List UInt8} {url : List Char}
    {nonce : Option (List Char)} {j : Jws} (h : encodeJwk sg k payload url nonce = some j) :
    ∃ jwk, k.jwk = some jwk ∧ j.hdr = ⟨k.alg, some jwk, none, nonce, url⟩ ∧ j.payload = payload ∧
      SignedBy sg k.id k.alg j := by
  unfold encodeJwk at h
  cases hk : k.jwk with
  | none => rw [hk] at h; cases h
  | some jwk =>
    rw [hk] at h
    exact ⟨jwk, rfl, getJwsData_some h⟩

theorem encodeKid_some {sg : Signer} {k : Key} {keyId : List Char} {payload : List UInt8}
    {url nonce : List Char} {j : Jws} (h : encodeKid sg k keyId payload url nonce = some j) :
    j.hdr = ⟨k.alg, none, some keyId, some nonce, url⟩ ∧ j.payload = payload ∧
      SignedBy sg k.id k.alg j :=
  getJwsData_some h

theorem encodeKidMac_some {sg : Signer} {macKey : Nat} {alg keyId : List Char}
    {payload : List UInt8} {url : List Char} {j : Jws}
    (h : encodeKidMac sg macKey alg keyId payload url = some j) :
    isHmacAlg alg = true ∧ j.hdr = ⟨alg, none, some keyId, none, url⟩ ∧ j.payload = payload ∧
      SignedBy sg macKey alg j := by
  unfold encodeKidMac at h
  by_cases ha : isHmacAlg alg = true
  · simp only [ha, if_true] at h
    exact ⟨ha, getJwsData_some h⟩
  · simp only [ha] at h
    cases h

/-- `get_past_key` returns a past key whose hash is the wanted one, and every past key before it
has another hash. -/
theorem getPastKey_some : ∀ {ks : List Key} {h : List UInt8} {k : Key},
    getPastKey ks h = some k →
    k.pemHash = some h ∧ ∃ pre post, ks = pre ++ k :: post ∧
      ∀ k' ∈ pre, ∃ h', k'.pemHash = some h' ∧ h' ≠ h
  | [], _, _, hg => by cases hg
  | k0 :: ks, h, k, hg => by
    unfold getPastKey at hg
    cases hp : k0.pemHash with
    | none => rw [hp] at hg; cases hg
    | some ph =>
      rw [hp] at hg
      by_cases he : ph = h
      · simp only [he, if_true, Option.some.injEq] at hg
        subst hg
        exact ⟨by rw [hp, he], [], ks, rfl, by simp⟩
      · simp only [he] at hg
        obtain ⟨h1, pre, post, h2, h3⟩ := getPastKey_some hg
        refine ⟨h1, k0 :: pre, post, by rw [h2]; rfl, ?_⟩
        intro k' hk'
        rcases List.mem_cons.mp hk' with rfl | hk'
        · exact ⟨ph, hp, he⟩
        · exact h3 k' hk'

/-- Inversion of `prepare`. -/
theorem prepare_some {sg : Signer} {dirKeyChange : List Char} {a : Account} {p : Prepared}
    (h : prepare sg dirKeyChange a = some p) :
    ∃ ep oldJwk, a.ep = some ep ∧ getPastKey a.pastKeys ep.keyHash = some p.oldKey ∧
      p.oldKey.jwk = some oldJwk ∧ p.postUrl = dirKeyChange ∧ p.accountUrl = ep.accountUrl ∧
      encodeJwk sg a.currentKey (utf8 (rolloverJson ep.accountUrl oldJwk)) dirKeyChange none =
        some p.inner := by
  unfold prepare at h
  cases hep : a.ep with
  | none => rw [hep] at h; cases h
  | some ep =>
    rw [hep] at h
    simp only at h
    cases hpk : getPastKey a.pastKeys ep.keyHash with
    | none => rw [hpk] at h; cases h
    | some old =>
      rw [hpk] at h
      simp only at h
      cases hj : old.jwk with
      | none => rw [hj] at h; cases h
      | some oldJwk =>
        rw [hj] at h
        simp only at h
        cases hi : encodeJwk sg a.currentKey (utf8 (rolloverJson ep.accountUrl oldJwk))
            dirKeyChange none with
        | none => rw [hi] at h; cases h
        | some inner =>
          rw [hi] at h
          cases h
          exact ⟨ep, oldJwk, rfl, hpk, hj, rfl, rfl, hi⟩

end AcmedVerif.KeyChange

namespace AcmedVerif.PostBind
open AcmedVerif.Bytes AcmedVerif.Jose AcmedVerif.KeyChange

theorem kidBuilder_some {sg : Signer} {a : Account} {data : List UInt8} {n url : List Char}
    {j : Jws} (h : kidBuilder sg a data n url = some j) :
    ∃ ep, a.ep = some ep ∧ j.hdr = ⟨a.currentKey.alg, none, some ep.accountUrl, some n, url⟩ ∧
      j.payload = data ∧ SignedBy sg a.currentKey.id a.currentKey.alg j := by
  unfold kidBuilder at h
  cases hep : a.ep with
  | none => rw [hep] at h; cases h
  | some ep =>
    rw [hep] at h
    exact ⟨ep, rfl, encodeKid_some h⟩

theorem registerBuilder_some {sg : Signer} {a : Account} {data : List UInt8} {n url : List Char}
    {j : Jws} (h : registerBuilder sg a data n url = some j) :
    ∃ jwk, a.currentKey.jwk = some jwk ∧
      j.hdr = ⟨a.currentKey.alg, some jwk, none, some n, url⟩ ∧ j.payload = data ∧
      SignedBy sg a.currentKey.id a.currentKey.alg j :=
  encodeJwk_some h

/-- How a builder treats its two arguments: both go into the header unchanged, and the header has
`jwk` resp. `kid` as the flag says. -/
def Binds (isJwk : Bool) (b : Builder) : Prop :=
  ∀ n url j, b n url = some j →
    j.hdr.url = url ∧ j.hdr.nonce = some n ∧ j.hdr.jwk.isSome = isJwk ∧ j.hdr.kid.isSome = !isJwk

theorem kidBuilder_binds (sg : Signer) (a : Account) (data : List UInt8) :
    Binds false (kidBuilder sg a data) := by
  intro n url j h
  obtain ⟨ep, _, hh, _⟩ := kidBuilder_some h
  rw [hh]; exact ⟨rfl, rfl, rfl, rfl⟩

theorem registerBuilder_binds (sg : Signer) (a : Account) (data : List UInt8) :
    Binds true (registerBuilder sg a data) := by
  intro n url j h
  obtain ⟨jwk, _, hh, _⟩ := registerBuilder_some h
  rw [hh]; exact ⟨rfl, rfl, rfl, rfl⟩

theorem outerBuilder_binds (sg : Signer) (p : Prepared) : Binds false (outerBuilder sg p) := by
  intro n url j h
  obtain ⟨hh, _⟩ := encodeKid_some h
  rw [hh]; exact ⟨rfl, rfl, rfl, rfl⟩

theorem registerSite_some {sg : Signer} {dir : Dir} {d : Data} {a : Account} {s : Site}
    (h : registerSite sg dir d a = some s) :
    s.url = dir.newAccount ∧ Binds true s.builder ∧
    ((d.ext = none ∧ s.inners = []) ∨
     ∃ ea e, d.ext = some ea ∧ eabInner sg dir.newAccount a ea = some e ∧ s.inners = [e]) := by
  unfold registerSite at h
  cases hx : d.ext with
  | none =>
    rw [hx] at h
    cases h
    exact ⟨rfl, registerBuilder_binds _ _ _, .inl ⟨rfl, rfl⟩⟩
  | some ea =>
    rw [hx] at h
    simp only at h
    cases he : eabInner sg dir.newAccount a ea with
    | none => rw [he] at h; cases h
    | some e =>
      rw [he] at h
      cases h
      exact ⟨rfl, registerBuilder_binds _ _ _, .inr ⟨ea, e, rfl, he, rfl⟩⟩

theorem eabInner_some {sg : Signer} {url : List Char} {a : Account} {ea : ExtAccount} {e : Jws}
    (h : eabInner sg url a ea = some e) :
    ∃ jwk, a.currentKey.jwk = some jwk ∧ isHmacAlg ea.alg = true ∧
      e.hdr = ⟨ea.alg, none, some ea.identifier, none, url⟩ ∧ e.payload = utf8 jwk ∧
      SignedBy sg ea.macKey ea.alg e := by
  unfold eabInner at h
  cases hk : a.currentKey.jwk with
  | none => rw [hk] at h; cases h
  | some jwk =>
    rw [hk] at h
    exact ⟨jwk, rfl, encodeKidMac_some h⟩

/-- Every call site: the builder passes its `(nonce, url)` on, authenticates as `Flow.authOf` says,
and every object inside the payload names the site's URL. -/
theorem siteOf_spec {sg : Signer} {dir : Dir} {u : Urls} {d : Data} {a : Account}
    {k : Flow.ReqKind} {s : Site} (h : siteOf sg dir u d a k = some s) :
    Binds (k == .newAccount) s.builder ∧ ∀ i ∈ s.inners, i.hdr.url = s.url := by
  cases k with
  | directory => cases h
  | newAccount =>
    obtain ⟨hu, hb, hi⟩ := registerSite_some (show registerSite sg dir d a = some s from h)
    refine ⟨hb, ?_⟩
    rcases hi with ⟨_, hi⟩ | ⟨ea, e, _, he, hi⟩
    · rw [hi]; simp
    · rw [hi]
      intro i hm
      rw [List.mem_singleton.mp hm, hu]
      obtain ⟨_, _, _, hh, _⟩ := eabInner_some he
      rw [hh]
  | accountUpdate =>
    simp only [siteOf] at h
    cases hep : a.ep with
    | none => rw [hep] at h; cases h
    | some ep =>
      rw [hep] at h
      cases h
      exact ⟨kidBuilder_binds _ _ _, by simp⟩
  | keyChange =>
    simp only [siteOf] at h
    cases hp : prepare sg dir.keyChange a with
    | none => rw [hp] at h; cases h
    | some p =>
      rw [hp] at h
      cases h
      refine ⟨outerBuilder_binds _ _, ?_⟩
      intro i hm
      rw [List.mem_singleton.mp hm]
      obtain ⟨ep, oldJwk, _, _, _, hu, _, hi⟩ := prepare_some hp
      obtain ⟨_, _, hh, _⟩ := encodeJwk_some hi
      rw [hh, hu]
  | newOrder => cases h; exact ⟨kidBuilder_binds _ _ _, by simp⟩
  | authz i => cases h; exact ⟨kidBuilder_binds _ _ _, by simp⟩
  | challengeReady c => cases h; exact ⟨kidBuilder_binds _ _ _, by simp⟩
  | authzPoll i => cases h; exact ⟨kidBuilder_binds _ _ _, by simp⟩
  | orderPoll => cases h; exact ⟨kidBuilder_binds _ _ _, by simp⟩
  | finalize => cases h; exact ⟨kidBuilder_binds _ _ _, by simp⟩
  | certDownload => cases h; exact ⟨kidBuilder_binds _ _ _, by simp⟩
  | accountProbe =>
    simp only [siteOf] at h
    cases hep : a.ep with
    | none => rw [hep] at h; cases h
    | some ep =>
      rw [hep] at h
      cases h
      exact ⟨kidBuilder_binds _ _ _, by simp⟩

theorem oldKeyProbeBuilder_binds (sg : Signer) (p : Prepared) :
    Binds false (oldKeyProbeBuilder sg p) := by
  intro n url j h
  obtain ⟨hh, _⟩ := encodeKid_some h
  rw [hh]; exact ⟨rfl, rfl, rfl, rfl⟩

/-- The query of the account signed by the recorded key: sent to the account URL of the endpoint
record, which is also its `kid`; signed by the key `prepare` found; no inner object. -/
theorem oldKeyProbeSite_spec {sg : Signer} {dk : List Char} {a : Account} {s : Site}
    (h : oldKeyProbeSite sg dk a = some s) :
    Binds false s.builder ∧ s.inners = [] ∧
    ∃ p, prepare sg dk a = some p ∧ s.url = p.accountUrl ∧
      (∃ ep, a.ep = some ep ∧ p.accountUrl = ep.accountUrl) ∧
      ∀ n url j, s.builder n url = some j →
        j.hdr.kid = some p.accountUrl ∧ j.payload = [] ∧ SignedBy sg p.oldKey.id p.oldKey.alg j := by
  unfold oldKeyProbeSite at h
  cases hp : prepare sg dk a with
  | none => rw [hp] at h; cases h
  | some p =>
    rw [hp] at h
    cases h
    refine ⟨oldKeyProbeBuilder_binds _ _, rfl, p, rfl, rfl, ?_, ?_⟩
    · obtain ⟨ep, _, hep, _, _, _, hau, _⟩ := prepare_some hp
      exact ⟨ep, hep, hau⟩
    · intro n url j hj
      obtain ⟨hh, hpl, hs⟩ := encodeKid_some hj
      rw [hh]
      exact ⟨rfl, hpl, hs⟩

theorem mem_callTxs {s : Site} {nonces : List (List Char)} {tx : Tx} (h : tx ∈ callTxs s nonces) :
    ∃ n ∈ nonces, s.builder n s.url = some tx.body ∧ tx.dest = s.url ∧ tx.inners = s.inners := by
  unfold callTxs at h
  obtain ⟨n, hn, hr⟩ := List.mem_filterMap.mp h
  unfold roundTx at hr
  cases hb : s.builder n s.url with
  | none => rw [hb] at hr; cases hr
  | some j =>
    rw [hb] at hr
    cases hr
    exact ⟨n, hn, hb, rfl, rfl⟩

/-- Reading transmissions off a `Model/Http.lean` trace only looks at its `postSend` events. -/
theorem txsOfEvs_eq (ut : Nat → List Char) (nt : Option Nat → List Char) (b : Builder)
    (inners : List Jws) (evs : List Http.Ev) :
    txsOfEvs ut nt b inners evs =
      (Http.posts evs).filterMap fun p =>
        match b (nt p.nonce) (ut p.url) with
        | some j => some ⟨ut p.url, j, inners⟩
        | none => none := by
  unfold txsOfEvs Http.posts
  induction evs with
  | nil => rfl
  | cons e tl ih =>
    cases e <;> simp only [List.filterMap_cons, ih]
    rename_i u n r
    cases b (nt n) (ut u) <;> rfl

theorem filterMap_congr' {α β : Type} {f g : α → Option β} :
    ∀ (l : List α), (∀ x ∈ l, f x = g x) → l.filterMap f = l.filterMap g
  | [], _ => rfl
  | x :: tl, h => by
    rw [List.filterMap_cons, List.filterMap_cons, h x List.mem_cons_self,
      filterMap_congr' tl fun y hy => h y (List.mem_cons_of_mem _ hy)]

/-- All transmissions of one `Http.post` call are the call site's rounds for the nonces used. -/
theorem txsOfEvs_post (ut : Nat → List Char) (nt : Option Nat → List Char) (s : Site)
    (N : Nat) (mode : Http.NonceMode) (st : Http.State) (clientOk builderOk : Bool) (u : Nat)
    (hu : ut u = s.url) :
    txsOfEvs ut nt s.builder s.inners (Http.post N mode st clientOk builderOk u).evs =
      callTxs s ((Http.posts (Http.post N mode st clientOk builderOk u).evs).map
        fun p => nt p.nonce) := by
  rw [txsOfEvs_eq]
  have hurls : ∀ p ∈ Http.posts (Http.post N mode st clientOk builderOk u).evs, p.url = u := by
    cases clientOk
    · simp [Http.post_clientFail, Http.posts]
    · exact (Http.post_run N mode st builderOk u).urls
  unfold callTxs
  rw [List.filterMap_map]
  apply filterMap_congr'
  intro p hp
  simp only [Function.comp, roundTx, hurls p hp, hu]
  cases s.builder (nt p.nonce) s.url <;> rfl

end AcmedVerif.PostBind
