/-
Helper lemmas about `Model/Tacd.lean`: the length-prefixed list walk of `SSL_select_next_proto`,
`str::trim`, the `name=value` split, the survival state machine.
-/
import AcmedVerif.Model.Tacd
import AcmedVerif.Lemmas.Idna

namespace AcmedVerif.Tacd
open AcmedVerif.Idna

/-! ## Length-prefixed lists -/

theorem getLP1_some (bs p rest : List UInt8) (h : getLP1 bs = some (p, rest)) :
    ∃ n tl, bs = n :: tl ∧ n.toNat ≤ tl.length ∧ p = tl.take n.toNat ∧ rest = tl.drop n.toNat ∧
      rest.length < bs.length := by
  cases bs with
  | nil => simp [getLP1] at h
  | cons n tl =>
    simp only [getLP1] at h
    split at h
    · rename_i hle
      simp only [Option.some.injEq, Prod.mk.injEq] at h
      refine ⟨n, tl, rfl, hle, h.1.symm, h.2.symm, ?_⟩
      rw [← h.2]
      simp only [List.length_drop, List.length_cons]
      omega
    · exact absurd h (by simp)

/-- The fuel of the list walk does not matter once it covers the length. -/
theorem parsePrefixF_fuel (f : Nat) : ∀ (g : Nat) (bs : List UInt8), bs.length ≤ f → bs.length ≤ g →
    parsePrefixF f bs = parsePrefixF g bs := by
  induction f with
  | zero =>
    intro g bs hf _
    have : bs = [] := List.eq_nil_of_length_eq_zero (by omega)
    subst this
    cases g <;> simp [parsePrefixF, getLP1]
  | succ f ih =>
    intro g bs hf hg
    cases g with
    | zero =>
      have : bs = [] := List.eq_nil_of_length_eq_zero (by omega)
      subst this
      simp [parsePrefixF, getLP1]
    | succ g =>
      simp only [parsePrefixF]
      cases h : getLP1 bs with
      | none => rfl
      | some pr =>
        obtain ⟨p, rest⟩ := pr
        obtain ⟨n, tl, rfl, _, _, _, hlt⟩ := getLP1_some bs p rest h
        simp only [List.length_cons] at hf hg hlt
        simp only
        rw [ih g rest (by omega) (by omega)]

theorem parsePrefix_unfold (bs : List UInt8) :
    parsePrefix bs = match getLP1 bs with
      | none => []
      | some (p, rest) => p :: parsePrefix rest := by
  unfold parsePrefix
  cases bs with
  | nil => simp [parsePrefixF, getLP1]
  | cons n tl =>
    simp only [List.length_cons, parsePrefixF]
    cases h : getLP1 (n :: tl) with
    | none => rfl
    | some pr =>
      obtain ⟨p, rest⟩ := pr
      obtain ⟨n', tl', he, _, _, _, hlt⟩ := getLP1_some _ p rest h
      simp only [List.length_cons] at hlt
      simp only
      rw [parsePrefixF_fuel tl.length rest.length rest (by omega) (Nat.le_refl _)]

theorem clientLoop_iff (f : Nat) : ∀ (cpkt s : List UInt8),
    clientLoop f cpkt s = true ↔ s ∈ parsePrefixF f cpkt := by
  induction f with
  | zero => intro cpkt s; simp [clientLoop, parsePrefixF]
  | succ f ih =>
    intro cpkt s
    simp only [clientLoop, parsePrefixF]
    cases h : getLP1 cpkt with
    | none => simp
    | some pr =>
      obtain ⟨c, rest⟩ := pr
      simp only
      by_cases hc : c = s
      · simp [hc]
      · simp only [hc, if_false, ih, List.mem_cons]
        constructor
        · exact Or.inr
        · rintro (e | h')
          · exact absurd e.symm hc
          · exact h'

theorem serverLoop_step (f : Nat) (spkt client s rest : List UInt8)
    (h : getLP1 spkt = some (s, rest)) (hs : ¬ s.length = 0) :
    serverLoop (f + 1) spkt client =
      if clientLoop client.length client s then some s else serverLoop f rest client := by
  rw [serverLoop, h]
  simp only [hs, if_false]

theorem serverLoop_nil (f : Nat) (client : List UInt8) : serverLoop f [] client = none := by
  cases f <;> simp [serverLoop, getLP1]

/-- tacd's callback, with the constant server list unfolded. -/
theorem alpnSelect_eq (client : List UInt8) :
    alpnSelect client =
      match getLP1 client with
      | none => none
      | some (first, _) =>
        if first.length = 0 then none
        else if clientLoop client.length client acmeProto then some acmeProto else none := by
  unfold alpnSelect selectNextProto
  cases getLP1 client with
  | none => rfl
  | some pr =>
    obtain ⟨first, rest⟩ := pr
    simp only
    split
    · rfl
    · have h1 : getLP1 serverList = some (acmeProto, []) := by decide
      have h2 : serverList.length = 11 := by decide
      have h3 : ¬ acmeProto.length = 0 := by decide
      rw [h2, serverLoop_step 10 serverList client acmeProto [] h1 h3, serverLoop_nil]

/-- The first element of the well-formed prefix of `bs`, if any. -/
def firstProto (bs : List UInt8) : Option (List UInt8) := (parsePrefix bs).head?

theorem firstProto_eq (bs : List UInt8) : firstProto bs = (getLP1 bs).map Prod.fst := by
  unfold firstProto
  rw [parsePrefix_unfold]
  cases getLP1 bs with
  | none => rfl
  | some pr => rfl

theorem alpnSelect_some_iff (client : List UInt8) :
    alpnSelect client = some acmeProto ↔
      (∃ first, firstProto client = some first ∧ first ≠ []) ∧ acmeProto ∈ parsePrefix client := by
  rw [alpnSelect_eq, firstProto_eq]
  cases h : getLP1 client with
  | none =>
    simp only [Option.map_none]
    constructor
    · intro h'; exact absurd h' (by simp)
    · rintro ⟨⟨_, h', _⟩, _⟩; exact absurd h' (by simp)
  | some pr =>
    obtain ⟨first, rest⟩ := pr
    simp only [Option.map_some, Option.some.injEq]
    by_cases hf : first.length = 0
    · have : first = [] := List.eq_nil_of_length_eq_zero hf
      subst this
      simp only [List.length_nil, if_true]
      constructor
      · intro h'; exact absurd h' (by simp)
      · rintro ⟨⟨x, hx, hne⟩, _⟩; exact absurd hx.symm hne
    · simp only [hf, if_false]
      have hne : first ≠ [] := fun e => hf (by rw [e]; rfl)
      by_cases hc : clientLoop client.length client acmeProto = true
      · simp only [hc, if_true, true_iff]
        exact ⟨⟨first, rfl, hne⟩, (clientLoop_iff _ _ _).1 hc⟩
      · simp only [hc, Bool.false_eq_true, if_false]
        constructor
        · intro h'; exact absurd h' (by simp)
        · rintro ⟨_, hm⟩; exact absurd ((clientLoop_iff _ _ _).2 hm) hc

theorem alpnSelect_none_or (client : List UInt8) :
    alpnSelect client = some acmeProto ∨ alpnSelect client = none := by
  rw [alpnSelect_eq]
  cases getLP1 client with
  | none => exact Or.inr rfl
  | some pr =>
    obtain ⟨first, rest⟩ := pr
    simp only
    split
    · exact Or.inr rfl
    · split
      · exact Or.inl rfl
      · exact Or.inr rfl

/-- A list of names that fit the wire format. -/
def NamesOk (names : List (List UInt8)) : Prop := ∀ p ∈ names, 1 ≤ p.length ∧ p.length ≤ 255

theorem getLP1_encode (p : List UInt8) (hp : p.length ≤ 255) (rest : List UInt8) :
    getLP1 (UInt8.ofNat p.length :: (p ++ rest)) = some (p, rest) := by
  have hn : (UInt8.ofNat p.length).toNat = p.length := by
    rw [UInt8.toNat_ofNat']; omega
  simp only [getLP1, hn, List.length_append]
  rw [if_pos (by omega)]
  simp

theorem parsePrefix_encode (names : List (List UInt8)) (h : NamesOk names) :
    parsePrefix (encodeProtos names) = names := by
  induction names with
  | nil => rfl
  | cons p ps ih =>
    rw [parsePrefix_unfold]
    simp only [encodeProtos]
    rw [getLP1_encode p (h p List.mem_cons_self).2]
    simp only
    rw [ih (fun q hq => h q (List.mem_cons_of_mem _ hq))]

theorem wireValidF_encode (names : List (List UInt8)) (h : NamesOk names) (hne : names ≠ []) :
    ∀ f, (encodeProtos names).length ≤ f → wireValidF f (encodeProtos names) = true := by
  induction names with
  | nil => exact absurd rfl hne
  | cons p ps ih =>
    intro f hf
    have hp := h p List.mem_cons_self
    cases f with
    | zero => simp [encodeProtos] at hf
    | succ f =>
      simp only [wireValidF, encodeProtos]
      rw [getLP1_encode p hp.2]
      simp only
      rw [if_neg (by omega)]
      cases ps with
      | nil => simp [encodeProtos]
      | cons q qs =>
        have hq : (encodeProtos (q :: qs)).length ≠ 0 := by simp [encodeProtos]
        rw [if_neg hq]
        apply ih (fun r hr => h r (List.mem_cons_of_mem _ hr)) (by simp)
        simp only [encodeProtos, List.length_cons, List.length_append] at hf ⊢
        omega

theorem wireValid_encode (names : List (List UInt8)) (h : NamesOk names) (hne : names ≠ []) :
    wireValid (encodeProtos names) = true := by
  unfold wireValid
  rw [wireValidF_encode names h hne _ (Nat.le_refl _)]
  cases names with
  | nil => exact absurd rfl hne
  | cons p ps =>
    have hp := h p List.mem_cons_self
    simp only [encodeProtos, List.length_cons, List.length_append, Bool.and_true, decide_eq_true_eq]
    omega

/-! ## `trim` -/

def AllWs (s : List Char) : Prop := ∀ c ∈ s, isWhitespace c = true

/-- Already trimmed: neither the first nor the last character is white space. -/
def Trimmed (v : List Char) : Prop :=
  (∀ c, v.head? = some c → isWhitespace c = false) ∧
  (∀ c, v.getLast? = some c → isWhitespace c = false)

theorem dropWhile_allWs (pre w : List Char) (h : AllWs pre) :
    (pre ++ w).dropWhile isWhitespace = w.dropWhile isWhitespace := by
  induction pre with
  | nil => rfl
  | cons c cs ih =>
    simp only [List.cons_append, List.dropWhile_cons, h c List.mem_cons_self, if_true]
    exact ih (fun x hx => h x (List.mem_cons_of_mem _ hx))

theorem dropWhile_head (v : List Char) (h : ∀ c, v.head? = some c → isWhitespace c = false) :
    v.dropWhile isWhitespace = v := by
  cases v with
  | nil => rfl
  | cons c cs => simp [h c rfl]

theorem trimStart_eq (pre v : List Char) (hp : AllWs pre)
    (hv : ∀ c, v.head? = some c → isWhitespace c = false) : trimStart (pre ++ v) = v := by
  unfold trimStart
  rw [dropWhile_allWs pre v hp, dropWhile_head v hv]

theorem trimEnd_eq (v post : List Char) (hp : AllWs post)
    (hv : ∀ c, v.getLast? = some c → isWhitespace c = false) : trimEnd (v ++ post) = v := by
  unfold trimEnd
  rw [List.reverse_append, dropWhile_allWs post.reverse v.reverse
    (fun c hc => hp c (List.mem_reverse.1 hc)),
    dropWhile_head v.reverse (by simpa [List.head?_reverse] using hv), List.reverse_reverse]

/-- `trim` of white space + a trimmed value + white space is the value. -/
theorem trim_eq (pre v post : List Char) (hpre : AllWs pre) (hpost : AllWs post) (hv : Trimmed v) :
    trim (pre ++ v ++ post) = v := by
  unfold trim
  cases v with
  | nil =>
    -- everything is white space
    simp only [List.append_nil]
    have hall : AllWs (pre ++ post) := fun c hc => by
      rcases List.mem_append.1 hc with h | h
      · exact hpre c h
      · exact hpost c h
    have h1 : trimStart (pre ++ post) = [] := by
      have := dropWhile_allWs (pre ++ post) [] hall
      simpa [trimStart] using this
    rw [h1]; rfl
  | cons a as =>
    rw [List.append_assoc, trimStart_eq pre _ hpre (by
      intro c hc
      exact hv.1 c (by simpa using hc))]
    exact trimEnd_eq _ post hpost hv.2

theorem firstLine_append (a b : List Char) (h : '\n' ∉ a) :
    firstLine (a ++ b) = a ++ firstLine b := by
  induction a with
  | nil => rfl
  | cons c cs ih =>
    have hc : c ≠ '\n' := fun e => h (e ▸ List.mem_cons_self)
    simp only [List.cons_append, firstLine, hc, if_false]
    rw [ih (fun m => h (List.mem_cons_of_mem _ m))]

theorem firstLine_of_no_nl (a : List Char) (h : '\n' ∉ a) : firstLine a = a := by
  have := firstLine_append a [] h
  simpa [firstLine] using this

/-! ## `name=value` -/

theorem splitOn_length (sep : Char) (s : List Char) :
    (splitOn sep s).length = s.count sep + 1 := by
  induction s with
  | nil => rfl
  | cons c cs ih =>
    by_cases h : c = sep
    · subst h
      rw [splitOn_cons_sep]
      simp [ih]
    · obtain ⟨p, ps, h1, h2⟩ := splitOn_cons_ne sep c cs h
      rw [h2]
      rw [h1] at ih
      simp only [List.length_cons] at ih ⊢
      rw [List.count_cons_of_ne h]
      exact ih

theorem splitExt_ok_iff (s name value : List Char) :
    splitExt s = .ok name value ↔ s = name ++ '=' :: value ∧ '=' ∉ name ∧ '=' ∉ value := by
  constructor
  · intro h
    unfold splitExt at h
    split at h
    · exact absurd h (by simp)
    · split at h
      · rename_i v n hr
        simp only [ExtSplit.ok.injEq] at h
        obtain ⟨rfl, rfl⟩ := h
        have hs : splitOn '=' s = [n, v] := by
          have := congrArg List.reverse hr
          simpa using this
        have hj := join_split '=' s
        rw [hs] at hj
        have hn := splitOn_no_sep '=' s
        rw [hs] at hn
        exact ⟨hj.symm, hn n (by simp), hn v (by simp)⟩
      · exact absurd h (by simp)
  · rintro ⟨rfl, hn, hv⟩
    unfold splitExt
    have hs : splitOn '=' (name ++ '=' :: value) = [name, value] := by
      rw [splitOn_append_sep '=' name value hn, splitOn_of_no_sep '=' value hv]
    rw [if_neg (by simp), hs]
    rfl

theorem splitExt_ok_iff_count (s : List Char) :
    (∃ name value, splitExt s = .ok name value) ↔ s.count '=' = 1 := by
  constructor
  · rintro ⟨name, value, h⟩
    obtain ⟨rfl, hn, hv⟩ := (splitExt_ok_iff _ _ _).1 h
    simp [List.count_append, List.count_eq_zero.2 hn, List.count_eq_zero.2 hv]
  · intro hc
    have hl := splitOn_length '=' s
    rw [hc] at hl
    match hs : splitOn '=' s, hl with
    | [n, v], _ =>
      refine ⟨n, v, ?_⟩
      unfold splitExt
      have hne : s.isEmpty = false := by
        cases s with
        | nil => simp at hc
        | cons _ _ => rfl
      rw [hne, hs]
      rfl

/-! ## Survival -/

theorem run_dead (f : OnFailure) (s : PanicStrategy) (h : List Conn) :
    h.foldl (step f s) .dead = .dead := by
  induction h with
  | nil => rfl
  | cons c cs ih => simpa [List.foldl_cons, step] using ih

theorem run_alive (f : OnFailure) (s : PanicStrategy) (hfs : f = .ignored ∨ s = .unwind)
    (h : List Conn) : h.foldl (step f s) .alive = .alive := by
  induction h with
  | nil => rfl
  | cons c cs ih =>
    rw [List.foldl_cons]
    have : step f s .alive c = .alive := by
      cases c with
      | handshakeOk => rfl
      | handshakeFailed =>
        simp only [step]
        rcases hfs with h | h <;> subst h <;> simp
    rw [this]; exact ih

theorem acceptRun_spec (evs : List AcceptEv) (h : ∀ e ∈ evs, e ≠ .okSpawnFails) :
    ∀ st, st.running = true →
      (evs.foldl (acceptStep false) st).running = true ∧
      (evs.foldl (acceptStep false) st).spawned = st.spawned + evs.count .ok := by
  induction evs with
  | nil => intro st hst; simp [hst]
  | cons e es ih =>
    intro st hst
    rw [List.foldl_cons]
    have hes := fun x hx => h x (List.mem_cons_of_mem _ hx)
    cases e with
    | ok =>
      have := ih hes { st with spawned := st.spawned + 1 } hst
      simp only [acceptStep, hst, if_true, List.count_cons_self] at this ⊢
      exact ⟨this.1, by omega⟩
    | err =>
      have := ih hes st hst
      simp only [acceptStep, hst, if_true, Bool.false_eq_true, if_false] at this ⊢
      rw [List.count_cons_of_ne (by decide)]
      exact this
    | okSpawnFails => exact absurd rfl (h _ List.mem_cons_self)

theorem acceptRun_stopped (x : Bool) (evs : List AcceptEv) (st : LoopState)
    (h : st.running = false) : (evs.foldl (acceptStep x) st).running = false := by
  induction evs generalizing st with
  | nil => exact h
  | cons e es ih =>
    rw [List.foldl_cons]
    apply ih
    simp [acceptStep, h]

end AcmedVerif.Tacd
