/-
Lemmas about `Model/Pem.lean`.
-/
import AcmedVerif.Model.Pem
import AcmedVerif.Lemmas.Base64

namespace AcmedVerif.Pem
open AcmedVerif.Base64

/-! ## the standard alphabet (finite checks) -/

theorem stdVal_stdChar : ∀ n, n < 64 → stdVal (stdChar n) = some n := by decide
theorem stdVal_pad : stdVal '=' = none := by decide
theorem stdChar_toNat_upper : ∀ v, v < 26 → (stdChar v).toNat = 65 + v := by decide
theorem stdChar_toNat_lower : ∀ v, v < 52 → 26 ≤ v → (stdChar v).toNat = 71 + v := by decide
theorem stdChar_toNat_digit : ∀ v, v < 62 → 52 ≤ v → (stdChar v).toNat = v - 4 := by decide

theorem stdVal_some {c : Char} {v : Nat} (h : stdVal c = some v) : v < 64 ∧ stdChar v = c := by
  unfold stdVal at h
  simp only at h
  split at h
  · next hr =>
    cases h
    refine ⟨by omega, Char.toNat_inj.mp ?_⟩
    rw [stdChar_toNat_upper _ (by omega)]; omega
  · split at h
    · next hr =>
      cases h
      refine ⟨by omega, Char.toNat_inj.mp ?_⟩
      rw [stdChar_toNat_lower _ (by omega) (by omega)]; omega
    · split at h
      · next hr =>
        cases h
        refine ⟨by omega, Char.toNat_inj.mp ?_⟩
        rw [stdChar_toNat_digit _ (by omega) (by omega)]; omega
      · split at h
        · next hc => cases h; subst hc; decide
        · split at h
          · next hc => cases h; subst hc; decide
          · cases h

/-! ## round trip -/

theorem decode_encodeStd (bs : List UInt8) : b64std_decode (encodeStd bs) = some bs := by
  fun_induction encodeStd bs with
  | case1 => rfl
  | case2 a =>
    have h := UInt8.toNat_lt a
    simp only [b64std_decode, stdVal_stdChar _ (show a.toNat / 4 < 64 by omega),
      stdVal_stdChar _ (show a.toNat % 4 * 16 < 64 by omega), stdVal_pad]
    rw [if_pos ⟨trivial, trivial, trivial, by omega⟩]
    have : a.toNat / 4 * 4 + a.toNat % 4 * 16 / 16 = a.toNat := by omega
    rw [this, UInt8.ofNat_toNat]
  | case3 a b =>
    have h := UInt8.toNat_lt a
    have h' := UInt8.toNat_lt b
    simp only [b64std_decode, stdVal_stdChar _ (show a.toNat / 4 < 64 by omega),
      stdVal_stdChar _ (show a.toNat % 4 * 16 + b.toNat / 16 < 64 by omega),
      stdVal_stdChar _ (show b.toNat % 16 * 4 < 64 by omega), stdVal_pad]
    rw [if_pos ⟨trivial, trivial, by omega⟩]
    have e1 : a.toNat / 4 * 4 + (a.toNat % 4 * 16 + b.toNat / 16) / 16 = a.toNat := by omega
    have e2 : (a.toNat % 4 * 16 + b.toNat / 16) % 16 * 16 + b.toNat % 16 * 4 / 4 = b.toNat := by
      omega
    rw [e1, e2, UInt8.ofNat_toNat, UInt8.ofNat_toNat]
  | case4 a b c rest ih =>
    have h := UInt8.toNat_lt a
    have h' := UInt8.toNat_lt b
    have h'' := UInt8.toNat_lt c
    simp only [b64std_decode, stdVal_stdChar _ (show a.toNat / 4 < 64 by omega),
      stdVal_stdChar _ (show a.toNat % 4 * 16 + b.toNat / 16 < 64 by omega),
      stdVal_stdChar _ (show b.toNat % 16 * 4 + c.toNat / 64 < 64 by omega),
      stdVal_stdChar _ (show c.toNat % 64 < 64 by omega), ih]
    have e1 : a.toNat / 4 * 4 + (a.toNat % 4 * 16 + b.toNat / 16) / 16 = a.toNat := by omega
    have e2 : (a.toNat % 4 * 16 + b.toNat / 16) % 16 * 16 + (b.toNat % 16 * 4 + c.toNat / 64) / 4
        = b.toNat := by omega
    have e3 : (b.toNat % 16 * 4 + c.toNat / 64) % 4 * 64 + c.toNat % 64 = c.toNat := by omega
    rw [e1, e2, e3, UInt8.ofNat_toNat, UInt8.ofNat_toNat, UInt8.ofNat_toNat]

/-! ## the strict decoder accepts canonical encodings only -/

theorem decode_canonical : ∀ (s : List Char) (bs : List UInt8),
    b64std_decode s = some bs → encodeStd bs = s
  | [], bs, h => by
    simp only [b64std_decode, Option.some.injEq] at h; subst h; rfl
  | [_], _, h => by simp [b64std_decode] at h
  | [_, _], _, h => by simp [b64std_decode] at h
  | [_, _, _], _, h => by simp [b64std_decode] at h
  | c0 :: c1 :: c2 :: c3 :: rest, bs, h => by
    rw [b64std_decode] at h
    split at h
    · next v0 v1 v2 v3 h0 h1 h2 h3 =>
      cases hr : b64std_decode rest with
      | none => simp [hr] at h
      | some tl =>
        simp only [hr, Option.some.injEq] at h
        subst h
        have ih := decode_canonical rest tl hr
        obtain ⟨l0, e0⟩ := stdVal_some h0
        obtain ⟨l1, e1⟩ := stdVal_some h1
        obtain ⟨l2, e2⟩ := stdVal_some h2
        obtain ⟨l3, e3⟩ := stdVal_some h3
        simp only [encodeStd, toNat_ofNat_lt (show v0 * 4 + v1 / 16 < 256 by omega),
          toNat_ofNat_lt (show v1 % 16 * 16 + v2 / 4 < 256 by omega),
          toNat_ofNat_lt (show v2 % 4 * 64 + v3 < 256 by omega), ih]
        have a0 : (v0 * 4 + v1 / 16) / 4 = v0 := by omega
        have a1 : (v0 * 4 + v1 / 16) % 4 * 16 + (v1 % 16 * 16 + v2 / 4) / 16 = v1 := by omega
        have a2 : (v1 % 16 * 16 + v2 / 4) % 16 * 4 + (v2 % 4 * 64 + v3) / 64 = v2 := by omega
        have a3 : (v2 % 4 * 64 + v3) % 64 = v3 := by omega
        rw [a0, a1, a2, a3, e0, e1, e2, e3]
    · next v0 v1 v2 h0 h1 h2 h3 =>
      split at h
      · next hc =>
        obtain ⟨rfl, rfl, hz⟩ := hc
        cases h
        obtain ⟨l0, e0⟩ := stdVal_some h0
        obtain ⟨l1, e1⟩ := stdVal_some h1
        obtain ⟨l2, e2⟩ := stdVal_some h2
        simp only [encodeStd, toNat_ofNat_lt (show v0 * 4 + v1 / 16 < 256 by omega),
          toNat_ofNat_lt (show v1 % 16 * 16 + v2 / 4 < 256 by omega)]
        have a0 : (v0 * 4 + v1 / 16) / 4 = v0 := by omega
        have a1 : (v0 * 4 + v1 / 16) % 4 * 16 + (v1 % 16 * 16 + v2 / 4) / 16 = v1 := by omega
        have a2 : (v1 % 16 * 16 + v2 / 4) % 16 * 4 = v2 := by omega
        rw [a0, a1, a2, e0, e1, e2]
      · cases h
    · next v0 v1 h0 h1 h2 h3 =>
      split at h
      · next hc =>
        obtain ⟨rfl, rfl, rfl, hz⟩ := hc
        cases h
        obtain ⟨l0, e0⟩ := stdVal_some h0
        obtain ⟨l1, e1⟩ := stdVal_some h1
        simp only [encodeStd, toNat_ofNat_lt (show v0 * 4 + v1 / 16 < 256 by omega)]
        have a0 : (v0 * 4 + v1 / 16) / 4 = v0 := by omega
        have a1 : (v0 * 4 + v1 / 16) % 4 * 16 = v1 := by omega
        rw [a0, a1, e0, e1]
      · cases h
    · cases h

/-! ## characters of the encoding -/

theorem mem_encodeStd_cases {bs : List UInt8} {c : Char} (h : c ∈ encodeStd bs) :
    IsStd c ∨ c = '=' := by
  obtain ⟨body, k, he, hb⟩ := encodeStd_shape bs
  rw [he] at h
  rcases List.mem_append.mp h with h | h
  · exact Or.inl (hb c h)
  · exact Or.inr (mem_replicate_pad h)

theorem b64char_facts {c : Char} (h : IsStd c ∨ c = '=') : c ≠ '\n' ∧ c ≠ '-' := by
  rcases h with ⟨n, hn, rfl⟩ | rfl
  · exact ⟨stdChar_ne_nl n hn, stdChar_ne_dash n hn⟩
  · decide

/-! ## lines -/

theorem unlines_nil : unlines [] = [] := rfl

theorem unlines_cons (l : List Char) (ls : List (List Char)) :
    unlines (l :: ls) = l ++ '\n' :: unlines ls := by
  simp only [unlines, List.flatMap_cons, List.append_assoc, List.cons_append, List.nil_append]

theorem unlines_append (a b : List (List Char)) : unlines (a ++ b) = unlines a ++ unlines b :=
  List.flatMap_append

theorem linesOf_line (l rest : List Char) (h : '\n' ∉ l) :
    linesOf (l ++ '\n' :: rest) = l :: linesOf rest := by
  induction l with
  | nil => simp [linesOf]
  | cons c cs ih =>
    have hc : c ≠ '\n' := fun e => h (e ▸ List.mem_cons_self)
    have := ih (fun m => h (List.mem_cons_of_mem _ m))
    simp only [List.cons_append, linesOf, if_neg hc, this]

theorem linesOf_unlines (ls : List (List Char)) (h : ∀ l ∈ ls, '\n' ∉ l) :
    linesOf (unlines ls) = ls := by
  induction ls with
  | nil => rfl
  | cons l ls ih =>
    rw [unlines_cons, linesOf_line _ _ (h l List.mem_cons_self),
      ih (fun x hx => h x (List.mem_cons_of_mem _ hx))]

theorem filter_nl_unlines (ls : List (List Char)) (h : ∀ l ∈ ls, '\n' ∉ l) :
    (unlines ls).filter (fun c => c != '\n') = ls.flatten := by
  induction ls with
  | nil => rfl
  | cons l ls ih =>
    have hl : l.filter (fun c => c != '\n') = l := by
      apply List.filter_eq_self.mpr
      intro a ha
      have : a ≠ '\n' := fun e => h l List.mem_cons_self (e ▸ ha)
      simpa using this
    rw [unlines_cons, List.filter_append, hl, List.filter_cons_of_neg (by simp),
      ih (fun x hx => h x (List.mem_cons_of_mem _ hx)), List.flatten_cons]

theorem mem_unlines {ls : List (List Char)} {c : Char} (h : c ∈ unlines ls) :
    c = '\n' ∨ ∃ l ∈ ls, c ∈ l := by
  obtain ⟨l, hl, hc⟩ := List.mem_flatMap.mp h
  rcases List.mem_append.mp hc with hc | hc
  · exact Or.inr ⟨l, hl, hc⟩
  · exact Or.inl (by simpa using hc)

/-! ## 64-column lines -/

theorem wrap64_nil : wrap64 [] = [] := by rw [wrap64]

theorem wrap64_length_le (s : List Char) : ∀ l ∈ wrap64 s, 0 < l.length ∧ l.length ≤ 64 := by
  fun_induction wrap64 s with
  | case1 => intro l hl; cases hl
  | case2 c cs ih =>
    intro l hl
    rcases List.mem_cons.mp hl with rfl | hl
    · simp only [List.length_cons, List.length_take]; omega
    · exact ih l hl

theorem wrap64_dropLast_full (s : List Char) : ∀ l ∈ (wrap64 s).dropLast, l.length = 64 := by
  fun_induction wrap64 s with
  | case1 => intro l hl; cases hl
  | case2 c cs ih =>
    intro l hl
    by_cases hn : wrap64 (cs.drop 63) = []
    · rw [hn] at hl; cases hl
    · rw [List.dropLast_cons_of_ne_nil hn] at hl
      rcases List.mem_cons.mp hl with rfl | hl
      · have hne : cs.drop 63 ≠ [] := fun e => hn (by rw [e, wrap64_nil])
        have hlen : 63 < cs.length := by
          apply Classical.byContradiction
          intro hh
          exact hne (List.drop_eq_nil_of_le (by omega))
        simp only [List.length_cons, List.length_take]; omega
      · exact ih l hl

theorem wrap64_count (s : List Char) : (wrap64 s).length = (s.length + 63) / 64 := by
  fun_induction wrap64 s with
  | case1 => rfl
  | case2 c cs ih =>
    simp only [List.length_cons, ih, List.length_drop]; omega

theorem bodyLines_chars {der : List UInt8} {l : List Char} (hl : l ∈ bodyLines der) {c : Char}
    (hc : c ∈ l) : c ≠ '\n' ∧ c ≠ '-' :=
  b64char_facts (mem_encodeStd_cases ((wrap64_mem _ l hl).2 c hc))

theorem bodyLines_no_nl (der : List UInt8) : ∀ l ∈ bodyLines der, '\n' ∉ l :=
  fun _ hl hc => (bodyLines_chars hl hc).1 rfl

theorem unlines_bodyLines_no_dash (der : List UInt8) :
    ∀ c ∈ unlines (bodyLines der), (c != '-') = true := by
  intro c hc
  rcases mem_unlines hc with rfl | ⟨l, hl, hc⟩
  · decide
  · simpa using (bodyLines_chars hl hc).2

theorem filter_body (der : List UInt8) :
    (unlines (bodyLines der)).filter (fun c => c != '\n') = encodeStd der := by
  rw [filter_nl_unlines _ (bodyLines_no_nl der)]
  exact wrap64_flatten _

/-! ## `takeWhile`/`dropWhile` up to the first stop character -/

theorem takeWhile_stop {p : Char → Bool} (l : List Char) (c : Char) (r : List Char)
    (hl : ∀ x ∈ l, p x = true) (hc : p c = false) : (l ++ c :: r).takeWhile p = l := by
  rw [List.takeWhile_append_of_pos hl, List.takeWhile_cons_of_neg (by simp [hc]), List.append_nil]

theorem dropWhile_stop {p : Char → Bool} (l : List Char) (c : Char) (r : List Char)
    (hl : ∀ x ∈ l, p x = true) (hc : p c = false) : (l ++ c :: r).dropWhile p = c :: r := by
  rw [List.dropWhile_append_of_pos hl, List.dropWhile_cons_of_neg (by simp [hc])]

theorem dropWhile_head {p : Char → Bool} : ∀ {l : List Char} {c : Char} {r : List Char},
    l.dropWhile p = c :: r → p c = false
  | [], _, _, h => by cases h
  | a :: l, c, r, h => by
    by_cases ha : p a = true
    · rw [List.dropWhile_cons_of_pos ha] at h; exact dropWhile_head h
    · rw [List.dropWhile_cons_of_neg ha] at h
      cases h
      simpa using ha

/-! ## the header line -/

theorem beginPre_eq : beginPre = '-' :: "----BEGIN ".toList := by decide
theorem endPre_eq : endPre = '-' :: "----END ".toList := by decide
theorem beginPre_length : beginPre.length = 11 := by decide
theorem dashes5_length : dashes5.length = 5 := by decide
theorem nl_not_mem_beginPre : '\n' ∉ beginPre := by decide
theorem nl_not_mem_endPre : '\n' ∉ endPre := by decide
theorem nl_not_mem_dashes5 : '\n' ∉ dashes5 := by decide

theorem nl_not_mem_label {label : List Char} (h : labelOkChars label = true) : '\n' ∉ label := by
  intro hm
  have := (List.all_eq_true.mp h) '\n' hm
  revert this; decide

theorem nl_not_mem_beginLine {label : List Char} (h : labelOkChars label = true) :
    '\n' ∉ beginLine label := by
  intro hm
  rcases List.mem_append.mp hm with hm | hm
  · exact nl_not_mem_beginPre hm
  · rcases List.mem_append.mp hm with hm | hm
    · exact nl_not_mem_label h hm
    · exact nl_not_mem_dashes5 hm

theorem nl_not_mem_endLine {label : List Char} (h : labelOkChars label = true) :
    '\n' ∉ endLine label := by
  intro hm
  rcases List.mem_append.mp hm with hm | hm
  · exact nl_not_mem_endPre hm
  · rcases List.mem_append.mp hm with hm | hm
    · exact nl_not_mem_label h hm
    · exact nl_not_mem_dashes5 hm

theorem labelOfLine_beginLine (label : List Char) : labelOfLine (beginLine label) = label := by
  unfold labelOfLine beginLine
  rw [List.drop_left' beginPre_length]
  have : (beginPre ++ (label ++ dashes5)).length - 16 = label.length := by
    simp only [List.length_append, beginPre_length, dashes5_length]; omega
  rw [this, List.take_left' rfl]

/-! ## normal form of a block -/

theorem encodeChars_eq (label : List Char) (der : List UInt8) :
    encodeChars label der
      = beginLine label ++ '\n' :: (unlines (bodyLines der) ++ (endLine label ++ ['\n'])) := by
  simp only [encodeChars, blockLines, unlines_cons, unlines_append, unlines_nil]

theorem encodeChars_cons (label : List Char) (der : List UInt8) :
    ∃ t, encodeChars label der = '-' :: t := by
  rw [encodeChars_eq, beginLine, beginPre_eq]
  exact ⟨_, rfl⟩

theorem encodeChars_length_pos (label : List Char) (der : List UInt8) :
    0 < (encodeChars label der).length := by
  obtain ⟨t, ht⟩ := encodeChars_cons label der
  rw [ht]; simp

/-! ## the strict reader reads what the writer writes -/

theorem stripPrefix_append (p s : List Char) : stripPrefix p (p ++ s) = some s := by
  induction p with
  | nil => rfl
  | cons c cs ih => simp only [List.cons_append, stripPrefix, if_true, ih]

theorem stripPrefix_some : ∀ {p s r : List Char}, stripPrefix p s = some r → s = p ++ r
  | [], s, r, h => by simp only [stripPrefix, Option.some.injEq] at h; subst h; rfl
  | _ :: _, [], _, h => by simp [stripPrefix] at h
  | p :: ps, c :: cs, r, h => by
    simp only [stripPrefix] at h
    split at h
    · next hpc => subst hpc; rw [stripPrefix_some h]; rfl
    · cases h

theorem readBody_encode (label : List Char) (der : List UInt8) (rest : List Char) :
    readBody label (unlines (bodyLines der) ++ (endLine label ++ ['\n'] ++ rest))
      = some (label, der, rest) := by
  have he : endLine label ++ ['\n'] ++ rest
      = '-' :: ("----END ".toList ++ (label ++ dashes5) ++ ['\n'] ++ rest) := by
    rw [endLine, endPre_eq]; rfl
  have ht := takeWhile_stop (p := fun c => c != '-') (unlines (bodyLines der)) '-'
    ("----END ".toList ++ (label ++ dashes5) ++ ['\n'] ++ rest) (unlines_bodyLines_no_dash der)
    (by decide)
  have hd := dropWhile_stop (p := fun c => c != '-') (unlines (bodyLines der)) '-'
    ("----END ".toList ++ (label ++ dashes5) ++ ['\n'] ++ rest) (unlines_bodyLines_no_dash der)
    (by decide)
  unfold readBody
  rw [he]
  simp only [ht, hd, filter_body, decode_encodeStd, if_true]
  rw [← he, stripPrefix_append]

theorem readBlock_encode (label : List Char) (der : List UInt8) (rest : List Char)
    (hl : labelOkChars label = true) :
    readBlock (encodeChars label der ++ rest) = some (label, der, rest) := by
  have hs : encodeChars label der ++ rest
      = beginLine label ++ '\n' :: (unlines (bodyLines der) ++ (endLine label ++ ['\n'] ++ rest)) := by
    rw [encodeChars_eq]
    simp only [List.append_assoc, List.cons_append, List.nil_append]
  have hp : ∀ x ∈ beginLine label, (x != '\n') = true := by
    intro x hx
    have : x ≠ '\n' := fun e => nl_not_mem_beginLine hl (e ▸ hx)
    simpa using this
  have ht := takeWhile_stop (p := fun c => c != '\n') (beginLine label) '\n'
    (unlines (bodyLines der) ++ (endLine label ++ ['\n'] ++ rest)) hp (by decide)
  have hd := dropWhile_stop (p := fun c => c != '\n') (beginLine label) '\n'
    (unlines (bodyLines der) ++ (endLine label ++ ['\n'] ++ rest)) hp (by decide)
  unfold readBlock
  rw [hs]
  simp only [ht, hd, labelOfLine_beginLine, hl, and_self, if_true]
  exact readBody_encode label der rest

/-! ## … and nothing else -/

theorem readBody_sound {label r0 l : List Char} {der : List UInt8} {rest : List Char}
    (h : readBody label r0 = some (l, der, rest)) :
    l = label ∧ r0 = unlines (bodyLines der) ++ (endLine label ++ ['\n'] ++ rest) := by
  unfold readBody at h
  simp only at h
  split at h
  · next d hd =>
    split at h
    · next hb =>
      split at h
      · next r hr =>
        simp only [Option.some.injEq, Prod.mk.injEq] at h
        obtain ⟨rfl, rfl, rfl⟩ := h
        refine ⟨rfl, ?_⟩
        rw [← stripPrefix_some hr, ← hb]
        exact List.takeWhile_append_dropWhile.symm
      · cases h
    · cases h
  · cases h

theorem readBlock_sound {s l : List Char} {der : List UInt8} {rest : List Char}
    (h : readBlock s = some (l, der, rest)) :
    labelOkChars l = true ∧ s = encodeChars l der ++ rest := by
  unfold readBlock at h
  simp only at h
  split at h
  · cases h
  · next c r0 hd =>
    split at h
    · next hc =>
      obtain ⟨hl0, hok⟩ := hc
      obtain ⟨rfl, hr0⟩ := readBody_sound h
      refine ⟨hok, ?_⟩
      have hcn : c = '\n' := by simpa using dropWhile_head hd
      have hs : s = List.takeWhile (fun c => c != '\n') s ++ List.dropWhile (fun c => c != '\n') s :=
        List.takeWhile_append_dropWhile.symm
      rw [hd, hcn, hr0] at hs
      generalize List.takeWhile (fun c => c != '\n') s = l0 at hs hl0 ⊢
      rw [hs, encodeChars_eq, ← hl0]
      simp only [List.append_assoc, List.cons_append, List.nil_append]
    · cases h

theorem readBlock_shorter {s l : List Char} {der : List UInt8} {rest : List Char}
    (h : readBlock s = some (l, der, rest)) : rest.length < s.length := by
  have := encodeChars_length_pos l der
  rw [(readBlock_sound h).2, List.length_append]; omega

theorem readBlock_nil : readBlock [] = none := rfl

/-! ## chains, strict splitter -/

theorem chainChars_nil : chainChars [] = [] := rfl

theorem chainChars_cons (b : List Char × List UInt8) (bs : List (List Char × List UInt8)) :
    chainChars (b :: bs) = encodeChars b.1 b.2 ++ chainChars bs := by
  simp only [chainChars, List.flatMap_cons]

theorem length_le_chainChars (bs : List (List Char × List UInt8)) :
    bs.length ≤ (chainChars bs).length := by
  induction bs with
  | nil => exact Nat.le_refl _
  | cons b bs ih =>
    have := encodeChars_length_pos b.1 b.2
    rw [chainChars_cons, List.length_append, List.length_cons]; omega

theorem splitAux_nil (n : Nat) : splitAux n [] = ([], none) := by cases n <;> rfl

theorem splitAux_zero {s : List Char} (h : s ≠ []) : splitAux 0 s = ([], some s) := by
  cases s with
  | nil => exact absurd rfl h
  | cons c cs => rfl

theorem splitAux_succ_none {s : List Char} (n : Nat) (h : s ≠ []) (hr : readBlock s = none) :
    splitAux (n + 1) s = ([], some s) := by
  cases s with
  | nil => exact absurd rfl h
  | cons c cs => simp only [splitAux, hr]

theorem splitAux_succ_some {s : List Char} (n : Nat) {l : List Char} {d : List UInt8}
    {rest : List Char} (hr : readBlock s = some (l, d, rest)) :
    splitAux (n + 1) s = ((l, d) :: (splitAux n rest).1, (splitAux n rest).2) := by
  cases s with
  | nil => rw [readBlock_nil] at hr; cases hr
  | cons c cs => simp only [splitAux, hr]

/-- A tail at which every fuel stops with the same residue. -/
theorem splitAux_chain_gen (tail : List Char) (r : Option (List Char))
    (hT : ∀ m, splitAux m tail = ([], r)) :
    ∀ (blocks : List (List Char × List UInt8)), (∀ b ∈ blocks, labelOkChars b.1 = true) →
    ∀ n, blocks.length ≤ n → splitAux n (chainChars blocks ++ tail) = (blocks, r)
  | [], _, n, _ => by rw [chainChars_nil, List.nil_append]; exact hT n
  | b :: bs, hb, 0, hn => by simp at hn
  | b :: bs, hb, n + 1, hn => by
    have hl := hb b List.mem_cons_self
    have ih := splitAux_chain_gen tail r hT bs (fun x hx => hb x (List.mem_cons_of_mem _ hx)) n
      (by simp only [List.length_cons] at hn; omega)
    rw [chainChars_cons, List.append_assoc,
      splitAux_succ_some n (readBlock_encode b.1 b.2 (chainChars bs ++ tail) hl), ih]

theorem splitAux_tail_bad {tail : List Char} (hne : tail ≠ []) (hbad : readBlock tail = none) :
    ∀ m, splitAux m tail = ([], some tail)
  | 0 => splitAux_zero hne
  | m + 1 => splitAux_succ_none m hne hbad

theorem splitChars_chain (blocks : List (List Char × List UInt8))
    (hb : ∀ b ∈ blocks, labelOkChars b.1 = true) : splitChars (chainChars blocks) = (blocks, none) := by
  have := splitAux_chain_gen [] none splitAux_nil blocks hb (chainChars blocks).length
    (length_le_chainChars blocks)
  rw [List.append_nil] at this
  exact this

theorem splitChars_chain_tail (blocks : List (List Char × List UInt8))
    (hb : ∀ b ∈ blocks, labelOkChars b.1 = true) (tail : List Char) (hne : tail ≠ [])
    (hbad : readBlock tail = none) :
    splitChars (chainChars blocks ++ tail) = (blocks, some tail) := by
  apply splitAux_chain_gen tail (some tail) (splitAux_tail_bad hne hbad) blocks hb
  have := length_le_chainChars blocks
  rw [List.length_append]; omega

/-- Whatever the splitter answers: the blocks read, re-encoded, followed by the residue, ARE the
text; the labels are printable; a residue is non-empty and no block starts there. -/
theorem splitAux_sound : ∀ (n : Nat) (s : List Char) (bs : List (List Char × List UInt8))
    (r : Option (List Char)), s.length ≤ n → splitAux n s = (bs, r) →
    s = chainChars bs ++ r.getD [] ∧ (∀ b ∈ bs, labelOkChars b.1 = true) ∧
      (∀ t, r = some t → t ≠ [] ∧ readBlock t = none)
  | n, [], bs, r, _, h => by
    rw [splitAux_nil, Prod.mk.injEq] at h
    obtain ⟨rfl, rfl⟩ := h
    exact ⟨rfl, (fun _ hb => by cases hb), (fun _ ht => by cases ht)⟩
  | 0, c :: cs, _, _, hn, _ => by simp at hn
  | n + 1, c :: cs, bs, r, hn, h => by
    cases hr : readBlock (c :: cs) with
    | none =>
      rw [splitAux_succ_none n (by simp) hr, Prod.mk.injEq] at h
      obtain ⟨rfl, rfl⟩ := h
      refine ⟨rfl, (fun _ hb => by cases hb), ?_⟩
      intro t ht
      cases ht
      exact ⟨by simp, hr⟩
    | some v =>
      obtain ⟨l, d, rest⟩ := v
      rw [splitAux_succ_some n hr, Prod.mk.injEq] at h
      obtain ⟨rfl, rfl⟩ := h
      have hsh := readBlock_shorter hr
      obtain ⟨hok, hs⟩ := readBlock_sound hr
      obtain ⟨h1, h2, h3⟩ := splitAux_sound n rest (splitAux n rest).1 (splitAux n rest).2
        (by simp only [List.length_cons] at hn hsh; omega) rfl
      refine ⟨?_, ?_, h3⟩
      · rw [chainChars_cons, List.append_assoc, ← h1]; exact hs
      · intro b hb
        rcases List.mem_cons.mp hb with rfl | hb
        · exact hok
        · exact h2 b hb

theorem splitChars_sound {s : List Char} {bs : List (List Char × List UInt8)}
    {r : Option (List Char)} (h : splitChars s = (bs, r)) :
    s = chainChars bs ++ r.getD [] ∧ (∀ b ∈ bs, labelOkChars b.1 = true) ∧
      (∀ t, r = some t → t ≠ [] ∧ readBlock t = none) :=
  splitAux_sound s.length s bs r (Nat.le_refl _) h

/-- The fuel is enough: more fuel changes nothing. -/
theorem splitAux_fuel (n : Nat) (s : List Char) (hn : s.length ≤ n) :
    splitAux n s = splitChars s := by
  obtain ⟨h1, h2, h3⟩ := splitAux_sound n s _ _ hn rfl
  cases hr : (splitAux n s).2 with
  | none =>
    rw [hr, Option.getD_none, List.append_nil] at h1
    have := splitChars_chain _ h2
    rw [← h1] at this
    rw [this, ← hr]
  | some t =>
    obtain ⟨hne, hbad⟩ := h3 t hr
    rw [hr, Option.getD_some] at h1
    have := splitChars_chain_tail _ h2 t hne hbad
    rw [← h1] at this
    rw [this, ← hr]

/-- Exactness: no residue iff the text is a chain of canonical blocks with printable labels. -/
theorem splitChars_none_iff (s : List Char) (bs : List (List Char × List UInt8)) :
    splitChars s = (bs, none) ↔ s = chainChars bs ∧ ∀ b ∈ bs, labelOkChars b.1 = true := by
  constructor
  · intro h
    obtain ⟨h1, h2, _⟩ := splitChars_sound h
    rw [Option.getD_none, List.append_nil] at h1
    exact ⟨h1, h2⟩
  · rintro ⟨rfl, hb⟩
    exact splitChars_chain bs hb

theorem decodeChars_encode (label : List Char) (der : List UInt8)
    (hl : labelOkChars label = true) : decodeChars label (encodeChars label der) = some der := by
  have := readBlock_encode label der [] hl
  rw [List.append_nil] at this
  simp only [decodeChars, this, if_true]

theorem decodeChars_sound {label s : List Char} {der : List UInt8}
    (h : decodeChars label s = some der) : labelOkChars label = true ∧ s = encodeChars label der := by
  unfold decodeChars at h
  split at h
  · next l d hr =>
    split at h
    · next hl =>
      cases h; subst hl
      have := readBlock_sound hr
      rw [List.append_nil] at this
      exact this
    · cases h
  · cases h

/-! ## lax splitter -/

/-- Blocks each preceded by some text (blanks, in the theorems). -/
def laxChars (items : List (List Char × (List Char × List UInt8))) : List Char :=
  items.flatMap fun it => it.1 ++ encodeChars it.2.1 it.2.2

theorem laxChars_cons (it : List Char × (List Char × List UInt8))
    (items : List (List Char × (List Char × List UInt8))) :
    laxChars (it :: items) = it.1 ++ (encodeChars it.2.1 it.2.2 ++ laxChars items) := by
  simp only [laxChars, List.flatMap_cons, List.append_assoc]

theorem dropWhile_all_blank {ws : List Char} (h : ∀ c ∈ ws, isBlank c = true) :
    ws.dropWhile isBlank = [] := by
  induction ws with
  | nil => rfl
  | cons c cs ih =>
    rw [List.dropWhile_cons_of_pos (h c List.mem_cons_self)]
    exact ih (fun x hx => h x (List.mem_cons_of_mem _ hx))

theorem mem_takeWhile_pos {p : Char → Bool} : ∀ {l : List Char} {c : Char},
    c ∈ l.takeWhile p → p c = true
  | [], _, h => by cases h
  | a :: l, c, h => by
    by_cases ha : p a = true
    · rw [List.takeWhile_cons_of_pos ha] at h
      rcases List.mem_cons.mp h with rfl | h
      · exact ha
      · exact mem_takeWhile_pos h
    · rw [List.takeWhile_cons_of_neg ha] at h; cases h

theorem splitLaxAux_blank (n : Nat) {ws : List Char} (h : ∀ c ∈ ws, isBlank c = true) :
    splitLaxAux n ws = ([], none) := by
  cases n <;> simp only [splitLaxAux, dropWhile_all_blank h]

theorem splitLaxAux_succ_some (n : Nat) {s t : List Char} (hd : s.dropWhile isBlank = t)
    {l : List Char} {d : List UInt8} {rest : List Char} (hr : readBlock t = some (l, d, rest)) :
    splitLaxAux (n + 1) s = ((l, d) :: (splitLaxAux n rest).1, (splitLaxAux n rest).2) := by
  cases t with
  | nil => rw [readBlock_nil] at hr; cases hr
  | cons c cs => simp only [splitLaxAux, hd, hr]

theorem splitLaxAux_chain (wsEnd : List Char) (he : ∀ c ∈ wsEnd, isBlank c = true) :
    ∀ (items : List (List Char × (List Char × List UInt8))),
    (∀ it ∈ items, (∀ c ∈ it.1, isBlank c = true) ∧ labelOkChars it.2.1 = true) →
    ∀ n, items.length ≤ n →
      splitLaxAux n (laxChars items ++ wsEnd) = (items.map (fun it => it.2), none)
  | [], _, n, _ => by
    show splitLaxAux n ([] ++ wsEnd) = _
    rw [List.nil_append]; exact splitLaxAux_blank n he
  | it :: items, hb, 0, hn => by simp at hn
  | it :: items, hb, n + 1, hn => by
    obtain ⟨hws, hl⟩ := hb it List.mem_cons_self
    have ih := splitLaxAux_chain wsEnd he items (fun x hx => hb x (List.mem_cons_of_mem _ hx)) n
      (by simp only [List.length_cons] at hn; omega)
    obtain ⟨t, ht⟩ := encodeChars_cons it.2.1 it.2.2
    have hd : (laxChars (it :: items) ++ wsEnd).dropWhile isBlank
        = encodeChars it.2.1 it.2.2 ++ (laxChars items ++ wsEnd) := by
      rw [laxChars_cons, List.append_assoc, List.append_assoc, ht, List.cons_append]
      exact dropWhile_stop _ _ _ hws (by decide)
    rw [splitLaxAux_succ_some n hd (readBlock_encode _ _ _ hl), ih]
    rfl

theorem length_le_laxChars (items : List (List Char × (List Char × List UInt8))) :
    items.length ≤ (laxChars items).length := by
  induction items with
  | nil => exact Nat.le_refl _
  | cons it items ih =>
    have := encodeChars_length_pos it.2.1 it.2.2
    rw [laxChars_cons]
    simp only [List.length_append, List.length_cons]; omega

theorem splitLaxChars_chain (items : List (List Char × (List Char × List UInt8)))
    (wsEnd : List Char)
    (hb : ∀ it ∈ items, (∀ c ∈ it.1, isBlank c = true) ∧ labelOkChars it.2.1 = true)
    (he : ∀ c ∈ wsEnd, isBlank c = true) :
    splitLaxChars (laxChars items ++ wsEnd) = (items.map (fun it => it.2), none) := by
  apply splitLaxAux_chain wsEnd he items hb
  have := length_le_laxChars items
  rw [List.length_append]; omega

/-- What the lax splitter answers is what the text contains: blanks, block, blanks, block, …,
blanks, residue. -/
theorem splitLaxAux_sound : ∀ (n : Nat) (s : List Char) (bs : List (List Char × List UInt8))
    (r : Option (List Char)), s.length ≤ n → splitLaxAux n s = (bs, r) →
    ∃ items ws, items.map (fun it => it.2) = bs ∧
      (∀ it ∈ items, (∀ c ∈ it.1, isBlank c = true) ∧ labelOkChars it.2.1 = true) ∧
      (∀ c ∈ ws, isBlank c = true) ∧ s = laxChars items ++ (ws ++ r.getD []) ∧
      (∀ t, r = some t → t ≠ [] ∧ readBlock t = none ∧ t.dropWhile isBlank = t) := by
  intro n
  induction n with
  | zero =>
    intro s bs r hn h
    have : s = [] := List.eq_nil_of_length_eq_zero (by omega)
    subst this
    simp only [splitLaxAux, List.dropWhile_nil, Prod.mk.injEq] at h
    obtain ⟨rfl, rfl⟩ := h
    exact ⟨[], [], rfl, (fun _ h => by cases h), (fun _ h => by cases h), rfl, (fun _ h => by cases h)⟩
  | succ n ih =>
    intro s bs r hn h
    have hsplit : s = s.takeWhile isBlank ++ s.dropWhile isBlank :=
      List.takeWhile_append_dropWhile.symm
    have hw : ∀ c ∈ s.takeWhile isBlank, isBlank c = true := fun c hc => mem_takeWhile_pos hc
    cases hd : s.dropWhile isBlank with
    | nil =>
      simp only [splitLaxAux, hd, Prod.mk.injEq] at h
      obtain ⟨rfl, rfl⟩ := h
      refine ⟨[], s.takeWhile isBlank, rfl, (fun _ h => by cases h), hw, ?_, (fun _ h => by cases h)⟩
      rw [hd, List.append_nil] at hsplit
      simpa [laxChars] using hsplit
    | cons c cs =>
      have hc : isBlank c = false := dropWhile_head hd
      have hfix : (c :: cs).dropWhile isBlank = c :: cs :=
        List.dropWhile_cons_of_neg (by simp [hc])
      cases hr : readBlock (c :: cs) with
      | none =>
        simp only [splitLaxAux, hd, hr, Prod.mk.injEq] at h
        obtain ⟨rfl, rfl⟩ := h
        refine ⟨[], s.takeWhile isBlank, rfl, (fun _ h => by cases h), hw, ?_, ?_⟩
        · rw [hd] at hsplit
          simpa [laxChars] using hsplit
        · intro t ht; cases ht; exact ⟨by simp, hr, hfix⟩
      | some v =>
        obtain ⟨l, d, rest⟩ := v
        rw [splitLaxAux_succ_some n hd hr, Prod.mk.injEq] at h
        obtain ⟨rfl, rfl⟩ := h
        have hsh := readBlock_shorter hr
        obtain ⟨hok, hs⟩ := readBlock_sound hr
        have hlen : s.length = (s.takeWhile isBlank).length + (c :: cs).length := by
          rw [← hd, ← List.length_append, ← hsplit]
        obtain ⟨items, ws, h1, h2, h3, h4, h5⟩ := ih rest (splitLaxAux n rest).1
          (splitLaxAux n rest).2 (by omega) rfl
        refine ⟨(s.takeWhile isBlank, (l, d)) :: items, ws, ?_, ?_, h3, ?_, h5⟩
        · rw [List.map_cons, h1]
        · intro it hit
          rcases List.mem_cons.mp hit with rfl | hit
          · exact ⟨hw, hok⟩
          · exact h2 it hit
        · rw [laxChars_cons, List.append_assoc, List.append_assoc, ← h4, ← hs, ← hd]
          exact hsplit

theorem splitLaxChars_sound {s : List Char} {bs : List (List Char × List UInt8)}
    {r : Option (List Char)} (h : splitLaxChars s = (bs, r)) :
    ∃ items ws, items.map (fun it => it.2) = bs ∧
      (∀ it ∈ items, (∀ c ∈ it.1, isBlank c = true) ∧ labelOkChars it.2.1 = true) ∧
      (∀ c ∈ ws, isBlank c = true) ∧ s = laxChars items ++ (ws ++ r.getD []) ∧
      (∀ t, r = some t → t ≠ [] ∧ readBlock t = none ∧ t.dropWhile isBlank = t) :=
  splitLaxAux_sound s.length s bs r (Nat.le_refl _) h

theorem laxChars_of_strict (bs : List (List Char × List UInt8)) :
    laxChars (bs.map fun b => (([] : List Char), b)) = chainChars bs := by
  induction bs with
  | nil => rfl
  | cons b bs ih => rw [List.map_cons, laxChars_cons, ih, chainChars_cons]; rfl

/-! ## `String` wrappers -/

/-- The blocks with their labels as character lists. -/
def toCharBlocks (blocks : List (String × List UInt8)) : List (List Char × List UInt8) :=
  blocks.map fun b => (b.1.toList, b.2)

theorem toStrBlocks_toCharBlocks (blocks : List (String × List UInt8)) :
    toStrBlocks (toCharBlocks blocks) = blocks := by
  induction blocks with
  | nil => rfl
  | cons b bs ih =>
    simp only [toStrBlocks, toCharBlocks, List.map_cons, String.ofList_toList] at ih ⊢
    rw [ih]

theorem toCharBlocks_toStrBlocks (bs : List (List Char × List UInt8)) :
    toCharBlocks (toStrBlocks bs) = bs := by
  induction bs with
  | nil => rfl
  | cons b bs ih =>
    simp only [toStrBlocks, toCharBlocks, List.map_cons, String.toList_ofList] at ih ⊢
    rw [ih]

theorem pemEncode_toList (label : String) (der : List UInt8) :
    (pemEncode label der).toList = encodeChars label.toList der := String.toList_ofList

theorem pemChain_nil : pemChain [] = "" := rfl

theorem pemChain_cons (b : String × List UInt8) (bs : List (String × List UInt8)) :
    pemChain (b :: bs) = pemEncode b.1 b.2 ++ pemChain bs := by
  simp only [pemChain, List.map_cons, String.join_cons]

theorem pemChain_toList (blocks : List (String × List UInt8)) :
    (pemChain blocks).toList = chainChars (toCharBlocks blocks) := by
  induction blocks with
  | nil => rfl
  | cons b bs ih =>
    rw [pemChain_cons, String.toList_append, pemEncode_toList, ih]
    simp only [toCharBlocks, List.map_cons, chainChars_cons]

theorem labelOk_toCharBlocks {blocks : List (String × List UInt8)}
    (h : ∀ b ∈ blocks, labelOk b.1 = true) : ∀ b ∈ toCharBlocks blocks, labelOkChars b.1 = true := by
  intro b hb
  obtain ⟨x, hx, rfl⟩ := List.mem_map.mp hb
  exact h x hx

theorem labelOk_toStrBlocks {bs : List (List Char × List UInt8)}
    (h : ∀ b ∈ bs, labelOkChars b.1 = true) : ∀ b ∈ toStrBlocks bs, labelOk b.1 = true := by
  intro b hb
  obtain ⟨x, hx, rfl⟩ := List.mem_map.mp hb
  simp only [labelOk, String.toList_ofList]
  exact h x hx

theorem pemChain_toStrBlocks_toList (bs : List (List Char × List UInt8)) :
    (pemChain (toStrBlocks bs)).toList = chainChars bs := by
  rw [pemChain_toList, toCharBlocks_toStrBlocks]

theorem getD_map_ofList_toList (rc : Option (List Char)) :
    ((rc.map String.ofList).getD "").toList = rc.getD [] := by
  cases rc with
  | none => rfl
  | some t => exact String.toList_ofList

/-- `pemSplit` in terms of the character-level splitter. -/
theorem pemSplit_eq (text : String) :
    pemSplit text = (toStrBlocks (splitChars text.toList).1,
      (splitChars text.toList).2.map String.ofList) := rfl

theorem pemSplitLax_eq (text : String) :
    pemSplitLax text = (toStrBlocks (splitLaxChars text.toList).1,
      (splitLaxChars text.toList).2.map String.ofList) := rfl

/-- "`t` starts with a well-formed block" in `String` terms is `readBlock ≠ none`. -/
theorem readBlock_none_iff (t : String) :
    readBlock t.toList = none ↔
      ∀ (label : String) (der : List UInt8) (rest : String), labelOk label = true →
        t ≠ pemEncode label der ++ rest := by
  constructor
  · intro h label der rest hl he
    rw [he, String.toList_append, pemEncode_toList, readBlock_encode _ _ _ hl] at h
    cases h
  · intro h
    cases hr : readBlock t.toList with
    | none => rfl
    | some v =>
      obtain ⟨l, d, rest⟩ := v
      obtain ⟨hok, hs⟩ := readBlock_sound hr
      refine absurd ?_ (h (String.ofList l) d (String.ofList rest)
        (by simp only [labelOk, String.toList_ofList]; exact hok))
      apply String.toList_inj.mp
      rw [String.toList_append, pemEncode_toList, String.toList_ofList, String.toList_ofList]
      exact hs

end AcmedVerif.Pem
